//! stream `blockh`: the complete block-level parser WITH the raw-HTML block rule as a possible chain
//! member (any subset / order of the nine cmark block rules + `HtmlBlockScanner`), no inline pass,
//! whole-document trees with ranges + the reference map, and single rules at one line of a fresh
//! state in both modes.  Request / answer grammar: see `Driver/BlockH.lean`.
//!
//! The tree dump, the chain read-back and the configuration sampler mirror `corr/block.rs`; the html
//! fragment generators (`fragment`, `opener_line`, `body_line` and what they use) are COPIES of the
//! private generators of `corr/html.rs` (a sibling module cannot reach them).
use super::Out;
use crate::gen::doc::{any_doc, grammar_doc, wrap_container, SPEC};
use crate::rng::Rng;
use crate::util::{guarded, hexs};
use markdown_it::common::ErasedSet;
use markdown_it::parser::block::{BlockRule, BlockState};
use markdown_it::parser::core::Root;
use markdown_it::parser::inline::builtin::InlineParserRule;
use markdown_it::parser::inline::InlineRoot;
use markdown_it::plugins::cmark::block::blockquote::{self, Blockquote, BlockquoteScanner};
use markdown_it::plugins::cmark::block::code::{self, CodeBlock, CodeScanner};
use markdown_it::plugins::cmark::block::fence::{self, CodeFence, FenceScanner};
use markdown_it::plugins::cmark::block::heading::{self, ATXHeading, HeadingScanner};
use markdown_it::plugins::cmark::block::hr::{self, HrScanner, ThematicBreak};
use markdown_it::plugins::cmark::block::lheading::{self, LHeadingScanner, SetextHeader};
use markdown_it::plugins::cmark::block::list::{self, BulletList, ListItem, ListScanner, OrderedList};
use markdown_it::plugins::cmark::block::paragraph::{self, Paragraph, ParagraphScanner};
use markdown_it::plugins::cmark::block::reference::{self, ReferenceMap, ReferenceScanner};
use markdown_it::plugins::html::html_block::{self, HtmlBlock, HtmlBlockScanner};
use markdown_it::{MarkdownIt, Node};

pub const RULES: [&str; 10] = ["code", "fence", "blockquote", "hr", "list", "reference", "html", "heading", "lheading", "paragraph"];

// ---------------------------------------------------------------------------------------------
// html fragment generators (copied from `corr/html.rs`)

const HTML_BLOCKS: [&str; 62] = [
    "address", "article", "aside", "base", "basefont", "blockquote", "body", "caption", "center", "col", "colgroup", "dd",
    "details", "dialog", "dir", "div", "dl", "dt", "fieldset", "figcaption", "figure", "footer", "form", "frame", "frameset",
    "h1", "h2", "h3", "h4", "h5", "h6", "head", "header", "hr", "html", "iframe", "legend", "li", "link", "main", "menu",
    "menuitem", "nav", "noframes", "ol", "optgroup", "option", "p", "param", "section", "source", "summary", "table", "tbody",
    "td", "tfoot", "th", "thead", "title", "tr", "track", "ul",
];

const WS: &[&str] = &[" ", " ", " ", " ", "  ", "\t", "\n", "\u{a0}", "\u{2028}", "\u{3000}", "\u{85}", "\u{c}", "\u{b}", "\r",
    "\u{2003}", "\u{1680}", "\u{202f}", "\u{205f}", "\u{2029}", "\u{200a}",
    // not white space
    "\u{200b}", "\u{feff}", "\u{180e}", "\u{1f}", "\u{1c}", "\u{0}", "\u{2060}"];

/// every `White_Space` character and its neighbours
const WS_SWEEP: &[u32] = &[0x8, 0x9, 0xa, 0xb, 0xc, 0xd, 0xe, 0x1c, 0x1d, 0x1e, 0x1f, 0x20, 0x21, 0x7f, 0x84, 0x85, 0x86, 0x9f, 0xa0, 0xa1,
    0x167f, 0x1680, 0x1681, 0x180e, 0x1fff, 0x2000, 0x2001, 0x2002, 0x2003, 0x2004, 0x2005, 0x2006, 0x2007, 0x2008, 0x2009, 0x200a, 0x200b,
    0x200c, 0x200d, 0x200e, 0x2027, 0x2028, 0x2029, 0x202a, 0x202e, 0x202f, 0x2030, 0x205e, 0x205f, 0x2060, 0x2fff, 0x3000, 0x3001, 0xfeff, 0x0];

const TAG_NAMES: &[&str] = &["a", "a", "a", "A", "b", "em", "span", "x-y", "a1", "h-", "img", "input", "br", "q", "Z9-", "a-b-c", "abbr",
    "é", "1a", "-a", "a_b", "a.b", "a:b", "ſ", "\u{212a}"];

const RAW_NAMES: &[&str] = &["script", "pre", "style", "textarea"];

fn ws(rng: &mut Rng) -> &'static str { *rng.pick(WS) }

fn plain_ws(rng: &mut Rng) -> &'static str { *rng.pick(&[" ", " ", " ", "  ", "\t", " \t "]) }

/// random case + the two case-folding traps
fn fold_case(rng: &mut Rng, name: &str) -> String {
    let mode = rng.below(6);
    name.chars().map(|c| {
        if mode == 0 { return c; }
        if mode == 1 { return c.to_ascii_uppercase(); }
        if c == 's' && rng.chance(1, 4) { return '\u{17f}'; }
        if c == 'k' && rng.chance(1, 3) { return '\u{212a}'; }
        if mode == 5 && rng.chance(1, 12) { return *rng.pick(&['\u{131}', '\u{130}', 'ß', '\u{1e9e}', 'é', '0', '\u{fb06}', '\u{ff53}', '\u{1c88}']); }
        if rng.chance(1, 2) { c.to_ascii_uppercase() } else { c }
    }).collect()
}

fn tag_name(rng: &mut Rng) -> String {
    match rng.below(10) {
        0 | 1 => { let n = *rng.pick(&HTML_BLOCKS); fold_case(rng, n) }
        2 => { let n = *rng.pick(RAW_NAMES); fold_case(rng, n) }
        3 => format!("{}{}", *rng.pick(&HTML_BLOCKS), *rng.pick(&["x", "1", "-", "s", "font"])),
        _ => (*rng.pick(TAG_NAMES)).to_string(),
    }
}

fn attr_name(rng: &mut Rng) -> &'static str {
    *rng.pick(&["href", "b", "c", "_x", ":y", "a.b", "a:b-c", "data-x", "X1", "x_", "é", "1a", "-a", ".a", "a\u{a0}", "a/b", ""])
}

fn attr_value(rng: &mut Rng) -> String {
    match rng.below(14) {
        0 | 1 => (*rng.pick(&["c", "c/", "/", "1", "a&b", "é", "x.y", "a-b", "/u/v", "#", "a\\", "a(b)", "[x]", "{y}", "a|b", "~", "😀"])).to_string(),
        2 => (*rng.pick(&["x\u{a0}y", "\u{a0}", "a\u{2028}b", "x\u{3000}", "\u{85}z", "p\u{a0}q\u{a0}r", "x\u{a0}y=z", "x\u{2003}y='>'", "\u{a0}\u{a0}", "a\u{a0}/"])).to_string(),
        3 => (*rng.pick(&["x`", "a=b", "a<b", "a\"b", "a'b", "a b", "", "a\tb", "\u{1f}", "a\u{0}"])).to_string(),
        4 | 5 | 6 => format!("'{}'", *rng.pick(&["x", "", "a b>c", "\"", "a\nb", "é", " ", "<b>", "a=b", "/>", "\u{a0}"])),
        7 | 8 | 9 => format!("\"{}\"", *rng.pick(&["x", "", "a b>c", "'", "a\nb", "é", " ", "<b>", "a=b", "/>", "\u{a0}"])),
        10 => (*rng.pick(&["'unterminated", "\"unterminated", "'a\"", "\"a'", "'", "\""])).to_string(),
        _ => format!("{}{}", *rng.pick(&["c", "x", "1"]), *rng.pick(&["", "/", "//"])),
    }
}

fn attribute(rng: &mut Rng) -> String {
    let mut s = String::new();
    let k = *rng.pick(&[1usize, 1, 1, 1, 2, 0]);
    for _ in 0..k { s.push_str(if rng.chance(1, 4) { ws(rng) } else { plain_ws(rng) }); }
    s.push_str(attr_name(rng));
    if rng.chance(2, 3) {
        if rng.chance(1, 4) { s.push_str(ws(rng)); }
        s.push('=');
        if rng.chance(1, 4) { s.push_str(ws(rng)); if rng.chance(1, 3) { s.push_str(ws(rng)); } }
        s.push_str(&attr_value(rng));
    }
    s
}

fn open_tag(rng: &mut Rng) -> String {
    let mut s = format!("<{}", tag_name(rng));
    for _ in 0..*rng.pick(&[0usize, 0, 1, 1, 1, 2, 2, 3, 5]) { s.push_str(&attribute(rng)); }
    if rng.chance(1, 3) { s.push_str(ws(rng)); }
    s.push_str(*rng.pick(&[">", ">", ">", ">", "/>", "/>", "", "//>", "/ >", "/"]));
    s
}

fn close_tag(rng: &mut Rng) -> String {
    format!("<{}{}{}{}", *rng.pick(&["/", "/", "/", "/", "/ ", "//"]), tag_name(rng),
        *rng.pick(&["", "", "", " ", "  ", "\t", "\n", "\u{a0}", "\u{2028}", " b", "/", " /", "\u{200b}"]), *rng.pick(&[">", ">", ">", ""]))
}

fn comment(rng: &mut Rng) -> String {
    if rng.chance(1, 3) {
        return (*rng.pick(&["<!---->", "<!-->", "<!--->", "<!--a--b-->", "<!----->", "<!------>", "<!-- -->", "<!--a-->", "<!--a--->", "<!---a-->",
            "<!--->-->", "<!-->-->", "<!--a>b-->", "<!---->-->", "<!--a-", "<!--a--", "<!--", "<!-", "<!--é-->", "<!--a\nb-->", "<!--a- -b-->", "<!-- a -- b -->",
            "<!--a->-->", "<!--a-b-c-->", "<!---\n-->", "<!---- -->", "<!--x-->y-->"])).to_string();
    }
    let mut s = String::from("<!--");
    for _ in 0..rng.range(0, 5) { s.push_str(*rng.pick(&["a", "-", "--", "->", ">", "b c", "\n", "é", "-a", "a-", " ", "<", "!", "\u{a0}"])); }
    s.push_str(*rng.pick(&["-->", "-->", "-->", "--", "->", "", "--->"]));
    s
}

fn processing(rng: &mut Rng) -> String {
    if rng.chance(1, 3) {
        return (*rng.pick(&["<??>", "<?>", "<?>?>", "<? ?>", "<?php echo '>' ?>", "<?a?b?>", "<?a\nb?>", "<?", "<?a", "<?a?", "<?é?>", "<??", "<???>", "<?x? >?>"])).to_string();
    }
    let mut s = String::from("<?");
    for _ in 0..rng.range(0, 4) { s.push_str(*rng.pick(&["a", "?", ">", "php ", "\n", "é", " ", "<", "?>"])); }
    s.push_str(*rng.pick(&["?>", "?>", "?", ">", ""]));
    s
}

fn declaration(rng: &mut Rng) -> String {
    if rng.chance(1, 3) {
        return (*rng.pick(&["<!DOCTYPE html>", "<!DOCTYPE>", "<!D >", "<!D\u{a0}>", "<!doctype html>", "<!Doctype x>", "<!D1 x>", "<!É x>", "<!X\n\ny>", "<!X y",
            "<!X  a<b >", "<!ELEMENT br EMPTY>", "<!A\t>", "<! A b>", "<!A-B c>", "<!ſ x>", "<!\u{212a} x>", "<!A\u{2028}b>>"])).to_string();
    }
    format!("<!{}{}{}{}", *rng.pick(&["DOCTYPE", "X", "AB", "doctype", "Ab", "A1", ""]), ws(rng), *rng.pick(&["", "html", "a b", "é", "<", "\n", "'>'"]), *rng.pick(&[">", ">", ""]))
}

fn cdata(rng: &mut Rng) -> String {
    if rng.chance(1, 3) {
        return (*rng.pick(&["<![CDATA[]]>", "<![CDATA[x]]>", "<![CDATA[]]]>", "<![CDATA[]]]]>", "<![CDATA[]>]]>", "<![CDATA[ ]] >]]>", "<![cdata[x]]>", "<![CDATA [x]]>",
            "<![CDATA[x]]", "<![CDATA[", "<![CDATA", "<![CDATA[a\nb]]>", "<![CDATA[é]]>x]]>", "<![CDATA[<b>]]>"])).to_string();
    }
    let mut s = String::from("<![CDATA[");
    for _ in 0..rng.range(0, 4) { s.push_str(*rng.pick(&["a", "]", "]]", ">", "]>", "\n", "é", " ", "<"])); }
    s.push_str(*rng.pick(&["]]>", "]]>", "]]", "]>", ""]));
    s
}

const ALPHABET: &[&str] = &["<", ">", "!", "?", "/", "-", "=", "\"", "'", " ", "\t", "\n", "a", "b", "A", "[", "]", "`", "\u{a0}", "\u{2028}", "é", "😀", "ſ", "\u{212a}", "C", "D", "T", "s", "k", "\r", "\u{0}"];

fn mutate(rng: &mut Rng, s: &str) -> String {
    let cs: Vec<char> = s.chars().collect();
    if cs.is_empty() { return s.to_string(); }
    let mut out = String::new();
    let at = rng.below(cs.len());
    let op = rng.below(4);
    for (i, c) in cs.iter().enumerate() {
        if i == at {
            match op {
                0 => continue,
                1 => { out.push_str(*rng.pick(ALPHABET)); out.push(*c); continue; }
                2 => { out.push_str(*rng.pick(ALPHABET)); continue; }
                _ => { return out; }
            }
        }
        out.push(*c);
    }
    out
}

fn random_string(rng: &mut Rng) -> String {
    let mut s = String::from(if rng.chance(4, 5) { "<" } else { "" });
    for _ in 0..rng.range(0, 10) { s.push_str(*rng.pick(ALPHABET)); }
    s
}

fn fragment(rng: &mut Rng, out: &mut Out) -> String {
    let f = match rng.below(20) {
        0..=6 => { out.stats.count("gen:open-tag"); open_tag(rng) }
        7 | 8 => { out.stats.count("gen:close-tag"); close_tag(rng) }
        9 | 10 | 11 => { out.stats.count("gen:comment"); comment(rng) }
        12 | 13 => { out.stats.count("gen:processing"); processing(rng) }
        14 | 15 => { out.stats.count("gen:declaration"); declaration(rng) }
        16 | 17 => { out.stats.count("gen:cdata"); cdata(rng) }
        18 => { out.stats.count("gen:link-forms"); (*rng.pick(&["<a>", "<a href>", "</a >", "<A>", "</a>", "<a\n>", "<a\u{a0}>", "<a/>", "<ab>", "</ab>", "</A>", "</a\u{2028}>", "<a\tb>", "</a\n\n>", "<a x='</a>'>"])).to_string() }
        _ => { out.stats.count("gen:random"); random_string(rng) }
    };
    if rng.chance(1, 5) { out.stats.count("gen:mutated"); mutate(rng, &f) } else { f }
}

fn tail(rng: &mut Rng) -> &'static str {
    *rng.pick(&["", "", "", "x", " ", ">", "<b>", "  ", "\u{a0}", "\t ", " x", "\u{2028}", "\u{3000}\u{85}", " \u{200b}", "-->", "?>", "]]>", "</pre>"])
}

fn one_line(s: &str) -> String { s.replace('\n', " ").replace('\r', " ") }

/// a line that opens (or nearly opens) an html block
fn opener_line(rng: &mut Rng, out: &mut Out) -> String {
    match rng.below(12) {
        0 | 1 => { let n = *rng.pick(RAW_NAMES); format!("<{}{}", fold_case(rng, n), *rng.pick(&["", ">", " ", " x>", "\u{a0}", "\u{2028}y", "\t", "x", "/>", "/", ">z</pre>", ">a</SCRIPT>b", "></\u{17f}tyle>", "-", "1"])) }
        2 | 3 | 4 => { let n = *rng.pick(&HTML_BLOCKS); format!("<{}{}{}", *rng.pick(&["", "", "/", "//", " "]), fold_case(rng, n), *rng.pick(&["", ">", "/>", " x", "/", "/ >", "x", "\u{a0}", "\t", ">>", " a='b'>", "1", "-", ">text", "\u{3000}>", "/>x", "font", "s"])) }
        5 => (*rng.pick(&["<!--", "<!-- x", "<!-- x -->", "<!---->", "<!-", "<!-->", "<?", "<?php", "<? ?>", "<?>", "<!A", "<!a", "<!DOCTYPE html>", "<!X", "<!É", "<![CDATA[", "<![CDATA[x]]>", "<![CDATA", "<![cdata[", "<!["])).to_string(),
        _ => { let f = fragment(rng, out); format!("{}{}", one_line(&f), tail(rng)) }
    }
}

fn body_line(rng: &mut Rng, out: &mut Out) -> String {
    match rng.below(14) {
        0 | 1 => "foo".into(),
        2 | 3 => String::new(),
        4 => (*rng.pick(&[" ", "  ", "\t", "    "])).to_string(),
        5 => (*rng.pick(&["</script>", "foo</PRE>bar", "</\u{17f}tyle>", "</textarea >", "</textarea", "< /pre>", "</pre\u{a0}>", "</TEXTAREA>x", "</scripT>"])).to_string(),
        6 => (*rng.pick(&["-->", "a --> b", "--->", "-- >", "->"])).to_string(),
        7 => (*rng.pick(&["?>", "a ?> b", "? >", "??>"])).to_string(),
        8 => (*rng.pick(&[">", "a > b", "]]>", "a ]]> b", "]] >", "]>"])).to_string(),
        9 => { let f = fragment(rng, out); one_line(&f) }
        10 => "é 日本".into(),
        _ => (*rng.pick(&["bar", "- x", "> q", "<div>", "</div>", "# h", "***"])).to_string(),
    }
}

fn indent(rng: &mut Rng) -> &'static str {
    *rng.pick(&["", "", "", "", "", " ", "  ", "   ", "    ", "     ", "\t", " \t", "  \t "])
}

// ---------------------------------------------------------------------------------------------
// the real parser

fn add_plugin(md: &mut MarkdownIt, name: &str) {
    match name {
        "code" => code::add(md),
        "fence" => fence::add(md),
        "blockquote" => blockquote::add(md),
        "hr" => hr::add(md),
        "list" => list::add(md),
        "reference" => reference::add(md),
        "heading" => heading::add(md),
        "lheading" => lheading::add(md),
        "paragraph" => paragraph::add(md),
        "html" => html_block::add(md),
        _ => unreachable!(),
    }
}

/// the bare scanner, no ordering constraint (any order can be produced this way)
fn add_raw(md: &mut MarkdownIt, name: &str) {
    match name {
        "code" => { md.block.add_rule::<CodeScanner>(); }
        "fence" => { md.block.add_rule::<FenceScanner>(); }
        "blockquote" => { md.block.add_rule::<BlockquoteScanner>(); }
        "hr" => { md.block.add_rule::<HrScanner>(); }
        "list" => { md.block.add_rule::<ListScanner>(); }
        "reference" => { md.block.add_rule::<ReferenceScanner>(); }
        "heading" => { md.block.add_rule::<HeadingScanner>(); }
        "lheading" => { md.block.add_rule::<LHeadingScanner>(); }
        "paragraph" => { md.block.add_rule::<ParagraphScanner>(); }
        "html" => { md.block.add_rule::<HtmlBlockScanner>(); }
        _ => unreachable!(),
    }
}

fn name_of_type(ty: &str) -> &'static str {
    for (suffix, name) in [("CodeScanner", "code"), ("FenceScanner", "fence"), ("BlockquoteScanner", "blockquote"),
        ("HrScanner", "hr"), ("ListScanner", "list"), ("ReferenceScanner", "reference"), ("LHeadingScanner", "lheading"),
        ("HeadingScanner", "heading"), ("ParagraphScanner", "paragraph"), ("HtmlBlockScanner", "html")] {
        if ty.ends_with(suffix) { return name; }
    }
    "?"
}

/// the effective chain, read back from the `Debug` output of the real block parser
fn chain_of(md: &MarkdownIt) -> String {
    let dbg = format!("{:?}", md.block);
    let s = dbg.find("compiled: [").map(|p| p + "compiled: [".len()).unwrap();
    let e = s + dbg[s..].find(']').unwrap();
    let mut names = vec![];
    for part in dbg[s..e].split("), ") {
        let part = part.trim().trim_start_matches('(').trim_end_matches(')');
        if part.is_empty() { continue; }
        names.push(name_of_type(part.splitn(2, ", ").nth(1).unwrap_or("")));
    }
    assert!(!names.contains(&"?"), "unknown rule in {}", dbg);
    if names.is_empty() { "-".into() } else { names.join(",") }
}

/// parser with exactly the given block rules, added in the given order (`raw`: bare scanners, so the
/// chain IS that order; otherwise through the plugins' `add`, with their ordering constraints), no inline pass
fn build(order: &[&str], raw: bool, max_nesting: u32) -> MarkdownIt {
    let mut md = MarkdownIt::new();
    md.remove_rule::<InlineParserRule>();
    // `FenceSettings` lives in `md.env` and is only set by `fence::add`
    fence::add(&mut md);
    md.block.remove_rule::<FenceScanner>();
    if raw {
        for n in order { add_raw(&mut md, n); }
    } else {
        for n in order { add_plugin(&mut md, n); }
    }
    md.max_nesting = max_nesting;
    md
}

fn cp(c: char) -> u32 { c as u32 }

fn dump(node: &Node, out: &mut String) {
    out.push('(');
    if node.is::<Root>() { out.push_str("root"); }
    else if node.is::<Paragraph>() { out.push('p'); }
    else if node.is::<Blockquote>() { out.push_str("bq"); }
    else if node.is::<ListItem>() { out.push_str("li"); }
    else if let Some(x) = node.cast::<BulletList>() { out.push_str(&format!("ul:{}", cp(x.marker))); }
    else if let Some(x) = node.cast::<OrderedList>() { out.push_str(&format!("ol:{}:{}", x.start, cp(x.marker))); }
    else if let Some(x) = node.cast::<CodeBlock>() { out.push_str(&format!("code:{}", hexs(&x.content))); }
    else if let Some(x) = node.cast::<CodeFence>() { out.push_str(&format!("fence:{}:{}:{}:{}", hexs(&x.info), cp(x.marker), x.marker_len, hexs(&x.content))); }
    else if let Some(x) = node.cast::<ThematicBreak>() { out.push_str(&format!("hr:{}:{}", cp(x.marker), x.marker_len)); }
    else if let Some(x) = node.cast::<ATXHeading>() { out.push_str(&format!("h:{}", x.level)); }
    else if let Some(x) = node.cast::<SetextHeader>() { out.push_str(&format!("sh:{}:{}", x.level, cp(x.marker))); }
    else if let Some(x) = node.cast::<HtmlBlock>() { out.push_str(&format!("html:{}", hexs(&x.content))); }
    else if let Some(x) = node.cast::<InlineRoot>() {
        let m: Vec<String> = x.mapping.iter().map(|(a, b)| format!("{}/{}", a, b)).collect();
        out.push_str(&format!("inl:{}:{}", hexs(&x.content), if m.is_empty() { "-".to_string() } else { m.join(",") }));
    }
    else { out.push_str("?unknown"); }
    out.push(' ');
    match node.srcmap.map(|m| m.get_byte_offsets()) { Some((a, b)) => out.push_str(&format!("{}-{}", a, b)), None => out.push_str("none") }
    for c in node.children.iter() { out.push(' '); dump(c, out); }
    out.push(')');
}

fn dump_refs(env: &ErasedSet) -> String {
    let mut rows: Vec<(String, String)> = vec![];
    if let Some(map) = env.get::<ReferenceMap>() {
        for (k, e) in map.iter() {
            let hk = hexs(&k.label);
            rows.push((hk.clone(), format!("{}={}={}", hk, hexs(&e.destination), match &e.title { Some(t) => hexs(t), None => "none".into() })));
        }
    }
    rows.sort();
    rows.into_iter().map(|r| r.1).collect::<Vec<_>>().join(";")
}

fn panic_class(msg: &str) -> &'static str {
    if msg.contains("didn't increment") { "progress" }
    else if msg.contains("index out of bounds") { "index" }
    else if msg.contains("byte index") || msg.contains("char boundary") || msg.contains("slice index") || msg.contains("out of range for slice") || msg.contains("begin <= end") { "slice" }
    else if msg.contains("attempt to subtract") { "sub" }
    else if msg.contains("assertion failed") { "assert" }
    else if msg.contains("unwrap()") { "unwrap" }
    else { "other" }
}

fn run_rule(name: &str, state: &mut BlockState, silent: bool) -> bool {
    match name {
        "code" => CodeScanner::run(state, silent),
        "fence" => FenceScanner::run(state, silent),
        "blockquote" => BlockquoteScanner::run(state, silent),
        "hr" => HrScanner::run(state, silent),
        "list" => ListScanner::run(state, silent),
        "reference" => ReferenceScanner::run(state, silent),
        "heading" => HeadingScanner::run(state, silent),
        "lheading" => LHeadingScanner::run(state, silent),
        "paragraph" => ParagraphScanner::run(state, silent),
        "html" => HtmlBlockScanner::run(state, silent),
        _ => unreachable!(),
    }
}

// ---------------------------------------------------------------------------------------------
// documents

fn terminator(rng: &mut Rng, mode: usize) -> &'static str {
    match mode { 0 => "\n", 1 => "\r\n", 2 => "\r", _ => *rng.pick(&["\n", "\n", "\r\n", "\r"]) }
}

/// a line of ordinary block material
fn md_line(rng: &mut Rng) -> String {
    (*rng.pick(&["foo", "foo", "bar baz", "para", "# h", "---", "===", "***", "```", "~~~", "- item", "* x", "1. one", "2) two", "> q", ">", "    code",
        "\tcode", "[r]: /u", "[r]: /u 't'", "[r]:", "  /u", "é", "a\\", "  two", "   three", "-", "1.", "", "", " ", "\t"])).to_string()
}

/// html block material mixed with block syntax, inside a slowly changing stack of container prefixes
/// (block quotes, list items; a prefix is dropped now and then: lazy continuation lines and lines
/// that leave the container), html starts after paragraph lines (interruption), before blank lines
fn html_doc(rng: &mut Rng, out: &mut Out) -> String {
    let mode = *rng.pick(&[0usize, 0, 0, 0, 1, 2, 3]);
    let nseg = *rng.pick(&[1usize, 1, 2, 2, 3, 4, 5]);
    let mut stack: Vec<(String, String)> = vec![];
    let mut fresh: Vec<bool> = vec![];
    let mut lines: Vec<String> = vec![];
    for _ in 0..nseg {
        match rng.below(8) {
            0 | 1 | 2 if stack.len() < 3 => {
                let c = match rng.below(7) {
                    0 | 1 => ("> ".to_string(), "> ".to_string()),
                    2 => (">".to_string(), ">".to_string()),
                    3 => ("- ".to_string(), "  ".to_string()),
                    4 => ("1. ".to_string(), "   ".to_string()),
                    5 => ("-\t".to_string(), "  ".to_string()),
                    _ => ("*   ".to_string(), "    ".to_string()),
                };
                stack.push(c); fresh.push(true); out.stats.count("doc:container-opened");
            }
            3 if !stack.is_empty() => { stack.pop(); fresh.pop(); }
            _ => {}
        }
        let mut seg: Vec<String> = vec![];
        // what precedes the html start: nothing, a paragraph (the start must interrupt it), other blocks
        for _ in 0..*rng.pick(&[0usize, 0, 1, 1, 1, 2]) { seg.push(md_line(rng)); }
        let opener = opener_line(rng, out);
        seg.push(format!("{}{}", indent(rng), opener));
        for _ in 0..*rng.pick(&[0usize, 0, 1, 1, 2, 3, 4]) { let b = body_line(rng, out); seg.push(format!("{}{}", indent(rng), b)); }
        match rng.below(4) { 0 => seg.push(String::new()), 1 => { seg.push(String::new()); seg.push(md_line(rng)); } 2 => seg.push(md_line(rng)), _ => {} }
        for l in seg {
            let lazy = rng.chance(1, 6);
            let mut s = String::new();
            for (j, (first, rest)) in stack.iter().enumerate() {
                if lazy && rng.chance(1, 2) { continue; }
                s.push_str(if fresh[j] { first } else { rest });
                fresh[j] = false;
            }
            s.push_str(&l);
            lines.push(s);
        }
    }
    let mut src = String::new();
    for (i, l) in lines.iter().enumerate() {
        if i > 0 { src.push_str(terminator(rng, mode)); }
        src.push_str(l);
    }
    for _ in 0..*rng.pick(&[0usize, 1, 1, 2]) { src.push_str(terminator(rng, mode)); }
    src
}

fn special_doc(rng: &mut Rng) -> String {
    (*rng.pick(&[
        "a\n<div>\n*x*\n\n> <pre>\n> y",
        "<!--\n- x",
        "foo\n<a>\nbar",                       // sequence 7 cannot interrupt a paragraph
        "foo\n<div>\nbar\n\nbaz",
        "> <div>\nlazy?\n\nx",
        "> foo\n<div>\n> bar",
        "- <pre>\n  x\n\n  </pre>\n- y",
        "- <pre>\nx\n</pre>",
        "- a\n<!-- c -->\n- b",
        "1. a\n<?php\n?>\n2. b",
        "[r]: /u\n<div>\n'title'",
        "[r]: /u\n<a>\n'title'",
        "<div>\n    code?\n\n    code",
        "   <div>\n    <div>",
        "    <div>\n<div>",
        "<pre>\n\n\n</pre>\n\n",
        "<!DOCTYPE x\n\n>\n",
        "<![CDATA[\n> q\n]]>\n> q",
        "> <!--\n> a\nb\n> -->",
        ">\t<div>\n>\t\tx",
        "<script>\n```\n</script>\n```",
        "```\n<div>\n```\n<div>\n```",
        "<div>\n***\n</div>\n***",
        "a\n===\n<hr>\n---",
        "<p>\n===",
        "# h\n<h1>\n# h",
        "<x-y a='1'\nb>",
        "<a b=\"\n\">\n",
        "</div\n>",
        "<\u{17f}cript>\n\nx",
        "<\u{212a}>",
        "<pre\u{a0}>\n\nx</pre>",
    ])).to_string()
}

fn tabify(rng: &mut Rng, src: &str) -> String {
    let mut out = String::new();
    for c in src.chars() { if c == ' ' && rng.chance(1, 4) { out.push('\t'); } else { out.push(c); } }
    out
}

fn line_endings(rng: &mut Rng, src: &str) -> String {
    match rng.below(3) { 0 => src.replace('\n', "\r\n"), 1 => src.replace('\n', "\r"), _ => { let mut o = String::new(); for c in src.chars() { if c == '\n' { o.push_str(*rng.pick(&["\n", "\r\n", "\r"])); } else { o.push(c); } } o } }
}

fn gen_doc(rng: &mut Rng, out: &mut Out, i: usize) -> String {
    let base = match i % 12 {
        0 | 1 | 2 | 3 | 4 => html_doc(rng, out),
        5 => any_doc(rng),
        6 => { let s = rng.pick(&SPEC).clone(); crate::gen::doc::mutate(rng, &s) }
        7 => special_doc(rng),
        8 => { let d = if rng.chance(2, 3) { html_doc(rng, out) } else { rng.pick(&SPEC).clone() }; wrap_container(rng, &d) }
        9 => { let d = html_doc(rng, out); crate::gen::doc::mutate(rng, &d) }
        10 => grammar_doc(rng),
        _ => { let d = special_doc(rng); wrap_container(rng, &d) }
    };
    match rng.below(10) {
        0 => tabify(rng, &base),
        1 => line_endings(rng, &base),
        _ => base,
    }
}

// ---------------------------------------------------------------------------------------------
// configurations

struct Conf { md: MarkdownIt, chain: String, max_nesting: u32 }

fn conf(order: &[&str], raw: bool, max_nesting: u32) -> Conf {
    let md = build(order, raw, max_nesting);
    let chain = chain_of(&md);
    Conf { md, chain, max_nesting }
}

fn shuffled(rng: &mut Rng, v: &mut Vec<&'static str>) {
    for i in (1..v.len()).rev() { let j = rng.below(i + 1); v.swap(i, j); }
}

fn random_conf(rng: &mut Rng, out: &mut Out) -> Conf {
    let max_nesting = match rng.below(16) { 0 => 0, 1 => 1, 2 => 2, 3 => 3, 4 => 5, _ => 100 };
    let mut v: Vec<&'static str> = RULES.to_vec();
    let c = match rng.below(12) {
        0..=3 => { out.stats.count("conf:stock+html"); conf(&v, false, max_nesting) }
        4 => { // the plugins in the order `cmark::add` then `html::add`
            let mut w: Vec<&'static str> = v.iter().cloned().filter(|n| *n != "html").collect(); w.push("html");
            out.stats.count("conf:cmark-then-html"); conf(&w, false, max_nesting) }
        5 => { let k = rng.below(v.len()); v.remove(k); out.stats.count("conf:omit-one"); conf(&v, false, max_nesting) }
        6 => { v.retain(|_| rng.chance(2, 3)); out.stats.count("conf:subset"); conf(&v, false, max_nesting) }
        7 => { shuffled(rng, &mut v); out.stats.count("conf:plugin-order-shuffled"); conf(&v, false, max_nesting) }
        8 => { v.retain(|n| *n != "html"); out.stats.count("conf:html-free"); conf(&v, false, max_nesting) }
        _ => { v.retain(|_| rng.chance(4, 5)); shuffled(rng, &mut v); out.stats.count("conf:raw-any-order"); conf(&v, true, max_nesting) }
    };
    if c.chain.split(',').any(|n| n == "html") { out.stats.count("conf:with-html"); }
    if !c.chain.split(',').any(|n| n == "paragraph") { out.stats.count("conf:without-paragraph"); }
    c
}

fn emit_parse(out: &mut Out, c: &Conf, src: &str, tag: &str) {
    let req = format!("blockh parse {} {} {}", hexs(src), c.max_nesting, c.chain);
    let ans = match guarded(|| {
        let root = c.md.parse(src);
        let mut s = String::new();
        dump(&root, &mut s);
        let refs = dump_refs(&root.cast::<Root>().unwrap().env);
        (s, refs)
    }) {
        Ok((s, refs)) => {
            for (pat, key) in [("(bq ", "tree:blockquote"), ("(ul:", "tree:bullet-list"), ("(ol:", "tree:ordered-list"), ("(code:", "tree:code-block"),
                ("(fence:", "tree:fence"), ("(hr:", "tree:hr"), ("(h:", "tree:atx"), ("(sh:", "tree:setext"), ("(p ", "tree:paragraph"), ("(li ", "tree:list-item"),
                ("(html:", "tree:html")] {
                if s.contains(pat) { out.stats.count(key); }
            }
            // an html block directly behind a paragraph (interruption), inside a quote / a list item
            if s.contains(")) (html:") { out.stats.count("tree:html-after-block"); }
            if s.contains("(bq ") && s.contains("(html:") { out.stats.count("tree:html-and-quote"); }
            if s.contains("(li ") && s.contains("(html:") { out.stats.count("tree:html-and-list"); }
            if s.matches("(html:").count() > 1 { out.stats.count("tree:several-html"); }
            if !refs.is_empty() { out.stats.count("tree:references"); }
            format!("{}|refs:{}", s, refs)
        }
        Err(e) => { out.stats.count("parse:panic"); format!("PANIC:{}", panic_class(&e)) }
    };
    out.stats.count(tag);
    out.emit(&req, &ans, src.lines().count() > 1);
}

fn rule_once(c: &Conf, src: &str, name: &str, line: usize, silent: bool) -> (Result<(bool, usize, Vec<String>), String>, String) {
    let mut env = ErasedSet::new();
    let r = guarded(|| {
        let mut st = BlockState::new(src, &c.md, &mut env, Node::default());
        st.line = line;
        let v = run_rule(name, &mut st, silent);
        let mut nodes: Vec<String> = vec![];
        for ch in st.node.children.iter() { let mut s = String::new(); dump(ch, &mut s); nodes.push(s); }
        (v, st.line, nodes)
    });
    (r, dump_refs(&env))
}

/// single rules at one line of a fresh state, both modes: every rule that accepts the line in real
/// mode, plus the html rule, plus one rule drawn at random
fn emit_rule(out: &mut Out, rng: &mut Rng, c: &Conf, src: &str) {
    let mut env = ErasedSet::new();
    let nlines = { let st = BlockState::new(src, &c.md, &mut env, Node::default()); st.line_max };
    let line = if rng.chance(1, 40) { nlines } else { rng.below(nlines) };
    let extra = *rng.pick(&RULES);
    for name in RULES {
        let accepts = matches!(rule_once(c, src, name, line, false).0, Ok((true, _, _)));
        if !accepts && name != extra && name != "html" { continue; }
        for silent in [true, false] {
            let (r, refs) = rule_once(c, src, name, line, silent);
            let ans = match r {
                Ok((v, l, nodes)) => {
                    if v { out.stats.count(&format!("rule:{}:{}", name, if silent { "silent-true" } else { "real-true" })); }
                    format!("{}:{}:{}|refs:{}", v as u8, l, if nodes.is_empty() { "-".to_string() } else { nodes.join(" ") }, refs)
                }
                Err(e) => { out.stats.count("rule:panic"); format!("PANIC:{}", panic_class(&e)) }
            };
            out.emit(&format!("blockh rule {} {} {} {} {} {}", name, silent as u8, hexs(src), line, c.max_nesting, c.chain), &ans, true);
        }
    }
}

pub fn run(n: usize, rng: &mut Rng, out: &mut Out) {
    let stock = conf(&RULES, false, 100);
    // every spec input, the ten-rule chain in plugin order
    for s in SPEC.iter() { emit_parse(out, &stock, s, "doc:spec"); }
    let fixed = ["", "\n", "<", "<a", "<a>", "<div", "<!--", "<?", "<!A", "<![CDATA[", "</div>", " <div>", "    <div>", "a\n<div>", "a\n<a>", "> <div>", "- <div>",
        "a\n<div>\n*x*\n\n> <pre>\n> y", "<!--\n- x"];
    for s in fixed { emit_parse(out, &stock, s, "doc:fixed"); }
    for mn in [0u32, 1, 2, 3] {
        let c = conf(&RULES, false, mn);
        for s in ["> > <div>\n> > x", "- - <pre>\n\n    </pre>", "> - <!--\n> - -->", "<div>\n> <div>"] { emit_parse(out, &c, s, "doc:small-max-nesting"); }
    }
    for i in 0..n {
        let src = gen_doc(rng, out, i);
        if src.len() > 1500 { continue; }
        let c = random_conf(rng, out);
        if c.max_nesting < 100 { out.stats.count("conf:small-max-nesting"); }
        if src.contains('\t') { out.stats.count("doc:with-tab"); }
        if src.contains('\r') { out.stats.count("doc:with-cr"); }
        emit_parse(out, &c, &src, "doc:generated");
        if i % 4 == 0 { emit_rule(out, rng, &c, &src); }
    }
}
