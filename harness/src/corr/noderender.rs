//! stream `noderender`: the `render` method of every shipped node kind.
//!
//! Documents (all spec inputs, `gen::doc::any_doc`, hostile payloads) are parsed by the REAL parser
//! under sampled configurations (html on/off, sourcepos on/off, plugin subsets/orders); the REAL tree
//! is dumped as a one-word s-expression, the REAL trait calls are recorded with the independent
//! recorder `oracle::c19::record`, and the REAL `render()` / `xrender()` strings are taken.  The model
//! (`Driver/NodeRender.lean`) renders the dumped tree.  Hand-built trees (`Node::new`) add what the
//! parser never produces: heading levels out of range, nodes without a `render` of their own, leaf
//! kinds with children, foreign attribute names, extreme `start` values, hostile fence infos.
//!
//! requests                                   answers
//!   noderender events <tree>                   events in the grammar of `corr::render::enc_events`, or PANIC
//!   noderender html <0|1> <tree>               hex of `render()` (0) / `xrender()` (1), or PANIC
//!   noderender panic <tree>                    none | index | unimplemented
//!
//! tree  ::= "(" head [ "@" attr ("," attr)* ] tree* ")"          (no blanks anywhere)
//! attr  ::= hex "=" hex
//! head  ::= root | p | atx:<n> | setext:<n> | hr | code:<hex> | fence:<info>:<content>:<prefix> | bq
//!         | ol:<n> | ul | li | t:<hex> | ts:<hex> | sb | hb | ci | em | strong | s
//!         | a:<url>:<title> | img:<url>:<title> | auto:<url> | hblock:<hex> | hinline:<hex> | x
//! title ::= "~" (None) | hex (Some);   hex = hex of UTF-8 bytes, "-" = empty
use super::Out;
use crate::corr::render::enc_events;
use crate::oracle::c19::record;
use crate::rng::Rng;
use crate::util::{guarded, hexs};
use markdown_it::parser::core::Root;
use markdown_it::parser::inline::{InlineRoot, Text, TextSpecial};
use markdown_it::plugins::cmark::block::blockquote::Blockquote;
use markdown_it::plugins::cmark::block::code::CodeBlock;
use markdown_it::plugins::cmark::block::fence::CodeFence;
use markdown_it::plugins::cmark::block::heading::ATXHeading;
use markdown_it::plugins::cmark::block::hr::ThematicBreak;
use markdown_it::plugins::cmark::block::lheading::SetextHeader;
use markdown_it::plugins::cmark::block::list::{BulletList, ListItem, OrderedList};
use markdown_it::plugins::cmark::block::paragraph::Paragraph;
use markdown_it::plugins::cmark::inline::autolink::Autolink;
use markdown_it::plugins::cmark::inline::backticks::CodeInline;
use markdown_it::plugins::cmark::inline::emphasis::{Em, Strong};
use markdown_it::plugins::cmark::inline::image::Image;
use markdown_it::plugins::cmark::inline::link::Link;
use markdown_it::plugins::cmark::inline::newline::{Hardbreak, Softbreak};
use markdown_it::plugins::extra::inline::strikethrough::Strikethrough;
use markdown_it::plugins::html::html_block::HtmlBlock;
use markdown_it::plugins::html::html_inline::HtmlInline;
use markdown_it::{Node, NodeValue};

#[derive(Default)]
struct Seen {
    kinds: Vec<&'static str>,
    depth: usize,
    nodes: usize,
    sourcepos: bool,
    foreign_attr: bool,
    leaf_with_children: bool,
    fence_info_special: bool,
    fence_info_nonempty: bool,
    ol_start_attr: bool,
    title: bool,
    image_nonempty: bool,
    html_under_image: bool,
}

fn title_hex(t: &Option<String>) -> String { match t { Some(t) => hexs(t), None => "~".into() } }

fn head(node: &Node, seen: &mut Seen) -> (String, &'static str, bool) {
    // (head, kind name, calls `contents`)
    if node.is::<Root>() { ("root".into(), "Root", true) }
    else if node.is::<Paragraph>() { ("p".into(), "Paragraph", true) }
    else if let Some(h) = node.cast::<ATXHeading>() { (format!("atx:{}", h.level), "ATXHeading", true) }
    else if let Some(h) = node.cast::<SetextHeader>() { (format!("setext:{}", h.level), "SetextHeader", true) }
    else if node.is::<ThematicBreak>() { ("hr".into(), "ThematicBreak", false) }
    else if let Some(c) = node.cast::<CodeBlock>() { (format!("code:{}", hexs(&c.content)), "CodeBlock", false) }
    else if let Some(c) = node.cast::<CodeFence>() {
        if !c.info.is_empty() { seen.fence_info_nonempty = true; }
        if c.info.contains('&') || c.info.contains('\\') { seen.fence_info_special = true; }
        (format!("fence:{}:{}:{}", hexs(&c.info), hexs(&c.content), hexs(c.lang_prefix)), "CodeFence", false)
    }
    else if node.is::<Blockquote>() { ("bq".into(), "Blockquote", true) }
    else if let Some(l) = node.cast::<OrderedList>() { if l.start != 1 { seen.ol_start_attr = true; } (format!("ol:{}", l.start), "OrderedList", true) }
    else if node.is::<BulletList>() { ("ul".into(), "BulletList", true) }
    else if node.is::<ListItem>() { ("li".into(), "ListItem", true) }
    else if let Some(t) = node.cast::<Text>() { (format!("t:{}", hexs(&t.content)), "Text", false) }
    else if let Some(t) = node.cast::<TextSpecial>() { (format!("ts:{}", hexs(&t.content)), "TextSpecial", false) }
    else if node.is::<Softbreak>() { ("sb".into(), "Softbreak", false) }
    else if node.is::<Hardbreak>() { ("hb".into(), "Hardbreak", false) }
    else if node.is::<CodeInline>() { ("ci".into(), "CodeInline", true) }
    else if node.is::<Em>() { ("em".into(), "Em", true) }
    else if node.is::<Strong>() { ("strong".into(), "Strong", true) }
    else if node.is::<Strikethrough>() { ("s".into(), "Strikethrough", true) }
    else if let Some(l) = node.cast::<Link>() { if l.title.is_some() { seen.title = true; } (format!("a:{}:{}", hexs(&l.url), title_hex(&l.title)), "Link", true) }
    else if let Some(l) = node.cast::<Image>() { if l.title.is_some() { seen.title = true; } if !node.children.is_empty() { seen.image_nonempty = true; } (format!("img:{}:{}", hexs(&l.url), title_hex(&l.title)), "Image", false) }
    else if let Some(l) = node.cast::<Autolink>() { (format!("auto:{}", hexs(&l.url)), "Autolink", true) }
    else if let Some(h) = node.cast::<HtmlBlock>() { (format!("hblock:{}", hexs(&h.content)), "HtmlBlock", false) }
    else if let Some(h) = node.cast::<HtmlInline>() { (format!("hinline:{}", hexs(&h.content)), "HtmlInline", false) }
    else { ("x".into(), "placeholder", false) }
}

fn sexpr(node: &Node, depth: usize, under_image: bool, seen: &mut Seen, out: &mut String) {
    if depth > seen.depth { seen.depth = depth; }
    seen.nodes += 1;
    let (h, kind, container) = head(node, seen);
    if !seen.kinds.contains(&kind) { seen.kinds.push(kind); }
    if under_image && (kind == "HtmlInline" || kind == "HtmlBlock") { seen.html_under_image = true; }
    if !container && !node.children.is_empty() && kind != "Image" { seen.leaf_with_children = true; }
    out.push('(');
    out.push_str(&h);
    for (i, (k, v)) in node.attrs.iter().enumerate() {
        out.push(if i == 0 { '@' } else { ',' });
        out.push_str(&format!("{}={}", hexs(k), hexs(v)));
        if *k == "data-sourcepos" { seen.sourcepos = true; } else { seen.foreign_attr = true; }
    }
    for c in node.children.iter() { sexpr(c, depth + 1, under_image || kind == "Image", seen, out); }
    out.push(')');
}

fn panic_class(msg: &str) -> &'static str {
    if msg.contains("not implemented") { "unimplemented" }
    else if msg.contains("index out of bounds") || msg.contains("subtract with overflow") || msg.contains("self.level") { "index" }
    else { "other" }
}

/// every named reference of the table whose expansion contains a markup delimiter
static DELIM_REFS: once_cell::sync::Lazy<Vec<&'static str>> = once_cell::sync::Lazy::new(|| {
    entities::ENTITIES.iter().filter(|e| e.entity.ends_with(';') && e.characters.chars().any(|c| "<>\"&".contains(c))).map(|e| e.entity).collect()
});

/// hostile payloads, as `oracle::c03::hostile`
fn hostile(rng: &mut Rng) -> String {
    if rng.chance(1, 4) {
        let r = *rng.pick(&DELIM_REFS);
        let astral = *rng.pick(&["", "😀", "\u{10000}", "é"]);
        return match rng.below(5) {
            0 => format!("{astral}{r}script{r} {astral}<x>"),
            1 => format!("[{r}]({r} \"{astral}{r}\")"),
            2 => format!("![{astral}{r}](/u '{r}')"),
            3 => format!("``` {r}\n{astral}{r}\n```"),
            _ => format!("# {astral}{r}\n\n> {r}\n\n- *{r}* `{r}`"),
        };
    }
    let p = *rng.pick(&["\"><script>alert(1)</script>", "\" onmouseover=\"x", "<img src=x onerror=y>", "&lt;b&gt;", "&#60;b&#62;", "'\"><", "\\\"", "&quot;&#34;&#x22;", "<!--", "]]>", "\0<x>"]);
    match rng.below(10) {
        0 => format!("[a]({})", p),
        1 => format!("[a](<{}>)", p),
        2 => format!("[a](/u \"{}\")", p),
        3 => format!("![{}](/u '{}')", p, p),
        4 => format!("```{}\n{}\n```", p, p),
        5 => format!("`{}`", p),
        6 => format!("<http://x/{}>", p),
        7 => format!("[r]: /u \"{}\"\n\n[r] {}", p, p),
        8 => format!("~~~ \u{a0}\u{3000}a&#32;b\\{} {}\n{}\n~~~\n\n7. x\n\n0. y\n\n4294967295. z", p, p, p),
        _ => format!("    {}\n\n# {}\n\n1234567890. {}", p, p, p),
    }
}

// ---------------------------------------------------------------- hand-built trees

#[derive(Debug)]
struct NoRender;
impl NodeValue for NoRender {}

const ATTR_NAMES: &[&str] = &["data-sourcepos", "data-sourcepos", "data-sourcepos", "class", "id", "a b", "x\"y", "on<click", ""];
const PREFIXES: &[&str] = &["language-", "language-", "", "lang\"<&", "x y "];

fn payload(rng: &mut Rng) -> String {
    match rng.below(14) {
        0 => String::new(),
        1 => "\"><script>alert(1)</script>".into(),
        2 => "\" onmouseover=\"x".into(),
        3 => "a\0b".into(),
        4 => "&amp;&lt;&#34;".into(),
        5 => "x\n".into(),
        6 => "'\"><&".into(),
        7 => "é😀\u{10a}".into(),
        _ => crate::gen::doc::sig_string(rng, 5),
    }
}

fn info(rng: &mut Rng) -> String {
    let ws = ["", " ", "\t", "\u{a0}", "\u{3000}", "\u{2003}", "\u{b}", "\u{85}", "\u{1680}", "\u{180e}", "\u{200b}", "\u{feff}", "\n", "&#32;", "&nbsp;", "\\ "];
    let w = ["rust", "c++", "&quot;x", "&#60;b", "\\\"q", "a&amp;b", "\"><s", "&nosuch;", "&#0;", "é", "&#xD800;", "\\", "&", "x\0"];
    let mut s = String::new();
    for _ in 0..rng.below(3) { s.push_str(*rng.pick(&ws)); }
    if rng.chance(5, 6) { s.push_str(*rng.pick(&w)); }
    for _ in 0..rng.below(3) { s.push_str(*rng.pick(&ws)); if rng.chance(1, 2) { s.push_str(*rng.pick(&w)); } }
    s
}

fn opt_title(rng: &mut Rng) -> Option<String> { if rng.chance(1, 2) { Some(payload(rng)) } else { None } }

fn level(rng: &mut Rng, max: u8, wild: bool) -> u8 {
    if wild && rng.chance(1, 3) { *rng.pick(&[0u8, max + 1, max + 2, 7, 8, 100, 255]) } else { 1 + rng.below(max as usize) as u8 }
}

/// a random node of any kind; `wild` allows the parts that panic
fn build(rng: &mut Rng, depth: usize, wild: bool) -> Node {
    let k = if wild && rng.chance(1, 12) { 26 } else { rng.below(27) };
    let mut node = match k {
        0 => Node::new(Paragraph),
        1 => Node::new(ATXHeading { level: level(rng, 6, wild) }),
        2 => Node::new(SetextHeader { level: level(rng, 2, wild), marker: '=' }),
        3 => Node::new(ThematicBreak { marker: '*', marker_len: 3 }),
        4 => Node::new(CodeBlock { content: payload(rng) }),
        5 | 6 => Node::new(CodeFence { info: info(rng), marker: '`', marker_len: 3, content: payload(rng), lang_prefix: *rng.pick(PREFIXES) }),
        7 => Node::new(Blockquote),
        8 => Node::new(OrderedList { start: *rng.pick(&[0u32, 1, 1, 2, 7, 10, 999999999, u32::MAX]), marker: '.' }),
        9 => Node::new(BulletList { marker: '-' }),
        10 => Node::new(ListItem),
        11 | 12 => Node::new(Text { content: payload(rng) }),
        13 => Node::new(TextSpecial { content: payload(rng), markup: payload(rng), info: "escape" }),
        14 => Node::new(Softbreak),
        15 => Node::new(Hardbreak),
        16 => Node::new(CodeInline { marker: '`', marker_len: 1 }),
        17 => Node::new(Em { marker: '*' }),
        18 => Node::new(Strong { marker: '_' }),
        19 => Node::new(Strikethrough { marker: '~' }),
        20 => Node::new(Link { url: payload(rng), title: opt_title(rng) }),
        21 | 22 => Node::new(Image { url: payload(rng), title: opt_title(rng) }),
        23 => Node::new(Autolink { url: payload(rng) }),
        24 => Node::new(HtmlBlock { content: payload(rng) }),
        25 => Node::new(HtmlInline { content: payload(rng) }),
        _ => if !wild { Node::new(Text { content: payload(rng) }) } else {
            match rng.below(3) { 0 => Node::default(), 1 => Node::new(NoRender), _ => Node::new(InlineRoot { content: payload(rng), mapping: vec![] }) }
        },
    };
    for _ in 0..[0, 0, 0, 1, 1, 2][rng.below(6)] { node.attrs.push((*rng.pick(ATTR_NAMES), payload(rng))); }
    if depth > 0 {
        let nkids = [0, 0, 1, 1, 2, 3][rng.below(6)];
        for _ in 0..nkids { node.children.push(build(rng, depth - 1, wild)); }
    }
    node
}

fn build_root(rng: &mut Rng, wild: bool) -> Node {
    let mut root = if rng.chance(1, 8) { build(rng, 3, wild) } else { Node::new(Root { content: String::new(), env: markdown_it::common::ErasedSet::new() }) };
    if root.is::<Root>() { for _ in 0..rng.range(0, 4) { let d = rng.range(0, 3); root.children.push(build(rng, d, wild)); } }
    root
}

/// one tree with every kind once, hostile payloads (the non-vacuity document of `Props/NodeRender.lean`)
fn every_kind() -> Node {
    let t = |s: &str| Node::new(Text { content: s.into() });
    let with = |mut n: Node, kids: Vec<Node>| { n.children = kids; n };
    let sp = |mut n: Node, v: &str| { n.attrs.push(("data-sourcepos", v.into())); n };
    let root = Node::new(Root { content: String::new(), env: markdown_it::common::ErasedSet::new() });
    with(root, vec![
        sp(with(Node::new(ATXHeading { level: 1 }), vec![t("\"><script>")]), "1:1-1:3"),
        with(Node::new(SetextHeader { level: 2, marker: '-' }), vec![t("a\0b")]),
        with(Node::new(Paragraph), vec![
            with(Node::new(Em { marker: '*' }), vec![t("e")]),
            with(Node::new(Strong { marker: '*' }), vec![t("s")]),
            with(Node::new(Strikethrough { marker: '~' }), vec![t("d")]),
            Node::new(TextSpecial { content: "<".into(), markup: "&lt;".into(), info: "entity" }),
            Node::new(Softbreak), Node::new(Hardbreak),
            with(Node::new(CodeInline { marker: '`', marker_len: 1 }), vec![t("<c>")]),
            with(Node::new(Link { url: "/u\"x".into(), title: Some("t\"<".into()) }), vec![t("l")]),
            with(Node::new(Image { url: "/i".into(), title: Some("\" onerror=\"x".into()) }), vec![t("a\""), with(Node::new(Em { marker: '*' }), vec![t("<b>")]), Node::new(Hardbreak), Node::new(HtmlInline { content: "<i>".into() })]),
            with(Node::new(Autolink { url: "http://x/?a&b".into() }), vec![t("http://x/?a&b")]),
        ]),
        Node::new(ThematicBreak { marker: '*', marker_len: 3 }),
        Node::new(CodeBlock { content: "<pre>\n".into() }),
        Node::new(CodeFence { info: "\u{a0}r&quot;\\\"s\u{3000}t".into(), marker: '`', marker_len: 3, content: "x\n".into(), lang_prefix: "language-" }),
        with(Node::new(Blockquote), vec![with(Node::new(OrderedList { start: 7, marker: '.' }), vec![with(Node::new(ListItem), vec![t("i")])]), with(Node::new(BulletList { marker: '-' }), vec![with(Node::new(ListItem), vec![])])]),
    ])
}

struct Case { req: String, ans: String, nontrivial: bool }

fn emit_tree(tree: &Node, with_panic_op: bool, cases: &mut Vec<Case>, counters: &mut Vec<String>) {
    let mut seen = Seen::default();
    let mut s = String::new();
    sexpr(tree, 1, false, &mut seen, &mut s);
    let evs = guarded(|| record(tree));
    let nontrivial = match &evs { Ok(e) => e.len() > 4, Err(_) => true };
    let (ans, pclass) = match &evs { Ok(e) => (enc_events(e), "none"), Err(m) => ("PANIC".to_string(), panic_class(m)) };
    cases.push(Case { req: format!("noderender events {}", s), ans, nontrivial });
    for x in [false, true] {
        let html = guarded(|| if x { tree.xrender() } else { tree.render() });
        let ans = match html { Ok(h) => hexs(&h), Err(_) => "PANIC".into() };
        cases.push(Case { req: format!("noderender html {} {}", x as u8, s), ans, nontrivial });
    }
    if with_panic_op || pclass != "none" {
        cases.push(Case { req: format!("noderender panic {}", s), ans: pclass.into(), nontrivial: true });
    }
    counters.push("trees".into());
    counters.push(format!("panic_{}", pclass));
    for k in seen.kinds.iter() { counters.push(format!("kind_{}", k)); }
    if let Ok(e) = &evs {
        use crate::oracle::c19::Ev;
        if e.iter().any(|e| matches!(e, Ev::Raw(_))) { counters.push("has_raw_event".into()); }
        if e.iter().any(|e| matches!(e, Ev::Open(t, a) if t == "code" && a.iter().any(|(k, _)| k == "class"))) { counters.push("fence_class_attr".into()); }
    }
    if seen.depth >= 10 { counters.push("depth_ge_10".into()); }
    if seen.depth >= 50 { counters.push("depth_ge_50".into()); }
    if seen.nodes >= 50 { counters.push("nodes_ge_50".into()); }
    if seen.sourcepos { counters.push("has_sourcepos_attr".into()); }
    if seen.foreign_attr { counters.push("has_foreign_attr".into()); }
    if seen.leaf_with_children { counters.push("leaf_kind_with_children".into()); }
    if seen.fence_info_nonempty { counters.push("fence_info_nonempty".into()); }
    if seen.fence_info_special { counters.push("fence_info_with_escape_or_reference".into()); }
    if seen.ol_start_attr { counters.push("ol_start_not_1".into()); }
    if seen.title { counters.push("has_title".into()); }
    if seen.image_nonempty { counters.push("image_with_description".into()); }
    if seen.html_under_image { counters.push("html_node_under_image".into()); }
}

pub fn run(n: usize, rng: &mut Rng, out: &mut Out) {
    // inputs are drawn here; parsing/rendering happens on a big-stack thread (deep trees)
    let mut docs: Vec<(crate::cfg::Cfg, String)> = vec![];
    let spec = &crate::gen::doc::SPEC;
    let nspec = std::cmp::min(spec.len(), n / 4);
    for (i, s) in spec.iter().take(nspec).enumerate() {
        let c = match i % 3 { 0 => crate::cfg::Cfg::stock(), 1 => crate::cfg::Cfg::full(), _ => { let mut c = crate::cfg::Cfg::cmark_only(); c.mask |= 1 << crate::cfg::SOURCEPOS; c } };
        docs.push((c, s.clone()));
    }
    for _ in 0..n {
        let mut c = crate::cfg::sample(rng, false, true);
        c.mask &= (1 << crate::cfg::N_PLUGINS) - 1; // the render model knows the shipped node kinds only
        let d = if rng.chance(1, 4) { hostile(rng) } else { crate::gen::doc::any_doc(rng) };
        docs.push((c, d));
    }
    let nbuilt = n / 4 + 1;
    let mut rng2 = rng.fork();
    let (cases, counters) = crate::run::big_stack(move || {
        let mut cases: Vec<Case> = vec![];
        let mut counters: Vec<String> = vec![];
        emit_tree(&every_kind(), true, &mut cases, &mut counters);
        for (c, d) in docs {
            let md = c.build();
            let tree = match guarded(|| md.parse(&d)) { Ok(t) => t, Err(_) => { counters.push("skipped_parse_panic".into()); continue; } };
            if c.has_html() { counters.push("cfg_html_on".into()); } else { counters.push("cfg_html_off".into()); }
            if c.has(crate::cfg::SOURCEPOS) { counters.push("cfg_sourcepos_on".into()); } else { counters.push("cfg_sourcepos_off".into()); }
            emit_tree(&tree, false, &mut cases, &mut counters);
        }
        for i in 0..nbuilt {
            let wild = i % 2 == 0;
            let tree = build_root(&mut rng2, wild);
            counters.push("hand_built".into());
            emit_tree(&tree, true, &mut cases, &mut counters);
        }
        (cases, counters)
    });
    for c in cases { out.emit(&c.req, &c.ans, c.nontrivial); }
    for k in counters { out.stats.count(&k); }
}
