//! stream `lines`: the line table of the block parser (`BlockState::new` → `line_offsets`), its
//! views, `get_lines` (fresh table and tables rewritten the way containers rewrite them),
//! `skip_empty_lines` / `is_empty` / `line_indent` / `get_line`, and the indentation helpers
//! `find_indent_of`, `calc_right_whitespace_with_tabstops`, `cut_right_whitespace_with_tabstops`,
//! `rfind_and_count`.  Request grammar: see `Driver/Lines.lean`.
use super::Out;
use crate::rng::Rng;
use crate::util::{guarded, hexs};
use markdown_it::common::utils::{
    calc_right_whitespace_with_tabstops, cut_right_whitespace_with_tabstops, find_indent_of, rfind_and_count,
};
use markdown_it::common::ErasedSet;
use markdown_it::parser::block::BlockState;
use markdown_it::{MarkdownIt, Node};

fn int(i: i64) -> String { if i < 0 { format!("n{}", -i) } else { format!("{}", i) } }

/// run of spaces/tabs, tabs at every column
fn blanks(rng: &mut Rng, max: usize) -> String {
    let k = rng.below(max + 1);
    (0..k).map(|_| if rng.chance(2, 5) { '\t' } else { ' ' }).collect()
}

/// text of one line: never contains LF / CR, starts with a non-blank when non-empty
fn text(rng: &mut Rng) -> String {
    let mut s = String::new();
    let k = match rng.below(6) { 0 => 0, 1 => 1, _ => rng.range(1, 6) };
    for i in 0..k {
        let c = match rng.below(12) {
            0 | 1 if i > 0 => ' ',
            2 if i > 0 => '\t',
            3 => 'é',
            4 => '€',
            5 => '😀',
            6 => '>',
            7 => '-',
            8 => '\u{a0}',   // not a blank for the splitter
            9 => '\u{b}',    // vertical tab: not a terminator
            _ => *rng.pick(&['a', 'b', 'x', '*', '`', '#', '1', '.']),
        };
        s.push(c);
    }
    s
}

fn terminator(rng: &mut Rng) -> &'static str {
    match rng.below(8) { 0 | 1 | 2 => "\n", 3 | 4 => "\r\n", 5 | 6 => "\r", _ => "\n\r" }
}

/// documents mixing LF / CR / CRLF, blank lines, leading and inner tabs, multi-byte text,
/// zero / one / two final terminators
pub fn gen_src(rng: &mut Rng) -> String {
    if rng.chance(1, 6) {
        // unstructured: any order of the interesting characters
        let k = rng.below(14);
        return (0..k).map(|_| *rng.pick(&[' ', '\t', '\n', '\r', 'a', 'é', '€', '😀', '>', ' ', '\t', '\r', '\n'])).collect();
    }
    let lines = match rng.below(8) { 0 => 0, 1 => 1, _ => rng.range(1, 6) };
    let uniform = if rng.chance(1, 3) { Some(*rng.pick(&["\n", "\r\n", "\r"])) } else { None };
    let mut s = String::new();
    for i in 0..lines {
        if i > 0 { s.push_str(uniform.unwrap_or_else(|| terminator(rng))); }
        if !rng.chance(1, 5) { s.push_str(&blanks(rng, 6)); }
        if !rng.chance(1, 5) { s.push_str(&text(rng)); }
        if rng.chance(1, 6) { s.push_str(&blanks(rng, 3)); }
    }
    for _ in 0..*rng.pick(&[0usize, 0, 1, 1, 2]) { s.push_str(uniform.unwrap_or_else(|| terminator(rng))); }
    s
}

fn show_get(r: Result<(String, Vec<(usize, usize)>), String>) -> String {
    match r {
        Err(_) => "PANIC".into(),
        Ok((content, mapping)) => {
            let m: Vec<String> = mapping.iter().map(|(k, v)| format!("{}/{}", k, v)).collect();
            format!("{}|{}", hexs(&content), if m.is_empty() { "-".to_string() } else { m.join(",") })
        }
    }
}

fn doc_cases(rng: &mut Rng, out: &mut Out, md: &MarkdownIt, src: &str) {
    let h = hexs(src);
    let mut env = ErasedSet::new();
    let mut st = BlockState::new(src, md, &mut env, Node::default());
    let n = st.line_offsets.len();
    let mixed = src.contains('\r');
    if src.contains("\r\n") { out.stats.count("split:crlf"); }
    if src.contains('\r') && !src.contains("\r\n") { out.stats.count("split:bare-cr"); }
    if src.ends_with('\n') || src.ends_with('\r') { out.stats.count("split:final-terminator"); }
    if src.ends_with("\n\n") || src.ends_with("\r\r") || src.ends_with("\n\r") { out.stats.count("split:two-final-terminators"); }
    if src.is_empty() { out.stats.count("split:empty-document"); }
    if src.lines().any(|l| l.trim_start_matches([' ', '\t']).contains('\t')) { out.stats.count("split:inner-tab"); }
    if !src.is_ascii() { out.stats.count("split:multibyte"); }

    // the table
    let table: Vec<String> = st.line_offsets.iter()
        .map(|o| format!("{}/{}/{}/{}", o.line_start, o.line_end, o.first_nonspace, int(o.indent_nonspace as i64))).collect();
    out.emit(&format!("lines split {}", h), &table.join(","), n > 1 || mixed);

    // the views, from the table (model side: slices of the model table; and the specification)
    let views = guarded(|| st.line_offsets.iter().map(|o| format!("{}/{}/{}",
        hexs(&src[o.line_start..o.first_nonspace]), hexs(&src[o.first_nonspace..o.line_end]), int(o.indent_nonspace as i64)))
        .collect::<Vec<_>>().join(","));
    let views = views.unwrap_or_else(|_| "PANIC".into());
    out.emit(&format!("lines views {}", h), &views, n > 1 || mixed);
    out.emit(&format!("lines spec {}", h), &views, n > 1 || mixed);

    // accessors
    let from = rng.below(n + 2);
    st.line_max = n;
    out.emit(&format!("lines skip {} {}", h, from), &format!("{}", st.skip_empty_lines(from)), n > 1);
    let l = rng.below(n + 2);
    out.emit(&format!("lines empty {} {}", h, l), if st.is_empty(l) { "1" } else { "0" }, n > 1);
    let blk = rng.below(7);
    st.blk_indent = blk;
    let ans = match guarded(|| st.line_indent(l)) { Ok(i) => int(i as i64), Err(_) => "PANIC".into() };
    if ans == "PANIC" { out.stats.count("lineindent:panic"); }
    out.emit(&format!("lines lineindent {} {} {}", h, blk, l), &ans, true);
    st.blk_indent = 0;
    let ans = match guarded(|| st.get_line(l).to_string()) { Ok(t) => hexs(&t), Err(_) => "PANIC".into() };
    out.emit(&format!("lines getline {} {}", h, l), &ans, true);

    let (a, b) = (rng.below(n + 1), rng.below(n + 1));
    let ans = match guarded(|| st.get_map(a, b)) { Ok(Some(p)) => { let (x, y) = p.get_byte_offsets(); format!("{}/{}", x, y) }, Ok(None) => "NONE".into(), Err(_) => "PANIC".into() };
    if ans == "PANIC" { out.stats.count("getmap:panic"); }
    out.emit(&format!("lines getmap {} {} {}", h, a, b), &ans, true);

    // get_lines on the fresh table
    for _ in 0..3 {
        let (b, e) = match rng.below(10) {
            0 => (rng.below(n + 2), rng.below(n + 3)),       // anything (begin > end, beyond the table)
            1 => (0, n),
            _ => { let b = rng.below(n + 1); (b, rng.range(b, n)) }
        };
        // the last four exercise `indent as i32` (wrap-around to -1, -3, 3, -1); 2^31 is avoided: there
        // `indent_nonspace - i32::MIN` overflows (a panic under overflow-checks, not modelled)
        let indent = *rng.pick(&[0usize, 0, 0, 1, 1, 2, 2, 3, 4, 4, 5, 6, 8, 9, 100, 4294967295, 4294967293, 4294967299, usize::MAX]);
        if indent > 1000 { out.stats.count("get:indent-cast-wraps"); }
        if b > e { out.stats.count("get:begin>end"); }
        let keep = rng.chance(1, 2);
        let r = guarded(|| st.get_lines(b, e, indent, keep));
        match &r {
            Err(_) => out.stats.count("get:panic"),
            Ok((_, m)) => { if m.len() > e.saturating_sub(b) { out.stats.count("get:split-tab"); } if b == e { out.stats.count("get:empty-range"); } }
        }
        out.emit(&format!("lines get {} {} {} {} {}", h, b, e, indent, if keep { 1 } else { 0 }), &show_get(r), e > b);
    }

    // get_lines after rewriting the table the way block quotes / list items do
    for _ in 0..3 {
        let mut ov: Vec<String> = vec![];
        let saved = st.line_offsets.clone();
        for i in 0..n {
            if !rng.chance(2, 3) { continue; }
            let o = st.line_offsets[i].clone();
            // candidate new first_nonspace: a char boundary inside the line, at or after the old one
            let bounds: Vec<usize> = (o.line_start..=o.line_end).filter(|p| src.is_char_boundary(*p)).collect();
            let f = match rng.below(12) {
                0 => o.line_end + 1,                                   // beyond the line (may be off the text)
                1 => { let p = rng.range(o.line_start, o.line_end + 1); p }   // any byte, maybe inside a character
                2 => o.line_start.saturating_sub(1),
                _ => { let later: Vec<usize> = bounds.iter().cloned().filter(|p| *p >= o.first_nonspace).collect();
                       if later.is_empty() { o.first_nonspace } else { *rng.pick(&later) } }
            };
            let ind: i32 = match rng.below(6) { 0 => -1, 1 => o.indent_nonspace, 2 => o.indent_nonspace + (f as i32 - o.first_nonspace as i32), _ => rng.below(13) as i32 - 1 };
            st.line_offsets[i].first_nonspace = f;
            st.line_offsets[i].indent_nonspace = ind;
            ov.push(format!("{}:{}:{}", i, f, int(ind as i64)));
        }
        let (b, e) = if rng.chance(1, 8) { (rng.below(n + 2), rng.below(n + 2)) } else { let b = rng.below(n + 1); (b, rng.range(b, n)) };
        let indent = rng.below(10);
        let keep = rng.chance(1, 2);
        let r = guarded(|| st.get_lines(b, e, indent, keep));
        match &r {
            Err(_) => out.stats.count("get2:panic"),
            Ok((_, m)) => if m.len() > e.saturating_sub(b) { out.stats.count("get2:split-tab"); }
        }
        let ovs = if ov.is_empty() { "-".to_string() } else { ov.join(";") };
        out.emit(&format!("lines get2 {} {} {} {} {} {}", h, b, e, indent, if keep { 1 } else { 0 }, ovs), &show_get(r), e > b);
        st.line_offsets = saved;
    }
}

fn any_string(rng: &mut Rng) -> String {
    let k = rng.below(9);
    (0..k).map(|_| *rng.pick(&[' ', '\t', '\t', 'a', 'b', 'é', '€', '😀', '\n', ' '])).collect()
}

fn helper_cases(rng: &mut Rng, out: &mut Out) {
    // find_indent_of: blank runs followed by text, and arbitrary strings; every position incl. bad ones
    let line = if rng.chance(2, 3) { format!("{}{}{}{}", if rng.chance(1, 3) { text(rng) } else { String::new() }, blanks(rng, 7), text(rng), blanks(rng, 2)) } else { any_string(rng) };
    let h = hexs(&line);
    for pos in 0..line.len() + 2 {
        let ans = match guarded(|| find_indent_of(&line, pos)) { Ok((i, p)) => format!("{}:{}", i, p), Err(_) => "PANIC".into() };
        if ans == "PANIC" { out.stats.count("indent:panic"); }
        if !line.is_char_boundary(pos) { out.stats.count("indent:off-boundary"); }
        else if line[..pos].contains('\t') { out.stats.count("indent:after-tab"); }
        out.emit(&format!("lines indent {} {}", h, pos), &ans, line.contains('\t'));
    }
    // calc / cut: blank runs with tabs at every column, and arbitrary strings; indents -3..12 and a large one
    let ws = if rng.chance(2, 3) { blanks(rng, 8) } else { any_string(rng) };
    let h = hexs(&ws);
    for ind in (-3i32..=12).chain([40]) {
        let (n, s) = calc_right_whitespace_with_tabstops(&ws, ind);
        if n > 0 { out.stats.count("cut:split-tab"); }
        out.emit(&format!("lines cut {} {}", h, int(ind as i64)), &format!("{}:{}", n, s), ws.contains('\t'));
        if rng.chance(1, 3) {
            let ans = match guarded(|| cut_right_whitespace_with_tabstops(&ws, ind).to_string()) { Ok(t) => hexs(&t), Err(_) => "PANIC".into() };
            out.emit(&format!("lines cutstr {} {}", h, int(ind as i64)), &ans, ws.contains('\t'));
        }
    }
    let c = *rng.pick(&['\t', ' ', 'a', 'é', '😀']);
    out.emit(&format!("lines rfind {} {}", h, c as u32), &format!("{}", rfind_and_count(&ws, c)), !ws.is_empty());
}

pub fn run(n: usize, rng: &mut Rng, out: &mut Out) {
    let md = MarkdownIt::new();
    let fixed = ["", "\n", "\r", "\r\n", "\n\n", "a", "a\n", "a\r\n", "a\r", "a\n\n", "a\r\nb\rc\n", "\ta", " \t a", "a\n\r\nb",
        "  >  blockquote\r\n", " \t foo", "- a\n\n \tb", "\r\r\n", "\n\r", "a \tb\n\t \tc", "é\r\n\t€\r😀"];
    for s in fixed { doc_cases(rng, out, &md, s); }
    for i in 0..n {
        let src = if i % 7 == 6 { crate::gen::doc::any_doc(rng) } else { gen_src(rng) };
        doc_cases(rng, out, &md, &src);
        helper_cases(rng, out);
    }
}
