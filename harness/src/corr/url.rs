//! stream `url`: `mdurl::encode` on byte strings biased to the boundary conditions
use super::Out;
use crate::rng::Rng;
use crate::util::{guarded, hex};
use markdown_it::common::mdurl::{encode, AsciiSet};

pub const DEFAULT_SAFE: &str = ";/?:@&=+$,-_.!~*'()#";

pub fn set_bits(bytes: &[u8], base_new: bool) -> (AsciiSet, u128) {
    let mut s = if base_new { AsciiSet::new() } else { AsciiSet::empty() };
    let mut bits: u128 = if base_new { 0x07fffffe07fffffe03ff000000000000 } else { 0 };
    for b in bytes { if *b < 128 { s = s.add(*b); bits |= 1u128 << *b; } }
    (s, bits)
}

/// valid UTF-8 string biased to '%', hex digits, non-hex, multi-byte, controls
pub fn gen_string(rng: &mut Rng) -> String {
    let len = match rng.below(10) { 0 => 0, 1 => 1, 2 => 2, 3 => 3, _ => rng.range(1, 24) };
    let mut s = String::new();
    for _ in 0..len {
        let c = match rng.below(17) {
            0..=4 => '%',
            5..=7 => *rng.pick(&['0', '9', 'a', 'f', 'A', 'F', '4', '1', 'c', 'E']),
            8 => *rng.pick(&['g', 'G', 'z', ':', '/', '@', '`', 'x']),
            9 => *rng.pick(&[' ', '\t', '\n', '\r', '\0', '\x7f', '"', '<', '>', '\\', '[', ']', '^', '{', '|']),
            10 => *rng.pick(&['é', 'ß', 'я', '\u{80}', '\u{7ff}']),
            11 => *rng.pick(&['€', '\u{800}', '\u{ffff}', '中']),
            12 => *rng.pick(&['😀', '\u{10000}', '\u{10ffff}']),
            // any ASCII byte, incl. controls and the neighbours of hex digits under bit tricks (0x10-0x19, '@', 'G', '`', 'g')
            13 => char::from_u32(rng.below(0x80) as u32).unwrap(),
            15 => *rng.pick(&['\x10', '\x11', '\x19', '\x1a', '@', 'G', '`', 'g', '/', ':', '\x16', '\x06', '\x01']),
            14 => *rng.pick(&[';', '?', '&', '=', '+', '$', ',', '-', '_', '.', '!', '~', '*', '\'', '(', ')', '#']),
            _ => '%',
        };
        let c = if c == '%' && rng.chance(1, 3) { s.push('%'); *rng.pick(&['\x10', '\x15', '\x19', '4', 'a', 'F', 'g', '@', '\x1f', '\x00']) } else { c };
        s.push(c);
    }
    s
}

pub fn gen_set(rng: &mut Rng) -> (AsciiSet, u128) {
    match rng.below(8) {
        0 => set_bits(b"", false),
        1 => set_bits(b"", true),
        2 | 3 | 4 => set_bits(DEFAULT_SAFE.as_bytes(), true),
        5 => set_bits(b"%", true),
        6 => set_bits(b"%abcdefABCDEF0123456789", false),
        _ => {
            let k = rng.below(12);
            let v: Vec<u8> = (0..k).map(|_| rng.below(128) as u8).collect();
            set_bits(&v, rng.chance(1, 2))
        }
    }
}

pub fn run(n: usize, rng: &mut Rng, out: &mut Out) {
    // AsciiSet::from(..) for the shipped safe string
    {
        let req = format!("url setfrom {}", hex(DEFAULT_SAFE.as_bytes()));
        let (_, bits) = set_bits(DEFAULT_SAFE.as_bytes(), true);
        // the real constant: probe `has` for every byte < 128
        const REAL: AsciiSet = AsciiSet::from(";/?:@&=+$,-_.!~*'()#");
        let mut real_bits: u128 = 0;
        for b in 0u8..128 { if REAL.has(b) { real_bits |= 1u128 << b; } }
        let _ = bits;
        out.emit(&req, &format!("{}", real_bits), true);
    }
    // histories of add / remove on the REAL AsciiSet (remove of present and of ABSENT bytes, re-adds), read back with `has`
    for i in 0..(n / 8 + 8) {
        let base_new = rng.chance(1, 2);
        let k = if i < 8 { i } else { rng.range(1, 14) };
        let mut ops: Vec<u8> = vec![];
        for _ in 0..k {
            let b = match rng.below(4) { 0 => *rng.pick(b"%/?#az09"), 1 if !ops.is_empty() => ops[rng.below(ops.len())] & 0x7f, _ => rng.below(128) as u8 };
            ops.push(if rng.chance(1, 2) { b | 0x80 } else { b });
        }
        let mut set = if base_new { AsciiSet::new() } else { AsciiSet::empty() };
        for o in &ops { set = if o & 0x80 != 0 { set.remove(o & 0x7f) } else { set.add(*o) }; }
        let mut real_bits: u128 = 0;
        for b in 0u8..128 { if set.has(b) { real_bits |= 1u128 << b; } }
        if ops.iter().any(|o| o & 0x80 != 0) { out.stats.count("set_remove"); }
        out.emit(&format!("url setops {} {}", base_new as u8, hex(&ops)), &format!("{}", real_bits), ops.len() >= 2);
    }
    for _ in 0..n {
        let s = gen_string(rng);
        let (set, bits) = gen_set(rng);
        let keep = rng.chance(1, 2);
        let req = format!("url encode {} {} {}", bits, keep as u8, hex(s.as_bytes()));
        let ans = match guarded(|| encode(&s, set, keep)) {
            Ok(r) => hex(r.as_bytes()),
            Err(_) => "PANIC:index".to_string(),
        };
        let b = s.as_bytes();
        let l = b.len();
        let nontrivial = b.iter().any(|x| *x >= 0x80)
            || (l >= 1 && b[l - 1] == b'%') || (l >= 2 && b[l - 2] == b'%') || (l >= 3 && b[l - 3] == b'%');
        if b.contains(&b'%') { out.stats.count("has_percent"); }
        if l >= 1 && (b[l - 1] == b'%' || (l >= 2 && b[l - 2] == b'%')) { out.stats.count("percent_in_last_two"); }
        if b.iter().any(|x| *x >= 0x80) { out.stats.count("non_ascii"); }
        if keep { out.stats.count("keep_escaped"); }
        out.emit(&req, &ans, nontrivial);
    }
}
