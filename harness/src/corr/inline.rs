//! stream `inline`: the REAL inline parser (`md.inline.parse`, then `FragmentsJoin::run` when an emphasis-like
//! rule is configured) on html-free configurations, against the Lean model `MdIt.Inline` (`Driver/Inline.lean`).
//!
//! requests (grammar and answer format: see the header of `/verif/lean/Driver/Inline.lean`)
//!   inline parse <hexContent> <mapping> <maxNesting> <chain> <emphCfg> <refs>
//!   inline rule <name> <silent01> <hexSrc> <pos> <posMax> <mapping> <maxNesting> <chain> <emphCfg> <refs> <level> <pre>
//!   inline skip <hexSrc> <pos> <posMax> <mapping> <maxNesting> <chain> <emphCfg> <refs> <level>
//!   inline delims <hexSrc> <start> <posMax> <canSplit01>
//! The chain sent to the model is read back from `format!("{:?}", md.inline)` (the compiled order), never assumed.
use super::Out;
use crate::gen::doc;
use crate::rng::Rng;
use crate::util::{guarded, hexs};
use markdown_it::common::utils::normalize_reference;
use markdown_it::common::ErasedSet;
use markdown_it::generics::inline::code_pair::CodePairScanner;
use markdown_it::generics::inline::emph_pair::{self, EmphMarker, EmphPairScanner, FragmentsJoin};
use markdown_it::generics::inline::full_link::{LinkPrefixScanner, LinkScanner, LinkScannerEnd};
use markdown_it::parser::core::{CoreRule, Root};
use markdown_it::parser::inline::builtin::{InlineParserRule, TextScanner};
use markdown_it::parser::inline::{InlineRoot, InlineRule, InlineState, Text, TextSpecial};
use markdown_it::plugins::cmark::block::reference::{ReferenceMap, ReferenceMapEntry, ReferenceMapKey};
use markdown_it::plugins::cmark::inline::autolink::{Autolink, AutolinkScanner};
use markdown_it::plugins::cmark::inline::backticks::CodeInline;
use markdown_it::plugins::cmark::inline::emphasis::{Em, Strong};
use markdown_it::plugins::cmark::inline::entity::EntityScanner;
use markdown_it::plugins::cmark::inline::escape::EscapeScanner;
use markdown_it::plugins::cmark::inline::image::Image;
use markdown_it::plugins::cmark::inline::link::Link;
use markdown_it::plugins::cmark::inline::newline::{Hardbreak, NewlineScanner, Softbreak};
use markdown_it::plugins::extra::inline::strikethrough::Strikethrough;
use markdown_it::plugins::{cmark, extra};
use markdown_it::{MarkdownIt, Node};
use std::collections::BTreeMap;

// ---------------------------------------------------------------------------------------------
// configurations

struct Conf {
    md: MarkdownIt,
    chain: Vec<String>,          // rule names in compiled order
    chain_s: String,
    emph_s: String,
    has_emph: bool,
}

#[derive(Clone, Copy, PartialEq, Debug)]
enum Plug { Newline, Escape, Backticks, Emphasis, Link, Image, Autolink, Entity, Strike, StarStrongOnly, Star3, Tilde1, UnderSplit, StarNoSplit }

const STD: [Plug; 9] = [Plug::Newline, Plug::Escape, Plug::Backticks, Plug::Emphasis, Plug::Link, Plug::Image, Plug::Autolink, Plug::Entity, Plug::Strike];
const ODD: [Plug; 5] = [Plug::StarStrongOnly, Plug::Star3, Plug::Tilde1, Plug::UnderSplit, Plug::StarNoSplit];

fn reg(emph: &mut BTreeMap<char, [char; 3]>, m: char, len: usize, k: char) { emph.entry(m).or_insert(['-', '-', '-'])[len - 1] = k; }

fn add_plug(md: &mut MarkdownIt, p: Plug, emph: &mut BTreeMap<char, [char; 3]>) {
    match p {
        Plug::Newline => cmark::inline::newline::add(md),
        Plug::Escape => cmark::inline::escape::add(md),
        Plug::Backticks => cmark::inline::backticks::add(md),
        Plug::Emphasis => { cmark::inline::emphasis::add(md); reg(emph, '*', 1, 'e'); reg(emph, '_', 1, 'e'); reg(emph, '*', 2, 's'); reg(emph, '_', 2, 's'); }
        Plug::Link => cmark::inline::link::add(md),
        Plug::Image => cmark::inline::image::add(md),
        Plug::Autolink => cmark::inline::autolink::add(md),
        Plug::Entity => cmark::inline::entity::add(md),
        Plug::Strike => { extra::inline::strikethrough::add(md); reg(emph, '~', 2, 'k'); }
        Plug::StarStrongOnly => { emph_pair::add_with::<'*', 2, true>(md, || Node::new(Strong { marker: '*' })); reg(emph, '*', 2, 's'); }
        Plug::Star3 => { emph_pair::add_with::<'*', 3, true>(md, || Node::new(Em { marker: '*' })); reg(emph, '*', 3, 'e'); }
        Plug::Tilde1 => { emph_pair::add_with::<'~', 1, true>(md, || Node::new(Strikethrough { marker: '~' })); reg(emph, '~', 1, 'k'); }
        Plug::UnderSplit => { emph_pair::add_with::<'_', 1, true>(md, || Node::new(Em { marker: '_' })); reg(emph, '_', 1, 'e'); }
        Plug::StarNoSplit => { emph_pair::add_with::<'*', 1, false>(md, || Node::new(Em { marker: '*' })); reg(emph, '*', 1, 'e'); }
    }
}

/// type path of a compiled chain entry → rule name of the protocol
fn rule_name(ty: &str) -> String {
    let t = ty.trim();
    if t.ends_with("TextScanner") { return "text".into(); }
    if t.ends_with("NewlineScanner") { return "newline".into(); }
    if t.ends_with("EscapeScanner") { return "escape".into(); }
    if t.contains("CodePairScanner<'`', false>") { return "backticks".into(); }
    if t.ends_with("LinkScanner<false>") { return "link".into(); }
    if t.contains("LinkPrefixScanner<'!', true>") { return "image".into(); }
    if t.ends_with("LinkScannerEnd") { return "linkEnd".into(); }
    if t.ends_with("AutolinkScanner") { return "autolink".into(); }
    if t.ends_with("EntityScanner") { return "entity".into(); }
    if let Some(p) = t.find("EmphPairScanner<'") {
        let rest = &t[p + "EmphPairScanner<'".len()..];
        let m = rest.chars().next().unwrap();
        let split = rest.contains("true");
        return format!("emph:{}:{}", hexs(&m.to_string()), if split { 1 } else { 0 });
    }
    format!("?{}", t)
}

/// the `compiled: [(idx, Type), …]` list of the inline ruler's Debug output
fn read_chain(md: &MarkdownIt) -> Vec<String> {
    let dbg = format!("{:?}", md.inline);
    let key = "compiled: [";
    let s = &dbg[dbg.find(key).unwrap() + key.len()..];
    // entries are `(idx, path)`; a path may contain `<'x', true>` but no parenthesis for our rule types
    let mut out = vec![];
    let mut rest = s;
    loop {
        let rest_t = rest.trim_start_matches(|c| c == ',' || c == ' ');
        if !rest_t.starts_with('(') { break; }
        let close = rest_t.find(')').unwrap();
        let body = &rest_t[1..close];
        let ty = body.splitn(2, ", ").nth(1).unwrap_or("");
        out.push(rule_name(ty));
        rest = &rest_t[close + 1..];
    }
    out
}

fn build_conf(plugs: &[Plug], max_nesting: u32) -> Conf {
    let mut md = MarkdownIt::new();
    let mut emph = BTreeMap::new();
    for p in plugs { add_plug(&mut md, *p, &mut emph); }
    md.max_nesting = max_nesting;
    let chain = read_chain(&md);
    let emph_s = if emph.is_empty() { "-".to_string() } else {
        emph.iter().map(|(m, f)| format!("{}:{}{}{}", hexs(&m.to_string()), f[0], f[1], f[2])).collect::<Vec<_>>().join(";")
    };
    Conf { chain_s: if chain.is_empty() { "-".into() } else { chain.join(",") }, has_emph: !emph.is_empty(), md, chain, emph_s }
}

fn random_plugs(rng: &mut Rng) -> Vec<Plug> {
    let mut v: Vec<Plug> = match rng.below(10) {
        0..=3 => STD.to_vec(),
        4 => STD[..8].to_vec(),
        5 => { let mut v = STD.to_vec(); v.remove(rng.below(v.len())); v }
        6 | 7 => STD.iter().copied().filter(|_| rng.chance(2, 3)).collect(),
        _ => { let mut v: Vec<Plug> = STD.iter().copied().filter(|p| *p != Plug::Emphasis || rng.chance(1, 2)).collect(); v.push(*rng.pick(&ODD)); if rng.chance(1, 2) { v.push(*rng.pick(&ODD)); } v }
    };
    if rng.chance(1, 2) { for i in (1..v.len()).rev() { let j = rng.below(i + 1); v.swap(i, j); } }
    v
}

// ---------------------------------------------------------------------------------------------
// dumps

fn range_str(n: &Node) -> String {
    match n.srcmap { Some(m) => { let (a, b) = m.get_byte_offsets(); format!("{}:{}", a, b) } None => "-:-".into() }
}

fn title_str(t: &Option<String>) -> String { match t { Some(t) => hexs(t), None => "none".into() } }

fn dump_node(n: &Node, s: &mut String) {
    s.push('(');
    if let Some(t) = n.cast::<Text>() { s.push_str(&format!("T {}", hexs(&t.content))); }
    else if let Some(t) = n.cast::<TextSpecial>() { s.push_str(&format!("X {} {} {}", hexs(&t.content), hexs(&t.markup), hexs(t.info))); }
    else if n.is::<Softbreak>() { s.push_str("SB"); }
    else if n.is::<Hardbreak>() { s.push_str("HB"); }
    else if let Some(c) = n.cast::<CodeInline>() { s.push_str(&format!("C {} {}", hexs(&c.marker.to_string()), c.marker_len)); }
    else if let Some(e) = n.cast::<Em>() { s.push_str(&format!("E {}", hexs(&e.marker.to_string()))); }
    else if let Some(e) = n.cast::<Strong>() { s.push_str(&format!("S {}", hexs(&e.marker.to_string()))); }
    else if let Some(e) = n.cast::<Strikethrough>() { s.push_str(&format!("K {}", hexs(&e.marker.to_string()))); }
    else if let Some(l) = n.cast::<Link>() { s.push_str(&format!("L {} {}", hexs(&l.url), title_str(&l.title))); }
    else if let Some(l) = n.cast::<Image>() { s.push_str(&format!("I {} {}", hexs(&l.url), title_str(&l.title))); }
    else if let Some(a) = n.cast::<Autolink>() { s.push_str(&format!("A {}", hexs(&a.url))); }
    else if let Some(m) = n.cast::<EmphMarker>() { s.push_str(&format!("M {} {} {} {} {}", hexs(&m.marker.to_string()), m.length, m.remaining, m.open as u8, m.close as u8)); }
    else { s.push_str(&format!("? {}", n.name().replace(' ', "_"))); }
    s.push(' ');
    s.push_str(&range_str(n));
    for c in n.children.iter() { s.push(' '); dump_node(c, s); }
    s.push(')');
}

fn dump(children: &[Node]) -> String {
    if children.is_empty() { return "-".into(); }
    let mut s = String::new();
    for (i, c) in children.iter().enumerate() { if i > 0 { s.push(' '); } dump_node(c, &mut s); }
    s
}

fn map_str(m: &[(usize, usize)]) -> String {
    if m.is_empty() { return "-".into(); }
    m.iter().map(|(k, v)| format!("{}/{}", k, v)).collect::<Vec<_>>().join(",")
}

fn panic_class(msg: &str) -> &'static str {
    if msg.contains("attempt to subtract with overflow") { "underflow" }
    else if msg.contains("index out of bounds") { "index" }
    else if msg.contains("Option::unwrap()") { "unwrap" }
    else if msg.contains("assertion failed") { "assert" }
    else if msg.contains("byte index") || msg.contains("char boundary") || msg.contains("slice index") || msg.contains("begin <= end") || msg.contains("when slicing") || msg.contains("out of range") { "slice" }
    else if msg.contains("ParseIntError") || msg.contains("Result::unwrap()") { "radix" }
    else { "other" }
}

type Refs = Vec<(String, String, Option<String>)>; // label, destination, title

fn refs_str(refs: &Option<Refs>) -> String {
    match refs {
        None => "none".into(),
        Some(v) if v.is_empty() => "-".into(),
        Some(v) => {
            // what the map holds in the end, by normalised key (a later insert overwrites the value)
            let mut m: BTreeMap<String, (String, Option<String>)> = BTreeMap::new();
            for (l, d, t) in v { m.insert(normalize_reference(l), (d.clone(), t.clone())); }
            m.iter().map(|(k, (d, t))| format!("{}={}={}", hexs(k), hexs(d), title_str(t))).collect::<Vec<_>>().join(";")
        }
    }
}

fn make_env(refs: &Option<Refs>) -> ErasedSet {
    let mut env = ErasedSet::new();
    if let Some(v) = refs {
        let map = env.get_or_insert_default::<ReferenceMap>();
        for (l, d, t) in v { map.insert(ReferenceMapKey::new(l.clone()), ReferenceMapEntry::new(d.clone(), t.clone())); }
    }
    env
}

// ---------------------------------------------------------------------------------------------
// the requests

fn emit_parse(out: &mut Out, conf: &Conf, content: &str, mapping: &[(usize, usize)], refs: &Option<Refs>, tag: &str) {
    let req = format!("inline parse {} {} {} {} {} {}", hexs(content), map_str(mapping), conf.md.max_nesting, conf.chain_s, conf.emph_s, refs_str(refs));
    let res = guarded(|| {
        let mut env = make_env(refs);
        let mut node = conf.md.inline.parse(content.to_owned(), mapping.to_vec(), Node::default(), &conf.md, &mut env);
        if conf.has_emph { FragmentsJoin::run(&mut node, &conf.md); }
        dump(&node.children)
    });
    let ans = match res {
        Ok(d) => {
            for (k, name) in [("(L ", "link"), ("(I ", "image"), ("(A ", "autolink"), ("(C ", "code"), ("(E ", "em"), ("(S ", "strong"), ("(K ", "strike"), ("(HB", "hardbreak"), ("(SB", "softbreak"), ("(X ", "special")] {
                if d.contains(k) { out.stats.count(&format!("parse:has-{}", name)); }
            }
            if d.contains("(L ") && d[d.find("(L ").unwrap()..].matches("(L ").count() > 1 { out.stats.count("parse:several-links"); }
            d
        }
        Err(e) => { out.stats.count(&format!("parse:panic-{}", panic_class(&e))); format!("PANIC:{}", panic_class(&e)) }
    };
    out.stats.count(tag);
    if mapping.len() > 1 { out.stats.count("parse:multi-line-mapping"); }
    if mapping.windows(2).any(|w| w[0].1 == w[1].1) { out.stats.count("parse:mapping-with-virtual-spaces"); }
    if conf.md.max_nesting < 10 { out.stats.count("parse:small-max-nesting"); }
    out.emit(&req, &ans, content.len() > 2);
}

fn memo_str(state: &InlineState) -> String {
    if state.cache.is_empty() { return "-".into(); }
    let m: BTreeMap<usize, usize> = state.cache.iter().map(|(k, v)| (*k, *v)).collect();
    m.iter().map(|(k, v)| format!("{}>{}", k, v)).collect::<Vec<_>>().join(",")
}

fn state_str(state: &InlineState) -> String { format!("{},{},{},{}", state.pos, state.pos_max, state.level, state.link_level) }

fn run_rule(name: &str, state: &mut InlineState, silent: bool) -> Option<usize> {
    match name {
        "text" => TextScanner::run(state, silent),
        "newline" => NewlineScanner::run(state, silent),
        "escape" => EscapeScanner::run(state, silent),
        "backticks" => CodePairScanner::<'`', false>::run(state, silent),
        "link" => LinkScanner::<false>::run(state, silent),
        "image" => LinkPrefixScanner::<'!', true>::run(state, silent),
        "linkEnd" => LinkScannerEnd::run(state, silent),
        "autolink" => AutolinkScanner::run(state, silent),
        "entity" => EntityScanner::run(state, silent),
        "emph:2a:1" => EmphPairScanner::<'*', true>::run(state, silent),
        "emph:2a:0" => EmphPairScanner::<'*', false>::run(state, silent),
        "emph:5f:0" => EmphPairScanner::<'_', false>::run(state, silent),
        "emph:5f:1" => EmphPairScanner::<'_', true>::run(state, silent),
        "emph:7e:1" => EmphPairScanner::<'~', true>::run(state, silent),
        _ => panic!("unknown rule {}", name),
    }
}

#[allow(clippy::too_many_arguments)]
fn emit_rule(out: &mut Out, conf: &Conf, name: &str, silent: bool, src: &str, pos: usize, pos_max: usize, mapping: &[(usize, usize)], refs: &Option<Refs>, level: u32, pre: Option<usize>) {
    let req = format!("inline rule {} {} {} {} {} {} {} {} {} {} {} {}", name, silent as u8, hexs(src), pos, pos_max, map_str(mapping),
        conf.md.max_nesting, conf.chain_s, conf.emph_s, refs_str(refs), level, match pre { Some(p) => p.to_string(), None => "-".into() });
    let res = guarded(|| {
        let mut env = make_env(refs);
        let mut state = InlineState::new(src.to_owned(), mapping.to_vec(), &conf.md, &mut env, Node::default());
        state.pos = pos; state.pos_max = pos_max; state.level = level;
        if let Some(p) = pre { state.trailing_text_push(p, pos); }
        let r = run_rule(name, &mut state, silent);
        let rs = match r { Some(n) => format!("some:{}", n), None => "none".into() };
        (r.is_some(), format!("{} {} {} {}", rs, state_str(&state), memo_str(&state), dump(&state.node.children)))
    });
    let ans = match res {
        Ok((some, a)) => { out.stats.count(&format!("rule:{}:{}:{}", name.split(':').next().unwrap(), if silent { "silent" } else { "real" }, if some { "some" } else { "none" })); a }
        Err(e) => { out.stats.count(&format!("rule:panic-{}", panic_class(&e))); format!("PANIC:{}", panic_class(&e)) }
    };
    out.emit(&req, &ans, true);
}

fn emit_skip(out: &mut Out, conf: &Conf, src: &str, pos: usize, pos_max: usize, mapping: &[(usize, usize)], refs: &Option<Refs>, level: u32) {
    let req = format!("inline skip {} {} {} {} {} {} {} {} {}", hexs(src), pos, pos_max, map_str(mapping), conf.md.max_nesting, conf.chain_s, conf.emph_s, refs_str(refs), level);
    let res = guarded(|| {
        let mut env = make_env(refs);
        let mut state = InlineState::new(src.to_owned(), mapping.to_vec(), &conf.md, &mut env, Node::default());
        state.pos = pos; state.pos_max = pos_max; state.level = level;
        conf.md.inline.skip_token(&mut state);
        format!("{} {}", state_str(&state), memo_str(&state))
    });
    let ans = match res {
        Ok(a) => { out.stats.count(if level >= conf.md.max_nesting { "skip:over-limit" } else { "skip:ok" }); a }
        Err(e) => { out.stats.count(&format!("skip:panic-{}", panic_class(&e))); format!("PANIC:{}", panic_class(&e)) }
    };
    out.emit(&req, &ans, true);
}

fn emit_delims(out: &mut Out, md: &MarkdownIt, src: &str, start: usize, pos_max: usize, can_split: bool) {
    let req = format!("inline delims {} {} {} {}", hexs(src), start, pos_max, can_split as u8);
    let res = guarded(|| {
        let mut env = ErasedSet::new();
        let mut state = InlineState::new(src.to_owned(), vec![(0, 0)], md, &mut env, Node::default());
        state.pos_max = pos_max;
        let d = state.scan_delims(start, can_split);
        format!("{}/{}/{}/{}", hexs(&d.marker.to_string()), d.can_open as u8, d.can_close as u8, d.length)
    });
    let ans = match res {
        Ok(a) => { out.stats.count("delims:ok"); a }
        Err(e) => { out.stats.count(&format!("delims:panic-{}", panic_class(&e))); format!("PANIC:{}", panic_class(&e)) }
    };
    out.emit(&req, &ans, true);
}

// ---------------------------------------------------------------------------------------------
// contents

const WORDS: &[&str] = &["foo", "bar", "a", "b", "x", "wörld", "日本", "é", "😀", "q1", "ß", " ", " ", "  ", "\n", ".", ",", "(", ")", "\"", "¡", "—", "«", "»", "\u{a0}", "\u{2003}", "§", "€", "$", "+", "1"];

fn emph_stress(rng: &mut Rng) -> String {
    let markers = ["*", "_", "~", "*", "_"];
    let n = rng.range(1, 9);
    let mut s = String::new();
    for _ in 0..n {
        match rng.below(5) {
            0 | 1 => { let m = *rng.pick(&markers); let hi = if rng.chance(1, 6) { 7 } else { 3 }; s.push_str(&m.repeat(rng.range(1, hi))); }
            2 | 3 => s.push_str(*rng.pick(WORDS)),
            _ => { let m = *rng.pick(&markers); let k = rng.range(1, 3); s.push_str(&m.repeat(k)); s.push_str(*rng.pick(WORDS)); s.push_str(&m.repeat(if rng.chance(3, 4) { k } else { rng.range(1, 4) })); }
        }
    }
    s
}

/// dense soups of delimiter runs of every length class (1..9) around single letters: the openers-bottom table of the
/// delimiter matcher (indexed by can-open x length mod 3) only matters after FAILED matches of several classes
fn emph_soup(rng: &mut Rng) -> String {
    let n = rng.range(3, 12);
    let mut s = String::new();
    let m = if rng.chance(3, 4) { "*" } else { "_" };
    for _ in 0..n {
        match rng.below(6) {
            0 | 1 | 2 => { let mk = if rng.chance(5, 6) { m } else { *rng.pick(&["*", "_", "~"]) }; s.push_str(&mk.repeat(rng.range(1, 10))); }
            3 => s.push_str(*rng.pick(&["a", "b", "c", "d"])),
            4 => s.push(' '),
            _ => { s.push_str(*rng.pick(&["a", "b"])); s.push_str(&m.repeat(rng.range(1, 4))); s.push_str(*rng.pick(&["c", " c", "d "])); }
        }
    }
    s
}

/// letter, run, (letter | space letter), run, ...: every combination of flanking (closer-only, opener-only, both) and
/// length class mod 3 in one paragraph, so that a FAILED closer of one class precedes a closer of another class that
/// should still find an earlier opener (the openers-bottom table has one slot per class)
fn emph_bottoms(rng: &mut Rng) -> String {
    let m = if rng.chance(4, 5) { "*" } else { "_" };
    let mut s = String::from(*rng.pick(&["a", "", "a "]));
    for _ in 0..rng.range(3, 6) {
        s.push_str(&m.repeat(rng.range(1, 7)));
        s.push_str(*rng.pick(&["b", " c", "d ", "e", " "]));
    }
    s
}

/// the same, enumerated: three runs of lengths (a, b, c) in 1..=6, each followed by a letter or by space + letter
/// (216 x 8 = 1728 documents; the stream walks through them with a counter, a quick run covers all of them)
fn emph_bottoms_enum(idx: usize, m: &str) -> String {
    let (a, b, c) = (idx % 6 + 1, idx / 6 % 6 + 1, idx / 36 % 6 + 1);
    let f = idx / 216 % 8;
    let sep = |bit: usize, l: &str| if f >> bit & 1 == 1 { format!(" {}", l) } else { l.to_string() };
    format!("a{}{}{}{}{}{}", m.repeat(a), sep(0, "b"), m.repeat(b), sep(1, "c"), m.repeat(c), sep(2, "d"))
}

fn nested_brackets(rng: &mut Rng) -> String {
    fn go(rng: &mut Rng, depth: usize, s: &mut String) {
        let n = rng.range(1, 3);
        for _ in 0..n {
            match if depth == 0 { rng.below(4) } else { rng.below(12) } {
                0 | 1 => s.push_str(*rng.pick(&["a", "b c", "x", "é", "*e*", "`c`", "\\]", "\\[", "&amp;", "<http://u.v>", "]", "[", "!", "`", "\n", "**", "_"])),
                2 => s.push_str(*rng.pick(&["`[`", "`]`", "`](u)`", "``a]``", "`a", "<x:]>", "<x:[>", "`]", "[`"])),
                3 => s.push_str(*rng.pick(&["[ref]", "[Foo][]", "[t][ref]", "[missing]", "[a][missing]", "[]", "[][ref]", "![ref]"])),
                4..=6 => { s.push('['); go(rng, depth - 1, s); s.push_str(*rng.pick(&["](u)", "](u)", "](<u v> \"t\")", "]", "][ref]", "][]", "](", "](u", "](javascript:x)", "] (u)", "](u 't')", "]( u )", "](\nu\n)"])); }
                7 | 8 => { s.push_str("!["); go(rng, depth - 1, s); s.push_str(*rng.pick(&["](i)", "](i \"t\")", "]", "][ref]"])); }
                9 => { s.push('['); go(rng, depth - 1, s); }
                10 => { go(rng, depth - 1, s); s.push(']'); }
                _ => { s.push('*'); go(rng, depth - 1, s); s.push('*'); }
            }
        }
    }
    let mut s = String::new();
    let d = rng.range(1, 8);
    go(rng, d, &mut s);
    s
}

fn label_of(n: usize) -> String { let mut s = String::new(); for i in 0..n { s.push(if i > 0 && i + 1 < n && i % 7 == 3 { '-' } else { (b'a' + (i % 26) as u8) as char }); } s }

fn autolinks(rng: &mut Rng) -> String {
    let n = rng.range(1, 3);
    let mut s = String::new();
    for i in 0..n {
        if i > 0 { s.push_str(*rng.pick(&[" ", "", "x", "\n"])); }
        let a = match rng.below(24) {
            0 => "<http://example.com>".to_string(),
            1 => "<a@b.c>".into(),
            2 => "<javascript:alert(1)>".into(),
            3 => "<JaVaScRiPt:x>".into(),
            4 => "<data:image/png;base64,AA>".into(),
            5 => "<data:text/html,x>".into(),
            6 => "<file:///etc>".into(),
            7 => "<vbscript:x>".into(),
            8 => format!("<a@{}.com>", label_of(63)),
            9 => format!("<a@{}.com>", label_of(64)),
            10 => format!("<a@x.{}>", label_of(rng.range(60, 66))),
            11 => format!("<{}:x>", "s".repeat(rng.range(1, 3))),
            12 => format!("<a{}:x>", "b".repeat(rng.range(29, 33))),
            13 => "<a@b-.c>".into(),
            14 => "<a@-b.c>".into(),
            15 => "<a@b..c>".into(),
            16 => "<a@b.c.>".into(),
            17 => "<a.!#$%&'*+/=?^_`{|}~-z@b-c.d9>".into(),
            18 => "<http://a b>".into(),
            19 => "<http://é.com/ü?q=%20%zz&x>".into(),
            20 => "<h+.-1:>".into(),
            21 => "<1h:x>".into(),
            22 => "<http://a<b>".into(),
            _ => format!("<{}>", doc::sig_string(rng, 8).replace('\n', " ")),
        };
        s.push_str(&a);
    }
    s
}

fn code_brackets(rng: &mut Rng) -> String {
    let n = rng.range(2, 9);
    let mut s = String::new();
    for _ in 0..n {
        s.push_str(*rng.pick(&["`", "``", "```", "`", "[", "]", "](u)", "a", " ", "  ", "\n", "[`", "`]", "*", "![", "\\`", "é", "` `", "`` ` ``", "[a]", "(u)", "<x:`>", "&#96;"]));
    }
    s
}

fn entities_escapes(rng: &mut Rng) -> String {
    let n = rng.range(1, 6);
    let mut s = String::new();
    for _ in 0..n {
        s.push_str(*rng.pick(&["&amp;", "&#35;", "&#x41;", "&copy;", "&#0;", "&nosuch;", "&#xD800;", "&#99999999;", "&#1234567;", "&#x1234567;", "&AMP;", "&lt;", "&", "&#", "&#x", "&;", "&a;", "&amp", "&ClockwiseContourIntegral;", "&CounterClockwiseContourIntegral;", "&\u{17f}hy;", "&\u{212a}opf;",
            "\\*", "\\\\", "\\a", "\\é", "\\\n", "\\\n  x", "\\", " ", "a", "  \n", " \n", "\n", "\n   ", "x  ", "\t\n", "\\&amp;", "&#X41;", "&#x110000;", "&#xFFFF;", "&#65533;"]));
    }
    s
}

fn random_refs(rng: &mut Rng) -> Option<Refs> {
    if rng.chance(1, 5) { return None; }
    let n = rng.below(4);
    let mut v = vec![];
    for _ in 0..n {
        let l = *rng.pick(&["ref", "REF", "Foo", "r  2", "ẞ", "t", "a", "b c", "[x]", "é"]);
        let d = *rng.pick(&["/url", "http://e.x/%20", "", "javascript:x", "/a(b)"]);
        let t = match rng.below(3) { 0 => None, 1 => Some("T &amp; t".to_string()), _ => Some(String::new()) };
        v.push((l.to_string(), d.to_string(), t));
    }
    Some(v)
}

/// sources whose paragraphs sit behind list markers, quotes, tabs and partial tabs (as corr/inlineops.rs)
fn gen_block_source(rng: &mut Rng) -> String {
    const PRE: &[&str] = &["", "", "- ", "  ", "\t", " \t", "  \t", "   \t", "> ", ">\t", "1. ", "   ", "-\t", "- \t", " - ", "> - ", ">  \t", "10. "];
    const EOL: &[&str] = &["\n", "\n", "\n", "\r\n", "\n\n"];
    let lines = rng.range(1, 6);
    let mut s = String::new();
    for _ in 0..lines {
        for _ in 0..rng.below(3) { s.push_str(*rng.pick(PRE)); }
        s.push_str(&doc::inline_text(rng, 1, 3).replace('\n', " "));
        if rng.chance(1, 4) { s.push_str(*rng.pick(&["  ", "\\", " ", "\t"])); }
        s.push_str(*rng.pick(EOL));
    }
    if rng.chance(1, 3) { s.pop(); }
    s
}

fn collect_roots(n: &Node, acc: &mut Vec<(String, Vec<(usize, usize)>)>) {
    if let Some(r) = n.cast::<InlineRoot>() { acc.push((r.content.clone(), r.mapping.clone())); }
    for c in n.children.iter() { collect_roots(c, acc); }
}

/// run the block parser (inline rule removed): InlineRoot contents + mappings + the reference map of the document
fn roots_of(md_blocks: &MarkdownIt, src: &str) -> (Vec<(String, Vec<(usize, usize)>)>, Option<Refs>) {
    let tree = match guarded(|| md_blocks.parse(src)) { Ok(t) => t, Err(_) => return (vec![], None) };
    let mut roots = vec![];
    collect_roots(&tree, &mut roots);
    let refs = tree.cast::<Root>().and_then(|r| r.env.get::<ReferenceMap>()).map(|m| {
        m.iter().map(|(k, e)| (k.label.clone(), e.destination.clone(), e.title.clone())).collect::<Vec<_>>()
    });
    (roots, refs)
}

fn boundaries(s: &str) -> Vec<usize> { (0..=s.len()).filter(|i| s.is_char_boundary(*i)).collect() }

pub fn run(n: usize, rng: &mut Rng, out: &mut Out) {
    // pool of configurations
    let mut confs: Vec<Conf> = vec![build_conf(&STD, 100), build_conf(&STD[..8], 100)];
    for _ in 0..40 {
        let plugs = random_plugs(rng);
        let mx = if rng.chance(1, 3) { *rng.pick(&[0u32, 1, 2, 3, 4, 5]) } else { 100 };
        confs.push(build_conf(&plugs, mx));
    }
    for mx in 0..=5u32 { confs.push(build_conf(&STD, mx)); }
    for c in confs.iter() { if c.chain.iter().any(|r| r.starts_with('?')) { out.stats.count("UNKNOWN-RULE-IN-CHAIN"); } }
    let small: Vec<usize> = (0..confs.len()).filter(|i| confs[*i].md.max_nesting < 10).collect();

    let mut md_blocks = MarkdownIt::new();
    cmark::add(&mut md_blocks);
    md_blocks.remove_rule::<InlineParserRule>();

    // the inline parts of all spec examples, once each with the standard configuration
    let mut spec_roots: Vec<(String, Vec<(usize, usize)>, Option<Refs>)> = vec![];
    for s in doc::SPEC.iter() {
        let (roots, refs) = roots_of(&md_blocks, s);
        for (c, m) in roots { spec_roots.push((c, m, refs.clone())); }
    }
    let mut spec_i = 0;
    let mut bottoms_idx = 0usize;

    for i in 0..n {
        let ci = if rng.chance(1, 2) { rng.below(2) } else { rng.below(confs.len()) };
        let conf = &confs[ci];
        match i % 16 {
            0 | 1 => {
                let c = doc::inline_text(rng, 0, 6);
                emit_parse(out, conf, &c, &[(0, 0)], &random_refs(rng), "parse:gen-inline-text");
            }
            2 => if rng.chance(1, 2) {
                // forests of emphasis (siblings of different depth inside enclosing pairs), often under a small limit
                let d = rng.range(2, 6);
                let f = crate::oracle::c02::emph_forest(rng, d);
                let c = match rng.below(4) { 0 => format!("[{}](u)", f), 1 => format!("![{}](u) {}", f, crate::oracle::c02::emph_forest(rng, 2)), _ => f };
                let small: Vec<&Conf> = confs.iter().filter(|c| c.md.max_nesting >= 1 && c.md.max_nesting <= 5).collect();
                let conf = if !small.is_empty() && rng.chance(3, 4) { *rng.pick(&small) } else { conf };
                emit_parse(out, conf, &c, &[(0, 0)], &random_refs(rng), "parse:emph-forest");
            } else if rng.chance(1, 2) {
                if rng.chance(1, 3) { let c = emph_soup(rng); emit_parse(out, conf, &c, &[(0, 0)], &random_refs(rng), "parse:emph-soup"); }
                else {
                    for _ in 0..2 { let c = emph_bottoms(rng); emit_parse(out, conf, &c, &[(0, 0)], &None, "parse:emph-bottoms"); }
                    for _ in 0..40 { let c = emph_bottoms_enum(bottoms_idx, if bottoms_idx / 1728 % 4 == 3 { "_" } else { "*" }); bottoms_idx += 1; emit_parse(out, &confs[0], &c, &[(0, 0)], &None, "parse:emph-bottoms-enum"); }
                }
            } else {
                let c = doc::sig_string(rng, 30);
                emit_parse(out, conf, &c, &[(0, 0)], &random_refs(rng), "parse:gen-sig-string");
            }
            3 => {
                if spec_i < spec_roots.len() {
                    let (c, m, r) = spec_roots[spec_i].clone(); spec_i += 1;
                    emit_parse(out, &confs[0], &c, &m, &r, "parse:spec-example");
                    if ci != 0 { emit_parse(out, conf, &c, &m, &r, "parse:spec-example-other-config"); }
                } else {
                    let (c, m, r) = rng.pick(&spec_roots).clone();
                    let c2 = doc::mutate(rng, &c);
                    // a mutated content keeps a mapping only if it is still valid for it: use single-line
                    if c2 == c { emit_parse(out, conf, &c, &m, &r, "parse:spec-example-again"); }
                    else { emit_parse(out, conf, &c2, &[(0, rng.below(5))], &r, "parse:spec-example-mutated"); }
                }
            }
            4 | 5 => {
                let c = emph_stress(rng);
                emit_parse(out, conf, &c, &[(0, 0)], &None, "parse:emphasis-stress");
            }
            6 | 7 => {
                let conf = if rng.chance(2, 3) && !small.is_empty() { &confs[*rng.pick(&small)] } else { conf };
                let c = nested_brackets(rng);
                emit_parse(out, conf, &c, &[(0, 0)], &random_refs(rng), "parse:nested-brackets");
            }
            8 => {
                let c = code_brackets(rng);
                emit_parse(out, conf, &c, &[(0, 0)], &random_refs(rng), "parse:code-brackets");
            }
            9 => {
                let c = autolinks(rng);
                emit_parse(out, conf, &c, &[(0, 0)], &None, "parse:autolinks");
            }
            10 => {
                let c = entities_escapes(rng);
                emit_parse(out, conf, &c, &[(0, 0)], &None, "parse:entities-escapes");
                if rng.chance(1, 6) {
                    // ill-formed tables: the panics must agree as well
                    let c = doc::inline_text(rng, 0, 3);
                    let m: Vec<(usize, usize)> = match rng.below(3) { 0 => vec![], 1 => vec![(1, 0)], _ => vec![(0, 5), (2, 0)] };
                    emit_parse(out, conf, &c, &m, &None, "parse:ill-formed-mapping");
                }
            }
            11 | 12 => {
                // contents and mappings exactly as the block parser produces them
                let src = match rng.below(6) { 0 | 4 | 5 => gen_block_source(rng), 1 => doc::grammar_doc(rng), 2 => { let s = rng.pick(&doc::SPEC).clone(); doc::wrap_container(rng, &s) } _ => { let s = rng.pick(&doc::SPEC).clone(); doc::mutate(rng, &s) } };
                let (roots, refs) = roots_of(&md_blocks, &src);
                for (c, m) in roots.iter().take(3) { emit_parse(out, conf, c, m, &refs, "parse:block-parser-roots"); }
            }
            13 => {
                // single rule calls, both modes, on the same state description
                let c = match rng.below(6) { 0 => doc::inline_text(rng, 0, 4), 1 => nested_brackets(rng), 2 => code_brackets(rng), 3 => autolinks(rng), 4 => entities_escapes(rng), _ => emph_stress(rng) };
                if c.is_empty() { continue; }
                let bs = boundaries(&c);
                let refs = random_refs(rng);
                fn marker_of(name: &str) -> Option<char> {
                    match name { "newline" => Some('\n'), "escape" => Some('\\'), "backticks" => Some('`'), "link" => Some('['), "image" => Some('!'), "autolink" => Some('<'), "entity" => Some('&'), "linkEnd" => Some(']'), "emph:2a:1" | "emph:2a:0" => Some('*'), "emph:5f:0" | "emph:5f:1" => Some('_'), "emph:7e:1" => Some('~'), _ => None }
                }
                // (rule, position) pairs where the rule's marker stands
                let mut cands: Vec<(String, usize)> = vec![];
                for name in conf.chain.iter() {
                    if let Some(m) = marker_of(name) { for (i, ch) in c.char_indices() { if ch == m { cands.push((name.clone(), i)); } } }
                }
                for _ in 0..4 {
                    let violate = rng.chance(1, 14);
                    let (name, pos) = if !cands.is_empty() && rng.chance(5, 6) && !violate { rng.pick(&cands).clone() }
                        else { (rng.pick(&conf.chain).clone(), if violate { rng.below(c.len() + 2) } else { bs[rng.below(bs.len() - 1)] }) };
                    let later: Vec<usize> = bs.iter().copied().filter(|b| *b > pos).collect();
                    let pos_max = if violate { rng.below(c.len() + 2) } else if rng.chance(2, 3) || later.is_empty() { c.len() } else { *rng.pick(&later) };
                    if !violate && pos >= pos_max { continue; }
                    let level = if rng.chance(1, 4) { rng.below(4) as u32 } else { 0 };
                    let pre = if name == "newline" && !violate && rng.chance(2, 3) { let earlier: Vec<usize> = bs.iter().copied().filter(|b| *b <= pos).collect(); Some(*rng.pick(&earlier)) } else { None };
                    let mapping = if rng.chance(1, 12) { vec![] } else if rng.chance(1, 12) { vec![(1, 0)] } else { vec![(0, rng.below(4))] };
                    emit_rule(out, conf, &name, true, &c, pos, pos_max, &mapping, &refs, level, pre);
                    emit_rule(out, conf, &name, false, &c, pos, pos_max, &mapping, &refs, level, pre);
                }
            }
            14 => {
                let c = match rng.below(3) { 0 => nested_brackets(rng), 1 => code_brackets(rng), _ => doc::inline_text(rng, 0, 4) };
                if c.is_empty() { continue; }
                let bs = boundaries(&c);
                let conf = if rng.chance(1, 2) && !small.is_empty() { &confs[*rng.pick(&small)] } else { conf };
                for _ in 0..3 {
                    let pos = bs[rng.below(bs.len() - 1)];
                    let level = if rng.chance(1, 2) { rng.below(7) as u32 } else { 0 };
                    emit_skip(out, conf, &c, pos, c.len(), &[(0, 0)], &random_refs(rng), level);
                }
            }
            _ => {
                let c = emph_stress(rng);
                let starts: Vec<usize> = c.char_indices().filter(|(_, ch)| "*_~".contains(*ch)).map(|(i, _)| i).collect();
                if starts.is_empty() { continue; }
                let bs = boundaries(&c);
                for _ in 0..4 {
                    let start = *rng.pick(&starts);
                    let later: Vec<usize> = bs.iter().copied().filter(|b| *b > start).collect();
                    let pos_max = if rng.chance(3, 4) { c.len() } else { *rng.pick(&later) };
                    emit_delims(out, &confs[0].md, &c, start, pos_max, rng.chance(1, 2));
                }
                if rng.chance(1, 10) { emit_delims(out, &confs[0].md, &c, rng.below(c.len() + 2), rng.below(c.len() + 2), true); }
            }
        }
    }
}
