//! stream `html`: the two raw-HTML rules (`HtmlBlockScanner::run`, `HtmlInlineScanner::run`) and the
//! regular expressions behind them.  Request / answer grammar: see `Driver/Html.lean`.
//!
//! `blk`, `inl` and `tag` requests are answered by the REAL rules (and so by the real regex statics).
//! `utils::regexps` and `HTML_SEQUENCES` are private to the crate, so the matcher-level requests
//! (`open`, `openi`, `close`, `ocline`, `linkopen`, `linkclose`) are answered by regexes compiled
//! here, with the same `regex` crate, from COPIES of the pattern strings; every generated string is
//! also run through the real rules and the copies must agree with what the rules reveal
//! (`pin_*`, a disagreement aborts the stream).
use super::Out;
use crate::rng::Rng;
use crate::util::{guarded, hexs};
use markdown_it::common::ErasedSet;
use markdown_it::parser::block::{BlockRule, BlockState};
use markdown_it::parser::inline::{InlineRule, InlineState};
use markdown_it::plugins::html::html_block::{HtmlBlock, HtmlBlockScanner};
use markdown_it::plugins::html::html_inline::{HtmlInline, HtmlInlineScanner};
use markdown_it::{MarkdownIt, Node};
use once_cell::sync::Lazy;
use regex::Regex;

// ---------------------------------------------------------------------------------------------
// copies of the pattern strings (`utils/regexps.rs`, `utils/blocks.rs`, `html_block.rs`)

const HTML_BLOCKS: [&str; 62] = [
    "address", "article", "aside", "base", "basefont", "blockquote", "body", "caption", "center", "col", "colgroup", "dd",
    "details", "dialog", "dir", "div", "dl", "dt", "fieldset", "figcaption", "figure", "footer", "form", "frame", "frameset",
    "h1", "h2", "h3", "h4", "h5", "h6", "head", "header", "hr", "html", "iframe", "legend", "li", "link", "main", "menu",
    "menuitem", "nav", "noframes", "ol", "optgroup", "option", "p", "param", "section", "source", "summary", "table", "tbody",
    "td", "tfoot", "th", "thead", "title", "tr", "track", "ul",
];

struct Copies { tag: Regex, oc_line: Regex, link_open: Regex, link_close: Regex, seqs: Vec<(Regex, Regex, bool)> }

static COPIES: Lazy<Copies> = Lazy::new(|| {
    let attr_name = r#"[a-zA-Z_:][a-zA-Z0-9:._-]*"#;
    let unquoted = r#"[^"'=<>`\x00-\x20]+"#;
    let single_quoted = r#"'[^']*'"#;
    let double_quoted = r#""[^"]*""#;
    let attr_value = format!("(?:{unquoted}|{single_quoted}|{double_quoted})");
    let attribute = format!("(?:\\s+{attr_name}(?:\\s*=\\s*{attr_value})?)");
    let open_tag = format!("<[A-Za-z][A-Za-z0-9\\-]*{attribute}*\\s*/?>");
    let close_tag = r#"</[A-Za-z][A-Za-z0-9\-]*\s*>"#;
    let comment = r#"<!---->|<!--(?:-?[^>-])(?:-?[^-])*-->"#;
    let processing = r#"<[?][\s\S]*?[?]>"#;
    let declaration = r#"<![A-Z]+\s+[^>]*>"#;
    let cdata = r#"<!\[CDATA\[[\s\S]*?\]\]>"#;
    let tag = format!("^(?:{open_tag}|{close_tag}|{comment}|{processing}|{declaration}|{cdata})");
    let open_close = format!("^(?:{open_tag}|{close_tag})");
    let block_names = HTML_BLOCKS.join("|");
    let r = |s: &str| Regex::new(s).unwrap();
    Copies {
        tag: r(&tag),
        oc_line: r(&format!("{open_close}\\s*$")),
        link_open: r(r#"^<a[>\s]"#),
        link_close: r(r#"^</a\s*>"#),
        seqs: vec![
            (r(r#"(?i)^<(script|pre|style|textarea)(\s|>|$)"#), r(r#"(?i)</(script|pre|style|textarea)>"#), true),
            (r(r#"^<!--"#), r(r#"-->"#), true),
            (r(r#"^<\?"#), r(r#"\?>"#), true),
            (r(r#"^<![A-Z]"#), r(r#">"#), true),
            (r(r#"^<!\[CDATA\["#), r(r#"\]\]>"#), true),
            (r(&format!("(?i)^</?({block_names})(\\s|/?>|$)")), r(r#"^$"#), true),
            (r(&format!("{open_close}\\s*$")), r(r#"^$"#), false),
        ],
    }
});

fn copy_open(line: &str) -> Option<usize> { COPIES.seqs.iter().position(|s| s.0.is_match(line)) }

// ---------------------------------------------------------------------------------------------
// the real rules

thread_local! { static MD: MarkdownIt = MarkdownIt::new(); }

fn block_panic_class(msg: &str) -> &'static str {
    if msg.contains("index out of bounds") { "index" }
    else if msg.contains("byte index") || msg.contains("char boundary") || msg.contains("slice index") || msg.contains("out of range for slice") || msg.contains("begin <= end") { "slice" }
    else if msg.contains("attempt to subtract") { "sub" }
    else if msg.contains("assertion failed") { "assert" }
    else if msg.contains("unwrap()") { "unwrap" }
    else { "other" }
}

fn inline_panic_class(msg: &str) -> &'static str {
    if msg.contains("with overflow") && msg.contains("html_inline.rs") { "overflow" }
    else if msg.contains("attempt to subtract with overflow") { "underflow" }
    else if msg.contains("index out of bounds") { "index" }
    else if msg.contains("Option::unwrap()") { "unwrap" }
    else if msg.contains("assertion failed") { "assert" }
    else if msg.contains("byte index") || msg.contains("char boundary") || msg.contains("slice index") || msg.contains("begin <= end") || msg.contains("when slicing") || msg.contains("out of range") { "slice" }
    else { "other" }
}

/// `HtmlBlockScanner::run` → (verdict, line after, pushed node)
fn real_blk(src: &str, line: usize, blk_indent: usize, line_max: Option<usize>, silent: bool) -> Result<(bool, usize, Option<(String, usize, usize)>), String> {
    let mut env = ErasedSet::new();
    MD.with(|md| guarded(|| {
        let mut st = BlockState::new(src, md, &mut env, Node::default());
        st.line = line;
        st.blk_indent = blk_indent;
        if let Some(m) = line_max { st.line_max = m; }
        let v = HtmlBlockScanner::run(&mut st, silent);
        assert!(st.node.children.len() <= 1);
        let node = st.node.children.last().map(|n| {
            let (a, b) = n.srcmap.unwrap().get_byte_offsets();
            (n.cast::<HtmlBlock>().unwrap().content.clone(), a, b)
        });
        (v, st.line, node)
    }))
}

fn blk_answer(r: &Result<(bool, usize, Option<(String, usize, usize)>), String>) -> String {
    match r {
        Ok((v, l, node)) => format!("{}:{}:{}", *v as u8, l, match node { None => "-".to_string(), Some((c, a, b)) => format!("{}@{}-{}", hexs(c), a, b) }),
        Err(e) => format!("PANIC:{}", block_panic_class(e)),
    }
}

/// `HtmlInlineScanner::run` → (result, pos, pos_max, link_level, pushed node)
fn real_inl(src: &str, pos: usize, pos_max: usize, link_level: i32, mapping: &[(usize, usize)], silent: bool) -> Result<(Option<usize>, usize, usize, i32, Option<(String, usize, usize)>), String> {
    let mut env = ErasedSet::new();
    MD.with(|md| guarded(|| {
        let mut st = InlineState::new(src.to_owned(), mapping.to_vec(), md, &mut env, Node::default());
        st.pos = pos; st.pos_max = pos_max; st.link_level = link_level;
        let r = HtmlInlineScanner::run(&mut st, silent);
        assert!(st.node.children.len() <= 1);
        let node = st.node.children.last().map(|n| {
            let (a, b) = n.srcmap.unwrap().get_byte_offsets();
            (n.cast::<HtmlInline>().unwrap().content.clone(), a, b)
        });
        (r, st.pos, st.pos_max, st.link_level, node)
    }))
}

fn inl_answer(r: &Result<(Option<usize>, usize, usize, i32, Option<(String, usize, usize)>), String>) -> String {
    match r {
        Ok((res, p, pm, ll, node)) => format!("{} {},{},{} {}",
            match res { Some(n) => format!("some:{}", n), None => "none".into() }, p, pm, ll,
            match node { None => "-".to_string(), Some((c, a, b)) => format!("{}@{}-{}", hexs(c), a, b) }),
        Err(e) => format!("PANIC:{}", inline_panic_class(e)),
    }
}

/// `HTML_TAG_RE` through the real rule in silent mode on the window = the whole (non-empty) string:
/// every match of the pattern starts with `<` + one of `! ? / A-Z a-z`, so the two quick tests of the
/// rule never reject a string the pattern matches
fn real_tag(s: &str) -> Option<usize> {
    real_inl(s, 0, s.len(), 0, &[(0, 0)], true).expect("silent html_inline on a full window").0
}

/// the copies agree with what the real rules reveal about `s` taken as ONE line / one window
fn pin(s: &str, out: &mut Out) {
    if s.is_empty() { return; }
    let copy = COPIES.tag.find(s).map(|m| m.end());
    let real = real_tag(s);
    if copy != real { panic!("copied HTML_TAG_RE disagrees with the crate on {:?}: {:?} vs {:?}", s, copy, real); }
    out.stats.count("pin:tag");
    if s.contains('\n') || s.contains('\r') || s.starts_with(' ') || s.starts_with('\t') { return; }
    let idx = copy_open(s);
    let verdict = real_blk(s, 0, 0, None, true).expect("silent html_block on one line").0;
    if verdict != (idx.is_some() && idx != Some(6)) { panic!("copied HTML_SEQUENCES disagree with the crate on {:?}: {:?} vs {}", s, idx, verdict); }
    // real mode on `s` + a blank line + a line of every closer: the consumed extent reveals the index
    let probe = format!("{}\n\nx </style> --> ?> ]]>\n\n", s);
    if let Ok((v, l, _)) = real_blk(&probe, 0, 0, None, false) {
        let expect = match idx {
            None => (false, 0),
            Some(i) if COPIES.seqs[i].1.is_match(s) => (true, 1),
            Some(5) | Some(6) => (true, 1),
            Some(_) => (true, 3),
        };
        if (v, l) != expect { panic!("copied HTML_SEQUENCES disagree with the crate (real mode) on {:?}: {:?} vs {:?}", s, expect, (v, l)); }
    }
    out.stats.count("pin:sequence");
}

// ---------------------------------------------------------------------------------------------
// generators

const WS: &[&str] = &[" ", " ", " ", " ", "  ", "\t", "\n", "\u{a0}", "\u{2028}", "\u{3000}", "\u{85}", "\u{c}", "\u{b}", "\r",
    "\u{2003}", "\u{1680}", "\u{202f}", "\u{205f}", "\u{2029}", "\u{200a}",
    // not white space
    "\u{200b}", "\u{feff}", "\u{180e}", "\u{1f}", "\u{1c}", "\u{0}", "\u{2060}"];

/// every `White_Space` character and its neighbours
const WS_SWEEP: &[u32] = &[0x8, 0x9, 0xa, 0xb, 0xc, 0xd, 0xe, 0x1c, 0x1d, 0x1e, 0x1f, 0x20, 0x21, 0x7f, 0x84, 0x85, 0x86, 0x9f, 0xa0, 0xa1,
    0x167f, 0x1680, 0x1681, 0x180e, 0x1fff, 0x2000, 0x2001, 0x2002, 0x2003, 0x2004, 0x2005, 0x2006, 0x2007, 0x2008, 0x2009, 0x200a, 0x200b,
    0x200c, 0x200d, 0x200e, 0x2027, 0x2028, 0x2029, 0x202a, 0x202e, 0x202f, 0x2030, 0x205e, 0x205f, 0x2060, 0x2fff, 0x3000, 0x3001, 0xfeff, 0x0];

const TAG_NAMES: &[&str] = &["a", "a", "a", "A", "b", "em", "span", "x-y", "a1", "h-", "img", "input", "br", "q", "Z9-", "a-b-c", "abbr",
    "é", "1a", "-a", "a_b", "a.b", "a:b", "ſ", "\u{212a}"];

const RAW_NAMES: &[&str] = &["script", "pre", "style", "textarea"];

fn ws(rng: &mut Rng) -> &'static str { *rng.pick(WS) }

fn plain_ws(rng: &mut Rng) -> &'static str { *rng.pick(&[" ", " ", " ", "  ", "\t", " \t "]) }

/// random case + the two case-folding traps
fn fold_case(rng: &mut Rng, name: &str) -> String {
    let mode = rng.below(6);
    name.chars().map(|c| {
        if mode == 0 { return c; }
        if mode == 1 { return c.to_ascii_uppercase(); }
        if c == 's' && rng.chance(1, 4) { return '\u{17f}'; }
        if c == 'k' && rng.chance(1, 3) { return '\u{212a}'; }
        if mode == 5 && rng.chance(1, 12) { return *rng.pick(&['\u{131}', '\u{130}', 'ß', '\u{1e9e}', 'é', '0', '\u{fb06}', '\u{ff53}', '\u{1c88}']); }
        if rng.chance(1, 2) { c.to_ascii_uppercase() } else { c }
    }).collect()
}

fn tag_name(rng: &mut Rng) -> String {
    match rng.below(10) {
        0 | 1 => { let n = *rng.pick(&HTML_BLOCKS); fold_case(rng, n) }
        2 => { let n = *rng.pick(RAW_NAMES); fold_case(rng, n) }
        3 => format!("{}{}", *rng.pick(&HTML_BLOCKS), *rng.pick(&["x", "1", "-", "s", "font"])),
        _ => (*rng.pick(TAG_NAMES)).to_string(),
    }
}

fn attr_name(rng: &mut Rng) -> &'static str {
    *rng.pick(&["href", "b", "c", "_x", ":y", "a.b", "a:b-c", "data-x", "X1", "x_", "é", "1a", "-a", ".a", "a\u{a0}", "a/b", ""])
}

fn attr_value(rng: &mut Rng) -> String {
    match rng.below(14) {
        0 | 1 => (*rng.pick(&["c", "c/", "/", "1", "a&b", "é", "x.y", "a-b", "/u/v", "#", "a\\", "a(b)", "[x]", "{y}", "a|b", "~", "😀"])).to_string(),
        2 => (*rng.pick(&["x\u{a0}y", "\u{a0}", "a\u{2028}b", "x\u{3000}", "\u{85}z", "p\u{a0}q\u{a0}r", "x\u{a0}y=z", "x\u{2003}y='>'", "\u{a0}\u{a0}", "a\u{a0}/"])).to_string(),
        3 => (*rng.pick(&["x`", "a=b", "a<b", "a\"b", "a'b", "a b", "", "a\tb", "\u{1f}", "a\u{0}"])).to_string(),
        4 | 5 | 6 => format!("'{}'", *rng.pick(&["x", "", "a b>c", "\"", "a\nb", "é", " ", "<b>", "a=b", "/>", "\u{a0}"])),
        7 | 8 | 9 => format!("\"{}\"", *rng.pick(&["x", "", "a b>c", "'", "a\nb", "é", " ", "<b>", "a=b", "/>", "\u{a0}"])),
        10 => (*rng.pick(&["'unterminated", "\"unterminated", "'a\"", "\"a'", "'", "\""])).to_string(),
        _ => format!("{}{}", *rng.pick(&["c", "x", "1"]), *rng.pick(&["", "/", "//"])),
    }
}

fn attribute(rng: &mut Rng) -> String {
    let mut s = String::new();
    let k = *rng.pick(&[1usize, 1, 1, 1, 2, 0]);
    for _ in 0..k { s.push_str(if rng.chance(1, 4) { ws(rng) } else { plain_ws(rng) }); }
    s.push_str(attr_name(rng));
    if rng.chance(2, 3) {
        if rng.chance(1, 4) { s.push_str(ws(rng)); }
        s.push('=');
        if rng.chance(1, 4) { s.push_str(ws(rng)); if rng.chance(1, 3) { s.push_str(ws(rng)); } }
        s.push_str(&attr_value(rng));
    }
    s
}

fn open_tag(rng: &mut Rng) -> String {
    let mut s = format!("<{}", tag_name(rng));
    for _ in 0..*rng.pick(&[0usize, 0, 1, 1, 1, 2, 2, 3, 5]) { s.push_str(&attribute(rng)); }
    if rng.chance(1, 3) { s.push_str(ws(rng)); }
    s.push_str(*rng.pick(&[">", ">", ">", ">", "/>", "/>", "", "//>", "/ >", "/"]));
    s
}

fn close_tag(rng: &mut Rng) -> String {
    format!("<{}{}{}{}", *rng.pick(&["/", "/", "/", "/", "/ ", "//"]), tag_name(rng),
        *rng.pick(&["", "", "", " ", "  ", "\t", "\n", "\u{a0}", "\u{2028}", " b", "/", " /", "\u{200b}"]), *rng.pick(&[">", ">", ">", ""]))
}

fn comment(rng: &mut Rng) -> String {
    if rng.chance(1, 3) {
        return (*rng.pick(&["<!---->", "<!-->", "<!--->", "<!--a--b-->", "<!----->", "<!------>", "<!-- -->", "<!--a-->", "<!--a--->", "<!---a-->",
            "<!--->-->", "<!-->-->", "<!--a>b-->", "<!---->-->", "<!--a-", "<!--a--", "<!--", "<!-", "<!--é-->", "<!--a\nb-->", "<!--a- -b-->", "<!-- a -- b -->",
            "<!--a->-->", "<!--a-b-c-->", "<!---\n-->", "<!---- -->", "<!--x-->y-->"])).to_string();
    }
    let mut s = String::from("<!--");
    for _ in 0..rng.range(0, 5) { s.push_str(*rng.pick(&["a", "-", "--", "->", ">", "b c", "\n", "é", "-a", "a-", " ", "<", "!", "\u{a0}"])); }
    s.push_str(*rng.pick(&["-->", "-->", "-->", "--", "->", "", "--->"]));
    s
}

fn processing(rng: &mut Rng) -> String {
    if rng.chance(1, 3) {
        return (*rng.pick(&["<??>", "<?>", "<?>?>", "<? ?>", "<?php echo '>' ?>", "<?a?b?>", "<?a\nb?>", "<?", "<?a", "<?a?", "<?é?>", "<??", "<???>", "<?x? >?>"])).to_string();
    }
    let mut s = String::from("<?");
    for _ in 0..rng.range(0, 4) { s.push_str(*rng.pick(&["a", "?", ">", "php ", "\n", "é", " ", "<", "?>"])); }
    s.push_str(*rng.pick(&["?>", "?>", "?", ">", ""]));
    s
}

fn declaration(rng: &mut Rng) -> String {
    if rng.chance(1, 3) {
        return (*rng.pick(&["<!DOCTYPE html>", "<!DOCTYPE>", "<!D >", "<!D\u{a0}>", "<!doctype html>", "<!Doctype x>", "<!D1 x>", "<!É x>", "<!X\n\ny>", "<!X y",
            "<!X  a<b >", "<!ELEMENT br EMPTY>", "<!A\t>", "<! A b>", "<!A-B c>", "<!ſ x>", "<!\u{212a} x>", "<!A\u{2028}b>>"])).to_string();
    }
    format!("<!{}{}{}{}", *rng.pick(&["DOCTYPE", "X", "AB", "doctype", "Ab", "A1", ""]), ws(rng), *rng.pick(&["", "html", "a b", "é", "<", "\n", "'>'"]), *rng.pick(&[">", ">", ""]))
}

fn cdata(rng: &mut Rng) -> String {
    if rng.chance(1, 3) {
        return (*rng.pick(&["<![CDATA[]]>", "<![CDATA[x]]>", "<![CDATA[]]]>", "<![CDATA[]]]]>", "<![CDATA[]>]]>", "<![CDATA[ ]] >]]>", "<![cdata[x]]>", "<![CDATA [x]]>",
            "<![CDATA[x]]", "<![CDATA[", "<![CDATA", "<![CDATA[a\nb]]>", "<![CDATA[é]]>x]]>", "<![CDATA[<b>]]>"])).to_string();
    }
    let mut s = String::from("<![CDATA[");
    for _ in 0..rng.range(0, 4) { s.push_str(*rng.pick(&["a", "]", "]]", ">", "]>", "\n", "é", " ", "<"])); }
    s.push_str(*rng.pick(&["]]>", "]]>", "]]", "]>", ""]));
    s
}

const ALPHABET: &[&str] = &["<", ">", "!", "?", "/", "-", "=", "\"", "'", " ", "\t", "\n", "a", "b", "A", "[", "]", "`", "\u{a0}", "\u{2028}", "é", "😀", "ſ", "\u{212a}", "C", "D", "T", "s", "k", "\r", "\u{0}"];

fn mutate(rng: &mut Rng, s: &str) -> String {
    let cs: Vec<char> = s.chars().collect();
    if cs.is_empty() { return s.to_string(); }
    let mut out = String::new();
    let at = rng.below(cs.len());
    let op = rng.below(4);
    for (i, c) in cs.iter().enumerate() {
        if i == at {
            match op {
                0 => continue,
                1 => { out.push_str(*rng.pick(ALPHABET)); out.push(*c); continue; }
                2 => { out.push_str(*rng.pick(ALPHABET)); continue; }
                _ => { return out; }
            }
        }
        out.push(*c);
    }
    out
}

fn random_string(rng: &mut Rng) -> String {
    let mut s = String::from(if rng.chance(4, 5) { "<" } else { "" });
    for _ in 0..rng.range(0, 10) { s.push_str(*rng.pick(ALPHABET)); }
    s
}

fn fragment(rng: &mut Rng, out: &mut Out) -> String {
    let f = match rng.below(20) {
        0..=6 => { out.stats.count("gen:open-tag"); open_tag(rng) }
        7 | 8 => { out.stats.count("gen:close-tag"); close_tag(rng) }
        9 | 10 | 11 => { out.stats.count("gen:comment"); comment(rng) }
        12 | 13 => { out.stats.count("gen:processing"); processing(rng) }
        14 | 15 => { out.stats.count("gen:declaration"); declaration(rng) }
        16 | 17 => { out.stats.count("gen:cdata"); cdata(rng) }
        18 => { out.stats.count("gen:link-forms"); (*rng.pick(&["<a>", "<a href>", "</a >", "<A>", "</a>", "<a\n>", "<a\u{a0}>", "<a/>", "<ab>", "</ab>", "</A>", "</a\u{2028}>", "<a\tb>", "</a\n\n>", "<a x='</a>'>"])).to_string() }
        _ => { out.stats.count("gen:random"); random_string(rng) }
    };
    if rng.chance(1, 5) { out.stats.count("gen:mutated"); mutate(rng, &f) } else { f }
}

fn tail(rng: &mut Rng) -> &'static str {
    *rng.pick(&["", "", "", "x", " ", ">", "<b>", "  ", "\u{a0}", "\t ", " x", "\u{2028}", "\u{3000}\u{85}", " \u{200b}", "-->", "?>", "]]>", "</pre>"])
}

fn one_line(s: &str) -> String { s.replace('\n', " ").replace('\r', " ") }

fn count_tag(out: &mut Out, s: &str, m: Option<usize>) {
    match m {
        None => out.stats.count("tag:none"),
        Some(n) => {
            let t = &s[..n];
            let key = if t.starts_with("<!--") { "tag:comment" } else if t.starts_with("<![") { "tag:cdata" } else if t.starts_with("<!") { "tag:declaration" }
                else if t.starts_with("<?") { "tag:processing" } else if t.starts_with("</") { "tag:close" } else { "tag:open" };
            out.stats.count(key);
            if t.chars().any(|c| !c.is_ascii() && c.is_whitespace()) { out.stats.count("tag:unicode-white-space-inside"); }
            if n < s.len() { out.stats.count("tag:proper-prefix"); }
        }
    }
}

fn emit_tag(out: &mut Out, s: &str) {
    if s.is_empty() { return; }
    pin(s, out);
    let m = real_tag(s);
    count_tag(out, s, m);
    out.emit(&format!("html tag {}", hexs(s)), &match m { Some(n) => n.to_string(), None => "none".into() }, m.is_some());
}

fn emit_line_ops(out: &mut Out, rng: &mut Rng, line: &str) {
    pin(line, out);
    let idx = copy_open(line);
    match idx { Some(i) => out.stats.count(&format!("open:seq{}", i)), None => out.stats.count("open:none") }
    out.emit(&format!("html open {}", hexs(line)), &match idx { Some(i) => i.to_string(), None => "none".into() }, idx.is_some());
    let i = rng.below(7);
    let o = COPIES.seqs[i].0.is_match(line);
    if o { out.stats.count(&format!("openi:{}:true", i)); }
    out.emit(&format!("html openi {} {}", i, hexs(line)), &(o as u8).to_string(), o);
    let all = rng.chance(1, 2);
    let only = rng.below(7);
    for j in 0..7 {
        if !all && j != only { continue; }
        let c = COPIES.seqs[j].1.is_match(line);
        if c { out.stats.count(&format!("close:{}:true", j)); }
        out.emit(&format!("html close {} {}", j, hexs(line)), &(c as u8).to_string(), c);
    }
    if rng.chance(1, 3) {
        let m = COPIES.oc_line.is_match(line);
        if m { out.stats.count("ocline:true"); }
        out.emit(&format!("html ocline {}", hexs(line)), &(m as u8).to_string(), m);
    }
    if rng.chance(1, 3) {
        let lo = COPIES.link_open.is_match(line);
        let lc = COPIES.link_close.is_match(line);
        if lo { out.stats.count("linkopen:true"); }
        if lc { out.stats.count("linkclose:true"); }
        out.emit(&format!("html linkopen {}", hexs(line)), &(lo as u8).to_string(), lo);
        out.emit(&format!("html linkclose {}", hexs(line)), &(lc as u8).to_string(), lc);
    }
}

/// a line that opens (or nearly opens) an html block
fn opener_line(rng: &mut Rng, out: &mut Out) -> String {
    match rng.below(12) {
        0 | 1 => { let n = *rng.pick(RAW_NAMES); format!("<{}{}", fold_case(rng, n), *rng.pick(&["", ">", " ", " x>", "\u{a0}", "\u{2028}y", "\t", "x", "/>", "/", ">z</pre>", ">a</SCRIPT>b", "></\u{17f}tyle>", "-", "1"])) }
        2 | 3 | 4 => { let n = *rng.pick(&HTML_BLOCKS); format!("<{}{}{}", *rng.pick(&["", "", "/", "//", " "]), fold_case(rng, n), *rng.pick(&["", ">", "/>", " x", "/", "/ >", "x", "\u{a0}", "\t", ">>", " a='b'>", "1", "-", ">text", "\u{3000}>", "/>x", "font", "s"])) }
        5 => (*rng.pick(&["<!--", "<!-- x", "<!-- x -->", "<!---->", "<!-", "<!-->", "<?", "<?php", "<? ?>", "<?>", "<!A", "<!a", "<!DOCTYPE html>", "<!X", "<!É", "<![CDATA[", "<![CDATA[x]]>", "<![CDATA", "<![cdata[", "<!["])).to_string(),
        _ => { let f = fragment(rng, out); format!("{}{}", one_line(&f), tail(rng)) }
    }
}

fn body_line(rng: &mut Rng, out: &mut Out) -> String {
    match rng.below(14) {
        0 | 1 => "foo".into(),
        2 | 3 => String::new(),
        4 => (*rng.pick(&[" ", "  ", "\t", "    "])).to_string(),
        5 => (*rng.pick(&["</script>", "foo</PRE>bar", "</\u{17f}tyle>", "</textarea >", "</textarea", "< /pre>", "</pre\u{a0}>", "</TEXTAREA>x", "</scripT>"])).to_string(),
        6 => (*rng.pick(&["-->", "a --> b", "--->", "-- >", "->"])).to_string(),
        7 => (*rng.pick(&["?>", "a ?> b", "? >", "??>"])).to_string(),
        8 => (*rng.pick(&[">", "a > b", "]]>", "a ]]> b", "]] >", "]>"])).to_string(),
        9 => { let f = fragment(rng, out); one_line(&f) }
        10 => "é 日本".into(),
        _ => (*rng.pick(&["bar", "- x", "> q", "<div>", "</div>", "# h", "***"])).to_string(),
    }
}

fn indent(rng: &mut Rng) -> &'static str {
    *rng.pick(&["", "", "", "", "", " ", "  ", "   ", "    ", "     ", "\t", " \t", "  \t "])
}

fn emit_blk(out: &mut Out, rng: &mut Rng) {
    let nbody = *rng.pick(&[0usize, 0, 1, 1, 2, 3, 4, 6]);
    let term = *rng.pick(&["\n", "\n", "\n", "\n", "\r\n", "\r"]);
    let mut lines: Vec<String> = vec![];
    let nbefore = *rng.pick(&[0usize, 0, 0, 1, 2]);
    for _ in 0..nbefore { let b = body_line(rng, out); lines.push(format!("{}{}", indent(rng), b)); }
    let opener = opener_line(rng, out);
    lines.push(format!("{}{}", indent(rng), opener));
    for _ in 0..nbody { let b = body_line(rng, out); lines.push(format!("{}{}", indent(rng), b)); }
    let mut src = lines.join(term);
    if rng.chance(2, 3) { src.push_str(term); }
    if rng.chance(1, 8) { src.push_str(term); }
    let nlines = MD.with(|md| { let mut env = ErasedSet::new(); BlockState::new(&src, md, &mut env, Node::default()).line_max });
    let line = match rng.below(12) { 0 => rng.below(nlines + 1), 1 => nlines + rng.below(2), _ => nbefore.min(nlines.saturating_sub(1)) };
    let blk_indent = *rng.pick(&[0usize, 0, 0, 0, 0, 1, 2, 3, 4, 7]);
    let line_max = match rng.below(12) { 0 => Some(rng.below(nlines + 2)), 1 => Some(nlines + 1), _ => None };
    for silent in [true, false] {
        let r = real_blk(&src, line, blk_indent, line_max, silent);
        match &r {
            Ok((v, l, node)) => {
                if silent { out.stats.count(if *v { "blk:silent:true" } else { "blk:silent:false" }); }
                else if *v {
                    let (_, a, b) = node.as_ref().unwrap();
                    out.stats.count("blk:real:true");
                    if let Some(i) = copy_open(src[*a..].split(|c| c == '\n' || c == '\r').next().unwrap_or("")) { out.stats.count(&format!("blk:real:seq{}", i)); }
                    if *l == line + 1 { out.stats.count("blk:one-line"); } else { out.stats.count("blk:multi-line"); }
                    let lm = line_max.unwrap_or(nlines);
                    if *l >= lm { out.stats.count("blk:ran-to-line-max"); }
                    if *b < src.len() && *l < lm && *l > line + 1 { out.stats.count("blk:stopped-before-end"); }
                    if *l < lm && *l < nlines && MD.with(|md| { let mut env = ErasedSet::new(); let mut st = BlockState::new(&src, md, &mut env, Node::default()); st.blk_indent = blk_indent; st.line_indent(*l) < 0 }) { out.stats.count("blk:stopped-at-negative-indent"); }
                } else { out.stats.count("blk:real:false"); }
            }
            Err(e) => out.stats.count(&format!("blk:panic-{}", block_panic_class(e))),
        }
        out.emit(&format!("html blk {} {} {} {} {}", silent as u8, hexs(&src), line, blk_indent, match line_max { Some(m) => m.to_string(), None => "-".into() }),
            &blk_answer(&r), matches!(r, Ok((true, _, _))));
    }
}

fn boundary(s: &str, mut p: usize) -> usize { while p < s.len() && !s.is_char_boundary(p) { p += 1; } p.min(s.len()) }

fn emit_inl(out: &mut Out, rng: &mut Rng) {
    let prefix = *rng.pick(&["", "", "", "x ", "é", "ab\ncd ", "<", "日本", "a<b> "]);
    let extreme = rng.chance(1, 8);
    let frag = if extreme { (*rng.pick(&["<a>", "<a href='x'>", "</a >", "</a>", "<a\n>", "<a\u{a0}b>", "</a\u{2028}>", "<A>", "<ab>", "</ab>"])).to_string() } else { fragment(rng, out) };
    let src = format!("{}{}{}", prefix, frag, tail(rng));
    if src.is_empty() { return; }
    let pos = match rng.below(12) { 0 => boundary(&src, rng.below(src.len() + 1)), 1 => rng.below(src.len() + 2), _ => prefix.len() };
    let pos_max = match rng.below(12) { 0 => boundary(&src, rng.below(src.len() + 1)), 1 => rng.below(src.len() + 3), 2 => boundary(&src, prefix.len() + frag.len()), 3 => boundary(&src, prefix.len() + rng.below(frag.len() + 1)), _ => src.len() };
    let link_level = if extreme { *rng.pick(&[i32::MAX, i32::MIN, i32::MAX - 1, i32::MIN + 1]) } else { *rng.pick(&[0i32, 0, 0, 0, 1, -1, 5, i32::MAX, i32::MIN, i32::MAX - 1, i32::MIN + 1]) };
    let mapping: Vec<(usize, usize)> = match rng.below(10) {
        0 => vec![],
        1 => vec![(0, 7)],
        2 => vec![(1, 0)],
        3 | 4 => { // one entry per line of `src`, with a shift per line
            let mut m = vec![(0usize, 3usize)]; let mut off = 3usize;
            for (i, b) in src.bytes().enumerate() { if b == b'\n' { off += 2; m.push((i + 1, i + 1 + off)); } }
            m
        }
        5 => vec![(0, 0), (2, 2), (4, 10)],
        _ => vec![(0, 0)],
    };
    let map_s = if mapping.is_empty() { "-".to_string() } else { mapping.iter().map(|(a, b)| format!("{}/{}", a, b)).collect::<Vec<_>>().join(",") };
    for silent in [true, false] {
        let r = real_inl(&src, pos, pos_max, link_level, &mapping, silent);
        match &r {
            Ok((res, _, _, ll, _)) => {
                out.stats.count(&format!("inl:{}:{}", if silent { "silent" } else { "real" }, if res.is_some() { "some" } else { "none" }));
                if *ll == link_level.wrapping_add(1) { out.stats.count("inl:link-level+1"); }
                if *ll == link_level.wrapping_sub(1) { out.stats.count("inl:link-level-1"); }
            }
            Err(e) => out.stats.count(&format!("inl:panic-{}", inline_panic_class(e))),
        }
        out.emit(&format!("html inl {} {} {} {} {} {}", silent as u8, hexs(&src), pos, pos_max, link_level, map_s), &inl_answer(&r), matches!(r, Ok((Some(_), ..))));
    }
}

/// deterministic sweeps: `\s` in every position class, the case folding of every block name
fn sweeps(out: &mut Out) {
    for &cp in WS_SWEEP {
        let c = char::from_u32(cp).unwrap();
        for s in [format!("<a{}b>", c), format!("<a b{}={}c>", c, c), format!("<a b=x{}y>", c), format!("<a b=x{}y='>'>z", c), format!("<a b={}>", c), format!("<a{}>", c),
                  format!("</a{}>", c), format!("<!A{}>", c), format!("<a b=c{}/>", c), format!("<a>{}", c), format!("<a b='{}'{}c=\"{}\">", c, c, c)] {
            emit_tag(out, &s);
        }
        if c != '\n' && c != '\r' {
            for s in [format!("<pre{}", c), format!("<div{}", c), format!("<x>{}", c), format!("</x{}>{}{}", c, c, c), format!("<a{}", c)] {
                pin(&s, out);
                let idx = copy_open(&s);
                out.emit(&format!("html open {}", hexs(&s)), &match idx { Some(i) => i.to_string(), None => "none".into() }, idx.is_some());
            }
        }
    }
    for name in HTML_BLOCKS.iter().chain(RAW_NAMES.iter()) {
        let variants = [name.to_string(), name.to_uppercase(), name.replace('s', "\u{17f}"), name.replace('k', "\u{212a}"),
            name.replace('i', "\u{131}"), name.replace('i', "\u{130}"), name.replace("ss", "ß"), name.replace("st", "\u{fb06}")];
        for v in variants.iter() {
            for s in [format!("<{}", v), format!("</{}>", v), format!("<{}/>x", v), format!("<{}x", v)] {
                pin(&s, out);
                let idx = copy_open(&s);
                out.emit(&format!("html open {}", hexs(&s)), &match idx { Some(i) => i.to_string(), None => "none".into() }, idx.is_some());
            }
            let c = format!("x</{}>y", v);
            let m = COPIES.seqs[0].1.is_match(&c);
            out.emit(&format!("html close 0 {}", hexs(&c)), &(m as u8).to_string(), m);
        }
    }
    out.stats.count("sweeps");
}

pub fn run(n: usize, rng: &mut Rng, out: &mut Out) {
    sweeps(out);
    let mut i = 0usize;
    while (out.stats.evaluations as usize) < n {
        match i % 8 {
            0 | 1 => { let f = fragment(rng, out); let s = format!("{}{}", f, tail(rng)); emit_tag(out, &s); }
            2 => { let l = opener_line(rng, out); emit_line_ops(out, rng, &l); }
            3 => { let l = body_line(rng, out); emit_line_ops(out, rng, &l); }
            4 | 5 => emit_blk(out, rng),
            _ => emit_inl(out, rng),
        }
        i += 1;
    }
}
