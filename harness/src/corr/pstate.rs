//! stream `pstate`: add/remove/has/parse/Debug histories on ONE real `MarkdownIt::new()` vs the Lean
//! state machine `MdIt.ParserState` (configuration + `compiled` cells + `text_impl`).
//!
//! Request  `pstate hist <ops>` (ops `;`-separated, see `/verif/lean/Driver/ParserState.lean`):
//!   AB<id><mods> RB<id>  AI<id>:<marker><mods> RI<id>:<marker>  AC<id><mods> RC<id>  HB/HI/HC<id>
//!   Q<k> (parse only)  D (`format!("{:?}", md)`)  P<k> (parse, then D)
//!   docs: k=0 blank source, k=1 "a xx b" (reaches block chain, inline chain, text scanner),
//!         k=2 "@@@" (only generated while an `AtRule` is registered: block chain only)
//!   <mods>: /b<id> /a<id> /r<id> /l<id> /B /A  = before, after, require, alias, before_all, after_all
//! Answer: `;`-joined items, `-` if none.  H → 1|0;  Q → ok|!<err>;  D → B[ids]I[ids]C[ids]T<…>M[…] | !<err>;
//!   P → D's item, prefixed `!<err>/` when the parse panicked.   <err> = missing:<rule>:<mark> | cyclic | PANIC:<msg>
//! Everything in a D item is read from the `Debug` output of the real parser: the three `compiled: [...]`
//! lists (type names mapped back to ids), `text_impl: OnceCell(..)` (regex class un-escaped, sorted code
//! points) and `text_charmap: {..}` (sorted by key).
//!
//! ids: block AtRuleB 1, AtRuleA 2; inline PairX 10 'x', PairParen 11 '(', PairE 12 'é', PairPlus 13 '+',
//!      TextScanner 902 (no marker); core StampRule 20, BlockParserRule 900, InlineParserRule 901.
use super::Out;
use crate::custom::*;
use crate::rng::Rng;
use crate::util::guarded;
use markdown_it::parser::block::builtin::BlockParserRule;
use markdown_it::parser::inline::builtin::{InlineParserRule, TextScanner};
use markdown_it::parser::inline::InlineRule;
use markdown_it::MarkdownIt;

const BLOCK_IDS: [usize; 2] = [1, 2];
const INLINE_IDS: [usize; 5] = [10, 11, 12, 13, 902];
const CORE_IDS: [usize; 3] = [20, 900, 901];

macro_rules! on_block {
    ($k:expr, $T:ident => $e:expr) => { match $k {
        1 => { type $T = AtRuleB; $e }
        2 => { type $T = AtRuleA; $e }
        _ => unreachable!(),
    } };
}
macro_rules! on_inline {
    ($k:expr, $T:ident => $e:expr) => { match $k {
        10 => { type $T = PairX; $e }
        11 => { type $T = PairParen; $e }
        12 => { type $T = PairE; $e }
        13 => { type $T = PairPlus; $e }
        902 => { type $T = TextScanner; $e }
        _ => unreachable!(),
    } };
}
macro_rules! on_core {
    ($k:expr, $T:ident => $e:expr) => { match $k {
        20 => { type $T = StampRule; $e }
        900 => { type $T = BlockParserRule; $e }
        901 => { type $T = InlineParserRule; $e }
        _ => unreachable!(),
    } };
}

#[derive(Clone, Copy)]
enum Mod { Before(usize), After(usize), Require(usize), Alias(usize), BeforeAll, AfterAll }

impl Mod {
    fn enc(&self) -> String {
        match *self {
            Mod::Before(k) => format!("/b{}", k), Mod::After(k) => format!("/a{}", k), Mod::Require(k) => format!("/r{}", k),
            Mod::Alias(k) => format!("/l{}", k), Mod::BeforeAll => "/B".into(), Mod::AfterAll => "/A".into(),
        }
    }
}

macro_rules! apply_mods {
    ($b:expr, $mods:expr, $on:ident) => {{
        let mut b = $b;
        for m in $mods.iter() {
            b = match *m {
                Mod::BeforeAll => b.before_all(),
                Mod::AfterAll => b.after_all(),
                Mod::Before(k) => $on!(k, U => b.before::<U>()),
                Mod::After(k) => $on!(k, U => b.after::<U>()),
                Mod::Require(k) => $on!(k, U => b.require::<U>()),
                Mod::Alias(k) => $on!(k, U => b.alias::<U>()),
            };
        }
        let _ = b;
    }};
}

fn marker_of(id: usize) -> u32 { on_inline!(id, T => <T as InlineRule>::MARKER as u32) }

fn id_of_type(path: &str) -> usize {
    match path.trim().rsplit("::").next().unwrap_or("") {
        "AtRuleB" => 1, "AtRuleA" => 2,
        "PairX" => 10, "PairParen" => 11, "PairE" => 12, "PairPlus" => 13, "TextScanner" => 902,
        "StampRule" => 20, "BlockParserRule" => 900, "InlineParserRule" => 901,
        _ => 99999,
    }
}

fn canon_err(e: &str) -> String {
    let msg = e.split(" @ ").next().unwrap_or("");
    if msg.starts_with("cyclic dependency") { return "!cyclic".into(); }
    if let Some(rest) = msg.strip_prefix("missing dependency: ") {
        let p: Vec<&str> = rest.split(" requires ").collect();
        if p.len() == 2 { return format!("!missing:{}:{}", id_of_type(p[0]), id_of_type(p[1])); }
    }
    format!("!PANIC:{}", e.replace(' ', "_").replace(';', ","))
}

/// the `n`-th `compiled: [(idx, Type), …]` of a Debug string → `[id,id,…]`
fn chain(dbg: &str, n: usize) -> String {
    let mut from = 0;
    let mut body = None;
    for _ in 0..=n {
        match dbg[from..].find("compiled: [") {
            Some(p) => { let s = from + p + "compiled: [".len(); let e = s + dbg[s..].find(']').unwrap(); body = Some(&dbg[s..e]); from = e; }
            None => return "[?]".into(),
        }
    }
    let body = body.unwrap();
    let mut ids = vec![];
    for part in body.split("), ") {
        let part = part.trim().trim_start_matches('(').trim_end_matches(')');
        if part.is_empty() { continue; }
        let ty = part.splitn(2, ", ").nth(1).unwrap_or("");
        ids.push(id_of_type(ty).to_string());
    }
    format!("[{}]", ids.join(","))
}

/// one Rust `Debug`-escaped character starting at `cs[*i]` (inside '…' or "…")
fn unescape_at(cs: &[char], i: &mut usize) -> char {
    if cs[*i] != '\\' { let c = cs[*i]; *i += 1; return c; }
    let c = cs[*i + 1];
    *i += 2;
    match c {
        'n' => '\n', 't' => '\t', 'r' => '\r', '0' => '\0',
        'u' => { // \u{…}
            let mut v = 0u32; *i += 1; while cs[*i] != '}' { v = v * 16 + cs[*i].to_digit(16).unwrap(); *i += 1; } *i += 1;
            char::from_u32(v).unwrap()
        }
        other => other,
    }
}

fn text_impl(dbg: &str) -> String {
    let key = "text_impl: OnceCell(";
    let s = match dbg.find(key) { Some(p) => &dbg[p + key.len()..], None => return "T?".into() };
    if s.starts_with("Uninit") || s.starts_with("<uninit>") { return "Tnone".into(); }
    if s.starts_with("SkipPunct") { return "Tpunct".into(); }
    let key = "SkipRegex(Regex(\"";
    if !s.starts_with(key) { return "T?".into(); }
    let cs: Vec<char> = s[key.len()..].chars().collect();
    // the pattern: a Debug-quoted string literal
    let mut pat = vec![];
    let mut i = 0;
    while cs[i] != '"' { pat.push(unescape_at(&cs, &mut i)); }
    let pat: String = pat.into_iter().collect();
    let inner = match pat.strip_prefix("^[^").and_then(|p| p.strip_suffix("]+")) { Some(x) => x, None => return "T?".into() };
    // undo `regex::escape`
    let mut stops: Vec<u32> = vec![];
    let mut it = inner.chars();
    while let Some(c) = it.next() { stops.push(if c == '\\' { it.next().unwrap() as u32 } else { c as u32 }); }
    stops.sort();
    format!("Tregex:{}", stops.iter().map(|x| x.to_string()).collect::<Vec<_>>().join(","))
}

fn charmap(dbg: &str) -> String {
    let key = "text_charmap: {";
    let s = match dbg.find(key) { Some(p) => &dbg[p + key.len()..], None => return "M?".into() };
    let cs: Vec<char> = s.chars().collect();
    let mut i = 0;
    let mut entries: Vec<(u32, String)> = vec![];
    while cs[i] != '}' {
        if cs[i] == ',' || cs[i] == ' ' { i += 1; continue; }
        assert!(cs[i] == '\''); i += 1;
        let ch = unescape_at(&cs, &mut i);
        assert!(cs[i] == '\''); i += 1;
        while cs[i] != '[' { i += 1; }
        i += 1;
        let st = i;
        while cs[i] != ']' { i += 1; }
        let body: String = cs[st..i].iter().collect();
        i += 1;
        let ids: Vec<String> = body.split(", ").filter(|x| !x.trim().is_empty()).map(|x| id_of_type(x).to_string()).collect();
        entries.push((ch as u32, ids.join(",")));
    }
    entries.sort();
    format!("M[{}]", entries.iter().map(|(k, v)| format!("{}={}", k, v)).collect::<Vec<_>>().join("|"))
}

fn observe(md: &MarkdownIt, out: &mut Out) -> String {
    match guarded(|| format!("{:?}", md)) {
        Ok(d) => {
            let t = text_impl(&d);
            out.stats.count(if t == "Tnone" { "dbg_text_none" } else if t == "Tpunct" { "dbg_text_punct" } else { "dbg_text_regex" });
            format!("B{}I{}C{}{}{}", chain(&d, 0), chain(&d, 1), chain(&d, 2), t, charmap(&d))
        }
        Err(e) => { out.stats.count("dbg_panic"); canon_err(&e) }
    }
}

fn doc(k: usize, rng: &mut Rng) -> &'static str {
    match k {
        0 => *rng.pick(&["", "\n", "  \n\n", "   "]),
        1 => *rng.pick(&["a xx b", "a xx b\n\n(( éé ++", "word", "@@@ a\nb"]),
        _ => *rng.pick(&["@@@", "@@@\n\n@@@", "\n@@@  \n"]),
    }
}

fn gen_mods(rng: &mut Rng, own: usize, family: &[usize]) -> Vec<Mod> {
    if !rng.chance(2, 5) { return vec![]; }
    let n = rng.range(1, 2);
    // a constraint naming the rule itself is an immediate cycle: keep those rare
    (0..n).map(|_| { let mut t = *rng.pick(family); if t == own && rng.chance(3, 4) { t = *rng.pick(family); } match rng.below(8) { 0 | 1 => Mod::Before(t), 2 | 3 => Mod::After(t), 4 => Mod::Require(t), 5 => Mod::Alias(t), 6 => Mod::BeforeAll, _ => Mod::AfterAll } }).collect()
}

enum HOp {
    AddB(usize, Vec<Mod>), RemB(usize), AddI(usize, Vec<Mod>), RemI(usize), AddC(usize, Vec<Mod>), RemC(usize),
    HasB(usize), HasI(usize), HasC(usize),
    /// (document class, source, followed by Debug?)
    Parse(usize, &'static str, bool),
    Debug,
}

struct Hist { md: MarkdownIt, ops: Vec<String>, res: Vec<String>, parses: usize, cfg_after_parse: bool, cfg_between: bool }

fn encm(mods: &[Mod]) -> String { mods.iter().map(|m| m.enc()).collect() }

impl Hist {
    fn new() -> Self { Hist { md: MarkdownIt::new(), ops: vec![], res: vec![], parses: 0, cfg_after_parse: false, cfg_between: false } }
    fn cfg(&mut self) { if self.parses > 0 { self.cfg_after_parse = true; } }
    fn apply(&mut self, op: HOp, out: &mut Out) {
        let md = &mut self.md;
        match op {
            HOp::AddB(id, mods) => { on_block!(id, T => apply_mods!(md.block.add_rule::<T>(), mods, on_block)); self.ops.push(format!("AB{}{}", id, encm(&mods))); out.stats.count("add_block"); self.cfg(); }
            HOp::AddC(id, mods) => { on_core!(id, T => apply_mods!(md.add_rule::<T>(), mods, on_core)); self.ops.push(format!("AC{}{}", id, encm(&mods))); out.stats.count("add_core"); self.cfg(); }
            HOp::AddI(id, mods) => { on_inline!(id, T => apply_mods!(md.inline.add_rule::<T>(), mods, on_inline)); self.ops.push(format!("AI{}:{}{}", id, marker_of(id), encm(&mods))); out.stats.count("add_inline"); self.cfg(); }
            HOp::RemB(id) => { on_block!(id, T => md.block.remove_rule::<T>()); self.ops.push(format!("RB{}", id)); out.stats.count("remove_block"); self.cfg(); }
            HOp::RemC(id) => { on_core!(id, T => md.remove_rule::<T>()); self.ops.push(format!("RC{}", id)); out.stats.count("remove_core"); self.cfg(); }
            HOp::RemI(id) => { on_inline!(id, T => md.inline.remove_rule::<T>()); self.ops.push(format!("RI{}:{}", id, marker_of(id))); out.stats.count("remove_inline"); self.cfg(); }
            HOp::HasB(id) => { let b = on_block!(id, T => md.block.has_rule::<T>()); self.ops.push(format!("HB{}", id)); self.res.push((b as u8).to_string()); out.stats.count("has"); }
            HOp::HasC(id) => { let b = on_core!(id, T => md.has_rule::<T>()); self.ops.push(format!("HC{}", id)); self.res.push((b as u8).to_string()); out.stats.count("has"); }
            HOp::HasI(id) => { let b = on_inline!(id, T => md.inline.has_rule::<T>()); self.ops.push(format!("HI{}", id)); self.res.push((b as u8).to_string()); out.stats.count("has"); }
            HOp::Debug => { self.ops.push("D".into()); let d = observe(md, out); self.res.push(d); out.stats.count("debug_alone"); }
            HOp::Parse(kdoc, src, with_debug) => {
                if self.parses > 0 && self.cfg_after_parse { self.cfg_between = true; }
                self.parses += 1;
                let r = guarded(|| { md.parse(src); });
                let perr = match r { Ok(()) => None, Err(e) => { out.stats.count("parse_panic"); Some(canon_err(&e)) } };
                out.stats.count(match kdoc { 0 => "parse_blank", 1 => "parse_inline", _ => "parse_block_only" });
                if with_debug {
                    self.ops.push(format!("P{}", kdoc));
                    let d = observe(md, out);
                    self.res.push(match perr { Some(e) => format!("{}/{}", e, d), None => d });
                } else {
                    self.ops.push(format!("Q{}", kdoc));
                    self.res.push(perr.unwrap_or_else(|| "ok".into()));
                }
            }
        }
    }
    fn finish(self, out: &mut Out) {
        let ans = if self.res.is_empty() { "-".to_string() } else { self.res.join(";") };
        if ans.contains("!missing") { out.stats.count("hist_missing"); }
        if ans.contains("!cyclic") { out.stats.count("hist_cyclic"); }
        if ans.contains("PANIC") { out.stats.count("hist_other_panic"); }
        if self.cfg_between { out.stats.count("hist_cfg_between_parses"); }
        out.emit(&format!("pstate hist {}", self.ops.join(";")), &ans, self.cfg_between);
    }
}

fn corpus() -> Vec<Vec<HOp>> {
    use HOp::*;
    vec![
        // the two C08 witnesses of the pinned tree
        vec![AddB(1, vec![]), Parse(1, "a xx b", true), Parse(2, "@@@", true), RemB(1), Parse(1, "a xx b", true)],
        vec![AddB(1, vec![]), Parse(2, "@@@", true), RemB(1), Parse(1, "@@@", true)],
        vec![Parse(1, "a xx b", true), AddI(10, vec![]), Parse(1, "a xx b", true)],
        // Debug of a chain after remove (ruler.rs:218 on the pinned tree)
        vec![AddB(1, vec![]), AddB(2, vec![]), Parse(1, "a xx b", false), RemB(1), Debug],
        // a panicking compile is not cached
        vec![AddI(10, vec![Mod::Require(11)]), Parse(1, "a xx b", true), Parse(0, "", true), AddI(11, vec![]), Parse(1, "a xx b", true)],
        // remove of a never-added rule creates the key
        vec![RemI(10), Parse(1, "a xx b", true), RemI(13), Parse(1, "a xx b", true)],
        // blank documents do not reach the block / inline chains nor the text scanner
        vec![Parse(0, "", false), Debug, AddI(13, vec![]), Parse(0, "\n", true), Parse(1, "word", true)],
        // core chain without / with re-ordered built-ins
        vec![RemC(901), RemC(900), AddC(901, vec![]), AddC(900, vec![]), Parse(1, "a xx b", true), RemI(902), Parse(1, "a xx b", true), AddI(902, vec![]), Parse(1, "a xx b", true)],
        // alias: removing the alias removes the rule
        vec![AddI(10, vec![Mod::Alias(11)]), HasI(11), Parse(1, "a xx b", true), RemI(11), HasI(10), Parse(1, "a xx b", true)],
        // cycle, then repaired by removal
        vec![AddC(20, vec![Mod::Before(900), Mod::After(901)]), Parse(1, "a xx b", true), RemC(20), Parse(1, "a xx b", true)],
    ]
}

pub fn run(n: usize, rng: &mut Rng, out: &mut Out) {
    for h in corpus() {
        let mut hist = Hist::new();
        for op in h { hist.apply(op, out); }
        out.stats.count("corpus");
        hist.finish(out);
    }
    for _ in 0..n {
        let mut hist = Hist::new();
        let k = rng.range(2, 16);
        for _ in 0..k {
            let op = match rng.below(20) {
                0..=6 => match rng.below(6) {
                    0 => { let id = *rng.pick(&BLOCK_IDS); HOp::AddB(id, gen_mods(rng, id, &BLOCK_IDS)) }
                    1 => { let id = *rng.pick(&CORE_IDS); HOp::AddC(id, gen_mods(rng, id, &CORE_IDS)) }
                    _ => { let id = if rng.chance(1, 8) { 902 } else { *rng.pick(&INLINE_IDS[..4]) }; HOp::AddI(id, gen_mods(rng, id, &INLINE_IDS)) }
                },
                7..=10 => match rng.below(6) {
                    0 => HOp::RemB(*rng.pick(&BLOCK_IDS)),
                    1 => HOp::RemC(*rng.pick(&CORE_IDS)),
                    _ => HOp::RemI(if rng.chance(1, 6) { 902 } else { *rng.pick(&INLINE_IDS[..4]) }),
                },
                11 | 12 => match rng.below(3) {
                    0 => HOp::HasB(*rng.pick(&BLOCK_IDS)),
                    1 => HOp::HasC(*rng.pick(&CORE_IDS)),
                    _ => HOp::HasI(*rng.pick(&INLINE_IDS)),
                },
                13 => HOp::Debug,
                x => {
                    // "@@@" is a block-only document only while some `AtRule` is registered
                    let has_at = hist.md.block.has_rule::<AtRuleA>() || hist.md.block.has_rule::<AtRuleB>();
                    let kdoc = match rng.below(8) { 0 | 1 => 0, 2 if has_at => 2, _ => 1 };
                    HOp::Parse(kdoc, doc(kdoc, rng), x < 18)
                }
            };
            hist.apply(op, out);
        }
        hist.finish(out);
    }
}
