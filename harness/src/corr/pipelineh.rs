//! stream `pipelineh`: the WHOLE document pipeline — `md.parse(src)` (block pass, inline splice walk, `FragmentsJoin`,
//! `SyntaxPosRule`), `.render()` and `.xrender()` — for configurations that may hold the raw-HTML plugins
//! (`html_block`, `html_inline`, either or both), against the Lean model `MdIt.PipelineH` (`Driver/PipelineH.lean`,
//! where the request / answer grammar is written down).
//!
//!   pipelineh html <x01> <sourcepos01> <maxNesting> <blockChain> <inlineChain> <emphCfg> <hexSrc>
//!   pipelineh tree <x01> <sourcepos01> <maxNesting> <blockChain> <inlineChain> <emphCfg> <hexSrc>
//!
//! Parsers are built from `crate::cfg` configurations: any subset / order of the 17 cmark sub-plugins +
//! strikethrough + sourcepos + html_inline + html_block, `max_nesting` in {0,1,2,3,5,100}.  The block chain, the
//! inline chain and the core chain sent to / assumed by the model are read back from the `Debug` output of the
//! real parser (the compiled order), never assumed.
//!
//! COPIES (the originals are private to their streams): the configuration reader, the tree dump, the panic
//! classifier, the request emitter and the document families of `gen_doc` are those of `corr/pipeline.rs` (plus the
//! rule name `html` in both chains, the node heads `html:` / `H:`, the two html plugins in the configuration
//! sampler); the module `bh` holds the html fragment / html document generators of `corr/blockh.rs` (themselves
//! copies of `corr/html.rs`), the module `ih` the html-in-inline-context generators of `corr/inlineh.rs`, unchanged.
//! New here: `html_para_doc` (inline html contexts as paragraphs of a document, inside containers).
use super::Out;
use crate::cfg::{self, Cfg};
use crate::gen::doc::{adversarial, any_doc, grammar_doc, mutate, wrap_container, SPEC};
use crate::rng::Rng;
use crate::util::{guarded, hexs};
use markdown_it::generics::inline::emph_pair::EmphMarker;
use markdown_it::parser::core::Root;
use markdown_it::parser::inline::{InlineRoot, Text, TextSpecial};
use markdown_it::plugins::cmark::block::blockquote::Blockquote;
use markdown_it::plugins::cmark::block::code::CodeBlock;
use markdown_it::plugins::cmark::block::fence::CodeFence;
use markdown_it::plugins::cmark::block::heading::ATXHeading;
use markdown_it::plugins::cmark::block::hr::ThematicBreak;
use markdown_it::plugins::cmark::block::lheading::SetextHeader;
use markdown_it::plugins::cmark::block::list::{BulletList, ListItem, OrderedList};
use markdown_it::plugins::cmark::block::paragraph::Paragraph;
use markdown_it::plugins::cmark::inline::autolink::Autolink;
use markdown_it::plugins::cmark::inline::backticks::CodeInline;
use markdown_it::plugins::cmark::inline::emphasis::{Em, Strong};
use markdown_it::plugins::cmark::inline::image::Image;
use markdown_it::plugins::cmark::inline::link::Link;
use markdown_it::plugins::cmark::inline::newline::{Hardbreak, Softbreak};
use markdown_it::plugins::extra::inline::strikethrough::Strikethrough;
use markdown_it::plugins::html::html_block::HtmlBlock;
use markdown_it::plugins::html::html_inline::HtmlInline;
use markdown_it::{MarkdownIt, Node};

// ---------------------------------------------------------------------------------------------
// configurations

const EMPHASIS: usize = 3;
const HTML_BITS: u32 = 1 << cfg::HTML_INLINE | 1 << cfg::HTML_BLOCK;
/// the plugins a configuration of this stream may hold: cmark (0..=16), strikethrough, the two html plugins, sourcepos
const ALLOWED: u32 = cfg::CMARK_MASK | 1 << cfg::STRIKE | 1 << cfg::SOURCEPOS | HTML_BITS;

struct Conf {
    md: MarkdownIt,
    max_nesting: u32,
    bchain: String,
    ichain: String,
    emph: String,
    sourcepos: bool,
}

fn block_rule_name(ty: &str) -> &'static str {
    for (suffix, name) in [("HtmlBlockScanner", "html"), ("CodeScanner", "code"), ("FenceScanner", "fence"), ("BlockquoteScanner", "blockquote"),
        ("HrScanner", "hr"), ("ListScanner", "list"), ("ReferenceScanner", "reference"), ("LHeadingScanner", "lheading"),
        ("HeadingScanner", "heading"), ("ParagraphScanner", "paragraph")] {
        if ty.ends_with(suffix) { return name; }
    }
    "?"
}

fn inline_rule_name(ty: &str) -> String {
    let t = ty.trim();
    if t.ends_with("TextScanner") { return "text".into(); }
    if t.ends_with("NewlineScanner") { return "newline".into(); }
    if t.ends_with("EscapeScanner") { return "escape".into(); }
    if t.contains("CodePairScanner<'`', false>") { return "backticks".into(); }
    if t.ends_with("LinkScanner<false>") { return "link".into(); }
    if t.contains("LinkPrefixScanner<'!', true>") { return "image".into(); }
    if t.ends_with("LinkScannerEnd") { return "linkEnd".into(); }
    if t.ends_with("AutolinkScanner") { return "autolink".into(); }
    if t.ends_with("EntityScanner") { return "entity".into(); }
    if t.ends_with("HtmlInlineScanner") { return "html".into(); }
    if let Some(p) = t.find("EmphPairScanner<'") {
        let rest = &t[p + "EmphPairScanner<'".len()..];
        let m = rest.chars().next().unwrap();
        let split = rest.contains("true");
        return format!("emph:{}:{}", hexs(&m.to_string()), if split { 1 } else { 0 });
    }
    format!("?{}", t)
}

/// the type paths of the LAST `compiled: [(idx, Type), …]` list in a `Debug` output (the rule types of
/// this crate contain no parenthesis)
fn compiled_types(dbg: &str) -> Vec<String> {
    let key = "compiled: [";
    let mut out = vec![];
    let p = match dbg.rfind(key) { Some(p) => p, None => return out };
    let mut rest = &dbg[p + key.len()..];
    loop {
        let rest_t = rest.trim_start_matches(|c: char| c == ',' || c.is_whitespace());
        if !rest_t.starts_with('(') { break; }
        let close = rest_t.find(')').unwrap();
        let body = &rest_t[1..close];
        out.push(body.splitn(2, ',').nth(1).unwrap_or("").trim().to_string());
        rest = &rest_t[close + 1..];
    }
    out
}

fn join_or_dash(v: Vec<String>) -> String { if v.is_empty() { "-".into() } else { v.join(",") } }

fn conf(c: &Cfg, out: &mut Out) -> Conf {
    let md = c.build();
    let bchain = join_or_dash(compiled_types(&format!("{:?}", md.block)).iter().map(|t| block_rule_name(t).to_string()).collect());
    let ichain_v: Vec<String> = compiled_types(&format!("{:?}", md.inline)).iter().map(|t| inline_rule_name(t)).collect();
    // `PairConfig<MARKER>::fns` as the shipped plugins fill it
    let mut emph = vec![];
    if c.has(EMPHASIS) { emph.push("2a:es-".to_string()); emph.push("5f:es-".to_string()); }
    if c.has(cfg::STRIKE) { emph.push("7e:-k-".to_string()); }
    // the core chain: the last ruler in the Debug output of the parser itself (the html plugins add no core rule)
    let core: Vec<String> = compiled_types(&format!("{:?}", md)).iter().map(|t| t.rsplit("::").next().unwrap_or("").to_string()).collect();
    let has_emph_rule = ichain_v.iter().any(|r| r.starts_with("emph:"));
    let mut expect = vec!["BlockParserRule", "InlineParserRule"];
    if has_emph_rule { expect.push("FragmentsJoin"); }
    if c.has(cfg::SOURCEPOS) { expect.push("SyntaxPosRule"); }
    if core != expect { out.stats.count("UNEXPECTED-CORE-CHAIN"); eprintln!("core chain {:?} for {}", core, c.describe()); }
    if bchain.contains('?') || ichain_v.iter().any(|r| r.starts_with('?')) { out.stats.count("UNKNOWN-RULE-IN-CHAIN"); }
    if c.has(cfg::HTML_BLOCK) != bchain.split(',').any(|r| r == "html") || c.has(cfg::HTML_INLINE) != ichain_v.iter().any(|r| r == "html") { out.stats.count("HTML-RULE-NOT-WHERE-EXPECTED"); }
    Conf { md, max_nesting: c.max_nesting, bchain, ichain: join_or_dash(ichain_v), emph: if emph.is_empty() { "-".into() } else { emph.join(";") }, sourcepos: c.has(cfg::SOURCEPOS) }
}

fn stock(html: u32, strike: bool, sourcepos: bool, max_nesting: u32) -> Cfg {
    Cfg { mask: cfg::CMARK_MASK | html | (strike as u32) << cfg::STRIKE | (sourcepos as u32) << cfg::SOURCEPOS, order_seed: 0, max_nesting }
}

fn random_cfg(rng: &mut Rng, out: &mut Out) -> Cfg {
    let html = match rng.below(10) {
        0..=4 => { out.stats.count("conf:html-both"); HTML_BITS }
        5 | 6 => { out.stats.count("conf:html-block-only"); 1 << cfg::HTML_BLOCK }
        7 | 8 => { out.stats.count("conf:html-inline-only"); 1 << cfg::HTML_INLINE }
        _ => { out.stats.count("conf:html-none"); 0 }
    };
    let extras = (((rng.next() as u32) & (1 << cfg::STRIKE | 1 << cfg::SOURCEPOS)) | html) & ALLOWED;
    let mask = match rng.below(20) {
        0..=7 => { out.stats.count("conf:all-cmark"); cfg::CMARK_MASK | extras }
        8..=10 => { out.stats.count("conf:omit-one"); (cfg::CMARK_MASK & !(1 << rng.below(17))) | extras }
        11..=15 => { out.stats.count("conf:subset-3/4"); let mut m = 0u32; for i in 0..17 { if rng.chance(3, 4) { m |= 1 << i; } } m | extras }
        _ => { out.stats.count("conf:random-mask"); ((rng.next() as u32) & ALLOWED & !HTML_BITS) | html }
    };
    let order_seed = if rng.chance(1, 2) { 0 } else { out.stats.count("conf:shuffled-order"); 1 + rng.below(100000) as u64 };
    let max_nesting = if rng.chance(5, 8) { 100 } else { *rng.pick(&[0u32, 1, 2, 3, 5]) };
    Cfg { mask, order_seed, max_nesting }
}

// ---------------------------------------------------------------------------------------------
// the tree dump (grammar: Driver/PipelineH.lean)

fn cp(c: char) -> u32 { c as u32 }
fn title_str(t: &Option<String>) -> String { match t { Some(t) => hexs(t), None => "none".into() } }
fn ch(c: char) -> String { hexs(&c.to_string()) }

fn dump(node: &Node, out: &mut String) {
    out.push('(');
    let k = crate::dump::kind(node);
    if node.is::<Root>() { out.push_str("root"); }
    else if node.is::<Paragraph>() { out.push('p'); }
    else if node.is::<Blockquote>() { out.push_str("bq"); }
    else if node.is::<ListItem>() { out.push_str("li"); }
    else if let Some(x) = node.cast::<BulletList>() { out.push_str(&format!("ul:{}", cp(x.marker))); }
    else if let Some(x) = node.cast::<OrderedList>() { out.push_str(&format!("ol:{}:{}", x.start, cp(x.marker))); }
    else if let Some(x) = node.cast::<CodeBlock>() { out.push_str(&format!("code:{}", hexs(&x.content))); }
    else if let Some(x) = node.cast::<CodeFence>() { out.push_str(&format!("fence:{}:{}:{}:{}", hexs(&x.info), cp(x.marker), x.marker_len, hexs(&x.content))); }
    else if let Some(x) = node.cast::<ThematicBreak>() { out.push_str(&format!("hr:{}:{}", cp(x.marker), x.marker_len)); }
    else if let Some(x) = node.cast::<ATXHeading>() { out.push_str(&format!("h:{}", x.level)); }
    else if let Some(x) = node.cast::<SetextHeader>() { out.push_str(&format!("sh:{}:{}", x.level, cp(x.marker))); }
    else if let Some(x) = node.cast::<HtmlBlock>() { out.push_str(&format!("html:{}", hexs(&x.content))); }
    else if let Some(x) = node.cast::<InlineRoot>() {
        let m: Vec<String> = x.mapping.iter().map(|(a, b)| format!("{}/{}", a, b)).collect();
        out.push_str(&format!("inl:{}:{}", hexs(&x.content), if m.is_empty() { "-".to_string() } else { m.join(",") }));
    }
    else if let Some(t) = node.cast::<Text>() { out.push_str(&format!("T:{}", hexs(&t.content))); }
    else if let Some(t) = node.cast::<TextSpecial>() { out.push_str(&format!("X:{}:{}:{}", hexs(&t.content), hexs(&t.markup), hexs(t.info))); }
    else if let Some(t) = node.cast::<HtmlInline>() { out.push_str(&format!("H:{}", hexs(&t.content))); }
    else if node.is::<Softbreak>() { out.push_str("SB"); }
    else if node.is::<Hardbreak>() { out.push_str("HB"); }
    else if let Some(c) = node.cast::<CodeInline>() { out.push_str(&format!("C:{}:{}", ch(c.marker), c.marker_len)); }
    else if let Some(e) = node.cast::<Em>() { out.push_str(&format!("E:{}", ch(e.marker))); }
    else if let Some(e) = node.cast::<Strong>() { out.push_str(&format!("S:{}", ch(e.marker))); }
    else if let Some(e) = node.cast::<Strikethrough>() { out.push_str(&format!("K:{}", ch(e.marker))); }
    else if let Some(l) = node.cast::<Link>() { out.push_str(&format!("L:{}:{}", hexs(&l.url), title_str(&l.title))); }
    else if let Some(l) = node.cast::<Image>() { out.push_str(&format!("I:{}:{}", hexs(&l.url), title_str(&l.title))); }
    else if let Some(a) = node.cast::<Autolink>() { out.push_str(&format!("A:{}", hexs(&a.url))); }
    else if let Some(m) = node.cast::<EmphMarker>() { out.push_str(&format!("M:{}:{}:{}:{}:{}", ch(m.marker), m.length, m.remaining, m.open as u8, m.close as u8)); }
    else { out.push_str(&format!("?{}", k)); }
    out.push(' ');
    match node.srcmap.map(|m| m.get_byte_offsets()) { Some((a, b)) => out.push_str(&format!("{}-{}", a, b)), None => out.push_str("none") }
    for (n, v) in node.attrs.iter() { out.push_str(&format!(" @{}={}", hexs(n), hexs(v))); }
    for c in node.children.iter() { out.push(' '); dump(c, out); }
    out.push(')');
}

/// `<stage>-<class>` as `Driver/Pipeline.lean` names the panics of the model
fn panic_class(msg: &str, rendering: bool) -> String {
    let loc = msg.rsplit(" @ ").next().unwrap_or("");
    let stage = if rendering { "render" }
        else if loc.contains("sourcemap") || loc.contains("sourcepos") { "sourcepos" }
        else if loc.contains("/inline/") || loc.contains("html_inline") { "inline" }
        else { "block" };
    let sub = if stage == "block" { "sub" } else { "underflow" };
    let class = if msg.contains("didn't increment") { "progress" }
        else if msg.contains("doesn't implement render") || msg.contains("not implemented") { "unimplemented" }
        else if msg.contains("index out of bounds") { "index" }
        else if msg.contains("attempt to subtract") || msg.contains("attempt to add") { sub }
        else if msg.contains("byte index") || msg.contains("char boundary") || msg.contains("slice index") || msg.contains("out of range for slice") || msg.contains("begin <= end") || msg.contains("when slicing") { "slice" }
        else if msg.contains("assertion failed") { "assert" }
        else if msg.contains("Option::unwrap()") { "unwrap" }
        else if msg.contains("ParseIntError") || msg.contains("Result::unwrap()") { "radix" }
        else { "other" };
    format!("{}-{}", stage, class)
}

// ---------------------------------------------------------------------------------------------
// documents

fn tabify(rng: &mut Rng, src: &str) -> String {
    let mut out = String::new();
    let mut at_start = true;
    let cs: Vec<char> = src.chars().collect();
    let mut i = 0;
    while i < cs.len() {
        let c = cs[i];
        if c == '\n' { at_start = true; out.push(c); i += 1; continue; }
        if c == ' ' && rng.chance(1, 2) {
            if at_start && i + 3 < cs.len() && cs[i + 1] == ' ' && cs[i + 2] == ' ' && cs[i + 3] == ' ' && rng.chance(1, 2) { out.push('\t'); i += 4; continue; }
            out.push('\t'); i += 1; continue;
        }
        if c != ' ' && c != '>' && c != '-' { at_start = false; }
        out.push(c); i += 1;
    }
    out
}

fn line_endings(rng: &mut Rng, src: &str) -> String {
    match rng.below(3) {
        0 => src.replace('\n', "\r\n"),
        1 => src.replace('\n', "\r"),
        _ => { let mut o = String::new(); for c in src.chars() { if c == '\n' { o.push_str(*rng.pick(&["\n", "\r\n", "\r"])); } else { o.push(c); } } o }
    }
}

/// the hostile payloads of oracle/c03.rs (the part without the entity table)
fn hostile(rng: &mut Rng) -> String {
    let p = *rng.pick(&["\"><script>alert(1)</script>", "\" onmouseover=\"x", "<img src=x onerror=y>", "&lt;b&gt;", "&#60;b&#62;", "'\"><", "\\\"", "&quot;&#34;&#x22;", "<!--", "]]>", "\0<x>"]);
    match rng.below(10) {
        0 => format!("[a]({})", p),
        1 => format!("[a](<{}>)", p),
        2 => format!("[a](/u \"{}\")", p),
        3 => format!("![{}](/u '{}')", p, p),
        4 => format!("```{}\n{}\n```", p, p),
        5 => format!("`{}`", p),
        6 => format!("<http://x/{}>", p),
        7 => format!("[r]: /u \"{}\"\n\n[r] {}", p, p),
        8 => format!("{}\n\n> {}\n\n- {}", p, p, p),
        _ => format!("    {}\n\n# {}\n\n1234567890. {}", p, p, p),
    }
}

/// deep container / bracket / emphasis / tag nesting around and beyond the small nesting limits
fn deep(rng: &mut Rng) -> String {
    let k = rng.range(1, 9);
    match rng.below(14) {
        0 => format!("{}<div>", ">".repeat(k)),
        1 => format!("{}a\n{}<div>", "> ".repeat(k), "> ".repeat(rng.below(k + 1))),
        2 => format!("{}<!-- a", "- ".repeat(k)),
        3 => format!("{}a\n\n{}<pre>", "1. ".repeat(k), "   ".repeat(rng.below(k + 1))),
        4 => { let mut s = String::new(); for _ in 0..k { s.push_str("> - "); } s + "<b>a</b>\n> b\n<div>c" }
        5 => "[".repeat(k) + "<a>" + &"](x)".repeat(k),
        6 => "![".repeat(k) + "<b c=\"]\">" + &"](x)".repeat(k),
        7 => "*a <b>".repeat(k) + &"</b>a*".repeat(k),
        8 => format!("{}[{}*<i>a</i>*{}](u)", "> ".repeat(k), "[".repeat(k), "]".repeat(k)),
        9 => format!("- {}[![<a>](i)](u) ~~*<b>*~~", "> ".repeat(k)),
        10 => "<a>".repeat(k) + "x" + &"</a>".repeat(rng.below(2 * k)),
        11 => format!("{}[x](u){}[y](v)", "<a>".repeat(rng.below(3)), "</a>".repeat(rng.below(4))),
        12 => { let n = rng.range(10, 40); adversarial(rng, n) }
        _ => { let n = rng.range(1, 9); adversarial(rng, n) }
    }
}

/// one construct of every block and inline kind (all 13 + 12 node kinds), with references and both html nodes
const EVERYTHING: &str = "# h *e* **s** ~~k~~\n\nsetext `c`\n===\n\n> q\n\n- a\n- b\n\n1. x\n\n2) y\n\n***\n\n    code\n\n```rs\nfence\n```\n\n<div>\n*x*\n</div>\n\n[r]: /u \"t\"\n\n[r] [l](/v) ![i](/w 'x') <http://a.b> &amp; \\* a <b c=\"d\">e</b> <!-- f -->  \nb\nc *_\n\n> <!-- c -->\n";

/// NEW: inline html contexts (`ih::html_context` / `ih::html_mix`) as the paragraphs, headings, list items, quotes of a document
fn html_para_doc(rng: &mut Rng, out: &mut Out) -> String {
    let n = rng.range(1, 4);
    let mut s = String::new();
    for i in 0..n {
        if i > 0 { s.push_str(*rng.pick(&["\n\n", "\n\n", "\n", "\n\n\n"])); }
        let c = if rng.chance(2, 3) { ih::html_context(rng, out) } else { ih::html_mix(rng, out) };
        let (first, rest) = *rng.pick(&[("", ""), ("", ""), ("", ""), ("> ", "> "), ("> ", ""), ("- ", "  "), ("1. ", "   "), ("# ", ""), ("> - ", ">   "), ("  ", " "), ("-\t", "\t")]);
        for (j, l) in c.split('\n').enumerate() {
            if j > 0 { s.push('\n'); }
            s.push_str(if j == 0 { first } else { rest });
            s.push_str(l);
        }
        if rng.chance(1, 8) { s.push_str("\n\n[ref]: /r 'R'"); }
    }
    s
}

fn gen_doc(rng: &mut Rng, out: &mut Out, i: usize) -> (String, &'static str) {
    let (base, tag) = match i % 20 {
        0 | 1 => (any_doc(rng), "doc:any"),
        2 | 3 => (grammar_doc(rng), "doc:grammar"),
        4 => { let s = rng.pick(&SPEC).clone(); (mutate(rng, &s), "doc:spec-mutated") }
        5 => (rng.pick(&SPEC).clone(), "doc:spec-other-config"),
        6 => (hostile(rng), "doc:hostile"),
        7 => (deep(rng), "doc:deep"),
        8 => { let d = if rng.chance(1, 2) { bh::html_doc(rng, out) } else { rng.pick(&SPEC).clone() }; (wrap_container(rng, &d), "doc:wrapped") }
        9 => { let d = mutate(rng, EVERYTHING); (d, "doc:everything-mutated") }
        10 | 11 | 12 => { let k = rng.below(12); (bh::gen_doc(rng, out, k), "doc:blockh-gen_doc") }
        13 => (bh::html_doc(rng, out), "doc:blockh-html_doc"),
        14 => (bh::special_doc(rng), "doc:blockh-special_doc"),
        15 | 16 | 17 => (html_para_doc(rng, out), "doc:inlineh-contexts"),
        18 => { let a = html_para_doc(rng, out); let b = bh::html_doc(rng, out); (format!("{}\n{}", a, b), "doc:inlineh+blockh") }
        _ => { let d = html_para_doc(rng, out); (mutate(rng, &d), "doc:inlineh-mutated") }
    };
    // a second, independent chance of tabs / other line endings on top of any family
    match rng.below(12) {
        0 => (tabify(rng, &base), tag),
        1 => (line_endings(rng, &base), tag),
        _ => (base, tag),
    }
}

// ---------------------------------------------------------------------------------------------
// requests

fn request(op: &str, x: bool, c: &Conf, src: &str) -> String {
    format!("pipelineh {} {} {} {} {} {} {} {}", op, x as u8, c.sourcepos as u8, c.max_nesting, c.bchain, c.ichain, c.emph, hexs(src))
}

const KINDS: [(&str, &str); 25] = [("(p ", "paragraph"), ("(bq ", "blockquote"), ("(ul:", "bullet-list"), ("(ol:", "ordered-list"), ("(li ", "list-item"),
    ("(code:", "code-block"), ("(fence:", "fence"), ("(hr:", "hr"), ("(h:", "atx"), ("(sh:", "setext"), ("(html:", "HTML-BLOCK"), ("(H:", "HTML-INLINE"),
    ("(T:", "text"), ("(X:", "text-special"), ("(SB ", "softbreak"), ("(HB ", "hardbreak"), ("(C:", "code-inline"), ("(E:", "em"), ("(S:", "strong"),
    ("(K:", "strike"), ("(L:", "link"), ("(I:", "image"), ("(A:", "autolink"), ("(inl:", "PLACEHOLDER-inline-root"), ("(M:", "PLACEHOLDER-emph-marker")];

/// does the dump hold a node with head prefix `inner` somewhere below a node with head prefix `outer`
fn nested_in(s: &str, outer: &str, inner: &str) -> bool {
    let b = s.as_bytes();
    let mut from = 0;
    while let Some(p) = s[from..].find(outer) {
        let start = from + p;
        let mut depth = 0i32;
        let mut k = start;
        while k < b.len() { if b[k] == b'(' { depth += 1; } else if b[k] == b')' { depth -= 1; if depth == 0 { break; } } k += 1; }
        if s[start + 1..k.min(s.len())].contains(inner) { return true; }
        from = start + 1;
    }
    false
}

fn emit_doc(out: &mut Out, c: &Conf, src: &str, tag: &str, xs: &[bool]) {
    let nontrivial = src.lines().count() > 1 || src.len() > 8;
    // the final tree
    let t = match guarded(|| { let root = c.md.parse(src); let mut s = String::new(); dump(&root, &mut s); s }) {
        Ok(s) => {
            for (pat, key) in KINDS { if s.contains(pat) { out.stats.count(&format!("tree:{}", key)); } }
            if s.contains(" @") { out.stats.count("tree:with-sourcepos-attrs"); }
            if !c.bchain.contains("paragraph") && s.contains("(T:") { out.stats.count("tree:fallback-inline-root-spliced"); }
            if s.contains("(html:") && s.contains("(H:") { out.stats.count("tree:html-block+html-inline"); }
            if nested_in(&s, "(bq ", "(html:") { out.stats.count("tree:html-block-in-quote"); }
            if nested_in(&s, "(li ", "(html:") { out.stats.count("tree:html-block-in-list-item"); }
            if nested_in(&s, "(L:", "(H:") { out.stats.count("tree:html-inline-in-link"); }
            if nested_in(&s, "(I:", "(H:") { out.stats.count("tree:html-inline-in-image"); }
            if nested_in(&s, "(E:", "(H:") || nested_in(&s, "(S:", "(H:") { out.stats.count("tree:html-inline-in-emphasis"); }
            if nested_in(&s, "(h:", "(H:") || nested_in(&s, "(sh:", "(H:") { out.stats.count("tree:html-inline-in-heading"); }
            if s.contains(") (H:") && s.contains("(T:") { out.stats.count("tree:html-inline-next-to-text"); }
            if c.sourcepos && s.contains("(html:") { out.stats.count("tree:html-block-with-sourcepos"); }
            if c.sourcepos && s.contains("(H:") { out.stats.count("tree:html-inline-with-sourcepos"); }
            s
        }
        Err(e) => { out.stats.count("parse:panic"); format!("PANIC:{}", panic_class(&e, false)) }
    };
    out.emit(&request("tree", false, c, src), &t, nontrivial);
    for x in xs {
        let h = match guarded(|| c.md.parse(src)) {
            Err(e) => format!("PANIC:{}", panic_class(&e, false)),
            Ok(root) => match guarded(|| if *x { root.xrender() } else { root.render() }) {
                Ok(h) => { if h.contains('\u{fffd}') { out.stats.count("html:with-U+FFFD"); } hexs(&h) }
                Err(e) => { out.stats.count("render:panic"); format!("PANIC:{}", panic_class(&e, true)) }
            },
        };
        out.stats.count(if *x { "html:xrender" } else { "html:render" });
        out.emit(&request("html", *x, c, src), &h, nontrivial);
    }
    out.stats.count(tag);
    out.stats.count("documents");
    if c.sourcepos { out.stats.count("conf:sourcepos"); }
    if c.emph != "-" { out.stats.count("conf:join-pass"); }
    if c.max_nesting < 100 { out.stats.count("conf:small-max-nesting"); }
    if src.contains('\t') { out.stats.count("doc:with-tab"); }
    if src.contains('\r') { out.stats.count("doc:with-cr"); }
    if src.contains('\0') { out.stats.count("doc:with-nul"); }
}

pub fn run(n: usize, rng: &mut Rng, out: &mut Out) {
    // every spec input: cmark + html (the CommonMark configuration), plain and with strikethrough + sourcepos;
    // with only one of the two html plugins (rendering only)
    let plain = conf(&stock(HTML_BITS, false, false, 100), out);
    let rich = conf(&stock(HTML_BITS, true, true, 100), out);
    let only_block = conf(&stock(1 << cfg::HTML_BLOCK, false, false, 100), out);
    let only_inline = conf(&stock(1 << cfg::HTML_INLINE, false, true, 100), out);
    for (i, s) in SPEC.iter().enumerate() {
        emit_doc(out, &plain, s, "doc:spec", &[false, true]);
        emit_doc(out, &rich, s, "doc:spec-sourcepos-strike", &[false]);
        if s.contains('<') { emit_doc(out, if i % 2 == 0 { &only_block } else { &only_inline }, s, "doc:spec-one-html-plugin", &[i % 4 < 2]); }
    }
    let fixed = ["", "\n", "a", "<", "<a", "<a>", "</a>", "<!--", "<!-- -->", "<div>", "<div>\n", "a\n<div>", "a <b>c</b>\n\n<div>\n*x*\n</div>\n\n> <!-- c -->",
        "<a>[x](u)</a>[y](v)", "[<a>](u)[y](v)", "[a <b c=\"]\"> d](u)", "*a<b>*c*", "a<b>c", "<b>a", "a<b>", "a <b> *c* </b> d", "\\<b>", "&lt;b>", "`<b>`", "<http://a.b><b>",
        "<pre>\n\n*x*\n</pre>", "- <div>\n- a", "> <div>\nlazy", "<div>\r\n*x*\r\n\r\n*y*", "<div>\rx\r\ry", "<!--\0-->", "\u{feff}<div>", "<DIV>", "<\u{17f}cript>", EVERYTHING];
    for s in fixed {
        emit_doc(out, &plain, s, "doc:fixed", &[false, true]);
        emit_doc(out, &rich, s, "doc:fixed", &[true]);
        emit_doc(out, &only_block, s, "doc:fixed", &[false]);
        emit_doc(out, &only_inline, s, "doc:fixed", &[false]);
    }
    for mn in [0u32, 1, 2, 3, 5] {
        let c = conf(&stock(HTML_BITS, true, true, mn), out);
        for s in ["> > > > > > <div>", "- - - - - - <div>", "> - > - <b>a</b>\n> - > - <div>", "1. > 2. > <pre>\n\ny", "a\n> <div>\n- <!-- c", "[[[[[[<a>](b)](c)](d)](e)](f)](g)",
            "*a **b ~~c *<d>* c~~ b** a*", "> [![*<a>*](i)](u)", "<a><a><a>x</a></a></a>", EVERYTHING] { emit_doc(out, &c, s, "doc:small-max-nesting", &[false]); }
    }
    // a pool of random configurations (building a parser and reading its chains back is not free)
    let mut pool: Vec<Conf> = vec![];
    for _ in 0..60 { let c = random_cfg(rng, out); pool.push(conf(&c, out)); }
    for i in 0..n {
        let (src, tag) = gen_doc(rng, out, i);
        if src.len() > 1200 { out.stats.count("doc:skipped-too-long"); continue; }
        if rng.chance(1, 12) { let c = random_cfg(rng, out); let k = rng.below(pool.len()); pool[k] = conf(&c, out); }
        let c = &pool[rng.below(pool.len())];
        let x = rng.chance(1, 2);
        emit_doc(out, c, &src, tag, &[x]);
    }
}

// ---------------------------------------------------------------------------------------------
// COPY of the html fragment / html document generators of `corr/blockh.rs` (`HTML_BLOCKS` … `gen_doc`), unchanged
#[allow(dead_code)]
mod bh {
use super::Out;
use crate::gen::doc::{any_doc, grammar_doc, wrap_container, SPEC};
use crate::rng::Rng;

const HTML_BLOCKS: [&str; 62] = [
    "address", "article", "aside", "base", "basefont", "blockquote", "body", "caption", "center", "col", "colgroup", "dd",
    "details", "dialog", "dir", "div", "dl", "dt", "fieldset", "figcaption", "figure", "footer", "form", "frame", "frameset",
    "h1", "h2", "h3", "h4", "h5", "h6", "head", "header", "hr", "html", "iframe", "legend", "li", "link", "main", "menu",
    "menuitem", "nav", "noframes", "ol", "optgroup", "option", "p", "param", "section", "source", "summary", "table", "tbody",
    "td", "tfoot", "th", "thead", "title", "tr", "track", "ul",
];

const WS: &[&str] = &[" ", " ", " ", " ", "  ", "\t", "\n", "\u{a0}", "\u{2028}", "\u{3000}", "\u{85}", "\u{c}", "\u{b}", "\r",
    "\u{2003}", "\u{1680}", "\u{202f}", "\u{205f}", "\u{2029}", "\u{200a}",
    // not white space
    "\u{200b}", "\u{feff}", "\u{180e}", "\u{1f}", "\u{1c}", "\u{0}", "\u{2060}"];

/// every `White_Space` character and its neighbours
const WS_SWEEP: &[u32] = &[0x8, 0x9, 0xa, 0xb, 0xc, 0xd, 0xe, 0x1c, 0x1d, 0x1e, 0x1f, 0x20, 0x21, 0x7f, 0x84, 0x85, 0x86, 0x9f, 0xa0, 0xa1,
    0x167f, 0x1680, 0x1681, 0x180e, 0x1fff, 0x2000, 0x2001, 0x2002, 0x2003, 0x2004, 0x2005, 0x2006, 0x2007, 0x2008, 0x2009, 0x200a, 0x200b,
    0x200c, 0x200d, 0x200e, 0x2027, 0x2028, 0x2029, 0x202a, 0x202e, 0x202f, 0x2030, 0x205e, 0x205f, 0x2060, 0x2fff, 0x3000, 0x3001, 0xfeff, 0x0];

const TAG_NAMES: &[&str] = &["a", "a", "a", "A", "b", "em", "span", "x-y", "a1", "h-", "img", "input", "br", "q", "Z9-", "a-b-c", "abbr",
    "é", "1a", "-a", "a_b", "a.b", "a:b", "ſ", "\u{212a}"];

const RAW_NAMES: &[&str] = &["script", "pre", "style", "textarea"];

fn ws(rng: &mut Rng) -> &'static str { *rng.pick(WS) }

fn plain_ws(rng: &mut Rng) -> &'static str { *rng.pick(&[" ", " ", " ", "  ", "\t", " \t "]) }

/// random case + the two case-folding traps
fn fold_case(rng: &mut Rng, name: &str) -> String {
    let mode = rng.below(6);
    name.chars().map(|c| {
        if mode == 0 { return c; }
        if mode == 1 { return c.to_ascii_uppercase(); }
        if c == 's' && rng.chance(1, 4) { return '\u{17f}'; }
        if c == 'k' && rng.chance(1, 3) { return '\u{212a}'; }
        if mode == 5 && rng.chance(1, 12) { return *rng.pick(&['\u{131}', '\u{130}', 'ß', '\u{1e9e}', 'é', '0', '\u{fb06}', '\u{ff53}', '\u{1c88}']); }
        if rng.chance(1, 2) { c.to_ascii_uppercase() } else { c }
    }).collect()
}

fn tag_name(rng: &mut Rng) -> String {
    match rng.below(10) {
        0 | 1 => { let n = *rng.pick(&HTML_BLOCKS); fold_case(rng, n) }
        2 => { let n = *rng.pick(RAW_NAMES); fold_case(rng, n) }
        3 => format!("{}{}", *rng.pick(&HTML_BLOCKS), *rng.pick(&["x", "1", "-", "s", "font"])),
        _ => (*rng.pick(TAG_NAMES)).to_string(),
    }
}

fn attr_name(rng: &mut Rng) -> &'static str {
    *rng.pick(&["href", "b", "c", "_x", ":y", "a.b", "a:b-c", "data-x", "X1", "x_", "é", "1a", "-a", ".a", "a\u{a0}", "a/b", ""])
}

fn attr_value(rng: &mut Rng) -> String {
    match rng.below(14) {
        0 | 1 => (*rng.pick(&["c", "c/", "/", "1", "a&b", "é", "x.y", "a-b", "/u/v", "#", "a\\", "a(b)", "[x]", "{y}", "a|b", "~", "😀"])).to_string(),
        2 => (*rng.pick(&["x\u{a0}y", "\u{a0}", "a\u{2028}b", "x\u{3000}", "\u{85}z", "p\u{a0}q\u{a0}r", "x\u{a0}y=z", "x\u{2003}y='>'", "\u{a0}\u{a0}", "a\u{a0}/"])).to_string(),
        3 => (*rng.pick(&["x`", "a=b", "a<b", "a\"b", "a'b", "a b", "", "a\tb", "\u{1f}", "a\u{0}"])).to_string(),
        4 | 5 | 6 => format!("'{}'", *rng.pick(&["x", "", "a b>c", "\"", "a\nb", "é", " ", "<b>", "a=b", "/>", "\u{a0}"])),
        7 | 8 | 9 => format!("\"{}\"", *rng.pick(&["x", "", "a b>c", "'", "a\nb", "é", " ", "<b>", "a=b", "/>", "\u{a0}"])),
        10 => (*rng.pick(&["'unterminated", "\"unterminated", "'a\"", "\"a'", "'", "\""])).to_string(),
        _ => format!("{}{}", *rng.pick(&["c", "x", "1"]), *rng.pick(&["", "/", "//"])),
    }
}

fn attribute(rng: &mut Rng) -> String {
    let mut s = String::new();
    let k = *rng.pick(&[1usize, 1, 1, 1, 2, 0]);
    for _ in 0..k { s.push_str(if rng.chance(1, 4) { ws(rng) } else { plain_ws(rng) }); }
    s.push_str(attr_name(rng));
    if rng.chance(2, 3) {
        if rng.chance(1, 4) { s.push_str(ws(rng)); }
        s.push('=');
        if rng.chance(1, 4) { s.push_str(ws(rng)); if rng.chance(1, 3) { s.push_str(ws(rng)); } }
        s.push_str(&attr_value(rng));
    }
    s
}

fn open_tag(rng: &mut Rng) -> String {
    let mut s = format!("<{}", tag_name(rng));
    for _ in 0..*rng.pick(&[0usize, 0, 1, 1, 1, 2, 2, 3, 5]) { s.push_str(&attribute(rng)); }
    if rng.chance(1, 3) { s.push_str(ws(rng)); }
    s.push_str(*rng.pick(&[">", ">", ">", ">", "/>", "/>", "", "//>", "/ >", "/"]));
    s
}

fn close_tag(rng: &mut Rng) -> String {
    format!("<{}{}{}{}", *rng.pick(&["/", "/", "/", "/", "/ ", "//"]), tag_name(rng),
        *rng.pick(&["", "", "", " ", "  ", "\t", "\n", "\u{a0}", "\u{2028}", " b", "/", " /", "\u{200b}"]), *rng.pick(&[">", ">", ">", ""]))
}

fn comment(rng: &mut Rng) -> String {
    if rng.chance(1, 3) {
        return (*rng.pick(&["<!---->", "<!-->", "<!--->", "<!--a--b-->", "<!----->", "<!------>", "<!-- -->", "<!--a-->", "<!--a--->", "<!---a-->",
            "<!--->-->", "<!-->-->", "<!--a>b-->", "<!---->-->", "<!--a-", "<!--a--", "<!--", "<!-", "<!--é-->", "<!--a\nb-->", "<!--a- -b-->", "<!-- a -- b -->",
            "<!--a->-->", "<!--a-b-c-->", "<!---\n-->", "<!---- -->", "<!--x-->y-->"])).to_string();
    }
    let mut s = String::from("<!--");
    for _ in 0..rng.range(0, 5) { s.push_str(*rng.pick(&["a", "-", "--", "->", ">", "b c", "\n", "é", "-a", "a-", " ", "<", "!", "\u{a0}"])); }
    s.push_str(*rng.pick(&["-->", "-->", "-->", "--", "->", "", "--->"]));
    s
}

fn processing(rng: &mut Rng) -> String {
    if rng.chance(1, 3) {
        return (*rng.pick(&["<??>", "<?>", "<?>?>", "<? ?>", "<?php echo '>' ?>", "<?a?b?>", "<?a\nb?>", "<?", "<?a", "<?a?", "<?é?>", "<??", "<???>", "<?x? >?>"])).to_string();
    }
    let mut s = String::from("<?");
    for _ in 0..rng.range(0, 4) { s.push_str(*rng.pick(&["a", "?", ">", "php ", "\n", "é", " ", "<", "?>"])); }
    s.push_str(*rng.pick(&["?>", "?>", "?", ">", ""]));
    s
}

fn declaration(rng: &mut Rng) -> String {
    if rng.chance(1, 3) {
        return (*rng.pick(&["<!DOCTYPE html>", "<!DOCTYPE>", "<!D >", "<!D\u{a0}>", "<!doctype html>", "<!Doctype x>", "<!D1 x>", "<!É x>", "<!X\n\ny>", "<!X y",
            "<!X  a<b >", "<!ELEMENT br EMPTY>", "<!A\t>", "<! A b>", "<!A-B c>", "<!ſ x>", "<!\u{212a} x>", "<!A\u{2028}b>>"])).to_string();
    }
    format!("<!{}{}{}{}", *rng.pick(&["DOCTYPE", "X", "AB", "doctype", "Ab", "A1", ""]), ws(rng), *rng.pick(&["", "html", "a b", "é", "<", "\n", "'>'"]), *rng.pick(&[">", ">", ""]))
}

fn cdata(rng: &mut Rng) -> String {
    if rng.chance(1, 3) {
        return (*rng.pick(&["<![CDATA[]]>", "<![CDATA[x]]>", "<![CDATA[]]]>", "<![CDATA[]]]]>", "<![CDATA[]>]]>", "<![CDATA[ ]] >]]>", "<![cdata[x]]>", "<![CDATA [x]]>",
            "<![CDATA[x]]", "<![CDATA[", "<![CDATA", "<![CDATA[a\nb]]>", "<![CDATA[é]]>x]]>", "<![CDATA[<b>]]>"])).to_string();
    }
    let mut s = String::from("<![CDATA[");
    for _ in 0..rng.range(0, 4) { s.push_str(*rng.pick(&["a", "]", "]]", ">", "]>", "\n", "é", " ", "<"])); }
    s.push_str(*rng.pick(&["]]>", "]]>", "]]", "]>", ""]));
    s
}

const ALPHABET: &[&str] = &["<", ">", "!", "?", "/", "-", "=", "\"", "'", " ", "\t", "\n", "a", "b", "A", "[", "]", "`", "\u{a0}", "\u{2028}", "é", "😀", "ſ", "\u{212a}", "C", "D", "T", "s", "k", "\r", "\u{0}"];

fn mutate(rng: &mut Rng, s: &str) -> String {
    let cs: Vec<char> = s.chars().collect();
    if cs.is_empty() { return s.to_string(); }
    let mut out = String::new();
    let at = rng.below(cs.len());
    let op = rng.below(4);
    for (i, c) in cs.iter().enumerate() {
        if i == at {
            match op {
                0 => continue,
                1 => { out.push_str(*rng.pick(ALPHABET)); out.push(*c); continue; }
                2 => { out.push_str(*rng.pick(ALPHABET)); continue; }
                _ => { return out; }
            }
        }
        out.push(*c);
    }
    out
}

fn random_string(rng: &mut Rng) -> String {
    let mut s = String::from(if rng.chance(4, 5) { "<" } else { "" });
    for _ in 0..rng.range(0, 10) { s.push_str(*rng.pick(ALPHABET)); }
    s
}

pub fn fragment(rng: &mut Rng, out: &mut Out) -> String {
    let f = match rng.below(20) {
        0..=6 => { out.stats.count("gen:open-tag"); open_tag(rng) }
        7 | 8 => { out.stats.count("gen:close-tag"); close_tag(rng) }
        9 | 10 | 11 => { out.stats.count("gen:comment"); comment(rng) }
        12 | 13 => { out.stats.count("gen:processing"); processing(rng) }
        14 | 15 => { out.stats.count("gen:declaration"); declaration(rng) }
        16 | 17 => { out.stats.count("gen:cdata"); cdata(rng) }
        18 => { out.stats.count("gen:link-forms"); (*rng.pick(&["<a>", "<a href>", "</a >", "<A>", "</a>", "<a\n>", "<a\u{a0}>", "<a/>", "<ab>", "</ab>", "</A>", "</a\u{2028}>", "<a\tb>", "</a\n\n>", "<a x='</a>'>"])).to_string() }
        _ => { out.stats.count("gen:random"); random_string(rng) }
    };
    if rng.chance(1, 5) { out.stats.count("gen:mutated"); mutate(rng, &f) } else { f }
}

fn tail(rng: &mut Rng) -> &'static str {
    *rng.pick(&["", "", "", "x", " ", ">", "<b>", "  ", "\u{a0}", "\t ", " x", "\u{2028}", "\u{3000}\u{85}", " \u{200b}", "-->", "?>", "]]>", "</pre>"])
}

fn one_line(s: &str) -> String { s.replace('\n', " ").replace('\r', " ") }

/// a line that opens (or nearly opens) an html block
fn opener_line(rng: &mut Rng, out: &mut Out) -> String {
    match rng.below(12) {
        0 | 1 => { let n = *rng.pick(RAW_NAMES); format!("<{}{}", fold_case(rng, n), *rng.pick(&["", ">", " ", " x>", "\u{a0}", "\u{2028}y", "\t", "x", "/>", "/", ">z</pre>", ">a</SCRIPT>b", "></\u{17f}tyle>", "-", "1"])) }
        2 | 3 | 4 => { let n = *rng.pick(&HTML_BLOCKS); format!("<{}{}{}", *rng.pick(&["", "", "/", "//", " "]), fold_case(rng, n), *rng.pick(&["", ">", "/>", " x", "/", "/ >", "x", "\u{a0}", "\t", ">>", " a='b'>", "1", "-", ">text", "\u{3000}>", "/>x", "font", "s"])) }
        5 => (*rng.pick(&["<!--", "<!-- x", "<!-- x -->", "<!---->", "<!-", "<!-->", "<?", "<?php", "<? ?>", "<?>", "<!A", "<!a", "<!DOCTYPE html>", "<!X", "<!É", "<![CDATA[", "<![CDATA[x]]>", "<![CDATA", "<![cdata[", "<!["])).to_string(),
        _ => { let f = fragment(rng, out); format!("{}{}", one_line(&f), tail(rng)) }
    }
}

fn body_line(rng: &mut Rng, out: &mut Out) -> String {
    match rng.below(14) {
        0 | 1 => "foo".into(),
        2 | 3 => String::new(),
        4 => (*rng.pick(&[" ", "  ", "\t", "    "])).to_string(),
        5 => (*rng.pick(&["</script>", "foo</PRE>bar", "</\u{17f}tyle>", "</textarea >", "</textarea", "< /pre>", "</pre\u{a0}>", "</TEXTAREA>x", "</scripT>"])).to_string(),
        6 => (*rng.pick(&["-->", "a --> b", "--->", "-- >", "->"])).to_string(),
        7 => (*rng.pick(&["?>", "a ?> b", "? >", "??>"])).to_string(),
        8 => (*rng.pick(&[">", "a > b", "]]>", "a ]]> b", "]] >", "]>"])).to_string(),
        9 => { let f = fragment(rng, out); one_line(&f) }
        10 => "é 日本".into(),
        _ => (*rng.pick(&["bar", "- x", "> q", "<div>", "</div>", "# h", "***"])).to_string(),
    }
}

fn indent(rng: &mut Rng) -> &'static str {
    *rng.pick(&["", "", "", "", "", " ", "  ", "   ", "    ", "     ", "\t", " \t", "  \t "])
}

fn terminator(rng: &mut Rng, mode: usize) -> &'static str {
    match mode { 0 => "\n", 1 => "\r\n", 2 => "\r", _ => *rng.pick(&["\n", "\n", "\r\n", "\r"]) }
}

/// a line of ordinary block material
fn md_line(rng: &mut Rng) -> String {
    (*rng.pick(&["foo", "foo", "bar baz", "para", "# h", "---", "===", "***", "```", "~~~", "- item", "* x", "1. one", "2) two", "> q", ">", "    code",
        "\tcode", "[r]: /u", "[r]: /u 't'", "[r]:", "  /u", "é", "a\\", "  two", "   three", "-", "1.", "", "", " ", "\t"])).to_string()
}

/// html block material mixed with block syntax, inside a slowly changing stack of container prefixes
/// (block quotes, list items; a prefix is dropped now and then: lazy continuation lines and lines
/// that leave the container), html starts after paragraph lines (interruption), before blank lines
pub fn html_doc(rng: &mut Rng, out: &mut Out) -> String {
    let mode = *rng.pick(&[0usize, 0, 0, 0, 1, 2, 3]);
    let nseg = *rng.pick(&[1usize, 1, 2, 2, 3, 4, 5]);
    let mut stack: Vec<(String, String)> = vec![];
    let mut fresh: Vec<bool> = vec![];
    let mut lines: Vec<String> = vec![];
    for _ in 0..nseg {
        match rng.below(8) {
            0 | 1 | 2 if stack.len() < 3 => {
                let c = match rng.below(7) {
                    0 | 1 => ("> ".to_string(), "> ".to_string()),
                    2 => (">".to_string(), ">".to_string()),
                    3 => ("- ".to_string(), "  ".to_string()),
                    4 => ("1. ".to_string(), "   ".to_string()),
                    5 => ("-\t".to_string(), "  ".to_string()),
                    _ => ("*   ".to_string(), "    ".to_string()),
                };
                stack.push(c); fresh.push(true); out.stats.count("doc:container-opened");
            }
            3 if !stack.is_empty() => { stack.pop(); fresh.pop(); }
            _ => {}
        }
        let mut seg: Vec<String> = vec![];
        // what precedes the html start: nothing, a paragraph (the start must interrupt it), other blocks
        for _ in 0..*rng.pick(&[0usize, 0, 1, 1, 1, 2]) { seg.push(md_line(rng)); }
        let opener = opener_line(rng, out);
        seg.push(format!("{}{}", indent(rng), opener));
        for _ in 0..*rng.pick(&[0usize, 0, 1, 1, 2, 3, 4]) { let b = body_line(rng, out); seg.push(format!("{}{}", indent(rng), b)); }
        match rng.below(4) { 0 => seg.push(String::new()), 1 => { seg.push(String::new()); seg.push(md_line(rng)); } 2 => seg.push(md_line(rng)), _ => {} }
        for l in seg {
            let lazy = rng.chance(1, 6);
            let mut s = String::new();
            for (j, (first, rest)) in stack.iter().enumerate() {
                if lazy && rng.chance(1, 2) { continue; }
                s.push_str(if fresh[j] { first } else { rest });
                fresh[j] = false;
            }
            s.push_str(&l);
            lines.push(s);
        }
    }
    let mut src = String::new();
    for (i, l) in lines.iter().enumerate() {
        if i > 0 { src.push_str(terminator(rng, mode)); }
        src.push_str(l);
    }
    for _ in 0..*rng.pick(&[0usize, 1, 1, 2]) { src.push_str(terminator(rng, mode)); }
    src
}

pub fn special_doc(rng: &mut Rng) -> String {
    (*rng.pick(&[
        "a\n<div>\n*x*\n\n> <pre>\n> y",
        "<!--\n- x",
        "foo\n<a>\nbar",                       // sequence 7 cannot interrupt a paragraph
        "foo\n<div>\nbar\n\nbaz",
        "> <div>\nlazy?\n\nx",
        "> foo\n<div>\n> bar",
        "- <pre>\n  x\n\n  </pre>\n- y",
        "- <pre>\nx\n</pre>",
        "- a\n<!-- c -->\n- b",
        "1. a\n<?php\n?>\n2. b",
        "[r]: /u\n<div>\n'title'",
        "[r]: /u\n<a>\n'title'",
        "<div>\n    code?\n\n    code",
        "   <div>\n    <div>",
        "    <div>\n<div>",
        "<pre>\n\n\n</pre>\n\n",
        "<!DOCTYPE x\n\n>\n",
        "<![CDATA[\n> q\n]]>\n> q",
        "> <!--\n> a\nb\n> -->",
        ">\t<div>\n>\t\tx",
        "<script>\n```\n</script>\n```",
        "```\n<div>\n```\n<div>\n```",
        "<div>\n***\n</div>\n***",
        "a\n===\n<hr>\n---",
        "<p>\n===",
        "# h\n<h1>\n# h",
        "<x-y a='1'\nb>",
        "<a b=\"\n\">\n",
        "</div\n>",
        "<\u{17f}cript>\n\nx",
        "<\u{212a}>",
        "<pre\u{a0}>\n\nx</pre>",
    ])).to_string()
}

fn tabify(rng: &mut Rng, src: &str) -> String {
    let mut out = String::new();
    for c in src.chars() { if c == ' ' && rng.chance(1, 4) { out.push('\t'); } else { out.push(c); } }
    out
}

fn line_endings(rng: &mut Rng, src: &str) -> String {
    match rng.below(3) { 0 => src.replace('\n', "\r\n"), 1 => src.replace('\n', "\r"), _ => { let mut o = String::new(); for c in src.chars() { if c == '\n' { o.push_str(*rng.pick(&["\n", "\r\n", "\r"])); } else { o.push(c); } } o } }
}

pub fn gen_doc(rng: &mut Rng, out: &mut Out, i: usize) -> String {
    let base = match i % 12 {
        0 | 1 | 2 | 3 | 4 => html_doc(rng, out),
        5 => any_doc(rng),
        6 => { let s = rng.pick(&SPEC).clone(); crate::gen::doc::mutate(rng, &s) }
        7 => special_doc(rng),
        8 => { let d = if rng.chance(2, 3) { html_doc(rng, out) } else { rng.pick(&SPEC).clone() }; wrap_container(rng, &d) }
        9 => { let d = html_doc(rng, out); crate::gen::doc::mutate(rng, &d) }
        10 => grammar_doc(rng),
        _ => { let d = special_doc(rng); wrap_container(rng, &d) }
    };
    match rng.below(10) {
        0 => tabify(rng, &base),
        1 => line_endings(rng, &base),
        _ => base,
    }
}
}

// ---------------------------------------------------------------------------------------------
// COPY of the content generators `WORDS`, `emph_stress`, `nested_brackets`, `label_of`, `autolinks`, `code_brackets`,
// `html_mix`, `html_context` of `corr/inlineh.rs`, unchanged (`fragment` is the copy in `bh`)
#[allow(dead_code)]
mod ih {
use super::Out;
use super::bh::fragment;
use crate::gen::doc;
use crate::rng::Rng;

const WORDS: &[&str] = &["foo", "bar", "a", "b", "x", "wörld", "日本", "é", "😀", "q1", "ß", " ", " ", "  ", "\n", ".", ",", "(", ")", "\"", "¡", "—", "«", "»", "\u{a0}", "\u{2003}", "§", "€", "$", "+", "1"];

fn emph_stress(rng: &mut Rng) -> String {
    let markers = ["*", "_", "~", "*", "_"];
    let n = rng.range(1, 9);
    let mut s = String::new();
    for _ in 0..n {
        match rng.below(5) {
            0 | 1 => { let m = *rng.pick(&markers); let hi = if rng.chance(1, 6) { 7 } else { 3 }; s.push_str(&m.repeat(rng.range(1, hi))); }
            2 | 3 => s.push_str(*rng.pick(WORDS)),
            _ => { let m = *rng.pick(&markers); let k = rng.range(1, 3); s.push_str(&m.repeat(k)); s.push_str(*rng.pick(WORDS)); s.push_str(&m.repeat(if rng.chance(3, 4) { k } else { rng.range(1, 4) })); }
        }
    }
    s
}

fn nested_brackets(rng: &mut Rng) -> String {
    fn go(rng: &mut Rng, depth: usize, s: &mut String) {
        let n = rng.range(1, 3);
        for _ in 0..n {
            match if depth == 0 { rng.below(4) } else { rng.below(12) } {
                0 | 1 => s.push_str(*rng.pick(&["a", "b c", "x", "é", "*e*", "`c`", "\\]", "\\[", "&amp;", "<http://u.v>", "]", "[", "!", "`", "\n", "**", "_"])),
                2 => s.push_str(*rng.pick(&["`[`", "`]`", "`](u)`", "``a]``", "`a", "<x:]>", "<x:[>", "`]", "[`"])),
                3 => s.push_str(*rng.pick(&["[ref]", "[Foo][]", "[t][ref]", "[missing]", "[a][missing]", "[]", "[][ref]", "![ref]"])),
                4..=6 => { s.push('['); go(rng, depth - 1, s); s.push_str(*rng.pick(&["](u)", "](u)", "](<u v> \"t\")", "]", "][ref]", "][]", "](", "](u", "](javascript:x)", "] (u)", "](u 't')", "]( u )", "](\nu\n)"])); }
                7 | 8 => { s.push_str("!["); go(rng, depth - 1, s); s.push_str(*rng.pick(&["](i)", "](i \"t\")", "]", "][ref]"])); }
                9 => { s.push('['); go(rng, depth - 1, s); }
                10 => { go(rng, depth - 1, s); s.push(']'); }
                _ => { s.push('*'); go(rng, depth - 1, s); s.push('*'); }
            }
        }
    }
    let mut s = String::new();
    let d = rng.range(1, 8);
    go(rng, d, &mut s);
    s
}

fn label_of(n: usize) -> String { let mut s = String::new(); for i in 0..n { s.push(if i > 0 && i + 1 < n && i % 7 == 3 { '-' } else { (b'a' + (i % 26) as u8) as char }); } s }

fn autolinks(rng: &mut Rng) -> String {
    let n = rng.range(1, 3);
    let mut s = String::new();
    for i in 0..n {
        if i > 0 { s.push_str(*rng.pick(&[" ", "", "x", "\n"])); }
        let a = match rng.below(24) {
            0 => "<http://example.com>".to_string(),
            1 => "<a@b.c>".into(),
            2 => "<javascript:alert(1)>".into(),
            3 => "<JaVaScRiPt:x>".into(),
            4 => "<data:image/png;base64,AA>".into(),
            5 => "<data:text/html,x>".into(),
            6 => "<file:///etc>".into(),
            7 => "<vbscript:x>".into(),
            8 => format!("<a@{}.com>", label_of(63)),
            9 => format!("<a@{}.com>", label_of(64)),
            10 => format!("<a@x.{}>", label_of(rng.range(60, 66))),
            11 => format!("<{}:x>", "s".repeat(rng.range(1, 3))),
            12 => format!("<a{}:x>", "b".repeat(rng.range(29, 33))),
            13 => "<a@b-.c>".into(),
            14 => "<a@-b.c>".into(),
            15 => "<a@b..c>".into(),
            16 => "<a@b.c.>".into(),
            17 => "<a.!#$%&'*+/=?^_`{|}~-z@b-c.d9>".into(),
            18 => "<http://a b>".into(),
            19 => "<http://é.com/ü?q=%20%zz&x>".into(),
            20 => "<h+.-1:>".into(),
            21 => "<1h:x>".into(),
            22 => "<http://a<b>".into(),
            _ => format!("<{}>", doc::sig_string(rng, 8).replace('\n', " ")),
        };
        s.push_str(&a);
    }
    s
}

fn code_brackets(rng: &mut Rng) -> String {
    let n = rng.range(2, 9);
    let mut s = String::new();
    for _ in 0..n {
        s.push_str(*rng.pick(&["`", "``", "```", "`", "[", "]", "](u)", "a", " ", "  ", "\n", "[`", "`]", "*", "![", "\\`", "é", "` `", "`` ` ``", "[a]", "(u)", "<x:`>", "&#96;"]));
    }
    s
}

/// words and fragments side by side
pub fn html_mix(rng: &mut Rng, out: &mut Out) -> String {
    let n = rng.range(1, 6);
    let mut s = String::new();
    for _ in 0..n {
        match rng.below(7) {
            0 | 1 | 2 => s.push_str(&fragment(rng, out)),
            3 => s.push_str(*rng.pick(WORDS)),
            4 => s.push_str(*rng.pick(&["*", "**", "_", "`", "[", "]", "](u)", "![", "\\", "&amp;", "\n", "  \n", "<", ">", "<http://x.y>", "<a@b.c>", "~~"])),
            5 => s.push_str(*rng.pick(&["<a>", "</a>", "<a href=\"u\">", "<b>", "</b>", "<i x='y'>", "<br/>", "<!-- c -->", "<?p?>", "<!D x>", "<![CDATA[x]]>"])),
            _ => s.push_str(&doc::inline_text(rng, 0, 2)),
        }
    }
    s
}

/// fragments inside link labels, image descriptions, emphasis, code spans; next to autolinks; unterminated; `<a>`…`</a>`;
/// at the end of the window
pub fn html_context(rng: &mut Rng, out: &mut Out) -> String {
    let f = fragment(rng, out);
    let g = fragment(rng, out);
    let close = *rng.pick(&["](u)", "](u)", "](<u v> \"t\")", "]", "][ref]", "][]", "](", "](u", "] (u)", "](u 't')"]);
    match rng.below(28) {
        0 => format!("[a {} d]{}", f, close),
        1 => (*rng.pick(&["[a <b c=\"]\"> d](u)", "[a <b c=']'> d](u)", "[a <b c=]> d](u)", "[a <b ]> d](u)", "[a <!--]--> d](u)", "[a <?]?> d](u)", "[a <![CDATA[]]]> d](u)", "[a <![CDATA[x]]> d](u)",
            "[a <!X ]> d](u)", "[a <b c=\"](v)\"> d](u)", "[a <b c=\"[\"> d](u)", "[a </b ]> d](u)", "[a <b\n]> d](u)", "[<b c=\"]\">](u)", "[<b c=\"]\"](u)", "[a <b c=\"]\"> d]", "[a <b c=\"]\"> d][ref]"])).to_string(),
        2 => format!("![x {} y]{}", f, *rng.pick(&["(i)", "(i \"t\")", "", "[ref]"])),
        3 => (*rng.pick(&["![a <b c=\"]\"> d](i)", "![<b>](i)", "![a <b](i) c>", "![<!--]-->](i)", "![x <a> y](i)</a>", "![[<b c=\"]\">](v)](i)"])).to_string(),
        4 => format!("{}a {} b{}", *rng.pick(&["*", "**", "_", "__", "~~", "***"]), f, *rng.pick(&["*", "**", "_", "__", "~~", "***"])),
        5 => (*rng.pick(&["*a <b c=\"*\"> d*", "*a <b* c>", "<b *c*>", "<b c=\"*x*\">", "**<b>**", "_<b>_", "*<b>*x", "a*<b>*", "<b>*x*</b>", "*a <!--*--> b*", "~~<s>~~", "<b c=_x_ d=_y_>"])).to_string(),
        6 => format!("`{}`", f),
        7 => (*rng.pick(&["`a <b` c>", "<b c=\"`\"> `x`", "<b `c`>", "`<b>`", "``<b c=\"`\">``", "<b c=\"`\"> d`", "`a <b c=\"`\">", "<!--`--> `", "` <b> `` <c> `", "<b c='``'> `` x ``"])).to_string(),
        8 => (*rng.pick(&["<http://x>", "<http>", "<http://x> <http>", "<http> <http://x>", "<a@b.c>", "<a@b>", "<a b@c.d>", "<http://x y>", "<http:>", "<h:x>", "<hh:x>", "<http://x><b>", "<b><http://x>",
            "<http://a<b>", "<a href=\"<http://x>\">", "<http://x/<b>>", "<mailto:a@b.c>", "<a.b>", "<a.b@c.d>", "<a:b>", "<ab:c d>", "<ab:c>", "<A1+.-:x>", "<http://]>", "[<http://]>](u)", "[<http ]>](u)"])).to_string(),
        9 => format!("{}{}{}", autolinks(rng), *rng.pick(&["", " ", "x"]), f),
        10 => format!("{}{}{}", f, *rng.pick(&["", " ", "x"]), autolinks(rng)),
        11 => (*rng.pick(&["<a href=\"x", "<!--", "a <b", "<b c='", "<b c=\"x\" ", "<?", "<![CDATA[", "<!X", "</b", "<", "a<", "<b\n", "<b c", "<b c=", "a <b c=\"]\"", "[a <b c=\"](u)", "[a <!--](u)", "![a <b](u)", "*<b*", "`<b`"])).to_string(),
        12 => { let n = rng.range(1, 6); let mut s = String::new(); for _ in 0..n { s.push_str(*rng.pick(&["<a>", "</a>", "<a href='x'>", "</a >", "<a\n>", "<A>", "</A>", "<ab>", "x", " ", "<a/>", "</a\n>"])); } s }
        13 => (*rng.pick(&["<a><a><a>", "</a></a></a>", "<a>x</a>", "[<a>](u)", "[</a>](u)", "[<a>](u)</a>", "<a>[x](u)</a>", "[a<a>b</a>c](u)", "[<a>[<a>](u)](v)", "![<a>](i)", "![</a></a>](i)",
            "[x <a> [y </a> z](u) w](v)", "*<a>*</a>", "`<a>`</a>", "<a>`</a>`", "[<a><a>]", "[<a>]</a>", "<a\u{a0}>", "<a>\\</a>", "<a>&amp;</a>"])).to_string(),
        14 => format!("[{}]{}", html_mix(rng, out), close),
        15 => format!("[a [{}](v) c]{}", f, close),
        16 => format!("![a [{}](v) ![{}](w)]{}", f, g, *rng.pick(&["(i)", "", "[ref]"])),
        17 => format!("[{} [x]{} y]{}", f, *rng.pick(&["", "(v)", "[ref]"]), close),
        18 => (*rng.pick(&["[x <b](u) c>", "[x <b](u) c>](v)", "[x <!--](u)-->", "[x <!--](u)-->](v)", "![x <b](i) c>", "[x <b c=\"](u)\">", "[x <b c=\"](u)\">](v)", "*x <b* c>", "*x <b* c>*",
            "[a](<b>)", "[a](u \"<b>\")", "[a](<b c=\"x\">)", "[a]<b>(u)", "[a][<b>]", "[<b>][]", "[<b>]", "[a]<b>", "[ref<b>]", "[x <b\n](u) c>"])).to_string(),
        19 => format!("{}\\{}", *rng.pick(&["", "a", "\\"]), f),
        20 => format!("{}&lt;{}&gt;", f, g),
        21 => format!("{}\n{}", f, g),
        22 => format!("a  \n{}\\\n{}", f, g),
        23 => { let inner = nested_brackets(rng); format!("{}{}{}", f, inner, g) }
        24 => { let inner = code_brackets(rng); format!("{}{}{}", inner, f, *rng.pick(&["`", "``", "", "]"])) }
        25 => (*rng.pick(&["[l <i>](u)", "a <b c=\"]\">x</b> [l <i>](u)", "[x <http://y> <z w>](u)", "[x <http://y]> <z w>](u)", "[x <z w]>](u)", "[x <z \"]\">](u)", "[x <z=']'>](u)"])).to_string(),
        26 => format!("{} {}", html_mix(rng, out), emph_stress(rng)),
        _ => format!("{}{}", f, g),
    }
}
}
