//! stream `pipeline`: the WHOLE document pipeline of html-free configurations — `md.parse(src)` (block pass,
//! inline splice walk, `FragmentsJoin`, `SyntaxPosRule`), `.render()` and `.xrender()` — against the Lean model
//! `MdIt.Pipeline` (`Driver/Pipeline.lean`, where the request / answer grammar is written down).
//!
//!   pipeline html <x01> <sourcepos01> <maxNesting> <blockChain> <inlineChain> <emphCfg> <hexSrc>
//!   pipeline tree <x01> <sourcepos01> <maxNesting> <blockChain> <inlineChain> <emphCfg> <hexSrc>
//!
//! Parsers are built from `crate::cfg` configurations without the two html plugins: any subset / order of the
//! 17 cmark sub-plugins + strikethrough + sourcepos, `max_nesting` in {0,1,2,3,5,100}.  The block chain, the
//! inline chain and the core chain sent to / assumed by the model are read back from the `Debug` output of the
//! real parser (the compiled order), never assumed.
use super::Out;
use crate::cfg::{self, Cfg};
use crate::gen::doc::{adversarial, any_doc, grammar_doc, mutate, wrap_container, SPEC};
use crate::rng::Rng;
use crate::util::{guarded, hexs};
use markdown_it::generics::inline::emph_pair::EmphMarker;
use markdown_it::parser::core::Root;
use markdown_it::parser::inline::{InlineRoot, Text, TextSpecial};
use markdown_it::plugins::cmark::block::blockquote::Blockquote;
use markdown_it::plugins::cmark::block::code::CodeBlock;
use markdown_it::plugins::cmark::block::fence::CodeFence;
use markdown_it::plugins::cmark::block::heading::ATXHeading;
use markdown_it::plugins::cmark::block::hr::ThematicBreak;
use markdown_it::plugins::cmark::block::lheading::SetextHeader;
use markdown_it::plugins::cmark::block::list::{BulletList, ListItem, OrderedList};
use markdown_it::plugins::cmark::block::paragraph::Paragraph;
use markdown_it::plugins::cmark::inline::autolink::Autolink;
use markdown_it::plugins::cmark::inline::backticks::CodeInline;
use markdown_it::plugins::cmark::inline::emphasis::{Em, Strong};
use markdown_it::plugins::cmark::inline::image::Image;
use markdown_it::plugins::cmark::inline::link::Link;
use markdown_it::plugins::cmark::inline::newline::{Hardbreak, Softbreak};
use markdown_it::plugins::extra::inline::strikethrough::Strikethrough;
use markdown_it::{MarkdownIt, Node};

// ---------------------------------------------------------------------------------------------
// configurations

const EMPHASIS: usize = 3;
/// the plugins a configuration of this stream may hold: cmark (0..=16), strikethrough, sourcepos
const ALLOWED: u32 = cfg::CMARK_MASK | 1 << cfg::STRIKE | 1 << cfg::SOURCEPOS;

struct Conf {
    md: MarkdownIt,
    max_nesting: u32,
    bchain: String,
    ichain: String,
    emph: String,
    sourcepos: bool,
}

fn block_rule_name(ty: &str) -> &'static str {
    for (suffix, name) in [("CodeScanner", "code"), ("FenceScanner", "fence"), ("BlockquoteScanner", "blockquote"),
        ("HrScanner", "hr"), ("ListScanner", "list"), ("ReferenceScanner", "reference"), ("LHeadingScanner", "lheading"),
        ("HeadingScanner", "heading"), ("ParagraphScanner", "paragraph")] {
        if ty.ends_with(suffix) { return name; }
    }
    "?"
}

fn inline_rule_name(ty: &str) -> String {
    let t = ty.trim();
    if t.ends_with("TextScanner") { return "text".into(); }
    if t.ends_with("NewlineScanner") { return "newline".into(); }
    if t.ends_with("EscapeScanner") { return "escape".into(); }
    if t.contains("CodePairScanner<'`', false>") { return "backticks".into(); }
    if t.ends_with("LinkScanner<false>") { return "link".into(); }
    if t.contains("LinkPrefixScanner<'!', true>") { return "image".into(); }
    if t.ends_with("LinkScannerEnd") { return "linkEnd".into(); }
    if t.ends_with("AutolinkScanner") { return "autolink".into(); }
    if t.ends_with("EntityScanner") { return "entity".into(); }
    if let Some(p) = t.find("EmphPairScanner<'") {
        let rest = &t[p + "EmphPairScanner<'".len()..];
        let m = rest.chars().next().unwrap();
        let split = rest.contains("true");
        return format!("emph:{}:{}", hexs(&m.to_string()), if split { 1 } else { 0 });
    }
    format!("?{}", t)
}

/// the type paths of the LAST `compiled: [(idx, Type), …]` list in a `Debug` output (the rule types of
/// this crate contain no parenthesis)
fn compiled_types(dbg: &str) -> Vec<String> {
    let key = "compiled: [";
    let mut out = vec![];
    let p = match dbg.rfind(key) { Some(p) => p, None => return out };
    let mut rest = &dbg[p + key.len()..];
    loop {
        let rest_t = rest.trim_start_matches(|c: char| c == ',' || c.is_whitespace());
        if !rest_t.starts_with('(') { break; }
        let close = rest_t.find(')').unwrap();
        let body = &rest_t[1..close];
        out.push(body.splitn(2, ',').nth(1).unwrap_or("").trim().to_string());
        rest = &rest_t[close + 1..];
    }
    out
}

fn join_or_dash(v: Vec<String>) -> String { if v.is_empty() { "-".into() } else { v.join(",") } }

fn conf(c: &Cfg, out: &mut Out) -> Conf {
    let md = c.build();
    let bchain = join_or_dash(compiled_types(&format!("{:?}", md.block)).iter().map(|t| block_rule_name(t).to_string()).collect());
    let ichain_v: Vec<String> = compiled_types(&format!("{:?}", md.inline)).iter().map(|t| inline_rule_name(t)).collect();
    // `PairConfig<MARKER>::fns` as the shipped plugins fill it
    let mut emph = vec![];
    if c.has(EMPHASIS) { emph.push("2a:es-".to_string()); emph.push("5f:es-".to_string()); }
    if c.has(cfg::STRIKE) { emph.push("7e:-k-".to_string()); }
    // the core chain: the last ruler in the Debug output of the parser itself
    let core: Vec<String> = compiled_types(&format!("{:?}", md)).iter().map(|t| t.rsplit("::").next().unwrap_or("").to_string()).collect();
    let has_emph_rule = ichain_v.iter().any(|r| r.starts_with("emph:"));
    let mut expect = vec!["BlockParserRule", "InlineParserRule"];
    if has_emph_rule { expect.push("FragmentsJoin"); }
    if c.has(cfg::SOURCEPOS) { expect.push("SyntaxPosRule"); }
    if core != expect { out.stats.count("UNEXPECTED-CORE-CHAIN"); eprintln!("core chain {:?} for {}", core, c.describe()); }
    if bchain.contains('?') || ichain_v.iter().any(|r| r.starts_with('?')) { out.stats.count("UNKNOWN-RULE-IN-CHAIN"); }
    Conf { md, max_nesting: c.max_nesting, bchain, ichain: join_or_dash(ichain_v), emph: if emph.is_empty() { "-".into() } else { emph.join(";") }, sourcepos: c.has(cfg::SOURCEPOS) }
}

fn stock(strike: bool, sourcepos: bool, max_nesting: u32) -> Cfg {
    Cfg { mask: cfg::CMARK_MASK | (strike as u32) << cfg::STRIKE | (sourcepos as u32) << cfg::SOURCEPOS, order_seed: 0, max_nesting }
}

fn random_cfg(rng: &mut Rng, out: &mut Out) -> Cfg {
    let extras = ((rng.next() as u32) & (1 << cfg::STRIKE | 1 << cfg::SOURCEPOS)) & ALLOWED;
    let mask = match rng.below(20) {
        0..=7 => { out.stats.count("conf:all-cmark"); cfg::CMARK_MASK | extras }
        8..=10 => { out.stats.count("conf:omit-one"); (cfg::CMARK_MASK & !(1 << rng.below(17))) | extras }
        11..=15 => { out.stats.count("conf:subset-3/4"); let mut m = 0u32; for i in 0..17 { if rng.chance(3, 4) { m |= 1 << i; } } m | extras }
        _ => { out.stats.count("conf:random-mask"); (rng.next() as u32) & ALLOWED }
    };
    let order_seed = if rng.chance(1, 2) { 0 } else { out.stats.count("conf:shuffled-order"); 1 + rng.below(100000) as u64 };
    let max_nesting = if rng.chance(5, 8) { 100 } else { *rng.pick(&[0u32, 1, 2, 3, 5]) };
    Cfg { mask, order_seed, max_nesting }
}

// ---------------------------------------------------------------------------------------------
// the tree dump (grammar: Driver/Pipeline.lean)

fn cp(c: char) -> u32 { c as u32 }
fn title_str(t: &Option<String>) -> String { match t { Some(t) => hexs(t), None => "none".into() } }
fn ch(c: char) -> String { hexs(&c.to_string()) }

fn dump(node: &Node, out: &mut String) {
    out.push('(');
    let k = crate::dump::kind(node);
    if node.is::<Root>() { out.push_str("root"); }
    else if node.is::<Paragraph>() { out.push('p'); }
    else if node.is::<Blockquote>() { out.push_str("bq"); }
    else if node.is::<ListItem>() { out.push_str("li"); }
    else if let Some(x) = node.cast::<BulletList>() { out.push_str(&format!("ul:{}", cp(x.marker))); }
    else if let Some(x) = node.cast::<OrderedList>() { out.push_str(&format!("ol:{}:{}", x.start, cp(x.marker))); }
    else if let Some(x) = node.cast::<CodeBlock>() { out.push_str(&format!("code:{}", hexs(&x.content))); }
    else if let Some(x) = node.cast::<CodeFence>() { out.push_str(&format!("fence:{}:{}:{}:{}", hexs(&x.info), cp(x.marker), x.marker_len, hexs(&x.content))); }
    else if let Some(x) = node.cast::<ThematicBreak>() { out.push_str(&format!("hr:{}:{}", cp(x.marker), x.marker_len)); }
    else if let Some(x) = node.cast::<ATXHeading>() { out.push_str(&format!("h:{}", x.level)); }
    else if let Some(x) = node.cast::<SetextHeader>() { out.push_str(&format!("sh:{}:{}", x.level, cp(x.marker))); }
    else if let Some(x) = node.cast::<InlineRoot>() {
        let m: Vec<String> = x.mapping.iter().map(|(a, b)| format!("{}/{}", a, b)).collect();
        out.push_str(&format!("inl:{}:{}", hexs(&x.content), if m.is_empty() { "-".to_string() } else { m.join(",") }));
    }
    else if let Some(t) = node.cast::<Text>() { out.push_str(&format!("T:{}", hexs(&t.content))); }
    else if let Some(t) = node.cast::<TextSpecial>() { out.push_str(&format!("X:{}:{}:{}", hexs(&t.content), hexs(&t.markup), hexs(t.info))); }
    else if node.is::<Softbreak>() { out.push_str("SB"); }
    else if node.is::<Hardbreak>() { out.push_str("HB"); }
    else if let Some(c) = node.cast::<CodeInline>() { out.push_str(&format!("C:{}:{}", ch(c.marker), c.marker_len)); }
    else if let Some(e) = node.cast::<Em>() { out.push_str(&format!("E:{}", ch(e.marker))); }
    else if let Some(e) = node.cast::<Strong>() { out.push_str(&format!("S:{}", ch(e.marker))); }
    else if let Some(e) = node.cast::<Strikethrough>() { out.push_str(&format!("K:{}", ch(e.marker))); }
    else if let Some(l) = node.cast::<Link>() { out.push_str(&format!("L:{}:{}", hexs(&l.url), title_str(&l.title))); }
    else if let Some(l) = node.cast::<Image>() { out.push_str(&format!("I:{}:{}", hexs(&l.url), title_str(&l.title))); }
    else if let Some(a) = node.cast::<Autolink>() { out.push_str(&format!("A:{}", hexs(&a.url))); }
    else if let Some(m) = node.cast::<EmphMarker>() { out.push_str(&format!("M:{}:{}:{}:{}:{}", ch(m.marker), m.length, m.remaining, m.open as u8, m.close as u8)); }
    else { out.push_str(&format!("?{}", k)); }
    out.push(' ');
    match node.srcmap.map(|m| m.get_byte_offsets()) { Some((a, b)) => out.push_str(&format!("{}-{}", a, b)), None => out.push_str("none") }
    for (n, v) in node.attrs.iter() { out.push_str(&format!(" @{}={}", hexs(n), hexs(v))); }
    for c in node.children.iter() { out.push(' '); dump(c, out); }
    out.push(')');
}

/// `<stage>-<class>` as `Driver/Pipeline.lean` names the panics of the model
fn panic_class(msg: &str, rendering: bool) -> String {
    let loc = msg.rsplit(" @ ").next().unwrap_or("");
    let stage = if rendering { "render" }
        else if loc.contains("sourcemap") || loc.contains("sourcepos") { "sourcepos" }
        else if loc.contains("/inline/") { "inline" }
        else { "block" };
    let sub = if stage == "block" { "sub" } else { "underflow" };
    let class = if msg.contains("didn't increment") { "progress" }
        else if msg.contains("doesn't implement render") || msg.contains("not implemented") { "unimplemented" }
        else if msg.contains("index out of bounds") { "index" }
        else if msg.contains("attempt to subtract") { sub }
        else if msg.contains("byte index") || msg.contains("char boundary") || msg.contains("slice index") || msg.contains("out of range for slice") || msg.contains("begin <= end") || msg.contains("when slicing") { "slice" }
        else if msg.contains("assertion failed") { "assert" }
        else if msg.contains("Option::unwrap()") { "unwrap" }
        else if msg.contains("ParseIntError") || msg.contains("Result::unwrap()") { "radix" }
        else { "other" };
    format!("{}-{}", stage, class)
}

// ---------------------------------------------------------------------------------------------
// documents

fn tabify(rng: &mut Rng, src: &str) -> String {
    let mut out = String::new();
    let mut at_start = true;
    let cs: Vec<char> = src.chars().collect();
    let mut i = 0;
    while i < cs.len() {
        let c = cs[i];
        if c == '\n' { at_start = true; out.push(c); i += 1; continue; }
        if c == ' ' && rng.chance(1, 2) {
            if at_start && i + 3 < cs.len() && cs[i + 1] == ' ' && cs[i + 2] == ' ' && cs[i + 3] == ' ' && rng.chance(1, 2) { out.push('\t'); i += 4; continue; }
            out.push('\t'); i += 1; continue;
        }
        if c != ' ' && c != '>' && c != '-' { at_start = false; }
        out.push(c); i += 1;
    }
    out
}

fn line_endings(rng: &mut Rng, src: &str) -> String {
    match rng.below(3) {
        0 => src.replace('\n', "\r\n"),
        1 => src.replace('\n', "\r"),
        _ => { let mut o = String::new(); for c in src.chars() { if c == '\n' { o.push_str(*rng.pick(&["\n", "\r\n", "\r"])); } else { o.push(c); } } o }
    }
}

/// every named reference of the table whose expansion contains a markup delimiter (as oracle/c03.rs)
static DELIM_REFS: once_cell::sync::Lazy<Vec<&'static str>> = once_cell::sync::Lazy::new(|| {
    entities::ENTITIES.iter().filter(|e| e.entity.ends_with(';') && e.characters.chars().any(|c| "<>\"&".contains(c))).map(|e| e.entity).collect()
});

/// the hostile payloads of oracle/c03.rs
fn hostile(rng: &mut Rng) -> String {
    if rng.chance(1, 4) {
        let r = *rng.pick(&DELIM_REFS);
        let astral = *rng.pick(&["", "😀", "\u{10000}", "é"]);
        return match rng.below(5) {
            0 => format!("{astral}{r}script{r} {astral}<x>"),
            1 => format!("[{r}]({r} \"{astral}{r}\")"),
            2 => format!("![{astral}{r}](/u '{r}')"),
            3 => format!("``` {r}\n{astral}{r}\n```"),
            _ => format!("# {astral}{r}\n\n> {r}\n\n- *{r}* `{r}`"),
        };
    }
    let p = *rng.pick(&["\"><script>alert(1)</script>", "\" onmouseover=\"x", "<img src=x onerror=y>", "&lt;b&gt;", "&#60;b&#62;", "'\"><", "\\\"", "&quot;&#34;&#x22;", "<!--", "]]>", "\0<x>"]);
    match rng.below(9) {
        0 => format!("[a]({})", p),
        1 => format!("[a](<{}>)", p),
        2 => format!("[a](/u \"{}\")", p),
        3 => format!("![{}](/u '{}')", p, p),
        4 => format!("```{}\n{}\n```", p, p),
        5 => format!("`{}`", p),
        6 => format!("<http://x/{}>", p),
        7 => format!("[r]: /u \"{}\"\n\n[r] {}", p, p),
        _ => format!("    {}\n\n# {}\n\n1234567890. {}", p, p, p),
    }
}

/// deep container / bracket / emphasis nesting around and beyond the small nesting limits
fn deep(rng: &mut Rng) -> String {
    let k = rng.range(1, 9);
    match rng.below(12) {
        0 => format!("{}a", ">".repeat(k)),
        1 => format!("{}a\n{}b", "> ".repeat(k), "> ".repeat(rng.below(k + 1))),
        2 => format!("{}a", "- ".repeat(k)),
        3 => format!("{}a\n\n{}b", "1. ".repeat(k), "   ".repeat(rng.below(k + 1))),
        4 => { let mut s = String::new(); for _ in 0..k { s.push_str("> - "); } s + "a\n> b\nc" }
        5 => "[".repeat(k) + "a" + &"](x)".repeat(k),
        6 => "![".repeat(k) + "a" + &"](x)".repeat(k),
        7 => "*a ".repeat(k) + &"a*".repeat(k),
        8 => format!("{}[{}*a*{}](u)", "> ".repeat(k), "[".repeat(k), "]".repeat(k)),
        9 => format!("- {}[![a](i)](u) ~~*b*~~", "> ".repeat(k)),
        10 => { let n = rng.range(10, 40); adversarial(rng, n) }
        _ => { let n = rng.range(1, 9); adversarial(rng, n) }
    }
}

/// one construct of every block and inline kind (all 12 + 11 node kinds), with references
const EVERYTHING: &str = "# h *e* **s** ~~k~~\n\nsetext `c`\n===\n\n> q\n\n- a\n- b\n\n1. x\n\n2) y\n\n***\n\n    code\n\n```rs\nfence\n```\n\n[r]: /u \"t\"\n\n[r] [l](/v) ![i](/w 'x') <http://a.b> &amp; \\* a  \nb\nc *_\n";

fn gen_doc(rng: &mut Rng, i: usize) -> (String, &'static str) {
    let (base, tag) = match i % 16 {
        0 | 1 | 2 => (any_doc(rng), "doc:any"),
        3 | 4 | 5 => (grammar_doc(rng), "doc:grammar"),
        6 | 7 => { let s = rng.pick(&SPEC).clone(); (mutate(rng, &s), "doc:spec-mutated") }
        8 => (rng.pick(&SPEC).clone(), "doc:spec-other-config"),
        9 => (hostile(rng), "doc:hostile"),
        10 => (deep(rng), "doc:deep"),
        11 => { let d = grammar_doc(rng); (tabify(rng, &d), "doc:tab-heavy") }
        12 => { let d = if rng.chance(1, 2) { grammar_doc(rng) } else { rng.pick(&SPEC).clone() }; (line_endings(rng, &d), "doc:cr-crlf") }
        13 => { let d = if rng.chance(1, 2) { grammar_doc(rng) } else { rng.pick(&SPEC).clone() }; (wrap_container(rng, &d), "doc:wrapped") }
        14 => { let d = mutate(rng, EVERYTHING); (d, "doc:everything-mutated") }
        _ => { let d = grammar_doc(rng); (mutate(rng, &d), "doc:grammar-mutated") }
    };
    // a second, independent chance of tabs / other line endings on top of any family
    match rng.below(12) {
        0 => (tabify(rng, &base), tag),
        1 => (line_endings(rng, &base), tag),
        _ => (base, tag),
    }
}

// ---------------------------------------------------------------------------------------------
// requests

fn request(op: &str, x: bool, c: &Conf, src: &str) -> String {
    format!("pipeline {} {} {} {} {} {} {} {}", op, x as u8, c.sourcepos as u8, c.max_nesting, c.bchain, c.ichain, c.emph, hexs(src))
}

const KINDS: [(&str, &str); 23] = [("(p ", "paragraph"), ("(bq ", "blockquote"), ("(ul:", "bullet-list"), ("(ol:", "ordered-list"), ("(li ", "list-item"),
    ("(code:", "code-block"), ("(fence:", "fence"), ("(hr:", "hr"), ("(h:", "atx"), ("(sh:", "setext"),
    ("(T:", "text"), ("(X:", "text-special"), ("(SB ", "softbreak"), ("(HB ", "hardbreak"), ("(C:", "code-inline"), ("(E:", "em"), ("(S:", "strong"),
    ("(K:", "strike"), ("(L:", "link"), ("(I:", "image"), ("(A:", "autolink"), ("(inl:", "PLACEHOLDER-inline-root"), ("(M:", "PLACEHOLDER-emph-marker")];

fn emit_doc(out: &mut Out, c: &Conf, src: &str, tag: &str, xs: &[bool]) {
    let nontrivial = src.lines().count() > 1 || src.len() > 8;
    // the final tree
    let t = match guarded(|| { let root = c.md.parse(src); let mut s = String::new(); dump(&root, &mut s); s }) {
        Ok(s) => {
            for (pat, key) in KINDS { if s.contains(pat) { out.stats.count(&format!("tree:{}", key)); } }
            if s.contains(" @") { out.stats.count("tree:with-sourcepos-attrs"); }
            if s.contains("(li (T:") || s.contains("(li ") && !s.contains("(p ") { out.stats.count("tree:tight-list"); }
            if !c.bchain.contains("paragraph") && s.contains("(T:") { out.stats.count("tree:fallback-inline-root-spliced"); }
            s
        }
        Err(e) => { out.stats.count("parse:panic"); format!("PANIC:{}", panic_class(&e, false)) }
    };
    out.emit(&request("tree", false, c, src), &t, nontrivial);
    for x in xs {
        let h = match guarded(|| c.md.parse(src)) {
            Err(e) => format!("PANIC:{}", panic_class(&e, false)),
            Ok(root) => match guarded(|| if *x { root.xrender() } else { root.render() }) {
                Ok(h) => { if h.contains('\u{fffd}') { out.stats.count("html:with-U+FFFD"); } hexs(&h) }
                Err(e) => { out.stats.count("render:panic"); format!("PANIC:{}", panic_class(&e, true)) }
            },
        };
        out.stats.count(if *x { "html:xrender" } else { "html:render" });
        out.emit(&request("html", *x, c, src), &h, nontrivial);
    }
    out.stats.count(tag);
    out.stats.count("documents");
    if c.sourcepos { out.stats.count("conf:sourcepos"); }
    if c.emph != "-" { out.stats.count("conf:join-pass"); }
    if c.max_nesting < 100 { out.stats.count("conf:small-max-nesting"); }
    if src.contains('\t') { out.stats.count("doc:with-tab"); }
    if src.contains('\r') { out.stats.count("doc:with-cr"); }
    if src.contains('\0') { out.stats.count("doc:with-nul"); }
}

pub fn run(n: usize, rng: &mut Rng, out: &mut Out) {
    // every spec input: all of cmark (no html), plain and with strikethrough + sourcepos
    let plain = conf(&stock(false, false, 100), out);
    let rich = conf(&stock(true, true, 100), out);
    for s in SPEC.iter() {
        emit_doc(out, &plain, s, "doc:spec", &[false, true]);
        emit_doc(out, &rich, s, "doc:spec-sourcepos-strike", &[false]);
    }
    let fixed = ["", "\n", "a", "a\n", "\n\n", " ", "\t", ">", "-", "1.", "#", "```", "    ", "[a]: b", "- a\n- b", "> a\nb", "a\n===", "***",
        "\r", "\r\n", "a\r\rb", "\u{feff}a", "a\0b", "*a", "a*", "**", "[", "]", "![", "`", "&", "\\", "<", EVERYTHING];
    for s in fixed {
        emit_doc(out, &plain, s, "doc:fixed", &[false, true]);
        emit_doc(out, &rich, s, "doc:fixed", &[true]);
    }
    for mn in [0u32, 1, 2, 3, 5] {
        let c = conf(&stock(true, true, mn), out);
        for s in ["> > > > > > a", "- - - - - - a", "> - > - a\n> - > - b", "1. > 2. > x\n\ny", "a\n> b\n- c", "[[[[[[a](b)](c)](d)](e)](f)](g)",
            "*a **b ~~c *d* c~~ b** a*", "> [![*a*](i)](u)", EVERYTHING] { emit_doc(out, &c, s, "doc:small-max-nesting", &[false]); }
    }
    // a pool of random configurations (building a parser and reading its chains back is not free)
    let mut pool: Vec<Conf> = vec![];
    for _ in 0..60 { let c = random_cfg(rng, out); pool.push(conf(&c, out)); }
    for i in 0..n {
        let (src, tag) = gen_doc(rng, i);
        if src.len() > 1200 { out.stats.count("doc:skipped-too-long"); continue; }
        if rng.chance(1, 12) { let c = random_cfg(rng, out); let k = rng.below(pool.len()); pool[k] = conf(&c, out); }
        let c = &pool[rng.below(pool.len())];
        let x = rng.chance(1, 2);
        emit_doc(out, c, &src, tag, &[x]);
    }
}

/// stream `pipetabs`: code spans (and other inline constructs) over continuation lines whose TAB is split by a
/// container indent (virtual-space entries in the per-line table; `get_source_pos_for` clamps inside them)
pub fn run_tabs(n: usize, rng: &mut Rng, out: &mut Out) {
    let plain = conf(&stock(false, false, 100), out);
    let rich = conf(&stock(true, true, 100), out);
    let fixed = ["-    ` a\n\t\t`", "- `\n\ta `", "> `\n>\t`\u{e9}", "1.  `` x\n\t\t ``", "-    ` a\n\t\t`\u{e9}", "- )) `\n\t\u{e9} `",
        "-    a\n\t\tb", "- a\n\tb", "- a\n\n \tb", "-  *a\n\t b*", "-  [a\n\t b](c)", "-  a\\\n\t\tb", "-  a  \n\t\tb", ">  - ` \n>\t\t `",
        "-   `\n\t\t\t`", "-  ``\n\t ` \n\t\t``", "1. ![`\n\t`](x)", "- `a\n\t`\n\tb `c\n\t`", "-  <a\n\tb>", "-  &amp\n\t;", "- **a\n\t**", "-    `\t\n\t\t\t`"];
    for s in fixed {
        emit_doc(out, &plain, s, "doc:tabs-fixed", &[false, true]);
        emit_doc(out, &rich, s, "doc:tabs-fixed", &[false]);
    }
    let opens = ["- `", "> `", "1. `x", "- ``", "- a `b", ">  - `", "- `  ", "-    ` a", "-   ` ", "-  `` a", "10. ` x", ">   ` a", "-  *", "-  [", "-  ~~a", "- \\"];
    let conts = ["\n\t", "\n\t\t", "\n \t", "\n>\t", "\n  \t", "\r\n\t", "\n\t \t", "\n>\t\t", "\n\t\n\t"];
    let closes = [" `", "`", " ``", "\n\t`", " ` z", "`\u{e9}", "*", "](u)", "~~", "  `", "\t`"];
    for i in 0..n {
        let open = *rng.pick(&opens);
        let cont = *rng.pick(&conts);
        let close = *rng.pick(&closes);
        let mid = match rng.below(4) { 0 => String::new(), 1 => "a".to_string(), 2 => " \u{e9} ".to_string(), _ => crate::gen::doc::inline_text(rng, 0, 2) };
        let mut src = format!("{open}{cont}{mid}{close}");
        if rng.chance(1, 4) { let c2 = *rng.pick(&conts); let cl2 = *rng.pick(&closes); src = format!("{src}{c2}{cl2}"); }
        let c = if i % 3 == 0 { &rich } else { &plain };
        let x = rng.chance(1, 2);
        emit_doc(out, c, &src, "doc:tabs-generated", &[x]);
    }
}
