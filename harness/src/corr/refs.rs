//! stream `refs`: reference-label normalisation and first-definition-wins lookup (C13).
//!
//! * `refs normalize <hexLabel>`                         → hex of the REAL `normalize_reference(label)`
//! * `refs resolve <defs> <hexLabel>`                    → a `HashMap<ReferenceMapKey, ReferenceMapEntry>` is
//!        filled exactly like the tail of `ReferenceScanner::run` (normalise, reject empty,
//!        `entry(ReferenceMapKey::new(..)).or_insert_with(..)`) and queried like `parse_link`;
//!        answer = hex of the destination found, or `none`
//! * `refs use <defs> <hexText> <hexExplicit|none>`      → a DOCUMENT with the definitions (top level,
//!        in block quotes, in list items; before and after the use) and one use `[text]`, `[text][]`
//!        or `[text][explicit]` goes through the REAL parser; answer = href of the link, or `none`
//!   `<defs>` = `;`-separated `hexLabel=hexDest` in document order, `.` when there is none.
use super::Out;
use crate::rng::Rng;
use crate::util::hexs;
use markdown_it::common::utils::normalize_reference;
use markdown_it::parser::inline::Text;
use markdown_it::plugins::cmark::block::paragraph::Paragraph;
use markdown_it::plugins::cmark::block::reference::{ReferenceMapEntry, ReferenceMapKey};
use markdown_it::plugins::cmark::inline::link::Link;
use markdown_it::Node;
use std::collections::HashMap;

pub const WS: [char; 25] = [
    '\u{9}', '\u{a}', '\u{b}', '\u{c}', '\u{d}', ' ', '\u{85}', '\u{a0}', '\u{1680}', '\u{2000}', '\u{2001}', '\u{2002}',
    '\u{2003}', '\u{2004}', '\u{2005}', '\u{2006}', '\u{2007}', '\u{2008}', '\u{2009}', '\u{200a}', '\u{2028}', '\u{2029}',
    '\u{202f}', '\u{205f}', '\u{3000}',
];
/// multi-character expansions, characters that are fixed by one of the two maps but not by the other,
/// title-case digraphs, Turkic i, Kelvin / Angstrom / Ohm, theta variants
const SPECIAL: &[char] = &[
    'ß', 'ẞ', 'ŉ', 'ǰ', 'ΐ', 'ΰ', 'և', 'ẖ', 'ẗ', 'ẘ', 'ẙ', 'ẚ', 'ﬀ', 'ﬁ', 'ﬂ', 'ﬃ', 'ﬄ', 'ﬅ', 'ﬆ', 'İ', 'ı', 'I', 'i', '\u{212a}', 'k', 'K',
    '\u{212b}', 'å', 'Å', '\u{2126}', 'ω', 'Ω', 'ϴ', 'ϑ', 'θ', 'Θ', 'ǅ', 'ǆ', 'Ǆ', 'ᾳ', 'ᾼ', 'ᾈ', 'ᾀ', 'ῼ', 'ῳ', 'µ', 'μ', 'Μ', 'ſ', 's', 'S', 'ͅ', 'ι', 'Ι', 'ι',
    'ᲀ', 'в', 'В', 'ꙋ', 'ᲈ', 'Ꙋ', 'ϐ', 'β', 'ϕ', 'φ', 'ϖ', 'π', 'ϰ', 'κ', 'ϱ', 'ρ', 'ϵ', 'ε', 'ẛ', 'ṡ', 'Ṡ', 'ᏸ', 'Ᏸ', 'ꭰ', 'Ꭰ',
];
const SIGMA: &[char] = &['Σ', 'σ', 'ς'];
/// case-ignorable characters (matter for the final-sigma rule) and other uncased ones
const OTHER: &[char] = &['\u{301}', '\u{307}', '\'', '’', '.', ':', '-', '·', '1', '日', 'ª', '_', '\u{ad}', '\u{200b}', '😀'];

fn cased_pool() -> Vec<char> {
    let mut v = vec![];
    for cp in 0..=0x10ffffu32 {
        if let Some(c) = char::from_u32(cp) {
            let mut l = c.to_lowercase(); let mut u = c.to_uppercase();
            let lid = l.len() == 1 && l.next() == Some(c);
            let uid = u.len() == 1 && u.next() == Some(c);
            if !lid || !uid { v.push(c); }
        }
    }
    v
}

fn ws_run(rng: &mut Rng) -> String {
    let k = match rng.below(4) { 0 | 1 => 1, 2 => 2, _ => rng.range(2, 4) };
    (0..k).map(|_| if rng.chance(1, 3) { ' ' } else { *rng.pick(&WS) }).collect()
}

fn gen_label(rng: &mut Rng, pool: &[char]) -> String {
    let n = match rng.below(10) { 0 => 0, 1 => 1, 2 => 2, _ => rng.range(1, 9) };
    let mut s = String::new();
    if rng.chance(1, 4) { s.push_str(&ws_run(rng)); }
    for _ in 0..n {
        match rng.below(20) {
            0..=6 => s.push(*rng.pick(pool)),
            7..=9 => s.push(*rng.pick(SPECIAL)),
            10 | 11 => s.push(*rng.pick(SIGMA)),
            12..=14 => s.push_str(&ws_run(rng)),
            15 | 16 => s.push(*rng.pick(&['a', 'B', 'z', 'Q', 'é', 'É', 'я', 'Я'])),
            _ => s.push(*rng.pick(OTHER)),
        }
    }
    if rng.chance(1, 4) { s.push_str(&ws_run(rng)); }
    s
}

/// capital sigma in every position the final-sigma rule distinguishes
const SIGMA_CASES: &[&str] = &[
    "Σ", "ΑΣ", "ΑΣ ", "ΣΑ", "ΑΣΑ", ".Σ", "Α.Σ", "ΑΣ.", "ΑΣ\u{301}", "Α\u{301}Σ", "ΣΣ", "ΑΣΣ", "ΑΣΣΑ", "ὈΔΥΣΣΕΎΣ", "ὀδυσσεύς",
    "Σ Σ", " Σ", "Σ ", "aΣ", "aΣb", "1Σ", "aΣ1", "a'Σ", "aΣ'b", "aΣ-", "ς", "σ", "aς", "ςa", "AΣ\u{a0}B", "AΣ\u{2003}", "日Σ", "ǅΣ", "ßΣ", "ΑΣ:Α",
    "Α\u{ad}Σ", "ΑΣ\u{ad}Α", "Α\u{200b}Σ\u{200b}",
];

/// a spelling variant of `base` that the property says must still match
fn variant(rng: &mut Rng, base: &str) -> String {
    let mut s = base.to_string();
    for _ in 0..rng.range(1, 3) {
        s = match rng.below(8) {
            0 => s.to_uppercase(),
            1 => s.to_lowercase(),
            2 => s.to_lowercase().to_uppercase(),
            3 => s.chars().map(|c| if rng.chance(1, 2) { c.to_uppercase().collect::<String>() } else { c.to_lowercase().collect::<String>() }).collect(),
            4 => format!("{}{}", ws_run(rng), s),
            5 => format!("{}{}", s, ws_run(rng)),
            6 => { let mut o = String::new(); let mut in_ws = false;
                   for c in s.chars() { if c.is_whitespace() { if !in_ws { o.push_str(&ws_run(rng)); in_ws = true; } } else { o.push(c); in_ws = false; } } o }
            _ => s,
        };
    }
    s
}

fn enc_defs(defs: &[(String, String)]) -> String {
    if defs.is_empty() { return ".".into(); }
    defs.iter().map(|(l, d)| format!("{}={}", hexs(l), hexs(d))).collect::<Vec<_>>().join(";")
}

// ---------- document-level use

const DOC_WS: &[char] = &[' ', ' ', '\t', '\u{a0}', '\u{2003}', '\u{3000}', '\u{b}', '\u{c}', '\u{85}', '\u{1680}', '\u{2028}', '\u{205f}'];

/// labels safe to embed in a document: letters and white space only (no markdown syntax), at most
/// single newlines and only when `multiline`
fn doc_label(rng: &mut Rng, letters: &[char], multiline: bool, allow_blank: bool) -> String {
    let n = rng.range(1, 5);
    let mut s = String::new();
    if rng.chance(1, 5) { s.push(*rng.pick(DOC_WS)); }
    for i in 0..n {
        if i > 0 && rng.chance(1, 2) {
            if multiline && rng.chance(1, 6) { s.push('\n'); }
            else { for _ in 0..rng.range(1, 2) { s.push(*rng.pick(DOC_WS)); } }
        }
        match rng.below(6) {
            0 | 1 => s.push(*rng.pick(letters)),
            2 => s.push(*rng.pick(SPECIAL)),
            3 => s.push(*rng.pick(SIGMA)),
            _ => s.push(*rng.pick(&['a', 'B', 'z', 'Q', 'é', 'É', 'я', 'Я', 'f', 'F', 's', 'S'])),
        }
    }
    if rng.chance(1, 5) { s.push(*rng.pick(DOC_WS)); }
    if allow_blank && rng.chance(1, 25) { s = (*rng.pick(&["", " ", "\t ", "\u{a0}"])).to_string(); }
    s
}

fn doc_variant(rng: &mut Rng, base: &str, multiline: bool) -> String {
    let mut s = base.to_string();
    for _ in 0..rng.range(1, 2) {
        s = match rng.below(7) {
            0 => s.to_uppercase(),
            1 => s.to_lowercase(),
            2 => s.chars().map(|c| if rng.chance(1, 2) { c.to_uppercase().collect::<String>() } else { c.to_lowercase().collect::<String>() }).collect(),
            3 => format!("{}{}", rng.pick(DOC_WS), s),
            4 => format!("{}{}", s, rng.pick(DOC_WS)),
            5 => { let mut o = String::new(); let mut in_ws = false;
                   for c in s.chars() { if c.is_whitespace() { if !in_ws { for _ in 0..rng.range(1, 3) { o.push(*rng.pick(DOC_WS)); } in_ws = true; } } else { o.push(c); in_ws = false; } } o }
            _ => s,
        };
    }
    if !multiline { s = s.replace('\n', " "); }
    s
}

/// href of the link in the paragraph that starts with the marker text, if any
fn find_use<'a>(node: &'a Node) -> Option<Option<String>> {
    if node.is::<Paragraph>() {
        if let Some(first) = node.children.first() {
            if let Some(t) = first.cast::<Text>() {
                if t.content.starts_with("ZZQ") {
                    for c in node.children.iter() {
                        if let Some(l) = c.cast::<Link>() { return Some(Some(l.url.clone())); }
                    }
                    return Some(None);
                }
            }
        }
    }
    for c in node.children.iter() { if let Some(r) = find_use(c) { return Some(r); } }
    None
}

pub fn run(n: usize, rng: &mut Rng, out: &mut Out) {
    let pool = cased_pool();
    let letters: Vec<char> = pool.iter().copied().filter(|c| c.is_alphabetic()).collect();
    let emit_norm = |out: &mut Out, label: &str| {
        let real = normalize_reference(label);
        let per_char_lower: String = label.trim().chars().flat_map(|c| c.to_lowercase()).collect();
        if label.contains('Σ') { out.stats.count("norm_capital_sigma"); }
        if label.trim().to_lowercase() != per_char_lower { out.stats.count("norm_final_sigma_rule_fired"); }
        if label.chars().any(|c| c.is_whitespace() && c != ' ') { out.stats.count("norm_non_space_ws"); }
        if label != label.trim() { out.stats.count("norm_leading_or_trailing_ws"); }
        if real.chars().count() != label.trim().chars().count() { out.stats.count("norm_length_changed"); }
        if normalize_reference(&real) != real { out.stats.count("norm_NOT_IDEMPOTENT"); }
        if real.is_empty() { out.stats.count("norm_empty_result"); }
        out.emit(&format!("refs normalize {}", hexs(label)), &hexs(&real), real != label);
    };

    // --- every character with a non-identity case mapping (thorough runs), eight to a label
    if n >= 1000 {
        for chunk in pool.chunks(8) {
            let s: String = chunk.iter().collect();
            emit_norm(out, &s);
            out.stats.add("norm_swept_table_chars", chunk.len() as u64);
        }
        // … and each one between two letters, sixteen to a label separated by assorted white space
        for (i, chunk) in pool.chunks(16).enumerate() {
            let mut s = String::new();
            for (j, c) in chunk.iter().enumerate() { if j > 0 { s.push(WS[(i + j) % 25]); } s.push('x'); s.push(*c); s.push('Y'); }
            emit_norm(out, &s);
        }
    }
    for s in SIGMA_CASES { emit_norm(out, s); out.stats.count("norm_sigma_position_cases"); }
    for (i, w) in WS.iter().enumerate() {
        let w2 = WS[(i * 7 + 3) % 25];
        for s in [format!("a{}b", w), format!("{}a", w), format!("a{}", w), format!("a{}{}b", w, w2), format!("{}{}", w, w2), format!("{}a{}{}{}Σ{}", w, w, w2, w, w2)] { emit_norm(out, &s); }
        out.stats.count("norm_ws_code_points_covered");
    }

    // --- random labels
    for _ in 0..n / 2 {
        let l = gen_label(rng, &pool);
        emit_norm(out, &l);
    }

    // --- map semantics
    for _ in 0..n / 4 {
        let k = rng.below(6);
        let nbase = rng.range(1, 3);
        let bases: Vec<String> = (0..nbase).map(|_| { let mut b = gen_label(rng, &pool); if rng.chance(1, 12) { b = (*rng.pick(&["", " ", "\u{a0}\t"])).to_string(); } b }).collect();
        let mut defs: Vec<(String, String)> = vec![];
        for i in 0..k {
            let l = if rng.chance(3, 4) { { let b = rng.pick(&bases).clone(); variant(rng, &b) } } else { gen_label(rng, &pool) };
            defs.push((l, format!("/d{}", i)));
        }
        let q = if rng.chance(4, 5) { { let b = rng.pick(&bases).clone(); variant(rng, &b) } } else { gen_label(rng, &pool) };
        let mut refs: HashMap<ReferenceMapKey, ReferenceMapEntry> = HashMap::new();
        let mut rejected = 0;
        let mut kept_existing = 0;
        for (l, d) in defs.iter() {
            let label = normalize_reference(l);
            if label.is_empty() { rejected += 1; continue; }
            let before = refs.len();
            refs.entry(ReferenceMapKey::new(label)).or_insert_with(|| ReferenceMapEntry::new(d.clone(), None));
            if refs.len() == before { kept_existing += 1; }
        }
        let r = refs.get(&ReferenceMapKey::new(q.to_owned()));
        let ans = match r { Some(e) => hexs(&e.destination), None => "none".into() };
        if r.is_some() { out.stats.count("resolve_found"); } else { out.stats.count("resolve_none"); }
        if rejected > 0 { out.stats.count("resolve_empty_label_rejected"); }
        if kept_existing > 0 { out.stats.count("resolve_duplicate_kept_first"); }
        if let Some(e) = r { if e.destination != "/d0" { out.stats.count("resolve_found_not_first_def"); }
            if !defs.iter().any(|(l, _)| *l == q) { out.stats.count("resolve_found_via_variant_only"); } }
        out.emit(&format!("refs resolve {} {}", enc_defs(&defs), hexs(&q)), &ans, kept_existing > 0 || r.is_some());
    }

    // --- whole documents through the real parser
    let md = crate::cfg::Cfg::cmark_only().build();
    let mut done = 0;
    let mut attempts = 0;
    while done < n / 4 && attempts < n {
        attempts += 1;
        let k = rng.below(5);
        let nbase = rng.range(1, 2);
        let bases: Vec<String> = (0..nbase).map(|_| doc_label(rng, &letters, true, false)).collect();
        // definitions with their placement: 0 top level, 1 block quote, 2 list item, 3 quote in list item
        let mut defs: Vec<(String, String, usize)> = vec![];
        for i in 0..k {
            let place = rng.below(4);
            let multiline = place == 0;
            let l = if rng.chance(3, 4) { { let b = rng.pick(&bases).clone(); doc_variant(rng, &b, multiline) } } else { doc_label(rng, &letters, multiline, true) };
            defs.push((l, format!("/d{}", i), place));
        }
        let pick_label = |rng: &mut Rng| if rng.chance(4, 5) { { let b = rng.pick(&bases).clone(); doc_variant(rng, &b, true) } } else { doc_label(rng, &letters, true, true) };
        let text = pick_label(rng);
        let form = rng.below(4);
        let explicit: Option<String> = match form { 0 => None, 1 => Some(String::new()), _ => Some(pick_label(rng)) };
        let use_src = match &explicit { None => format!("ZZQ [{}] q", text), Some(e) => format!("ZZQ [{}][{}] q", text, e) };
        let use_at = rng.below(k + 1);
        let mut blocks: Vec<String> = vec![];
        for (i, (l, d, place)) in defs.iter().enumerate() {
            if i == use_at { blocks.push(use_src.clone()); }
            let line = format!("[{}]: {}", l, d);
            blocks.push(match place { 0 => line, 1 => format!("> {}", line), 2 => format!("- {}", line), _ => format!("1. > {}", line) });
        }
        if use_at == k { blocks.push(use_src.clone()); }
        let src = blocks.join("\n\n") + "\n";
        let root = md.parse(&src);
        let got = match find_use(&root) { Some(g) => g, None => { out.stats.count("use_skipped_marker_not_found"); continue; } };
        let ans = match &got { Some(u) => hexs(u), None => "none".into() };
        if got.is_some() { out.stats.count("use_resolved"); } else { out.stats.count("use_unresolved"); }
        if let Some(u) = &got { if defs.iter().skip(use_at).any(|d| &d.1 == u) { out.stats.count("use_resolved_by_later_definition"); } else { out.stats.count("use_resolved_by_earlier_definition"); } }
        if let Some(u) = &got { if let Some(d) = defs.iter().find(|d| &d.1 == u) { match d.2 { 0 => out.stats.count("use_def_top_level"), 1 => out.stats.count("use_def_in_quote"), 2 => out.stats.count("use_def_in_list_item"), _ => out.stats.count("use_def_in_quote_in_list") } } }
        match form { 0 => out.stats.count("use_shortcut"), 1 => out.stats.count("use_collapsed"), _ => out.stats.count("use_full") }
        let dd: Vec<(String, String)> = defs.iter().map(|(l, d, _)| (l.clone(), d.clone())).collect();
        let ex = match &explicit { None => "none".to_string(), Some(e) => hexs(e) };
        out.emit(&format!("refs use {} {} {}", enc_defs(&dd), hexs(&text), ex), &ans, got.is_some());
        done += 1;
    }
}
