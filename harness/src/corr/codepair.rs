//! stream `codepair`: the REAL code-span rule (`CodePairScanner::<'`', false>::run`) driven call by
//! call on one `InlineState` (so every call of a sequence shares the per-paragraph cache in
//! `state.inline_env`, exactly like the parser), against the Lean model `MdIt.CodePair.runSeq`.
//!
//! request : `codepair seq <hexSrc> <pos>,<posMax>,<prev01>,<silent01>;…`
//! answer  : `;`-separated `none` | `some:<len>` (silent) |
//!           `some:<len>:<innerStart>:<innerEnd>:<hexContent>:<markerLen>:<rangeStart>:<rangeEnd>` (real),
//!           `PANIC` in place of the first panicking call (sequence stops there)
//! `prev01`: before the call the tree's trailing text is made to end (1) / not to end (0) in a
//! backtick — the rule used to read it; the current code must not care.
use super::Out;
use crate::rng::Rng;
use crate::util::{guarded, hexs};
use markdown_it::generics::inline::code_pair::CodePairScanner;
use markdown_it::parser::inline::{InlineRule, InlineState, Text};
use markdown_it::plugins::cmark::inline::backticks::{self, CodeInline};
use markdown_it::{MarkdownIt, Node};

const TEXTS: &[&str] = &[
    "a", "b", " ", "  ", "\n", " \n", "é", "€", "𝄞", "\\", "&amp;", "&#96;", "[", "]", "](x)", "*", "<b>", "a b", " a ", "\\`",
];

/// (source, run starts+lengths as byte offsets)
fn gen_src(rng: &mut Rng) -> (String, Vec<(usize, usize)>) {
    let mut s = String::new();
    let mut runs = vec![];
    let segs = if rng.chance(1, 3) { rng.range(9, 18) } else { rng.range(1, 9) };
    // a small set of lengths per source makes equal-length pairs (= spans) frequent
    let palette: Vec<usize> = (0..rng.range(1, 3)).map(|_| if rng.chance(1, 8) { rng.range(4, 6) } else { rng.range(1, 3) }).collect();
    let mut last_was_run = false;
    for i in 0..segs {
        let want_run = if i == 0 { rng.chance(2, 3) } else { !last_was_run || rng.chance(1, 10) };
        if want_run && !last_was_run {
            let l = if rng.chance(1, 6) { rng.range(1, 6) } else { *rng.pick(&palette) };
            runs.push((s.len(), l));
            for _ in 0..l { s.push('`'); }
            last_was_run = true;
        } else {
            let k = if rng.chance(1, 12) { 0 } else { rng.range(1, 3) };
            let before = s.len();
            for _ in 0..k { let t: &str = *rng.pick(TEXTS); s.push_str(t); }
            if s.len() > before { last_was_run = false; }
        }
    }
    if s.is_empty() { s.push('`'); runs.push((0, 1)); }
    (s, runs)
}

struct CallSpec { pos: usize, pos_max: usize, prev: bool, silent: bool }

fn boundaries(s: &str) -> Vec<usize> { (0..=s.len()).filter(|i| s.is_char_boundary(*i)).collect() }

fn gen_calls(rng: &mut Rng, s: &str, runs: &[(usize, usize)], out: &mut Out) -> Vec<CallSpec> {
    let len = s.len();
    let bnd = boundaries(s);
    // candidate pos_max values: full length, right before / right after / inside a run, any boundary
    let mut pm_cands: Vec<(usize, &'static str)> = vec![(len, "pm-full")];
    for &(st, l) in runs {
        pm_cands.push((st, "pm-before-run"));
        pm_cands.push((st + l, "pm-after-run"));
        if l > 1 { pm_cands.push((st + 1 + rng.below(l - 1), "pm-inside-run")); }
    }
    let n = rng.range(1, 9);
    let order = rng.below(4); // 0 increasing, 1 decreasing, 2 random, 3 look-ahead pattern (silent sweep, then real sweep)
    let mut poss: Vec<usize> = (0..n).map(|_| {
        if !runs.is_empty() && rng.chance(7, 10) {
            let &(st, l) = rng.pick(runs);
            if rng.chance(1, 5) { st + rng.below(l) } else { st }
        } else { *rng.pick(&bnd) }
    }).collect();
    match order { 0 | 3 => poss.sort(), 1 => { poss.sort(); poss.reverse(); } _ => {} }
    if order == 3 { let again = poss.clone(); poss.extend(again); }
    let half = poss.len() / 2;
    let fixed_pm = rng.chance(1, 3);
    let mut calls = vec![];
    for (i, pos) in poss.into_iter().enumerate() {
        let (mut pm, tag) = if fixed_pm || rng.chance(1, 2) { (len, "pm-full") } else if rng.chance(1, 6) { (*rng.pick(&bnd), "pm-any") } else { *rng.pick(&pm_cands) };
        let mut tag = tag;
        let mut pos = pos;
        // mostly valid calls (pos < pos_max); a few invalid ones to compare the panics as well
        if pos >= pm && !rng.chance(1, 25) { pm = len; tag = "pm-full"; }
        if pos >= len && !rng.chance(1, 25) { pos = if runs.is_empty() { 0 } else { rng.pick(runs).0 }; }
        if rng.chance(1, 400) { pm = len + rng.range(1, 2); tag = "pm-beyond"; }
        if rng.chance(1, 400) { pos = rng.below(len + 1); pm = rng.below(len + 2); tag = "pm-wild"; }
        out.stats.count(tag);
        let silent = if order == 3 { i < half } else { rng.chance(1, 2) };
        calls.push(CallSpec { pos, pos_max: pm, prev: rng.chance(1, 4), silent });
    }
    calls
}

fn real(md: &MarkdownIt, s: &str, calls: &[CallSpec], out: &mut Out) -> String {
    let mut env = markdown_it::common::ErasedSet::new();
    let mut state = InlineState::new(s.to_owned(), vec![(0, 0)], md, &mut env, Node::default());
    let mut items: Vec<String> = vec![];
    for c in calls {
        state.node.children.clear();
        state.node.children.push(Node::new(Text { content: if c.prev { "x`".to_owned() } else { "x".to_owned() } }));
        state.pos = c.pos;
        state.pos_max = c.pos_max;
        let before = state.node.children.len();
        let r = guarded(|| CodePairScanner::<'`', false>::run(&mut state, c.silent));
        match r {
            Err(_) => { out.stats.count("panic"); items.push("PANIC".into()); break; }
            Ok(None) => {
                out.stats.count("none");
                if state.node.children.len() != before { items.push("none:TREE-CHANGED".into()); } else { items.push("none".into()); }
            }
            Ok(Some(len)) if c.silent => {
                out.stats.count("some-silent");
                if state.node.children.len() != before { items.push(format!("some:{}:TREE-CHANGED", len)); } else { items.push(format!("some:{}", len)); }
            }
            Ok(Some(len)) => {
                out.stats.count("some-real");
                if state.node.children.len() != before + 1 { items.push(format!("some:{}:NO-NODE", len)); continue; }
                let node = state.node.children.last().unwrap();
                let (rs, re) = node.srcmap.map(|m| m.get_byte_offsets()).unwrap_or((usize::MAX, usize::MAX));
                let ml = node.cast::<CodeInline>().map(|c| c.marker_len).unwrap_or(usize::MAX);
                if node.children.len() != 1 { items.push(format!("some:{}:BAD-CHILDREN", len)); continue; }
                let inner = &node.children[0];
                let (is, ie) = inner.srcmap.map(|m| m.get_byte_offsets()).unwrap_or((usize::MAX, usize::MAX));
                let content = inner.cast::<Text>().map(|t| t.content.clone()).unwrap_or_else(|| "?".into());
                if content.starts_with(' ') || content.contains('\n') { out.stats.count("content-lead-space-or-had-newline"); }
                if ie - is + 2 * ml != len { out.stats.count("padding-stripped"); }
                items.push(format!("some:{}:{}:{}:{}:{}:{}:{}", len, is, ie, hexs(&content), ml, rs, re));
            }
        }
        if state.pos != c.pos || state.pos_max != c.pos_max { items.push("STATE-MOVED".into()); }
    }
    if items.is_empty() { "-".into() } else { items.join(";") }
}

/// the call sequence the inline tokenizer itself would produce on `s`: left to right, the rule
/// invoked for real at every backtick the loop stands on (also inside a failed run); at up to two
/// points a silent sweep to the end of the line first (a link label look-ahead); optionally a
/// nested real pass over a prefix range with its own, smaller `pos_max` (a link label's contents)
fn tokenizer_calls(md: &MarkdownIt, s: &str, rng: &mut Rng) -> Vec<CallSpec> {
    let mut env = markdown_it::common::ErasedSet::new();
    let mut state = InlineState::new(s.to_owned(), vec![(0, 0)], md, &mut env, Node::default());
    let len = s.len();
    let bnd = boundaries(s);
    let la: Vec<usize> = (0..rng.below(3)).map(|_| *rng.pick(&bnd)).collect();
    let nested: Option<(usize, usize)> = if rng.chance(1, 3) {
        let a = *rng.pick(&bnd); let b = *rng.pick(&bnd);
        if a < b { Some((a, b)) } else { None }
    } else { None };
    let mut calls: Vec<CallSpec> = vec![];
    let step = |state: &mut InlineState, calls: &mut Vec<CallSpec>, pos: usize, pm: usize, silent: bool| -> usize {
        let ch = s[pos..].chars().next().unwrap();
        if ch != '`' { return ch.len_utf8(); }
        state.pos = pos; state.pos_max = pm;
        calls.push(CallSpec { pos, pos_max: pm, prev: false, silent });
        match guarded(|| CodePairScanner::<'`', false>::run(state, silent)) { Ok(Some(l)) => l.max(1), _ => 1 }
    };
    let mut pos = 0;
    while pos < len && calls.len() < 40 {
        if la.contains(&pos) {
            let mut q = pos;
            while q < len && calls.len() < 40 { q += step(&mut state, &mut calls, q, len, true); }
        }
        if let Some((a, b)) = nested {
            if pos == a {
                let mut q = a;
                while q < b && calls.len() < 40 { q += step(&mut state, &mut calls, q, b, false); }
                pos = b.max(q);
                continue;
            }
        }
        pos += step(&mut state, &mut calls, pos, len, false);
    }
    calls
}

pub fn run(n: usize, rng: &mut Rng, out: &mut Out) {
    let mut md = MarkdownIt::new();
    backticks::add(&mut md);
    // regression sequences first: the index panic of the pinned tree and the three cache defects
    let fixed: Vec<(&str, Vec<(usize, usize, bool, bool)>)> = vec![
        ("[`", vec![(1, 2, false, true), (1, 2, false, false)]),
        ("[`a` `", vec![(1, 6, false, true), (5, 6, false, true), (1, 6, false, false)]),
        ("``` `a``b` ``c``", vec![(0, 16, false, false), (1, 16, true, false), (2, 16, true, false), (4, 16, false, false), (11, 16, false, false)]),
        ("[``a]`](x)", vec![(1, 10, false, true), (2, 10, false, true), (5, 10, false, true), (1, 6, false, false), (2, 6, true, false), (5, 6, false, false)]),
        ("``a```", vec![(0, 6, false, true), (0, 5, false, true)]),
        ("`a `b`", vec![(0, 2, false, true), (3, 6, false, false), (0, 6, false, false)]),
    ];
    for (s, cs) in fixed {
        let calls: Vec<CallSpec> = cs.into_iter().map(|(pos, pos_max, prev, silent)| CallSpec { pos, pos_max, prev, silent }).collect();
        emit(&md, s, &calls, out);
    }
    for _ in 0..n {
        let (s, runs) = gen_src(rng);
        let calls = if rng.chance(1, 3) { out.stats.count("seq-tokenizer-like"); tokenizer_calls(&md, &s, rng) } else { gen_calls(rng, &s, &runs, out) };
        if calls.is_empty() { continue; }
        emit(&md, &s, &calls, out);
    }
}

fn emit(md: &MarkdownIt, s: &str, calls: &[CallSpec], out: &mut Out) {
    let req = format!("codepair seq {} {}", hexs(s),
        calls.iter().map(|c| format!("{},{},{},{}", c.pos, c.pos_max, c.prev as u8, c.silent as u8)).collect::<Vec<_>>().join(";"));
    let ans = real(md, s, calls, out);
    let mixed = calls.iter().any(|c| c.pos_max != s.len());
    if mixed { out.stats.count("seq-mixed-posmax"); }
    if s.len() != s.chars().count() { out.stats.count("src-multibyte"); }
    out.emit(&req, &ans, calls.len() >= 2 && s.matches('`').count() >= 2);
}
