//! stream `ruler`: real `Ruler<usize,usize>` order / panic class vs the Lean `compile`; histories with a cache
use super::Out;
use crate::oracle::c09::{encode, gen_rules, real};
use crate::rng::Rng;
use crate::util::guarded;
use markdown_it::common::ruler::Ruler;

pub fn run(n: usize, rng: &mut Rng, out: &mut Out) {
    for _ in 0..n {
        let rules = gen_rules(rng);
        let req = format!("ruler compile 0 {}", encode(&rules));
        let ans = real(&rules);
        out.stats.count(if ans.starts_with("ok") { "ok" } else if ans.starts_with("missing") { "missing" } else { "cyclic" });
        out.emit(&req, &ans, rules.iter().map(|r| r.cons.len()).sum::<usize>() >= 2);
    }
    // histories on ONE real ruler (with its compiled-order cache) vs the cache-free model:
    // constraint-rich rule sets, then use / remove / use again with no add in between
    for _ in 0..n / 3 {
        let mut r: Ruler<usize, usize> = Ruler::new();
        let mut ops: Vec<String> = vec![];
        let mut res = vec![];
        let nrules = rng.range(2, 7);
        for m in 0..nrules {
            let it = r.add(m, m);
            ops.push(format!("add{}", m));
            for _ in 0..rng.below(3) {
                let t = rng.below(nrules);
                match rng.below(6) {
                    0 | 1 => { it.before(t); ops.push(format!("bef{}", t)); }
                    2 | 3 => { it.after(t); ops.push(format!("aft{}", t)); }
                    4 => { it.require(t); ops.push(format!("req{}", t)); }
                    _ => { it.alias(20 + t % 2); ops.push(format!("ali{}", 20 + t % 2)); }
                }
            }
            match rng.below(8) { 0 => { it.before_all(); ops.push("ball".into()); } 1 => { it.after_all(); ops.push("aall".into()); } _ => {} }
        }
        let iter = |r: &Ruler<usize, usize>| -> String {
            match guarded(|| r.iter().copied().collect::<Vec<usize>>()) {
                Ok(v) => format!("ok:{}", v.iter().map(|x| x.to_string()).collect::<Vec<_>>().join(",")),
                Err(e) if e.starts_with("cyclic") => "cyclic".into(),
                Err(e) if e.starts_with("missing") => { let p: Vec<&str> = e.split(" @ ").next().unwrap().split_whitespace().collect(); format!("missing:{}:{}", p[2], p[4]) }
                Err(e) => format!("PANIC:{}", e),
            }
        };
        let steps = rng.range(2, 6);
        for _ in 0..steps {
            match rng.below(7) {
                0..=2 => { res.push(iter(&r)); ops.push("iter".into()); }
                3 | 4 => { let m = if rng.chance(1, 5) { 20 + rng.below(2) } else { rng.below(nrules) }; r.remove(m); ops.push(format!("rem{}", m)); res.push(iter(&r)); ops.push("iter".into()); }
                5 => { let m = rng.below(nrules + 1); res.push((r.contains(m) as u8).to_string()); ops.push(format!("has{}", m)); }
                _ => { let m = rng.below(nrules); let t = rng.below(nrules); let it = r.add(m + 10, m + 10); it.after(t); ops.push(format!("add{};aft{}", m + 10, t)); }
            }
        }
        out.stats.count("histories");
        let removes = ops.iter().filter(|o| o.starts_with("rem")).count();
        if removes > 0 { out.stats.count("histories_with_remove_after_use"); }
        out.emit(&format!("ruler hist {}", ops.join(";")), &res.join(";"), removes > 0);
    }
}
