//! stream `ruler`: real `Ruler<usize,usize>` order / panic class vs the Lean `compile`; histories with a cache
use super::Out;
use crate::oracle::c09::{encode, gen_rules, real};
use crate::rng::Rng;
use crate::util::guarded;
use markdown_it::common::ruler::Ruler;

pub fn run(n: usize, rng: &mut Rng, out: &mut Out) {
    for _ in 0..n {
        let rules = gen_rules(rng);
        let req = format!("ruler compile 0 {}", encode(&rules));
        let ans = real(&rules);
        out.stats.count(if ans.starts_with("ok") { "ok" } else if ans.starts_with("missing") { "missing" } else { "cyclic" });
        out.emit(&req, &ans, rules.iter().map(|r| r.cons.len()).sum::<usize>() >= 2);
    }
    // histories on ONE real ruler (with its compiled-order cache) vs the cache-free model
    for _ in 0..n / 4 {
        let mut r: Ruler<usize, usize> = Ruler::new();
        let mut ops = vec![];
        let mut res = vec![];
        let mut any = false;
        let k = rng.range(2, 14);
        for _ in 0..k {
            let m = rng.below(6);
            match rng.below(12) {
                0..=3 => { r.add(m, m); any = true; ops.push(format!("add{}", m)); if rng.chance(1, 2) { let t = rng.below(7); let it = r.add(m + 10, m + 10); match rng.below(5) { 0 => { it.before(t); ops.push(format!("add{};bef{}", m + 10, t)); } 1 => { it.after(t); ops.push(format!("add{};aft{}", m + 10, t)); } 2 => { it.alias(t + 20); ops.push(format!("add{};ali{}", m + 10, t + 20)); } 3 => { it.before_all(); ops.push(format!("add{};ball", m + 10)); } _ => { it.after_all(); ops.push(format!("add{};aall", m + 10)); } } } }
                4 | 5 => { r.remove(m); ops.push(format!("rem{}", m)); }
                6 => { res.push((r.contains(m) as u8).to_string()); ops.push(format!("has{}", m)); }
                _ => {
                    let got = guarded(|| r.iter().copied().collect::<Vec<usize>>());
                    res.push(match got { Ok(v) => format!("ok:{}", v.iter().map(|x| x.to_string()).collect::<Vec<_>>().join(",")), Err(e) if e.starts_with("cyclic") => "cyclic".into(), Err(e) if e.starts_with("missing") => { let p: Vec<&str> = e.split(" @ ").next().unwrap().split_whitespace().collect(); format!("missing:{}:{}", p[2], p[4]) } Err(e) => format!("PANIC:{}", e) });
                    ops.push("iter".into());
                }
            }
        }
        let _ = any;
        out.stats.count("histories");
        out.emit(&format!("ruler hist {}", ops.join(";")), &res.join(";"), ops.iter().any(|o| o.starts_with("rem")) && ops.iter().filter(|o| *o == "iter").count() >= 2);
    }
}
