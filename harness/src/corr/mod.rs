//! Correspondence streams: each emits request lines for the Lean model driver together with
//! the answer of the REAL implementation for the same request.
use crate::rng::Rng;
use crate::util::Stats;
use std::io::Write;

pub mod url;
pub mod pipeline;
pub mod htmldecode;
pub mod html;
pub mod blockh;
pub mod inlineh;
pub mod pipelineh;
pub mod inline;
pub mod block;
pub mod noderender;
pub mod entity;
pub mod codepair;
pub mod link;
pub mod lines;
pub mod alt;
pub mod refs;
pub mod pstate;
pub mod nest;
pub mod inlineops;
pub mod ruler;
pub mod eset;
pub mod render;
pub mod smap;

pub struct Out {
    pub cases: std::io::BufWriter<std::fs::File>,
    pub answers: std::io::BufWriter<std::fs::File>,
    pub stats: Stats,
}

impl Out {
    pub fn new(dir: &str, stream: &str) -> Self {
        let c = std::fs::File::create(format!("{}/{}.cases", dir, stream)).unwrap();
        let a = std::fs::File::create(format!("{}/{}.impl", dir, stream)).unwrap();
        Out { cases: std::io::BufWriter::new(c), answers: std::io::BufWriter::new(a), stats: Stats::default() }
    }
    /// one request + the implementation's canonical answer
    pub fn emit(&mut self, request: &str, answer: &str, nontrivial: bool) {
        debug_assert!(!request.contains('\n') && !answer.contains('\n'));
        writeln!(self.cases, "{}", request).unwrap();
        writeln!(self.answers, "{}", answer).unwrap();
        self.stats.case(request, nontrivial);
    }
    pub fn finish(mut self) -> Stats {
        self.cases.flush().unwrap();
        self.answers.flush().unwrap();
        self.stats
    }
}

pub type StreamFn = fn(n: usize, rng: &mut Rng, out: &mut Out);

pub fn streams() -> Vec<(&'static str, StreamFn)> {
    vec![
        ("url", url::run as StreamFn),
        ("pipeline", pipeline::run as StreamFn),
        ("pipetabs", pipeline::run_tabs as StreamFn),
        ("htmldecode", htmldecode::run as StreamFn),
        ("html", html::run as StreamFn),
        ("blockh", blockh::run as StreamFn),
        ("inlineh", inlineh::run as StreamFn),
        ("pipelineh", pipelineh::run as StreamFn),
        ("inline", inline::run as StreamFn),
        ("block", block::run as StreamFn),
        ("noderender", noderender::run as StreamFn),
        ("entity", entity::run as StreamFn),
        ("codepair", codepair::run as StreamFn),
        ("link", link::run as StreamFn),
        ("lines", lines::run as StreamFn),
        ("alt", alt::run as StreamFn),
        ("refs", refs::run as StreamFn),
        ("pstate", pstate::run as StreamFn),
        ("nest", nest::run as StreamFn),
        ("inlineops", inlineops::run as StreamFn),
        ("ruler", ruler::run as StreamFn),
        ("eset", eset::run as StreamFn),
        ("tree", eset::run_tree as StreamFn),
        ("render", render::run as StreamFn),
        ("smap", smap::run as StreamFn),
    ]
}
