//! stream `link`: the real `validate_link` / `normalize_link` (fn-pointer fields of a default
//! `MarkdownIt`), the real `parse_link_destination` / `parse_link_title`, and the harness's own
//! "what would a browser do" twin (`oracle::c04::{browser_scheme, dangerous}`) against the model.
//!
//! Requests (all strings as hex of their UTF-8 bytes, `-` = empty):
//!   link validate <hex>            -> 1 | 0            (only ASCII subjects are sent)
//!   link normalize <hex>           -> <hex>
//!   link dest <hex> <start> <max>  -> none | <pos>:<lines>:<hex RAW slice> | PANIC:slice
//!   link title <hex> <start> <max> -> same shape
//!   link scheme <hex>              -> <hex> | none
//!   link dangerous <hex>           -> 1 | 0
//!   link inline <hex> <pos> <max>  -> none | <end>:<href hex|none>:<title hex|none> | PANIC:slice
//!        the real `LinkScanner::run` (non-silent, a probe constructor registered through
//!        `full_link::add` records `href` / `title` as the `Option`s `parse_link` produced) on
//!        `[a]` + tail, no reference map: `none` = the inline form failed.  `pos` = 3 (behind the
//!        label).  Texts contain no `&` (the model's decoder is abstract; the driver stands in
//!        with "drop the backslash before ASCII punctuation", which is `unescape_all` there).
//! The parsers return the UNESCAPED text; the raw slice is rebuilt from the positions and
//! `res.str == unescape_all(raw)` is asserted here (counter `unescape_mismatch`, must stay 0).
use super::Out;
use crate::oracle::c04::{browser_scheme, dangerous};
use crate::rng::Rng;
use crate::util::{guarded, hexs};
use markdown_it::common::utils::unescape_all;
use markdown_it::generics::inline::full_link::{parse_link_destination, parse_link_title};
use markdown_it::common::ErasedSet;
use markdown_it::generics::inline::full_link::{self, LinkScanner};
use markdown_it::parser::inline::{InlineRule, InlineState};
use markdown_it::plugins::cmark::block::paragraph::Paragraph;
use markdown_it::{MarkdownIt, Node, NodeValue, Renderer};

#[derive(Debug)]
pub struct ProbeLink { pub href: Option<String>, pub title: Option<String> }
impl NodeValue for ProbeLink { fn render(&self, _: &Node, _: &mut dyn Renderer) {} }

/// what follows `[a]`: `(`, blanks, a destination (often a dangerous scheme in disguise), blanks,
/// a title, blanks, `)` — each part optional / mutated
pub fn gen_tail(rng: &mut Rng) -> String {
    let mut s = String::new();
    s.push_str(*rng.pick(&["(", "(", "(", "(", "( ", "(\n", "(\t ", "", "[", "x("]));
    let url = |rng: &mut Rng| {
        let sch0 = *rng.pick(&["javascript", "vbscript", "file", "data", "data", "http", "javascrip", "xdata", "mailto"]);
        let mut u = mix_case(rng, sch0);
        u.push_str(*rng.pick(&[":", ":", ":", "\\:", "%3A", "", "\t:", ";"]));
        u.push_str(*rng.pick(&["x", "alert(1)", "image/png;x", "IMAGE/GIF;", "image/svg+xml;x", "//h/p", "", "text/html,y", "\\(x\\)", "a\\ b"]));
        u
    };
    match rng.below(12) {
        0 => {}
        1..=4 => { let u = url(rng); s.push_str(&u); }
        5 | 6 => { let u = url(rng); s.push('<'); s.push_str(&u); s.push('>'); }
        7 => { let (f, at) = gen_frag(rng, false); s.push_str(&f[at..]); }
        8 => s.push_str(*rng.pick(&["\"t\"", "'t'", "(t)", "\"", "(", ")", "\"javascript:x\"", "(data:x)", "'file:x'"])),
        9 => { s.push_str(*rng.pick(&["\\", "\\j", "\\:", "j\\"])); let u = url(rng); s.push_str(&u); }
        _ => s.push_str(*rng.pick(&["/url", "<b>", "<>", "b\\)c", "\u{e9}", "a(b)c", "<a b>", "b\\\tc", "b\\\nc", "<b\\>c>", "\u{1f600}/x"])),
    }
    s.push_str(*rng.pick(&["", "", " ", "  ", "\n", " \t\n ", "\u{a0}"]));
    match rng.below(8) {
        0..=2 => {}
        3 => s.push_str("\"t\""),
        4 => s.push_str("'t\\'x'"),
        5 => s.push_str("(t\nu)"),
        6 => s.push_str(*rng.pick(&["\"\"", "\"t", "(a(b)", "\"t\\\"", "'\u{e9}'", "\"a\\\nb\""])),
        _ => { let (f, at) = gen_frag(rng, true); s.push_str(&f[at..]); }
    }
    s.push_str(*rng.pick(&["", "", " ", "\n", "\t"]));
    s.push_str(*rng.pick(&[")", ")", ")", ")", ")", "", ") x", "))", "]", ")\u{e9}"]));
    s.replace('&', "+")
}

const SCHEMES: &[&str] = &[
    "javascript", "vbscript", "file", "data", "http", "https", "mailto", "ftp",
    "javascrip", "javascripts", "xjavascript", "dat", "datas", "files", "vbscrip", "livescript",
    "java\tscript", "java%09script", "java%0Ascript", "jav&#x61;script", "\u{17f}cript", "vb\u{17f}cript",
    "java\u{17f}cript", "\u{212a}", "fi\u{212a}le", "FILE", "Data", "", "a", "x-y.z+1",
];

const TAILS: &[&str] = &[
    "", "alert(1)", "x", "//x/y", "/etc/passwd", "text/html,<b>", "text/html;base64,xx", "image/", "image/gif",
    "image/gif;", "image/png;base64,xx", "image/jpeg;x", "image/webp;", "image/svg+xml;base64,xx",
    "image/svg+xml,x", "image/gif,", "image/GIF;x", "IMAGE/PnG;", "image/jpg;", "image/jpe;g", "image/web;p",
    "image//gif;", "image/gif ;", "image/%67if;", "image/gif%3B", "image\u{2f}png\u{3b}", "imag\u{17f}e/gif;",
    ";", ":", "/", "?a=b&c=d#e", "%", "%4", "%41", "%zz", "\u{e9}", "\u{4e2d}", "\u{1f600}",
];

fn mix_case(rng: &mut Rng, s: &str) -> String {
    let mode = rng.below(4);
    s.chars().map(|c| match mode {
        0 => c,
        1 => c.to_ascii_uppercase(),
        _ => if rng.chance(1, 2) { c.to_ascii_uppercase() } else { c.to_ascii_lowercase() },
    }).collect()
}

/// URL-ish strings: scheme in all case mixes, optional leading/trailing junk, `:` or a near miss,
/// tails around the data-image exception, percent escapes, controls, non-ASCII
pub fn gen_url(rng: &mut Rng) -> String {
    let mut s = String::new();
    match rng.below(12) {
        0 => s.push(' '),
        1 => s.push('\t'),
        2 => s.push_str(*rng.pick(&["\n", "\r", "\0", "\x01", "\x1f", "\x7f", "\u{a0}", "\u{200b}", "%20", "%09", "\x0c", "  \t"])),
        _ => {}
    }
    let sch0 = if rng.chance(1, 2) { *rng.pick(&["javascript", "vbscript", "file", "data", "data", "data"]) } else { *rng.pick(SCHEMES) };
    let sch = mix_case(rng, sch0);
    // junk inside the scheme
    if rng.chance(1, 10) && !sch.is_empty() {
        let mut cut = rng.below(sch.len() + 1);
        while !sch.is_char_boundary(cut) { cut -= 1; }
        s.push_str(&sch[..cut]);
        s.push_str(*rng.pick(&["\t", "\n", "\r", " ", "\0", "\x0b", "%09", "&Tab;", "\\", "\u{ad}", "\x7f", "\x1f"]));
        s.push_str(&sch[cut..]);
    } else {
        s.push_str(&sch);
    }
    s.push_str(*rng.pick(&[":", ":", ":", ":", ":", ":", ":", "", ";", "%3A", "%3a", "&colon;", " :", ":\t", "\t:", "::", "/", "\u{ff1a}", "\u{a789}"]));
    let k = rng.below(3);
    for _ in 0..=k {
        let t = *rng.pick(TAILS);
        if rng.chance(1, 3) { s.push_str(&mix_case(rng, t)); } else { s.push_str(t); }
        if rng.chance(1, 12) { s.push_str(*rng.pick(&["\t", "\n", "\r", " ", "\0", "\x7f"])); }
    }
    match rng.below(10) {
        0 => s.push(' '),
        1 => s.push_str(*rng.pick(&["\n", "\t", "\0", "\x1f", " \t\n", "\u{a0}"])),
        _ => {}
    }
    s
}

const DEST_PIECES: &[&str] = &[
    "<", ">", "(", ")", "\\", " ", "\n", "\t", "\x7f", "\0", "\x1f", "\r", "a", "b", "/url", "x:y", "\"", "'", "&amp;", "&#x6a;",
    "\\(", "\\)", "\\<", "\\>", "\\\\", "\\ ", "\\\n", "\\\t", "\\\"", "\\'", "\\a", "\\\u{e9}", "\\\u{1f600}",
    "\u{e9}", "\u{4e2d}", "\u{1f600}", "\u{a0}", "\u{80}", "()", "(a)", "((b))", "(()", "[", "]", "!", "%20", "~",
];

/// destination / title material: `<>`, parentheses (nested up to 34 deep), backslashes (also last),
/// blanks and controls, quotes of the three kinds, multi-byte characters.
/// Returns the text and the byte offset where the fragment proper starts (after an optional prefix).
pub fn gen_frag(rng: &mut Rng, title: bool) -> (String, usize) {
    let mut s = String::new();
    // a prefix that `start` may or may not skip
    if rng.chance(1, 3) { s.push_str(*rng.pick(&["[a](", "[a]: ", "x", " ", "\u{e9}", "![\u{4e2d}]("])); }
    let at = s.len();
    let open = if title {
        match rng.below(10) { 0..=2 => '"', 3 | 4 => '\'', 5..=7 => '(', 8 => '<', _ => 'x' }
    } else {
        match rng.below(12) { 0..=2 => '<', 3 => '"', 4 => '\'', 5 | 6 => '(', _ => 'x' }
    };
    if open != 'x' { s.push(open); }
    if rng.chance(1, 8) {
        // deep nesting around the limit of 32
        let depth = rng.range(28, 34);
        let close = match rng.below(4) { 0 => depth.saturating_sub(1), 1 => depth + 1, _ => depth };
        for i in 0..depth { s.push('('); if rng.chance(1, 6) { s.push((b'a' + (i % 26) as u8) as char); } }
        s.push_str(*rng.pick(&["", "x", "\u{e9}", "\\)"]));
        for _ in 0..close { s.push(')'); }
    }
    let k = rng.below(9);
    for _ in 0..k {
        let p = *rng.pick(DEST_PIECES);
        // keep most fragments alive: drop the piece that would end it early two times out of three
        let fatal = if title { p.contains(open) || (open == '(' && p.contains(')')) } else if open == '<' { p == "<" || p == "\n" || p == ">" } else { false };
        if fatal && rng.chance(2, 3) { s.push_str(*rng.pick(&["a", "\n", "\u{e9}", "\\\n", "\\\\", "b c"])); } else { s.push_str(p); }
    }
    let close = match open { '"' => '"', '\'' => '\'', '(' => ')', '<' => '>', _ => ' ' };
    match rng.below(10) {
        0..=5 => s.push(close),
        6 => s.push('\\'),
        7 => s.push_str(*rng.pick(&[">", "\"", "'", ")"])),
        _ => {}
    }
    if rng.chance(1, 3) { s.push_str(*rng.pick(&[" \"t\")", ")", " rest", "\n", ">", "\u{e9}", "\"", "\\"])); }
    (s, at)
}

fn boundaries(s: &str) -> Vec<usize> {
    let mut v: Vec<usize> = s.char_indices().map(|(i, _)| i).collect();
    v.push(s.len());
    v
}

/// (start, max): mostly on character boundaries with start <= max <= len; sometimes not
fn gen_range(rng: &mut Rng, s: &str, at: usize) -> (usize, usize, bool) {
    let bs = boundaries(s);
    if rng.chance(1, 25) {
        // anything, including out of range / inside a character / reversed
        let a = rng.below(s.len() + 3);
        let b = rng.below(s.len() + 3);
        let ok = a <= b && b <= s.len() && s.is_char_boundary(a) && s.is_char_boundary(b);
        return (a, b, ok);
    }
    let i = if rng.chance(3, 4) { bs.iter().position(|b| *b == at).unwrap() } else { rng.below(bs.len()) };
    let j = if rng.chance(2, 3) { bs.len() - 1 } else { rng.range(i, bs.len() - 1) };
    (bs[i], bs[j], true)
}

fn frag_answer(out: &mut Out, what: &str, s: &str, start: usize, max: usize, raw_from: usize, raw_to_back: usize,
               r: Result<Option<markdown_it::generics::inline::full_link::ParseLinkFragmentResult>, String>) -> String {
    match r {
        Err(_) => { out.stats.count(&format!("{}_panic", what)); "PANIC:slice".into() }
        Ok(None) => { out.stats.count(&format!("{}_none", what)); "none".into() }
        Ok(Some(res)) => {
            let _ = max;
            let raw = &s[start + raw_from..res.pos - raw_to_back];
            if unescape_all(raw) != res.str { out.stats.count("unescape_mismatch"); }
            if res.lines > 0 { out.stats.count(&format!("{}_lines_gt0", what)); }
            // what `reference.rs` relies on (must stay 0): `lines` is the number of line feeds consumed;
            // a destination contains none; a bare destination contains no byte <= 0x20 and no 0x7F
            if raw.matches('\n').count() != res.lines { out.stats.count("LINES_NE_LF_COUNT"); }
            if what == "dest" && raw.contains('\n') { out.stats.count("DEST_RAW_HAS_LF"); }
            if what == "dest" && raw_from == 0 && raw.bytes().any(|b| b <= 0x20 || b == 0x7f) { out.stats.count("DEST_BARE_RAW_HAS_BLANK_OR_CTRL"); }
            if raw.contains("\\\n") { out.stats.count(&format!("{}_escaped_lf_inside", what)); }
            if raw.bytes().any(|b| b <= 0x20 || b == 0x7f) { out.stats.count(&format!("{}_raw_has_blank_or_ctrl", what)); }
            out.stats.count(&format!("{}_some", what));
            format!("{}:{}:{}", res.pos, res.lines, hexs(raw))
        }
    }
}

pub fn run(n: usize, rng: &mut Rng, out: &mut Out) {
    let md = MarkdownIt::new();
    let validate = md.validate_link;
    let normalize = md.normalize_link;

    // fixed cases first: the examples named in the property / the theorems
    for u in ["javascript:alert(1)", "JaVaScRiPt:x", "data:text/html,x", "data:image/png;base64,xx", "http://x",
              "java%09script:x", "java\tscript:x", " javascript:x", "vbscript:x", "FILE:///etc/passwd", "data:", "data:image/gif;",
              "data:image/svg+xml;base64,xx", "", ":", "data", "javascript", "DATA:IMAGE/WEBP;", "data:image/jpeg;", "data:image/jpg;"] {
        out.emit(&format!("link validate {}", hexs(u)), if validate(u) { "1" } else { "0" }, true);
        let nz = normalize(u);
        out.emit(&format!("link normalize {}", hexs(u)), &hexs(&nz), true);
        out.emit(&format!("link validate {}", hexs(&nz)), if validate(&nz) { "1" } else { "0" }, true);
        out.emit(&format!("link scheme {}", hexs(u)), &browser_scheme(u).map(|s| hexs(&s)).unwrap_or("none".into()), true);
        out.emit(&format!("link dangerous {}", hexs(u)), if dangerous(u) { "1" } else { "0" }, true);
    }

    let mut md_probe = MarkdownIt::new();
    full_link::add::<false>(&mut md_probe, |href, title| Node::new(ProbeLink { href, title }));
    let run_inline = |src: &str, max: usize| -> String {
        match guarded(|| {
            let mut env = ErasedSet::new();
            let mut st = InlineState::new(src.to_owned(), vec![(0, 0)], &md_probe, &mut env, Node::new(Paragraph));
            st.pos = 0; st.pos_max = max;
            match LinkScanner::<false>::run(&mut st, false) {
                None => "none".to_string(),
                Some(len) => {
                    let node = st.node.children.last().unwrap();
                    let p = node.cast::<ProbeLink>().unwrap();
                    // the real-mode link rule leaves `state.pos` at the end of the label and returns the
                    // length from THERE (the tokenizer does `state.pos += len`): end = pos + len
                    format!("{}:{}:{}", st.pos + len, p.href.as_ref().map(|h| hexs(h)).unwrap_or("none".into()), p.title.as_ref().map(|t| hexs(t)).unwrap_or("none".into()))
                }
            }
        }) { Ok(a) => a, Err(_) => "PANIC:slice".to_string() }
    };
    for (tail, _) in [("(javascript:alert(1))", 0), ("(<javascript:x>)", 0), ("(JaVaScRiPt\\:x)", 0), ("(data:image/png;base64,xx \"t\")", 0),
                      ("(data:text/html,x)", 0), ("(/u 't')", 0), ("(<b>\"t\")", 0), ("()", 0), ("(\"t\")", 0), ("( )", 0), ("(\n/u\n\"t\"\n)", 0)] {
        let src = format!("[a]{}", tail);
        let ans = run_inline(&src, src.len());
        out.emit(&format!("link inline {} 3 {}", hexs(&src), src.len()), &ans, true);
    }

    // the cases repaired in commit 5a0c4fb (escaped line endings / blanks)
    for d in ["b\\\tc)", "b\\ c)", "b\\\nc)", "b\\\x7fc", "b\\)c)", "<b\\\nc>", "<b\\>c>", "<b\\", "b\\"] {
        let r = guarded(|| parse_link_destination(d, 0, d.len()));
        let angle = d.starts_with('<');
        let (from, back) = if angle { (1, 1) } else { (0, 0) };
        let ans = frag_answer(out, "dest", d, 0, d.len(), from, back, r);
        out.emit(&format!("link dest {} 0 {}", hexs(d), d.len()), &ans, true);
    }
    for t in ["\"a\\\nb\"", "\"a\nb\\\nc\\\n\"", "'\\\n'", "(a\\\n)", "\"a\\", "\"\\\n"] {
        let r = guarded(|| parse_link_title(t, 0, t.len()));
        let ans = frag_answer(out, "title", t, 0, t.len(), 1, 1, r);
        out.emit(&format!("link title {} 0 {}", hexs(t), t.len()), &ans, true);
    }

    for i in 0..n {
        match i % 7 {
            5 | 6 => {
                let tail = gen_tail(rng);
                let src = format!("[a]{}", tail);
                let bs: Vec<usize> = boundaries(&src).into_iter().filter(|b| *b >= 3).collect();
                let max = if rng.chance(5, 6) { src.len() } else { *rng.pick(&bs) };
                let ans = run_inline(&src, max);
                if ans == "none" { out.stats.count("inline_none"); }
                else if ans.starts_with("PANIC") { out.stats.count("inline_panic"); }
                else {
                    out.stats.count("inline_some");
                    let parts: Vec<&str> = ans.split(':').collect();
                    if parts[1] == "none" { out.stats.count("INLINE_LINK_WITHOUT_HREF"); }
                    if parts[2] != "none" { out.stats.count("inline_with_title"); }
                }
                // rejected destination? (decided here with the real functions, for the counter only)
                if let Some(open) = tail.find('(') {
                    let from = 3 + open + 1;
                    let from = from + src[from..max.max(from)].chars().take_while(|c| matches!(c, ' ' | '\t' | '\n')).count();
                    if from <= max {
                        if let Ok(Some(res)) = guarded(|| parse_link_destination(&src, from, max)) {
                            if !validate(&normalize(&res.str)) {
                                out.stats.count("inline_dest_rejected");
                                if ans != "none" { out.stats.count("INLINE_LINK_DESPITE_REJECTED_DEST"); }
                            }
                        }
                    }
                }
                out.emit(&format!("link inline {} 3 {}", hexs(&src), max), &ans, ans != "none");
            }
            0 | 1 => {
                // url family: normalize, validate (on the normalised string and, if ASCII, on the raw one),
                // browser view of both
                let u = gen_url(rng);
                let nz = match guarded(|| normalize(&u)) { Ok(v) => v, Err(_) => { out.stats.count("normalize_panic"); continue; } };
                out.emit(&format!("link normalize {}", hexs(&u)), &hexs(&nz), nz != u);
                let v = validate(&nz);
                if !v { out.stats.count("validate_rejects_normalized"); } else { out.stats.count("validate_accepts_normalized"); }
                if v && dangerous(&nz) { out.stats.count("ACCEPTED_BUT_DANGEROUS"); }
                if nz.to_ascii_lowercase().starts_with("data:image/") && v { out.stats.count("data_image_exception_taken"); }
                out.emit(&format!("link validate {}", hexs(&nz)), if v { "1" } else { "0" }, !v);
                if u.is_ascii() {
                    let vr = validate(&u);
                    if vr != v { out.stats.count("validate_raw_differs_from_normalized"); }
                    out.emit(&format!("link validate {}", hexs(&u)), if vr { "1" } else { "0" }, !vr);
                } else {
                    out.stats.count("raw_non_ascii_not_sent_to_validate");
                }
                for x in [&u, &nz] {
                    let sc = browser_scheme(x);
                    if sc.is_some() { out.stats.count("scheme_some"); } else { out.stats.count("scheme_none"); }
                    let d = dangerous(x);
                    if d { out.stats.count("dangerous_1"); }
                    out.emit(&format!("link scheme {}", hexs(x)), &sc.map(|s| hexs(&s)).unwrap_or("none".into()), true);
                    out.emit(&format!("link dangerous {}", hexs(x)), if d { "1" } else { "0" }, d);
                }
            }
            2 | 3 => {
                let (s, at) = gen_frag(rng, false);
                let (start, max, ok) = gen_range(rng, &s, at);
                if !ok { out.stats.count("range_off_boundary_or_out_of_range"); }
                let angle = ok && s[start..max].starts_with('<');
                if ok { if angle { out.stats.count("dest_angle_form"); } else { out.stats.count("dest_bare_form"); } }
                let r = guarded(|| parse_link_destination(&s, start, max));
                if ok && !angle {
                    if let Ok(None) = &r {
                        // classify: too deep vs unbalanced
                        let mut depth = 0usize; let mut maxd = 0usize;
                        for c in s[start..max].chars() { if c == '(' { depth += 1; maxd = maxd.max(depth); } else if c == ')' && depth > 0 { depth -= 1; } }
                        if maxd > 32 { out.stats.count("dest_bare_none_depth_gt32"); } else { out.stats.count("dest_bare_none_unbalanced"); }
                    }
                }
                let (from, back) = if angle { (1, 1) } else { (0, 0) };
                let ans = frag_answer(out, "dest", &s, start, max, from, back, r);
                out.emit(&format!("link dest {} {} {}", hexs(&s), start, max), &ans, ans != "none");
            }
            _ => {
                let (s, at) = gen_frag(rng, true);
                let (start, max, ok) = gen_range(rng, &s, at);
                if !ok { out.stats.count("range_off_boundary_or_out_of_range"); }
                if ok {
                    match s[start..max].chars().next() {
                        Some('"') => out.stats.count("title_dq"),
                        Some('\'') => out.stats.count("title_sq"),
                        Some('(') => out.stats.count("title_paren"),
                        _ => out.stats.count("title_no_marker"),
                    }
                }
                let r = guarded(|| parse_link_title(&s, start, max));
                let ans = frag_answer(out, "title", &s, start, max, 1, 1, r);
                out.emit(&format!("link title {} {} {}", hexs(&s), start, max), &ans, ans != "none");
            }
        }
    }
}
