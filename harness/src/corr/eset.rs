//! streams `eset` and `tree`
use super::Out;
use crate::oracle::c20::{apply, gen_ops, gen_tree, stored, tree_sexpr, K};
use crate::rng::Rng;
use markdown_it::common::ErasedSet;
use markdown_it::Node;

pub fn run(n: usize, rng: &mut Rng, out: &mut Out) {
    for _ in 0..n {
        let ops = gen_ops(rng);
        let mut set = ErasedSet::new();
        let mut res = vec![];
        let mut req = vec![];
        for (op, k, v) in ops.iter() {
            res.push(crate::util::guarded(|| apply(&mut set, *op, *k, *v)).unwrap_or_else(|_| "PANIC".into()));
            // the model stores what the Rust type can hold
            req.push(match op { 'c' | 'l' | 'e' => op.to_string(), 'g' | 'r' | 'h' => format!("{}{}", op, k), _ => format!("{}{}:{}", op, k, stored(*k, *v)) });
        }
        out.emit(&format!("eset ops {}", req.join(";")), &res.join(","), ops.len() >= 8);
    }
}

fn demo_f(node: &mut Node, depth: u32) {
    let k = node.cast::<K>().unwrap().0;
    if k % 3 == 0 { if !node.children.is_empty() { node.children.remove(0); } }
    else if k % 3 == 1 { node.replace(K(k + 100 + depth)); }
}

pub fn run_tree(n: usize, rng: &mut Rng, out: &mut Out) {
    for _ in 0..n {
        let mut counter = 0;
        let mut t = if rng.chance(1, 8) { crate::oracle::c20::gen_deep_tree(rng, &mut counter) } else { gen_tree(rng, 0, &mut counter) };
        let sx = tree_sexpr(&t);
        let mut got = vec![];
        t.walk(|n, d| got.push(format!("{}@{}", n.cast::<K>().unwrap().0, d)));
        out.emit(&format!("tree walk {}", sx), &got.join(","), counter > 3);
        t.walk_mut(demo_f);
        out.emit(&format!("tree walkmut {}", sx), &tree_sexpr(&t), counter > 3);
    }
}
