//! stream `smap`: SourcePos::get_positions on texts around the checkpoint spacing, every offset
use super::Out;
use crate::oracle::c15::gen_text;
use crate::rng::Rng;
use crate::util::hexs;
use markdown_it::common::sourcemap::{SourcePos, SourceWithLineStarts};

pub fn run(n: usize, rng: &mut Rng, out: &mut Out) {
    for i in 0..n {
        let t = if i == 0 { String::new() } else { gen_text(rng) };
        let map = SourceWithLineStarts::new(&t);
        let h = hexs(&t);
        for off in 0..t.len() + 3 {
            let ans = match crate::util::guarded(|| SourcePos::new(off, off + 1).get_positions(&map)) { Ok((s, _)) => format!("{}:{}", s.0, s.1), Err(_) => "PANIC".into() };
            out.emit(&format!("smap pos {} {}", h, off), &ans, t.chars().count() > 16 || t.contains('\r'));
        }
        let a = rng.below(t.len() + 2); let b = a + rng.below(5);
        let ans = match crate::util::guarded(|| SourcePos::new(a, b).get_positions(&map)) { Ok((s, e)) => format!("{}:{}-{}:{}", s.0, s.1, e.0, e.1), Err(_) => "PANIC".into() };
        out.emit(&format!("smap range {} {} {}", h, a, b), &ans, true);
    }
}
