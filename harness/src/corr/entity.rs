//! stream `entity`: the two decoding paths for character references and backslash escapes
//!   * `unescape <hex>`            real `unescape_all` (destination / title / info string / definition path)
//!   * `inline <hex>`              displayed text (Text + TextSpecial contents, hard break as "\n") of
//!                                 (a) a full `cmark_only` parse of a one-paragraph string over a restricted
//!                                     alphabet (case dropped when anything but text/escape/entity fired),
//!                                 (b) `md.inline.parse` of an arbitrary string with a parser that has
//!                                     only the text, escape and entity rules
//!   * `valid <code>`              `is_valid_entity_code`
//!   * `rule <pos> <posMax> <hex>` `EscapeScanner::run` / `EntityScanner::run` called directly at a position
//!                                 (character indices on the wire, byte offsets in the call)
//!   * `re <name> <hex>`           the `regex` crate on the pattern strings the hand matchers were written for
use super::Out;
use crate::cfg::Cfg;
use crate::rng::Rng;
use crate::util::{guarded, hexs};
use markdown_it::common::utils::{is_valid_entity_code, unescape_all};
use markdown_it::common::ErasedSet;
use markdown_it::parser::inline::{InlineRule, InlineState, Text, TextSpecial};
use markdown_it::plugins::cmark::block::paragraph::Paragraph;
use markdown_it::plugins::cmark::inline::entity::EntityScanner;
use markdown_it::plugins::cmark::inline::escape::EscapeScanner;
use markdown_it::plugins::cmark::inline::newline::Hardbreak;
use markdown_it::{MarkdownIt, Node};
use regex::Regex;

const PUNCT: &str = "!\"#$%&'()*+,-./:;<=>?@[\\]^_`{|}~";

/// the pattern strings of `utils.rs` / `entity.rs` the Lean matchers model (anchored at the start for
/// the unanchored ones, so that the answer is "the match at position 0")
const RE_DIGITAL: &str = "(?i)^&#((?:x[a-f0-9]{1,6}|[0-9]{1,7}));";
const RE_NAMED: &str = "(?i)^&([a-z][a-z0-9]{1,31});";
const RE_TEST: &str = r#"(?i)^&#(x[a-f0-9]{1,6}|[0-9]{1,7});$"#;
const RE_ENTITY: &str = r##"&([A-Za-z#][A-Za-z0-9]{1,31});"##;
const RE_UNESCAPE_MD: &str = r##"\\([!"#$%&'()*+,\-./:;<=>?@\[\\\]^_`{|}~])"##;

fn names() -> Vec<&'static str> {
    entities::ENTITIES.iter().filter(|e| e.entity.ends_with(';')).map(|e| e.entity).collect()
}

const CODES: [u32; 47] = [0, 1, 8, 9, 10, 11, 12, 13, 14, 31, 32, 34, 38, 60, 62, 65, 126, 127, 128, 159, 160, 0xD7FF, 0xD800, 0xDBFF,
    0xDFFF, 0xE000, 0xFDCF, 0xFDD0, 0xFDEF, 0xFDF0, 0xFFFD, 0xFFFE, 0xFFFF, 0x10000, 0x1FFFE, 0x1FFFF, 0x2FFFE, 0x10FFFD, 0x10FFFE,
    0x10FFFF, 0x110000, 0xFFFFFF, 9999999, 99999999, 0x7FFFFFFF, 0xFFFFFFFF, 1234567];

fn numeric(rng: &mut Rng, stats: &mut crate::util::Stats) -> String {
    let code: u64 = match rng.below(4) {
        0 | 1 => *rng.pick(&CODES) as u64,
        2 => rng.next() % 0x110000,
        _ => rng.next() % 0x1_0000_0000,
    };
    let mut digits = match rng.below(3) { 0 => format!("{}", code), 1 => format!("x{:x}", code), _ => format!("X{:X}", code) };
    match rng.below(10) {
        // zero padding up to / beyond the digit limits
        0 | 1 => { let want = rng.range(1, 9); let (p, d) = if digits.starts_with(['x', 'X']) { digits.split_at(1) } else { ("", digits.as_str()) };
                   if d.len() < want { digits = format!("{}{}{}", p, "0".repeat(want - d.len()), d); stats.count("numeric_padded"); } }
        2 => { digits.push(*rng.pick(&['g', 'G', 'x', 'a', 'F', '_'])); stats.count("numeric_bad_digit"); }
        3 => { digits = (*rng.pick(&["", "x", "X", "+5", "x+5", "-1", "0x41", "xx41", "１２"])).to_string(); stats.count("numeric_degenerate"); }
        _ => {}
    }
    let semi = if rng.chance(1, 10) { stats.count("missing_semicolon"); "" } else { ";" };
    format!("&#{}{}", digits, semi)
}

fn named(rng: &mut Rng, names: &[&'static str], stats: &mut crate::util::Stats) -> String {
    match rng.below(12) {
        0..=4 => { stats.count("named_valid"); (*rng.pick(names)).to_string() }
        5 => { stats.count("named_case_changed"); let n = *rng.pick(names); if rng.chance(1, 2) { n.to_uppercase() } else { n.to_lowercase() } }
        6 => { stats.count("missing_semicolon"); rng.pick(names).trim_end_matches(';').to_string() }
        7 => { // 31 / 32 / 33+ characters after `&`
            let k = *rng.pick(&[1usize, 2, 30, 31, 32, 33, 34, 40]);
            stats.count(if k <= 32 { "named_len_le_32" } else { "named_len_gt_32" });
            let body: String = (0..k).map(|i| if i == 0 { 'a' } else { *rng.pick(&['a', 'Z', '0', '9', 'm']) }).collect();
            format!("&{};", body) }
        8 => { stats.count("named_unknown"); (*rng.pick(&["&nosuch;", "&a;", "&ab;", "&1a;", "&amp1;", "&a-b;", "&;", "&x41;", "&xa0;"])).to_string() }
        9 => { stats.count("named_nonascii_fold"); (*rng.pick(&["&\u{212a}ap;", "&\u{17f}up;", "&a\u{17f};", "&\u{212a}\u{212a};", "&é;", "&amp\u{17f};"])).to_string() }
        10 => { stats.count("nested"); (*rng.pick(&["&amp;amp;", "&amp;#65;", "&#38;amp;", "&amp;lt;", "&&amp;", "&amp&amp;", "&#38;#38;"])).to_string() }
        _ => { stats.count("named_short"); (*rng.pick(&["&amp;", "&lt;", "&gt;", "&quot;", "&AMP;", "&nbsp;", "&ouml;", "&NotEqualTilde;", "&CounterClockwiseContourIntegral;", "&fjlig;", "&ThickSpace;"])).to_string() }
    }
}

fn escape(rng: &mut Rng, stats: &mut crate::util::Stats) -> String {
    match rng.below(8) {
        0..=2 => { stats.count("escape_punct"); format!("\\{}", rng.pick(&PUNCT.chars().collect::<Vec<_>>())) }
        3 => { stats.count("escape_ascii"); format!("\\{}", char::from_u32(rng.below(128) as u32).unwrap()) }
        4 => { stats.count("escape_nonascii"); format!("\\{}", rng.pick(&['é', '€', '😀', '\u{a0}', '§', '“'])) }
        5 => { stats.count("escape_of_reference"); (*rng.pick(&["\\&amp;", "\\\\&amp;", "\\&#65;", "&amp\\;", "&\\amp;", "\\\\\\&amp;"])).to_string() }
        6 => { stats.count("backslash_run"); "\\".repeat(rng.range(1, 5)) }
        _ => { stats.count("escape_letter"); format!("\\{}", rng.pick(&['a', 'Z', '0', ' ', 'n'])) }
    }
}

fn filler(rng: &mut Rng, wide: bool) -> String {
    let n = rng.range(0, 4);
    (0..n).map(|_| if wide {
        *rng.pick(&['a', 'b', 'x', '1', '0', ';', '#', '&', ' ', 'é', '*', '_', '[', ']', '`', '<', '!', '~', '😀', '"', '\'', '(', '.', '-', '=', '$', '{', '|', '^', '%', '@', ':', '+', ',', '/', '?', '>', '}', ')'])
    } else {
        *rng.pick(&['a', 'b', 'x', 'X', '1', '0', ';', '#', '&', 'f', 'z', '9'])
    }).collect()
}

/// `wide`: any character may occur; otherwise only letters, digits, `&`, `#`, `;`, `\`
fn gen_string(rng: &mut Rng, names: &[&'static str], wide: bool, stats: &mut crate::util::Stats) -> String {
    let atoms = rng.range(1, 4);
    let mut s = String::new();
    for _ in 0..atoms {
        s.push_str(&filler(rng, wide));
        let a = match rng.below(10) {
            0..=3 => numeric(rng, stats),
            4..=6 => named(rng, names, stats),
            _ => { let e = escape(rng, stats); if wide { e } else { e.chars().filter(|c| c.is_ascii_alphanumeric() || "&#;\\".contains(*c)).collect() } }
        };
        s.push_str(&a);
    }
    s.push_str(&filler(rng, wide));
    s
}

fn shown(n: &Node, out: &mut String) {
    if let Some(t) = n.cast::<Text>() { out.push_str(&t.content); }
    if let Some(t) = n.cast::<TextSpecial>() { out.push_str(&t.content); }
    if n.is::<Hardbreak>() { out.push('\n'); }
    for c in n.children.iter() { shown(c, out); }
}

fn only_text(n: &Node) -> bool {
    n.children.iter().all(|c| (c.is::<Text>() || c.is::<TextSpecial>() || c.is::<Hardbreak>()) && c.children.is_empty())
}

fn panic_kind(msg: &str) -> String {
    if msg.contains("on a `None` value") { "PANIC:unwrap".into() }
    else if msg.contains("ParseIntError") { "PANIC:radix".into() }
    else if msg.contains("out of range") || msg.contains("is out of bounds") || msg.contains("slice index") || msg.contains("char boundary") { "PANIC:slice".into() }
    else { format!("PANIC:{}", msg.replace(' ', "_")) }
}

fn char_idx(s: &str, byte: usize) -> usize { s[..byte].chars().count() }

pub fn run(n: usize, rng: &mut Rng, out: &mut Out) {
    let names = names();
    let md_full = Cfg::cmark_only().build();
    // text (builtin) + escape + entity + paragraph only
    let md_te = Cfg { mask: 1 << 1 | 1 << 7 | 1 << crate::cfg::PARAGRAPH, order_seed: 0, max_nesting: 100 }.build();

    // ---- is_valid_entity_code on boundary codes
    let mut codes: Vec<u32> = CODES.to_vec();
    for c in CODES { codes.push(c.wrapping_add(1)); codes.push(c.wrapping_sub(1)); }
    for p in 0u32..=0x11 { for lo in [0xFFFCu32, 0xFFFD, 0xFFFE, 0xFFFF, 0] { codes.push((p << 16) | lo); } }
    for _ in 0..n / 10 { codes.push((rng.next() % 0x120000) as u32); }
    for c in codes {
        let v = is_valid_entity_code(c);
        out.stats.count(if v { "valid_yes" } else { "valid_no" });
        out.emit(&format!("entity valid {}", c), if v { "1" } else { "0" }, true);
    }

    // ---- every name of the table once through both paths (n large enough), a sample otherwise
    let step = if n >= 3000 { 1 } else { 7 };
    for nm in names.iter().step_by(step) {
        out.stats.count("table_name");
        out.emit(&format!("entity unescape {}", hexs(nm)), &hexs(&unescape_all(nm)), true);
        let t = md_full.parse(&format!("a{}b", nm));
        let mut s = String::new(); shown(&t, &mut s);
        out.emit(&format!("entity inline {}", hexs(&format!("a{}b", nm))), &hexs(&s), true);
    }
    // ---- every escape of an ASCII character through both paths
    for b in 0u8..128 {
        let s = format!("\\{}", b as char);
        out.emit(&format!("entity unescape {}", hexs(&s)), &hexs(&unescape_all(&s)), true);
        if b != b'\n' && b != b' ' && b != b'\t' {
            let mut env = ErasedSet::new();
            let node = md_te.inline.parse(format!("a{}b", s), vec![(0, 0)], Node::new(Paragraph), &md_te, &mut env);
            let mut d = String::new(); shown(&node, &mut d);
            out.emit(&format!("entity inline {}", hexs(&format!("a{}b", s))), &hexs(&d), true);
        }
    }

    let res: Vec<(&str, Regex)> = vec![
        ("digital", Regex::new(RE_DIGITAL).unwrap()),
        ("named", Regex::new(RE_NAMED).unwrap()),
        ("test", Regex::new(RE_TEST).unwrap()),
        ("entity", Regex::new(&format!("^(?:{})", RE_ENTITY)).unwrap()),
        ("unescape", Regex::new(&format!("^(?:{}|{})", RE_UNESCAPE_MD, RE_ENTITY)).unwrap()),
    ];
    // (?i) under Unicode simple case folding: every scalar value against the one-character classes
    {
        let az = Regex::new("(?i)^[a-z]$").unwrap();
        let hx = Regex::new("(?i)^[a-f0-9x]$").unwrap();
        let mut extra = vec![];
        for cp in 0x80u32..0x110000 { if let Some(c) = char::from_u32(cp) { let s = c.to_string(); if az.is_match(&s) { extra.push(cp); } if hx.is_match(&s) { extra.push(0x1000000 + cp); } } }
        // the model says: exactly U+017F and U+212A for [a-z], nothing for [a-f0-9x]
        out.emit(&format!("entity re named {}", hexs("&\u{17f}\u{212a};")), if extra == vec![0x17f, 0x212a] { "4" } else { "FOLDING-CLASS-DIFFERS" }, true);
    }

    for i in 0..n {
        match i % 5 {
            // path B
            0 | 1 => {
                let s = gen_string(rng, &names, true, &mut out.stats);
                let ans = match guarded(|| unescape_all(&s).into_owned()) { Ok(r) => hexs(&r), Err(m) => panic_kind(&m) };
                out.emit(&format!("entity unescape {}", hexs(&s)), &ans, s.contains('&') || s.contains('\\'));
            }
            // path A, full cmark parser, restricted alphabet
            2 => {
                let s = gen_string(rng, &names, false, &mut out.stats);
                if s.is_empty() { continue; }
                let t = match guarded(|| md_full.parse(&s)) { Ok(t) => t, Err(m) => { out.emit(&format!("entity inline {}", hexs(&s)), &panic_kind(&m), true); continue; } };
                if t.children.len() != 1 || !t.children[0].is::<Paragraph>() || !only_text(&t.children[0]) { out.stats.count("inline_full_skipped_other_construct"); continue; }
                let mut d = String::new(); shown(&t, &mut d);
                out.stats.count("inline_full");
                out.emit(&format!("entity inline {}", hexs(&s)), &hexs(&d), true);
            }
            // path A, text+escape+entity chain on an arbitrary string
            3 => {
                let mut s = gen_string(rng, &names, true, &mut out.stats);
                if rng.chance(1, 6) { let at = rng.below(s.chars().count() + 1); let b = s.char_indices().nth(at).map(|x| x.0).unwrap_or(s.len());
                    s.insert_str(b, *rng.pick(&["\\\n", "\\\n  ", "\\\n\t x", "\n", "\\\\\n"])); out.stats.count("inline_with_newline"); }
                // `InlineState::new` trims blanks at both ends: keep them out of the case
                let s = s.trim_matches(|c| c == ' ' || c == '\t').to_string();
                if s.is_empty() { continue; }
                let ans = match guarded(|| { let mut env = ErasedSet::new();
                        let node = md_te.inline.parse(s.clone(), vec![(0, 0)], Node::new(Paragraph), &md_te, &mut env);
                        let ok = only_text(&node); let mut d = String::new(); shown(&node, &mut d); (ok, d) }) {
                    Ok((true, d)) => hexs(&d), Ok((false, _)) => "UNEXPECTED-NODE".into(), Err(m) => panic_kind(&m) };
                out.stats.count("inline_te_chain");
                out.emit(&format!("entity inline {}", hexs(&s)), &ans, true);
            }
            // the two scanners called directly at a position with a chosen window
            _ => {
                let mut s = gen_string(rng, &names, true, &mut out.stats);
                if rng.chance(1, 5) { s.push_str(*rng.pick(&["\\\n  x", "\\\n\t\t", "\\\n", "\\"])); }
                let s = s.trim_matches(|c| c == ' ' || c == '\t').to_string();
                if s.is_empty() { continue; }
                // positions of `&` / `\`, sometimes any position
                let marks: Vec<usize> = s.char_indices().filter(|(_, c)| *c == '&' || *c == '\\').map(|x| x.0).collect();
                let pos = if !marks.is_empty() && !rng.chance(1, 8) { *rng.pick(&marks) } else { let k = rng.below(s.chars().count()); s.char_indices().nth(k).unwrap().0 };
                // pos_max: usually the end; sometimes inside (cuts the window, not what the regexes see); sometimes == pos
                let bounds: Vec<usize> = s.char_indices().map(|x| x.0).chain([s.len()]).filter(|b| *b >= pos).collect();
                let pos_max = match rng.below(6) { 0 => *rng.pick(&bounds), 1 => bounds[bounds.len().min(3) - 1], _ => s.len() };
                if pos_max < s.len() { out.stats.count("rule_window_cut"); }
                if pos_max == pos { out.stats.count("rule_empty_window"); }
                let is_esc = s[pos..].starts_with('\\');
                let ans = match guarded(|| {
                    let mut env = ErasedSet::new();
                    let mut st = InlineState::new(s.clone(), vec![(0, 0)], &md_te, &mut env, Node::new(Paragraph));
                    st.pos = pos; st.pos_max = pos_max;
                    let r = if is_esc { EscapeScanner::run(&mut st, false) } else { EntityScanner::run(&mut st, false) };
                    match r {
                        None => "none".to_string(),
                        Some(len) => {
                            let node = st.node.children.last().unwrap();
                            if node.is::<Hardbreak>() { format!("hardbreak {}", len) }
                            else { let t = node.cast::<TextSpecial>().unwrap(); format!("special {} {} {}", len, hexs(&t.content), hexs(&t.markup)) }
                        }
                    }
                }) { Ok(a) => a, Err(m) => panic_kind(&m) };
                out.stats.count(if ans == "none" { "rule_none" } else if ans.starts_with("hardbreak") { "rule_hardbreak" } else if ans.starts_with("special") { "rule_special" } else { "rule_panic" });
                out.emit(&format!("entity rule {} {} {}", char_idx(&s, pos), char_idx(&s, pos_max), hexs(&s)), &ans, true);
                // and the regexes on the suffix
                let (name, re) = rng.pick(&res);
                let suffix = &s[pos..];
                let a = match re.find(suffix) { Some(m) => { out.stats.count("re_match"); format!("{}", m.as_str().chars().count()) } None => "-".into() };
                out.emit(&format!("entity re {} {}", name, hexs(suffix)), &a, true);
            }
        }
    }
}
