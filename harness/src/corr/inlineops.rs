//! stream `inlineops`: the inline-side source-range mechanisms, against `Driver/InlineOps.lean`
//!   srcpos / map : `InlineState::get_map` on per-line tables produced by the REAL `BlockState::get_lines`
//!                  (through the block parser and by direct calls with arbitrary indents) and on synthetic tables
//!   textops      : `trailing_text_push` / `trailing_text_pop` / opaque pushes on a fresh `InlineState`
//!   join         : `FragmentsJoin::run` on hand-built child vectors (Text / EmphMarker / opaque)
use super::Out;
use crate::rng::Rng;
use crate::util::{guarded, hexs};
use markdown_it::common::sourcemap::SourcePos;
use markdown_it::common::ErasedSet;
use markdown_it::generics::inline::emph_pair::{EmphMarker, FragmentsJoin};
use markdown_it::parser::block::BlockState;
use markdown_it::parser::core::CoreRule;
use markdown_it::parser::inline::builtin::InlineParserRule;
use markdown_it::parser::inline::{InlineRoot, InlineState, Text};
use markdown_it::{MarkdownIt, Node, NodeValue};

#[derive(Debug)]
struct Opaque(usize);
impl NodeValue for Opaque {}

fn map_str(m: &[(usize, usize)]) -> String {
    if m.is_empty() { return "-".into(); }
    m.iter().map(|(k, v)| format!("{}/{}", k, v)).collect::<Vec<_>>().join(",")
}

fn range_str(n: &Node) -> String {
    match n.srcmap { Some(m) => { let (a, b) = m.get_byte_offsets(); format!("{}:{}", a, b) } None => "-:-".into() }
}

fn dump(children: &[Node]) -> String {
    if children.is_empty() { return "-".into(); }
    children.iter().map(|n| {
        if let Some(t) = n.cast::<Text>() { format!("T:{}:{}", hexs(&t.content), range_str(n)) }
        else if let Some(m) = n.cast::<EmphMarker>() { format!("M:{}:{}:{}", hexs(&m.marker.to_string()), m.remaining, range_str(n)) }
        else if let Some(o) = n.cast::<Opaque>() { format!("O:{}:{}", o.0, range_str(n)) }
        else { "?".into() }
    }).collect::<Vec<_>>().join(";")
}

/// sources whose paragraphs sit behind list markers, quotes, tabs and partial tabs
fn gen_source(rng: &mut Rng) -> String {
    const PRE: &[&str] = &["", "", "- ", "  ", "\t", " \t", "  \t", "   \t", "> ", ">\t", "1. ", "   ", "    ", "-\t", "- \t", " - ", "\t\t", "> - ", ">  \t", "10. "];
    const BODY: &[&str] = &["a", "foo", "é", "a b", "*x*", "x  ", "b\\", "\u{4e2d}c", "`c`", "&amp;", "__y__ z", "w \t", "\tq", "k\tl"];
    const EOL: &[&str] = &["\n", "\n", "\n", "\r\n", "\r", "\n\n"];
    let lines = rng.range(1, 6);
    let mut s = String::new();
    for _ in 0..lines {
        for _ in 0..rng.below(3) { s.push_str(*rng.pick(PRE)); }
        s.push_str(*rng.pick(BODY));
        if rng.chance(1, 3) { s.push(' '); s.push_str(*rng.pick(BODY)); }
        s.push_str(*rng.pick(EOL));
    }
    if rng.chance(1, 3) { s.pop(); }
    s
}

fn collect_roots(n: &Node, acc: &mut Vec<(String, Vec<(usize, usize)>)>) {
    if let Some(r) = n.cast::<InlineRoot>() { acc.push((r.content.clone(), r.mapping.clone())); }
    for c in n.children.iter() { collect_roots(c, acc); }
}

/// strictly increasing keys; well formed (first key 0) unless `bad`
fn synth_map(rng: &mut Rng, bad: bool) -> Vec<(usize, usize)> {
    let n = if bad && rng.chance(1, 3) { 0 } else { rng.range(1, 6) };
    let mut k = if bad { rng.range(1, 3) } else { 0 };
    let mut v = rng.below(20);
    let mut m = Vec::new();
    for _ in 0..n {
        m.push((k, v));
        let step = rng.range(1, 6);
        k += step;
        // mostly what get_lines guarantees (next source start ≥ previous source end), sometimes a
        // virtual-space entry (same source offset), sometimes arbitrary
        v = match rng.below(6) { 0 => v, 1 => rng.below(30), _ => v + step + rng.below(4) };
    }
    m
}

/// the hypotheses of `Props/C05.translate_total` / `translate_mono_virtual` (`WFMap`, `MonoMapV`)
fn wf_mono_v(m: &[(usize, usize)]) -> bool {
    !m.is_empty() && m[0].0 == 0
        && m.windows(2).all(|w| w[0].0 < w[1].0 && (w[0].1 + (w[1].0 - w[0].0) <= w[1].1 || w[0].1 == w[1].1))
}

fn emit_srcpos(out: &mut Out, rng: &mut Rng, md: &MarkdownIt, content: &str, mapping: &[(usize, usize)], tag: &str) {
    let ms = map_str(mapping);
    if tag.starts_with("srcpos:table-from") {
        // tables made by the real `get_lines` must satisfy the hypotheses the theorems assume
        if wf_mono_v(mapping) { out.stats.count("srcpos:real-table-satisfies-WFMap+MonoMapV"); }
        else { out.stats.count("srcpos:REAL-TABLE-VIOLATES-WFMap/MonoMapV"); }
    }
    let mut env = ErasedSet::new();
    let state = InlineState::new(content.to_owned(), mapping.to_vec(), md, &mut env, Node::default());
    let has_virtual = mapping.windows(2).any(|w| w[0].1 == w[1].1);
    if has_virtual { out.stats.count("srcpos:map-with-virtual-spaces"); }
    if mapping.len() > 1 { out.stats.count("srcpos:multi-line-map"); }
    let top = content.len().max(mapping.last().map(|x| x.0).unwrap_or(0)) + 2;
    for pos in 0..=top {
        let ans = match guarded(|| state.get_map(pos, pos)) { Ok(Some(m)) => format!("{}", m.get_byte_offsets().0), Ok(None) => "NONE".into(), Err(_) => { out.stats.count("srcpos:panic"); "PANIC".into() } };
        out.emit(&format!("inlineops srcpos {} {}", ms, pos), &ans, mapping.len() > 1);
    }
    for _ in 0..3 {
        let a = rng.below(top + 1); let b = if rng.chance(1, 6) { rng.below(top + 1) } else { a + rng.below(top + 1 - a.min(top)) };
        let ans = match guarded(|| state.get_map(a, b)) { Ok(Some(m)) => { let (x, y) = m.get_byte_offsets(); format!("{},{}", x, y) } Ok(None) => "NONE".into(), Err(_) => { out.stats.count("map:panic"); "PANIC".into() } };
        out.emit(&format!("inlineops map {} {} {}", ms, a, b), &ans, true);
    }
    out.stats.count(tag);
}

fn boundaries(s: &str) -> Vec<usize> { (0..=s.len()).filter(|i| s.is_char_boundary(*i)).collect() }

fn emit_textops(out: &mut Out, rng: &mut Rng, md: &MarkdownIt, content: &str, mapping: &[(usize, usize)]) {
    let bs = boundaries(content);
    let nops = rng.range(1, 8);
    let violate = rng.chance(1, 8);
    let mut env = ErasedSet::new();
    let mut state = InlineState::new(content.to_owned(), mapping.to_vec(), md, &mut env, Node::default());
    let mut ops: Vec<String> = Vec::new();
    let mut panicked = false;
    for _ in 0..nops {
        let choice = rng.below(10);
        if choice < 5 {
            // push
            let (a, b) = if violate && rng.chance(1, 3) {
                (rng.below(content.len() + 3), rng.below(content.len() + 3))
            } else {
                let i = rng.below(bs.len()); let mut j = rng.range(i, bs.len() - 1);
                // prefer pieces that end in spaces (what the newline rule pops)
                let sp: Vec<usize> = (i..bs.len()).filter(|x| content[..bs[*x]].ends_with(' ')).collect();
                if !sp.is_empty() && rng.chance(2, 3) { j = sp[rng.below(sp.len())]; }
                (bs[i], bs[j])
            };
            ops.push(format!("push{},{}", a, b));
            if a == b { out.stats.count("textops:empty-push"); }
            if guarded(|| state.trailing_text_push(a, b)).is_err() { panicked = true; break; }
        } else if choice < 8 {
            // pop: the way the crate calls it — at most the number of trailing spaces of the last text
            let tail = state.trailing_text_get().chars().rev().take_while(|c| *c == ' ').count();
            let count = if violate && rng.chance(1, 2) { rng.below(6) } else { rng.below(tail + 1) };
            ops.push(format!("pop{}", count));
            if count > 0 && count <= tail { out.stats.count("textops:real-pop"); }
            if count > 0 && state.trailing_text_get().len() == count { out.stats.count("textops:pop-removes-node"); }
            if guarded(|| state.trailing_text_pop(count)).is_err() { panicked = true; break; }
        } else {
            ops.push("other".into());
            state.node.children.push(Node::new(Opaque(0)));
        }
    }
    let ans = if panicked { out.stats.count("textops:panic"); "PANIC".into() } else { dump(&state.node.children) };
    out.emit(&format!("inlineops textops {} {} {}", hexs(content), map_str(mapping), ops.join(";")), &ans, true);
}

fn gen_join_children(rng: &mut Rng) -> Vec<Node> {
    const TEXTS: &[&str] = &["", "", "a", "b c", "é", " ", "*", "\u{4e2d}\u{6587}", "xy"];
    const MARKS: &[char] = &['*', '_', '~', '=', '\u{e9}'];
    let n = rng.below(9);
    let mut pos = rng.below(5);
    let style = rng.below(6); // 0: no srcmaps, 1: random srcmaps, else consecutive ordered ranges (some missing)
    let texty = rng.below(3); // bias towards long runs of text-like nodes
    let mut v = Vec::new();
    for _ in 0..n {
        let k = if texty == 0 { rng.below(3) } else { [0, 0, 1, 1, 2][rng.below(5)] };
        let (mut node, len) = match k {
            0 => { let t = *rng.pick(TEXTS); (Node::new(Text { content: t.to_owned() }), t.len()) }
            1 => {
                let marker = *rng.pick(MARKS); let remaining = rng.below(4); let length = remaining + rng.below(3);
                (Node::new(EmphMarker { marker, length, remaining, open: rng.chance(1, 2), close: rng.chance(1, 2) }), remaining * marker.len_utf8())
            }
            _ => (Node::new(Opaque(rng.below(4))), rng.below(4)),
        };
        node.srcmap = match style {
            0 => None,
            1 => Some(SourcePos::new(rng.below(30), rng.below(30))),
            _ => if rng.chance(1, 7) { None } else { Some(SourcePos::new(pos, pos + len)) },
        };
        pos += len + if rng.chance(1, 4) { rng.below(3) } else { 0 };
        v.push(node);
    }
    v
}

pub fn run(n: usize, rng: &mut Rng, out: &mut Out) {
    // cmark block rules, no inline pass: the tree keeps its `InlineRoot`s with the tables `get_lines` made
    let mut md_blocks = MarkdownIt::new();
    markdown_it::plugins::cmark::add(&mut md_blocks);
    md_blocks.remove_rule::<InlineParserRule>();
    let mut md = MarkdownIt::new();
    markdown_it::plugins::cmark::add(&mut md);

    for i in 0..n {
        match i % 4 {
            0 => {
                // real tables through the block parser
                let src = gen_source(rng);
                let tree = md_blocks.parse(&src);
                let mut roots = Vec::new();
                collect_roots(&tree, &mut roots);
                if roots.is_empty() { roots.push((String::new(), vec![(0, 0)])); }
                let (content, mapping) = roots[rng.below(roots.len())].clone();
                emit_srcpos(out, rng, &md, &content, &mapping, "srcpos:table-from-block-parser");
                emit_textops(out, rng, &md, &content, &mapping);
            }
            1 => {
                // real tables by calling get_lines directly with an arbitrary indent
                let src = gen_source(rng);
                let mut env = ErasedSet::new();
                let state = BlockState::new(&src, &md, &mut env, Node::default());
                let lines = state.line_max;
                let b = rng.below(lines); let e = rng.range(b + 1, lines);
                let indent = rng.below(7);
                let (content, mapping) = state.get_lines(b, e, indent, rng.chance(1, 2));
                drop(state);
                emit_srcpos(out, rng, &md, &content, &mapping, "srcpos:table-from-get_lines");
                emit_textops(out, rng, &md, &content, &mapping);
            }
            2 => {
                let bad = rng.chance(1, 4);
                let mapping = synth_map(rng, bad);
                let content = ["a b  c", "  x  ", "é  ", "ab\ncd  \nef", "", "\u{4e2d} \u{6587}  "][rng.below(6)];
                emit_srcpos(out, rng, &md, content, &mapping, if bad { "srcpos:synthetic-ill-formed" } else { "srcpos:synthetic-well-formed" });
                emit_textops(out, rng, &md, content, &mapping);
            }
            _ => {
                for _ in 0..4 {
                    let children = gen_join_children(rng);
                    let req = dump(&children);
                    let texts = children.iter().filter(|c| c.is::<Text>() || c.is::<EmphMarker>()).count();
                    let mut parent = Node::new(Opaque(9));
                    parent.children = children;
                    FragmentsJoin::run(&mut parent, &md);
                    let ans = dump(&parent.children);
                    if ans.matches("T:").count() < texts { out.stats.count("join:merged-or-removed"); }
                    if req.contains(":0:") && req.contains("M:") { out.stats.count("join:marker-remaining-0?"); }
                    out.emit(&format!("inlineops join {}", req), &ans, texts >= 2);
                }
            }
        }
    }
}
