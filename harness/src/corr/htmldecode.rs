//! stream `htmldecode`: the oracle's browser model for attribute values (`oracle::c04::attr_unescape`, what
//! `html_urls` applies to every `href="…"` / `src="…"` of a rendered document) against the Lean model
//! `MdIt.HtmlDecode.browserDecode` the C04 theorems are stated with.
//!   * `decode <hex>`   attribute value (hex of its UTF-8) → hex of the decoded value
//! Inputs: attribute-value-like strings built from character references of all three kinds (decimal, hex,
//! named; with and without the final `;`; 1..9 digits, the 9th being outside the reference; names from
//! `entities::ENTITIES` and near-misses), bare `&`, `&#`, `&#x`, multi-byte characters, two-level
//! references (`&amp;#106;`), and outputs of the real `escape_html` on such strings.
use super::Out;
use crate::oracle::c04::attr_unescape;
use crate::rng::Rng;
use crate::util::{hexs, Stats};
use markdown_it::common::utils::escape_html;

const CODES: [u32; 40] = [0, 1, 9, 10, 13, 32, 34, 38, 58, 59, 60, 62, 65, 106, 0x6a, 127, 128, 159, 160, 0x7ff, 0x800, 0xD7FF, 0xD800,
    0xDBFF, 0xDFFF, 0xE000, 0xFFFD, 0xFFFE, 0xFFFF, 0x10000, 0x10FFFF, 0x110000, 0xFFFFFF, 9999999, 12345678, 99999999, 0x7FFFFFFF,
    0xFFFFFFFF, 0x1F600, 0x200B];

fn names() -> Vec<&'static str> {
    entities::ENTITIES.iter().map(|e| e.entity).collect()
}

fn numeric(rng: &mut Rng, stats: &mut Stats) -> String {
    let code: u64 = match rng.below(5) {
        0 | 1 => *rng.pick(&CODES) as u64,
        2 => rng.next() % 0x80,
        3 => rng.next() % 0x110000,
        _ => rng.next() % 0x1_0000_0000,
    };
    let hex = rng.chance(1, 2);
    let mut digits = if !hex { format!("{}", code) } else if rng.chance(1, 2) { format!("{:x}", code) } else { format!("{:X}", code) };
    match rng.below(12) {
        // zero padding / extra digits up to and beyond the 8-digit limit
        0 | 1 => { let want = rng.range(1, 10); if digits.len() < want { digits = format!("{}{}", "0".repeat(want - digits.len()), digits); stats.count("numeric_padded"); } }
        2 => { let k = rng.range(1, 3); for _ in 0..k { digits.push(*rng.pick(&['0', '1', '9', '7'])); } stats.count("numeric_extra_digits"); }
        3 => { digits.push(*rng.pick(&['g', 'G', 'x', 'a', 'F', '_', '٣', '１'])); stats.count("numeric_bad_digit"); }
        4 => { digits = (*rng.pick(&["", "+5", "-1", "x41", " 1", "１２", ";"])).to_string(); stats.count("numeric_degenerate"); }
        _ => {}
    }
    if digits.len() > 8 { stats.count("numeric_over_8_digits"); }
    if digits.len() == 8 { stats.count("numeric_exactly_8_digits"); }
    let x = if hex { *rng.pick(&["x", "X"]) } else { "" };
    let semi = if rng.chance(1, 3) { stats.count("numeric_no_semicolon"); "" } else { ";" };
    stats.count(if hex { "numeric_hex" } else { "numeric_dec" });
    format!("&#{}{}{}", x, digits, semi)
}

fn named(rng: &mut Rng, names: &[&'static str], stats: &mut Stats) -> String {
    let n = *rng.pick(names);
    match rng.below(12) {
        0 => { stats.count("named_no_semicolon"); n.trim_end_matches(';').to_string() }
        1 => { stats.count("named_case_changed"); let mut s: Vec<char> = n.chars().collect(); if s.len() > 2 { let k = rng.range(1, s.len() - 2); s[k] = if s[k].is_ascii_lowercase() { s[k].to_ascii_uppercase() } else { s[k].to_ascii_lowercase() }; } s.into_iter().collect() }
        2 => { stats.count("named_unknown"); (*rng.pick(&["&foo;", "&x;", "&a1;", "&1a;", "&;", "&amp ;", "&am;", "&ampx;", "&l;", "&quo;", "&colon", "&Colon;", "&é;", "&aé;"])).to_string() }
        3 => { stats.count("named_long"); let k = rng.range(30, 36); format!("&{};", "a".repeat(k)) }
        4 => { stats.count("named_four"); (*rng.pick(&["&amp;", "&lt;", "&gt;", "&quot;", "&AMP;", "&LT;", "&GT;", "&QUOT;", "&apos;"])).to_string() }
        5 => { stats.count("named_url_relevant"); (*rng.pick(&["&colon;", "&Tab;", "&NewLine;", "&sol;", "&num;", "&semi;", "&lpar;", "&nbsp;", "&ZeroWidthSpace;", "&bsol;", "&period;"])).to_string() }
        6 => { stats.count("named_then_semicolon_later"); format!("{}x;", n.trim_end_matches(';')) }
        _ => { if n.ends_with(';') { stats.count("named_known"); } else { stats.count("named_legacy_no_semicolon_row"); } n.to_string() }
    }
}

fn plain(rng: &mut Rng) -> String {
    match rng.below(12) {
        0 => (*rng.pick(&["javascript", "vbscript", "data", "file", "http", "avascript", "mailto"])).to_string(),
        1 => (*rng.pick(&[":", "://", "/", "?", "=", "%26", "%3A", ";", "#", "x", "1", "a;"])).to_string(),
        2 => (*rng.pick(&["é", "ß", "я", "€", "中", "😀", "\u{fffd}", "\u{0}", "\u{200b}", "\u{10ffff}"])).to_string(),
        3 => (*rng.pick(&["<", ">", "\"", "'", " ", "\t", "\n"])).to_string(),
        4 => (*rng.pick(&["&", "&&", "&#", "&#x", "&#X", "&#;", "&#x;", "&x", "&#&", "&#x&", "& ", "&é"])).to_string(),
        5 => (*rng.pick(&["amp;", "lt;", "#106;", "#x6a;", "quot;", "colon;"])).to_string(),
        _ => { let k = rng.range(1, 4); (0..k).map(|_| *rng.pick(&['a', 'j', 'v', 's', 'x', 'X', '0', '9', 'f', 'F', ';', '#', '&', ':', '.', '-'])).collect() }
    }
}

fn gen(rng: &mut Rng, names: &[&'static str], stats: &mut Stats) -> String {
    let parts = match rng.below(8) { 0 => 0, 1 => 1, _ => rng.range(1, 7) };
    let mut s = String::new();
    for _ in 0..parts {
        match rng.below(10) {
            0..=2 => s.push_str(&numeric(rng, stats)),
            3..=5 => s.push_str(&named(rng, names, stats)),
            6 => {
                // two levels: the ampersand of a reference is itself written as a reference
                stats.count("two_level");
                let inner = if rng.chance(1, 2) { numeric(rng, stats) } else { named(rng, names, stats) };
                let amp = *rng.pick(&["&amp;", "&#38;", "&#x26;", "&AMP;", "&#38", "&amp"]);
                s.push_str(amp);
                s.push_str(inner.trim_start_matches('&'));
            }
            _ => s.push_str(&plain(rng)),
        }
    }
    s
}

pub fn run(n: usize, rng: &mut Rng, out: &mut Out) {
    let names = names();
    // fixed cases: the seeded shapes and the limits
    for s in ["", "&", "&#106;avascript:x", "&#106avascript:x", "&#x6a;avascript:x", "&#X6Aavascript:x", "&amp;#106;avascript:x",
              "javascript&colon;x", "javascript&colonx", "&#12345678;", "&#123456789;", "&#x0010FFFF;", "&#x00110000;", "&#0;", "&#xD800;",
              "&#00000106;", "&#000000106;", "&#x", "&#", "&#x;", "&#;", "&CounterClockwiseContourIntegral;", "&amp", "&amp;amp;", "&#38;#38;",
              "&#1", "&#x1", "&#1;", "a&", "a&#", "a&#x", "&#xg", "&#a", "&#Xa", "&#xx1;", "&#١;"] {
        out.stats.count("fixed");
        out.emit(&format!("htmldecode decode {}", hexs(s)), &hexs(&attr_unescape(s)), true);
    }
    for _ in 0..n {
        let base = gen(rng, &names, &mut out.stats);
        // a third of the cases: what the real `escape_html` writes for such a string (the theorem's domain)
        let s = if rng.chance(1, 3) { out.stats.count("escaped_by_escape_html"); escape_html(&base).to_string() } else { base.clone() };
        let d = attr_unescape(&s);
        if d != s { out.stats.count("decoding_changed_something"); }
        if s.contains('&') && d.contains('&') { out.stats.count("literal_or_decoded_ampersand_in_result"); }
        if d.contains('\u{fffd}') && !s.contains('\u{fffd}') { out.stats.count("replacement_char_produced"); }
        if d.chars().any(|c| c as u32 >= 0x80) { out.stats.count("non_ascii_result"); }
        if s == escape_html(&base) && d == base { out.stats.count("escape_roundtrip_holds"); }
        if s == escape_html(&base) && d != base { out.stats.count("ESCAPE_ROUNDTRIP_BROKEN"); }
        out.emit(&format!("htmldecode decode {}", hexs(&s)), &hexs(&d), d != s);
    }
}
