//! stream `alt`: `![D](/x)` for generated inline `D`, parsed by the REAL parser; the children of the
//! outermost `Image` node are dumped as an s-expression and the REAL alt text is read back from
//! `image_node.render()`.  The model (`Driver/Alt.lean`) assembles the alt text from the dump.
//!
//! request  `alt alt <item>*`   item ::= (t:<hex>) Text | (s:<hex>) TextSpecial.content | (n) Softbreak
//!                                 | (h) Hardbreak | (w<Kind> <item>*) any other kind
//! answer   hex of the alt text (`-` = empty)
use super::Out;
use crate::rng::Rng;
use crate::util::hexs;
use markdown_it::parser::inline::{Text, TextSpecial};
use markdown_it::plugins::cmark::inline::image::Image;
use markdown_it::plugins::cmark::inline::newline::{Hardbreak, Softbreak};
use markdown_it::Node;

#[derive(Default)]
struct Seen { special: bool, brk: bool, hard: bool, image: bool, wrap: bool, code: bool, link: bool, depth: usize, empty_text: bool }

fn sexpr(node: &Node, depth: usize, seen: &mut Seen, out: &mut String) {
    if depth > seen.depth { seen.depth = depth; }
    if let Some(t) = node.cast::<Text>() {
        if t.content.is_empty() { seen.empty_text = true; }
        out.push_str(&format!("(t:{})", hexs(&t.content)));
    } else if let Some(t) = node.cast::<TextSpecial>() {
        seen.special = true;
        out.push_str(&format!("(s:{})", hexs(&t.content)));
    } else if node.is::<Softbreak>() {
        seen.brk = true;
        out.push_str("(n)");
    } else if node.is::<Hardbreak>() {
        seen.brk = true; seen.hard = true;
        out.push_str("(h)");
    } else {
        let k = crate::dump::kind(node);
        seen.wrap = true;
        match k { "Image" => seen.image = true, "CodeInline" => seen.code = true, "Link" | "Autolink" => seen.link = true, _ => {} }
        let k: String = k.chars().filter(|c| c.is_ascii_alphanumeric() || *c == '_').collect();
        out.push_str(&format!("(w{}", k));
        for c in node.children.iter() { out.push(' '); sexpr(c, depth + 1, seen, out); }
        out.push(')');
    }
}

/// first `Image` in pre-order = the outermost one
fn find_image(node: &Node) -> Option<&Node> {
    if node.is::<Image>() { return Some(node); }
    for c in node.children.iter() { if let Some(n) = find_image(c) { return Some(n); } }
    None
}

/// the value of the `alt` attribute of `<img …>`, attribute-unescaped
pub fn alt_of_html(html: &str) -> Option<String> {
    let start = html.find(" alt=\"")? + 6;
    let len = html[start..].find('"')?;
    let v = &html[start..start + len];
    Some(v.replace("&quot;", "\"").replace("&lt;", "<").replace("&gt;", ">").replace("&amp;", "&"))
}

fn description(rng: &mut Rng) -> String {
    match rng.below(12) {
        0 => (*rng.pick(&[
            "", "a \\* &amp; b\nc", "a  \nb\\\nc", "*a **b** _c_*", "`x *y*` <http://a.b>", "![in *ner*](/y) out",
            "[l *m* ![n](/z)](/w)", "&#35;&copy;&#0;&nosuch;", "\\\\\\[\\]", "a\n\n", "&quot;\"<>&lt;", "~~s~~ \\~",
        ])).to_string(),
        1 => format!("{} ![{}](/i) {}", crate::gen::doc::inline_text(rng, 2, 2), crate::gen::doc::inline_text(rng, 2, 3), crate::gen::doc::inline_text(rng, 2, 2)),
        _ => crate::gen::doc::inline_text(rng, 1, 5),
    }
}

pub fn run(n: usize, rng: &mut Rng, out: &mut Out) {
    let md = crate::cfg::Cfg::cmark_only().build();
    let stock = crate::cfg::Cfg::stock().build();
    let mut done = 0;
    let mut attempts = 0;
    while done < n && attempts < n * 20 {
        attempts += 1;
        let d = description(rng);
        // NUL is rendered as U+FFFD by the serializer (C19), which is not part of the alt assembly
        if d.contains('\0') { out.stats.count("skipped_nul"); continue; }
        let use_stock = rng.chance(1, 6);
        let src = format!("![{}](/x)", d);
        let root = if use_stock { stock.parse(&src) } else { md.parse(&src) };
        let img = match find_image(&root) { Some(i) => i, None => { out.stats.count("skipped_no_image"); continue; } };
        let html = img.render();
        let alt = match alt_of_html(&html) { Some(a) => a, None => { out.stats.count("skipped_no_alt"); continue; } };
        let mut seen = Seen::default();
        let mut req = String::from("alt alt");
        for c in img.children.iter() { req.push(' '); sexpr(c, 1, &mut seen, &mut req); }
        if seen.special { out.stats.count("has_textspecial"); }
        if seen.brk { out.stats.count("has_break"); }
        if seen.hard { out.stats.count("has_hardbreak"); }
        if seen.image { out.stats.count("has_nested_image"); }
        if seen.code { out.stats.count("has_code_span"); }
        if seen.link { out.stats.count("has_link_or_autolink"); }
        if seen.depth >= 3 { out.stats.count("depth_ge_3"); }
        if seen.empty_text { out.stats.count("has_empty_text"); }
        if img.children.is_empty() { out.stats.count("no_children"); }
        if use_stock { out.stats.count("stock_cfg_with_html"); }
        if alt.contains('&') || alt.contains('"') || alt.contains('<') { out.stats.count("alt_needs_unescape"); }
        out.emit(&req, &hexs(&alt), seen.special || seen.brk || seen.wrap);
        done += 1;
    }
}
