//! stream `nest`: pre-order trace of tokenizer frames (hook) of the REAL parser vs the guards of the Lean recursion model
use super::Out;
use crate::cfg::Cfg;
use crate::rng::Rng;

pub fn run(n: usize, rng: &mut Rng, out: &mut Out) {
    let fams = crate::oracle::c02::families();
    let mut cases: Vec<(u32, String, String)> = vec![];
    for i in 0..n {
        let mn = *rng.pick(&[0u32, 1, 2, 3, 5, 10, 100]);
        let (name, src) = if i % 3 == 0 {
            let (name, f) = fams[rng.below(fams.len())];
            (name.to_string(), f(rng.range(1, 40)))
        } else if i % 3 == 1 {
            let mut s = String::new();
            let k = rng.range(1, 25);
            for _ in 0..k { s.push_str(*rng.pick(&["> ", "- ", "[", "![", "*a ", "1. ", "_a ", "`"])); }
            s.push('a');
            for _ in 0..k { s.push_str(*rng.pick(&["](x)", "]", "a*", " a_", "`", ")"])); }
            ("mixed".to_string(), s)
        } else { ("doc".to_string(), crate::gen::doc::grammar_doc(rng)) };
        cases.push((mn, name, src));
    }
    let results = crate::run::big_stack(move || {
        let mut v = vec![];
        for (mn, name, src) in cases {
            let mut cfg = Cfg::stock();
            cfg.max_nesting = mn;
            let md = cfg.build();
            #[cfg(mdit_verif)]
            {
                crate::run::hooks::reset(false);
                crate::run::hooks::enable_trace();
                let ok = crate::util::guarded(|| { md.parse(&src); }).is_ok();
                let h = crate::run::hooks::take();
                let trace = h.trace.unwrap_or_default();
                if ok && trace.len() < 60000 { v.push((mn, name, trace, h.max_depth)); }
            }
            #[cfg(not(mdit_verif))]
            { let _ = (&md, &name, &src, mn); }
        }
        v
    });
    for (mn, name, trace, max_depth) in results {
        out.stats.count(&format!("family_{}", if name == "doc" || name == "mixed" { name.as_str() } else { "adversarial" }));
        let t = if trace.is_empty() { "-".to_string() } else { trace };
        out.emit(&format!("nest check {} {}", mn, t), &format!("ok:{}", max_depth), max_depth >= 3);
    }
}
