//! stream `render`: escape_html, and arbitrary event scripts replayed into the REAL HTMLRenderer
use super::Out;
use crate::oracle::c19::Ev;
use crate::rng::Rng;
use crate::util::hexs;
use markdown_it::common::utils::escape_html;
use markdown_it::{Node, NodeValue, Renderer};

#[derive(Debug)]
struct Script(Vec<Ev>);
impl NodeValue for Script {
    fn render(&self, node: &Node, fmt: &mut dyn Renderer) {
        for e in self.0.iter() {
            match e {
                Ev::Open(t, a) => { let aa: Vec<(&str, String)> = a.iter().map(|(k, v)| (k.as_str(), v.clone())).collect(); fmt.open(t, &aa); }
                Ev::Close(t) => fmt.close(t),
                Ev::SelfClose(t, a) => { let aa: Vec<(&str, String)> = a.iter().map(|(k, v)| (k.as_str(), v.clone())).collect(); fmt.self_close(t, &aa); }
                Ev::Text(s) => fmt.text(s),
                Ev::Raw(s) => fmt.text_raw(s),
                Ev::Cr => fmt.cr(),
            }
        }
        // children are further scripts (exercises `contents`)
        fmt.contents(&node.children);
    }
}

fn payload(rng: &mut Rng) -> String {
    match rng.below(12) {
        0 => String::new(),
        1 => "\n".into(),
        2 => "a\n".into(),
        3 => "<script>\"&".into(),
        4 => "\" onclick=\"x".into(),
        5 => "&amp;&lt;".into(),
        6 => "x\0y".into(),
        7 => "é\u{10a}\u{a0a}".into(),
        8 => "\0".into(),
        _ => crate::gen::doc::sig_string(rng, 6),
    }
}

fn gen_ev(rng: &mut Rng) -> Ev {
    let tag = || -> String { ["p", "a", "img", "br", "code", "x-y", "h1"][0].to_string() };
    let _ = tag;
    let tags = ["p", "a", "img", "br", "code", "x-y", "h1", ""];
    let t = tags[rng.below(tags.len())].to_string();
    let attrs = |rng: &mut Rng| -> Vec<(String, String)> { (0..rng.below(3)).map(|_| ((*rng.pick(&["href", "title", "alt", "data-sourcepos", "a b", "x\"y"])).to_string(), payload(rng))).collect() };
    match rng.below(9) {
        0 | 1 => Ev::Open(t, attrs(rng)),
        2 => Ev::Close(t),
        3 => Ev::SelfClose(t, attrs(rng)),
        4 | 5 => Ev::Text(payload(rng)),
        6 => Ev::Raw(payload(rng)),
        _ => Ev::Cr,
    }
}

pub fn enc_events(evs: &[Ev]) -> String {
    if evs.is_empty() { return "-".into(); }
    let attrs = |a: &Vec<(String, String)>| a.iter().map(|(k, v)| format!("{}={}", hexs(k), hexs(v))).collect::<Vec<_>>().join(",");
    evs.iter().map(|e| match e {
        Ev::Open(t, a) => format!("o:{}:{}", hexs(t), attrs(a)),
        Ev::SelfClose(t, a) => format!("s:{}:{}", hexs(t), attrs(a)),
        Ev::Close(t) => format!("c:{}", hexs(t)),
        Ev::Text(s) => format!("t:{}", hexs(s)),
        Ev::Raw(s) => format!("r:{}", hexs(s)),
        Ev::Cr => "n".into(),
    }).collect::<Vec<_>>().join(";")
}

pub fn run(n: usize, rng: &mut Rng, out: &mut Out) {
    for _ in 0..n / 3 {
        let s = payload(rng) + &payload(rng);
        out.emit(&format!("render esc {}", hexs(&s)), &hexs(&escape_html(&s)), s.contains('&') || s.contains('<') || s.contains('"'));
    }
    for _ in 0..n {
        let k = rng.range(0, 10);
        let evs: Vec<Ev> = (0..k).map(|_| gen_ev(rng)).collect();
        // split the script between a parent and a child node half of the time
        let split = if rng.chance(1, 2) { rng.below(evs.len() + 1) } else { evs.len() };
        let mut node = Node::new(Script(evs[..split].to_vec()));
        if split < evs.len() { node.children.push(Node::new(Script(evs[split..].to_vec()))); }
        let nontrivial = evs.iter().any(|e| matches!(e, Ev::Cr)) && evs.len() >= 3;
        if evs.iter().any(|e| matches!(e, Ev::SelfClose(..))) { out.stats.count("has_selfclose"); }
        for x in [false, true] {
            let html = if x { node.xrender() } else { node.render() };
            out.emit(&format!("render ser {} {}", x as u8, enc_events(&evs)), &hexs(&html), nontrivial);
        }
    }
}
