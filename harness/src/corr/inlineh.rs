//! stream `inlineh`: the REAL inline parser (`md.inline.parse`, then `FragmentsJoin::run` when an emphasis-like
//! rule is configured) with the raw-HTML inline rule (`HtmlInlineScanner`) as a possible chain member, against
//! the Lean model `MdIt.InlineH` (`Driver/InlineH.lean`).
//!
//! requests (grammar and answer format: see the header of `/verif/lean/Driver/InlineH.lean`)
//!   inlineh parse <hexContent> <mapping> <maxNesting> <chain> <emphCfg> <refs>
//!   inlineh rule <name> <silent01> <hexSrc> <pos> <posMax> <mapping> <maxNesting> <chain> <emphCfg> <refs> <level> <pre> <linkLevel>
//!   inlineh skip <hexSrc> <pos> <posMax> <mapping> <maxNesting> <chain> <emphCfg> <refs> <level>
//! The chain sent to the model is read back from `format!("{:?}", md.inline)` (the compiled order), never assumed.
//!
//! COPIES (the originals are private to their streams): the configuration pool, the dumps, the request emitters and
//! the content generators `emph_stress` … `gen_block_source` are those of `corr/inline.rs` (plus the plug `Html`, the
//! rule name `html`, the node head `H`, the `link_level` argument of `rule`); the html fragment generator
//! (`ws` … `fragment`) is that of `corr/html.rs`.  New here: `html_mix` and the `html_*` content generators.
use super::Out;
use crate::gen::doc;
use crate::rng::Rng;
use crate::util::{guarded, hexs};
use markdown_it::common::utils::normalize_reference;
use markdown_it::common::ErasedSet;
use markdown_it::generics::inline::code_pair::CodePairScanner;
use markdown_it::generics::inline::emph_pair::{self, EmphMarker, EmphPairScanner, FragmentsJoin};
use markdown_it::generics::inline::full_link::{LinkPrefixScanner, LinkScanner, LinkScannerEnd};
use markdown_it::parser::core::{CoreRule, Root};
use markdown_it::parser::inline::builtin::{InlineParserRule, TextScanner};
use markdown_it::parser::inline::{InlineRoot, InlineRule, InlineState, Text, TextSpecial};
use markdown_it::plugins::cmark::block::reference::{ReferenceMap, ReferenceMapEntry, ReferenceMapKey};
use markdown_it::plugins::cmark::inline::autolink::{Autolink, AutolinkScanner};
use markdown_it::plugins::cmark::inline::backticks::CodeInline;
use markdown_it::plugins::cmark::inline::emphasis::{Em, Strong};
use markdown_it::plugins::cmark::inline::entity::EntityScanner;
use markdown_it::plugins::cmark::inline::escape::EscapeScanner;
use markdown_it::plugins::cmark::inline::image::Image;
use markdown_it::plugins::cmark::inline::link::Link;
use markdown_it::plugins::cmark::inline::newline::{Hardbreak, NewlineScanner, Softbreak};
use markdown_it::plugins::extra::inline::strikethrough::Strikethrough;
use markdown_it::plugins::html::html_inline::{HtmlInline, HtmlInlineScanner};
use markdown_it::plugins::{cmark, extra, html};
use markdown_it::{MarkdownIt, Node};
use std::collections::BTreeMap;

// ---------------------------------------------------------------------------------------------
// configurations

struct Conf {
    md: MarkdownIt,
    chain: Vec<String>,          // rule names in compiled order
    chain_s: String,
    emph_s: String,
    has_emph: bool,
}

#[derive(Clone, Copy, PartialEq, Debug)]
enum Plug { Html, Newline, Escape, Backticks, Emphasis, Link, Image, Autolink, Entity, Strike, StarStrongOnly, Star3, Tilde1, UnderSplit, StarNoSplit }

const STD: [Plug; 9] = [Plug::Newline, Plug::Escape, Plug::Backticks, Plug::Emphasis, Plug::Link, Plug::Image, Plug::Autolink, Plug::Entity, Plug::Strike];
/// `cmark::add` order with `html::add` behind it (as `markdown_it::plugins::html::add` after `cmark::add`), then strikethrough
const STDH: [Plug; 10] = [Plug::Newline, Plug::Escape, Plug::Backticks, Plug::Emphasis, Plug::Link, Plug::Image, Plug::Autolink, Plug::Entity, Plug::Html, Plug::Strike];
const ODD: [Plug; 5] = [Plug::StarStrongOnly, Plug::Star3, Plug::Tilde1, Plug::UnderSplit, Plug::StarNoSplit];

fn reg(emph: &mut BTreeMap<char, [char; 3]>, m: char, len: usize, k: char) { emph.entry(m).or_insert(['-', '-', '-'])[len - 1] = k; }

fn add_plug(md: &mut MarkdownIt, p: Plug, emph: &mut BTreeMap<char, [char; 3]>) {
    match p {
        Plug::Html => html::html_inline::add(md),
        Plug::Newline => cmark::inline::newline::add(md),
        Plug::Escape => cmark::inline::escape::add(md),
        Plug::Backticks => cmark::inline::backticks::add(md),
        Plug::Emphasis => { cmark::inline::emphasis::add(md); reg(emph, '*', 1, 'e'); reg(emph, '_', 1, 'e'); reg(emph, '*', 2, 's'); reg(emph, '_', 2, 's'); }
        Plug::Link => cmark::inline::link::add(md),
        Plug::Image => cmark::inline::image::add(md),
        Plug::Autolink => cmark::inline::autolink::add(md),
        Plug::Entity => cmark::inline::entity::add(md),
        Plug::Strike => { extra::inline::strikethrough::add(md); reg(emph, '~', 2, 'k'); }
        Plug::StarStrongOnly => { emph_pair::add_with::<'*', 2, true>(md, || Node::new(Strong { marker: '*' })); reg(emph, '*', 2, 's'); }
        Plug::Star3 => { emph_pair::add_with::<'*', 3, true>(md, || Node::new(Em { marker: '*' })); reg(emph, '*', 3, 'e'); }
        Plug::Tilde1 => { emph_pair::add_with::<'~', 1, true>(md, || Node::new(Strikethrough { marker: '~' })); reg(emph, '~', 1, 'k'); }
        Plug::UnderSplit => { emph_pair::add_with::<'_', 1, true>(md, || Node::new(Em { marker: '_' })); reg(emph, '_', 1, 'e'); }
        Plug::StarNoSplit => { emph_pair::add_with::<'*', 1, false>(md, || Node::new(Em { marker: '*' })); reg(emph, '*', 1, 'e'); }
    }
}

/// type path of a compiled chain entry → rule name of the protocol
fn rule_name(ty: &str) -> String {
    let t = ty.trim();
    if t.ends_with("TextScanner") { return "text".into(); }
    if t.ends_with("NewlineScanner") { return "newline".into(); }
    if t.ends_with("EscapeScanner") { return "escape".into(); }
    if t.contains("CodePairScanner<'`', false>") { return "backticks".into(); }
    if t.ends_with("LinkScanner<false>") { return "link".into(); }
    if t.contains("LinkPrefixScanner<'!', true>") { return "image".into(); }
    if t.ends_with("LinkScannerEnd") { return "linkEnd".into(); }
    if t.ends_with("AutolinkScanner") { return "autolink".into(); }
    if t.ends_with("EntityScanner") { return "entity".into(); }
    if t.ends_with("HtmlInlineScanner") { return "html".into(); }
    if let Some(p) = t.find("EmphPairScanner<'") {
        let rest = &t[p + "EmphPairScanner<'".len()..];
        let m = rest.chars().next().unwrap();
        let split = rest.contains("true");
        return format!("emph:{}:{}", hexs(&m.to_string()), if split { 1 } else { 0 });
    }
    format!("?{}", t)
}

/// the `compiled: [(idx, Type), …]` list of the inline ruler's Debug output
fn read_chain(md: &MarkdownIt) -> Vec<String> {
    let dbg = format!("{:?}", md.inline);
    let key = "compiled: [";
    let s = &dbg[dbg.find(key).unwrap() + key.len()..];
    // entries are `(idx, path)`; a path may contain `<'x', true>` but no parenthesis for our rule types
    let mut out = vec![];
    let mut rest = s;
    loop {
        let rest_t = rest.trim_start_matches(|c| c == ',' || c == ' ');
        if !rest_t.starts_with('(') { break; }
        let close = rest_t.find(')').unwrap();
        let body = &rest_t[1..close];
        let ty = body.splitn(2, ", ").nth(1).unwrap_or("");
        out.push(rule_name(ty));
        rest = &rest_t[close + 1..];
    }
    out
}

fn build_conf(plugs: &[Plug], max_nesting: u32) -> Conf {
    let mut md = MarkdownIt::new();
    let mut emph = BTreeMap::new();
    for p in plugs { add_plug(&mut md, *p, &mut emph); }
    md.max_nesting = max_nesting;
    let chain = read_chain(&md);
    let emph_s = if emph.is_empty() { "-".to_string() } else {
        emph.iter().map(|(m, f)| format!("{}:{}{}{}", hexs(&m.to_string()), f[0], f[1], f[2])).collect::<Vec<_>>().join(";")
    };
    Conf { chain_s: if chain.is_empty() { "-".into() } else { chain.join(",") }, has_emph: !emph.is_empty(), md, chain, emph_s }
}

fn random_plugs(rng: &mut Rng) -> Vec<Plug> {
    let mut v: Vec<Plug> = match rng.below(10) {
        0..=3 => STD.to_vec(),
        4 => STD[..8].to_vec(),
        5 => { let mut v = STD.to_vec(); v.remove(rng.below(v.len())); v }
        6 | 7 => STD.iter().copied().filter(|_| rng.chance(2, 3)).collect(),
        _ => { let mut v: Vec<Plug> = STD.iter().copied().filter(|p| *p != Plug::Emphasis || rng.chance(1, 2)).collect(); v.push(*rng.pick(&ODD)); if rng.chance(1, 2) { v.push(*rng.pick(&ODD)); } v }
    };
    // the html rule: mostly there, at a random place of the registration order (the compiled order is read back)
    if rng.chance(5, 6) { let at = rng.below(v.len() + 1); v.insert(at, Plug::Html); }
    // html WITHOUT autolink (`<` is then a marker of the html rule alone)
    if rng.chance(1, 5) { v.retain(|p| *p != Plug::Autolink); }
    if rng.chance(1, 2) { for i in (1..v.len()).rev() { let j = rng.below(i + 1); v.swap(i, j); } }
    v
}

// ---------------------------------------------------------------------------------------------
// dumps

fn range_str(n: &Node) -> String {
    match n.srcmap { Some(m) => { let (a, b) = m.get_byte_offsets(); format!("{}:{}", a, b) } None => "-:-".into() }
}

fn title_str(t: &Option<String>) -> String { match t { Some(t) => hexs(t), None => "none".into() } }

fn dump_node(n: &Node, s: &mut String) {
    s.push('(');
    if let Some(t) = n.cast::<Text>() { s.push_str(&format!("T {}", hexs(&t.content))); }
    else if let Some(t) = n.cast::<TextSpecial>() { s.push_str(&format!("X {} {} {}", hexs(&t.content), hexs(&t.markup), hexs(t.info))); }
    else if n.is::<Softbreak>() { s.push_str("SB"); }
    else if n.is::<Hardbreak>() { s.push_str("HB"); }
    else if let Some(c) = n.cast::<CodeInline>() { s.push_str(&format!("C {} {}", hexs(&c.marker.to_string()), c.marker_len)); }
    else if let Some(e) = n.cast::<Em>() { s.push_str(&format!("E {}", hexs(&e.marker.to_string()))); }
    else if let Some(e) = n.cast::<Strong>() { s.push_str(&format!("S {}", hexs(&e.marker.to_string()))); }
    else if let Some(e) = n.cast::<Strikethrough>() { s.push_str(&format!("K {}", hexs(&e.marker.to_string()))); }
    else if let Some(l) = n.cast::<Link>() { s.push_str(&format!("L {} {}", hexs(&l.url), title_str(&l.title))); }
    else if let Some(l) = n.cast::<Image>() { s.push_str(&format!("I {} {}", hexs(&l.url), title_str(&l.title))); }
    else if let Some(a) = n.cast::<Autolink>() { s.push_str(&format!("A {}", hexs(&a.url))); }
    else if let Some(h) = n.cast::<HtmlInline>() { s.push_str(&format!("H {}", hexs(&h.content))); }
    else if let Some(m) = n.cast::<EmphMarker>() { s.push_str(&format!("M {} {} {} {} {}", hexs(&m.marker.to_string()), m.length, m.remaining, m.open as u8, m.close as u8)); }
    else { s.push_str(&format!("? {}", n.name().replace(' ', "_"))); }
    s.push(' ');
    s.push_str(&range_str(n));
    for c in n.children.iter() { s.push(' '); dump_node(c, s); }
    s.push(')');
}

fn dump(children: &[Node]) -> String {
    if children.is_empty() { return "-".into(); }
    let mut s = String::new();
    for (i, c) in children.iter().enumerate() { if i > 0 { s.push(' '); } dump_node(c, &mut s); }
    s
}

fn map_str(m: &[(usize, usize)]) -> String {
    if m.is_empty() { return "-".into(); }
    m.iter().map(|(k, v)| format!("{}/{}", k, v)).collect::<Vec<_>>().join(",")
}

fn panic_class(msg: &str) -> &'static str {
    // `link_level += 1` at `i32::MAX` ("attempt to add with overflow") is reported in the class of the arithmetic panics
    if msg.contains("attempt to subtract with overflow") || msg.contains("attempt to add with overflow") { "underflow" }
    else if msg.contains("index out of bounds") { "index" }
    else if msg.contains("Option::unwrap()") { "unwrap" }
    else if msg.contains("assertion failed") { "assert" }
    else if msg.contains("byte index") || msg.contains("char boundary") || msg.contains("slice index") || msg.contains("begin <= end") || msg.contains("when slicing") || msg.contains("out of range") { "slice" }
    else if msg.contains("ParseIntError") || msg.contains("Result::unwrap()") { "radix" }
    else { "other" }
}

type Refs = Vec<(String, String, Option<String>)>; // label, destination, title

fn refs_str(refs: &Option<Refs>) -> String {
    match refs {
        None => "none".into(),
        Some(v) if v.is_empty() => "-".into(),
        Some(v) => {
            // what the map holds in the end, by normalised key (a later insert overwrites the value)
            let mut m: BTreeMap<String, (String, Option<String>)> = BTreeMap::new();
            for (l, d, t) in v { m.insert(normalize_reference(l), (d.clone(), t.clone())); }
            m.iter().map(|(k, (d, t))| format!("{}={}={}", hexs(k), hexs(d), title_str(t))).collect::<Vec<_>>().join(";")
        }
    }
}

fn make_env(refs: &Option<Refs>) -> ErasedSet {
    let mut env = ErasedSet::new();
    if let Some(v) = refs {
        let map = env.get_or_insert_default::<ReferenceMap>();
        for (l, d, t) in v { map.insert(ReferenceMapKey::new(l.clone()), ReferenceMapEntry::new(d.clone(), t.clone())); }
    }
    env
}

// ---------------------------------------------------------------------------------------------
// the requests

fn emit_parse(out: &mut Out, conf: &Conf, content: &str, mapping: &[(usize, usize)], refs: &Option<Refs>, tag: &str) {
    let req = format!("inlineh parse {} {} {} {} {} {}", hexs(content), map_str(mapping), conf.md.max_nesting, conf.chain_s, conf.emph_s, refs_str(refs));
    let res = guarded(|| {
        let mut env = make_env(refs);
        let mut node = conf.md.inline.parse(content.to_owned(), mapping.to_vec(), Node::default(), &conf.md, &mut env);
        if conf.has_emph { FragmentsJoin::run(&mut node, &conf.md); }
        dump(&node.children)
    });
    let ans = match res {
        Ok(d) => {
            for (k, name) in [("(L ", "link"), ("(I ", "image"), ("(A ", "autolink"), ("(C ", "code"), ("(E ", "em"), ("(S ", "strong"), ("(K ", "strike"), ("(HB", "hardbreak"), ("(SB", "softbreak"), ("(X ", "special"), ("(H ", "html")] {
                if d.contains(k) { out.stats.count(&format!("parse:has-{}", name)); }
            }
            if d.contains("(L ") && d[d.find("(L ").unwrap()..].matches("(L ").count() > 1 { out.stats.count("parse:several-links"); }
            // an html node below a link / image / emphasis / next to an autolink; a tag that contains `]` (hex 5d) inside a link
            fn nested_in(d: &str, head: &str) -> bool {
                let mut from = 0;
                while let Some(p) = d[from..].find(head) {
                    let start = from + p; let mut depth = 0i32;
                    for (i, ch) in d[start..].char_indices() {
                        if ch == '(' { depth += 1; if depth > 1 && d[start + i..].starts_with("(H ") { return true; } }
                        if ch == ')' { depth -= 1; if depth == 0 { break; } }
                    }
                    from = start + head.len();
                }
                false
            }
            if nested_in(&d, "(L ") { out.stats.count("parse:html-inside-link"); }
            if nested_in(&d, "(I ") { out.stats.count("parse:html-inside-image"); }
            if nested_in(&d, "(E ") || nested_in(&d, "(S ") { out.stats.count("parse:html-inside-emphasis"); }
            if d.contains("(H ") && d.contains("(A ") { out.stats.count("parse:html-and-autolink"); }
            if d.contains("(H ") && d.contains("(C ") { out.stats.count("parse:html-and-code-span"); }
            if d.split("(H ").skip(1).any(|t| t.split(' ').next().map_or(false, |h| h.as_bytes().chunks(2).any(|c| c == b"5d"))) { out.stats.count("parse:tag-containing-bracket"); }
            if d.split("(H ").skip(1).any(|t| t.starts_with("3c613e") || t.starts_with("3c6120") || t.starts_with("3c2f61")) { out.stats.count("parse:a-tag-link-level"); }
            d
        }
        Err(e) => { out.stats.count(&format!("parse:panic-{}", panic_class(&e))); format!("PANIC:{}", panic_class(&e)) }
    };
    out.stats.count(tag);
    if mapping.len() > 1 { out.stats.count("parse:multi-line-mapping"); }
    if mapping.windows(2).any(|w| w[0].1 == w[1].1) { out.stats.count("parse:mapping-with-virtual-spaces"); }
    if conf.md.max_nesting < 10 { out.stats.count("parse:small-max-nesting"); }
    out.emit(&req, &ans, content.len() > 2);
}

fn memo_str(state: &InlineState) -> String {
    if state.cache.is_empty() { return "-".into(); }
    let m: BTreeMap<usize, usize> = state.cache.iter().map(|(k, v)| (*k, *v)).collect();
    m.iter().map(|(k, v)| format!("{}>{}", k, v)).collect::<Vec<_>>().join(",")
}

fn state_str(state: &InlineState) -> String { format!("{},{},{},{}", state.pos, state.pos_max, state.level, state.link_level) }

fn run_rule(name: &str, state: &mut InlineState, silent: bool) -> Option<usize> {
    match name {
        "text" => TextScanner::run(state, silent),
        "newline" => NewlineScanner::run(state, silent),
        "escape" => EscapeScanner::run(state, silent),
        "backticks" => CodePairScanner::<'`', false>::run(state, silent),
        "link" => LinkScanner::<false>::run(state, silent),
        "image" => LinkPrefixScanner::<'!', true>::run(state, silent),
        "linkEnd" => LinkScannerEnd::run(state, silent),
        "autolink" => AutolinkScanner::run(state, silent),
        "entity" => EntityScanner::run(state, silent),
        "html" => HtmlInlineScanner::run(state, silent),
        "emph:2a:1" => EmphPairScanner::<'*', true>::run(state, silent),
        "emph:2a:0" => EmphPairScanner::<'*', false>::run(state, silent),
        "emph:5f:0" => EmphPairScanner::<'_', false>::run(state, silent),
        "emph:5f:1" => EmphPairScanner::<'_', true>::run(state, silent),
        "emph:7e:1" => EmphPairScanner::<'~', true>::run(state, silent),
        _ => panic!("unknown rule {}", name),
    }
}

#[allow(clippy::too_many_arguments)]
fn emit_rule(out: &mut Out, conf: &Conf, name: &str, silent: bool, src: &str, pos: usize, pos_max: usize, mapping: &[(usize, usize)], refs: &Option<Refs>, level: u32, pre: Option<usize>, link_level: i32) {
    let req = format!("inlineh rule {} {} {} {} {} {} {} {} {} {} {} {} {}", name, silent as u8, hexs(src), pos, pos_max, map_str(mapping),
        conf.md.max_nesting, conf.chain_s, conf.emph_s, refs_str(refs), level, match pre { Some(p) => p.to_string(), None => "-".into() }, link_level);
    let res = guarded(|| {
        let mut env = make_env(refs);
        let mut state = InlineState::new(src.to_owned(), mapping.to_vec(), &conf.md, &mut env, Node::default());
        state.pos = pos; state.pos_max = pos_max; state.level = level; state.link_level = link_level;
        if let Some(p) = pre { state.trailing_text_push(p, pos); }
        let r = run_rule(name, &mut state, silent);
        let rs = match r { Some(n) => format!("some:{}", n), None => "none".into() };
        (r.is_some(), format!("{} {} {} {}", rs, state_str(&state), memo_str(&state), dump(&state.node.children)))
    });
    let ans = match res {
        Ok((some, a)) => { out.stats.count(&format!("rule:{}:{}:{}", name.split(':').next().unwrap(), if silent { "silent" } else { "real" }, if some { "some" } else { "none" })); a }
        Err(e) => { out.stats.count(&format!("rule:panic-{}", panic_class(&e))); format!("PANIC:{}", panic_class(&e)) }
    };
    out.emit(&req, &ans, true);
}

fn emit_skip(out: &mut Out, conf: &Conf, src: &str, pos: usize, pos_max: usize, mapping: &[(usize, usize)], refs: &Option<Refs>, level: u32) {
    let req = format!("inlineh skip {} {} {} {} {} {} {} {} {}", hexs(src), pos, pos_max, map_str(mapping), conf.md.max_nesting, conf.chain_s, conf.emph_s, refs_str(refs), level);
    let res = guarded(|| {
        let mut env = make_env(refs);
        let mut state = InlineState::new(src.to_owned(), mapping.to_vec(), &conf.md, &mut env, Node::default());
        state.pos = pos; state.pos_max = pos_max; state.level = level;
        conf.md.inline.skip_token(&mut state);
        format!("{} {}", state_str(&state), memo_str(&state))
    });
    let ans = match res {
        Ok(a) => { out.stats.count(if level >= conf.md.max_nesting { "skip:over-limit" } else { "skip:ok" }); a }
        Err(e) => { out.stats.count(&format!("skip:panic-{}", panic_class(&e))); format!("PANIC:{}", panic_class(&e)) }
    };
    out.emit(&req, &ans, true);
}

// ---------------------------------------------------------------------------------------------
// contents

const WORDS: &[&str] = &["foo", "bar", "a", "b", "x", "wörld", "日本", "é", "😀", "q1", "ß", " ", " ", "  ", "\n", ".", ",", "(", ")", "\"", "¡", "—", "«", "»", "\u{a0}", "\u{2003}", "§", "€", "$", "+", "1"];

fn emph_stress(rng: &mut Rng) -> String {
    let markers = ["*", "_", "~", "*", "_"];
    let n = rng.range(1, 9);
    let mut s = String::new();
    for _ in 0..n {
        match rng.below(5) {
            0 | 1 => { let m = *rng.pick(&markers); let hi = if rng.chance(1, 6) { 7 } else { 3 }; s.push_str(&m.repeat(rng.range(1, hi))); }
            2 | 3 => s.push_str(*rng.pick(WORDS)),
            _ => { let m = *rng.pick(&markers); let k = rng.range(1, 3); s.push_str(&m.repeat(k)); s.push_str(*rng.pick(WORDS)); s.push_str(&m.repeat(if rng.chance(3, 4) { k } else { rng.range(1, 4) })); }
        }
    }
    s
}

/// dense soups of delimiter runs of every length class (1..9) around single letters: the openers-bottom table of the
/// delimiter matcher (indexed by can-open x length mod 3) only matters after FAILED matches of several classes
fn emph_soup(rng: &mut Rng) -> String {
    let n = rng.range(3, 12);
    let mut s = String::new();
    let m = if rng.chance(3, 4) { "*" } else { "_" };
    for _ in 0..n {
        match rng.below(6) {
            0 | 1 | 2 => { let mk = if rng.chance(5, 6) { m } else { *rng.pick(&["*", "_", "~"]) }; s.push_str(&mk.repeat(rng.range(1, 10))); }
            3 => s.push_str(*rng.pick(&["a", "b", "c", "d"])),
            4 => s.push(' '),
            _ => { s.push_str(*rng.pick(&["a", "b"])); s.push_str(&m.repeat(rng.range(1, 4))); s.push_str(*rng.pick(&["c", " c", "d "])); }
        }
    }
    s
}

/// letter, run, (letter | space letter), run, ...: every combination of flanking (closer-only, opener-only, both) and
/// length class mod 3 in one paragraph, so that a FAILED closer of one class precedes a closer of another class that
/// should still find an earlier opener (the openers-bottom table has one slot per class)
fn emph_bottoms(rng: &mut Rng) -> String {
    let m = if rng.chance(4, 5) { "*" } else { "_" };
    let mut s = String::from(*rng.pick(&["a", "", "a "]));
    for _ in 0..rng.range(3, 6) {
        s.push_str(&m.repeat(rng.range(1, 7)));
        s.push_str(*rng.pick(&["b", " c", "d ", "e", " "]));
    }
    s
}

/// the same, enumerated: three runs of lengths (a, b, c) in 1..=6, each followed by a letter or by space + letter
/// (216 x 8 = 1728 documents; the stream walks through them with a counter, a quick run covers all of them)
fn emph_bottoms_enum(idx: usize, m: &str) -> String {
    let (a, b, c) = (idx % 6 + 1, idx / 6 % 6 + 1, idx / 36 % 6 + 1);
    let f = idx / 216 % 8;
    let sep = |bit: usize, l: &str| if f >> bit & 1 == 1 { format!(" {}", l) } else { l.to_string() };
    format!("a{}{}{}{}{}{}", m.repeat(a), sep(0, "b"), m.repeat(b), sep(1, "c"), m.repeat(c), sep(2, "d"))
}

fn nested_brackets(rng: &mut Rng) -> String {
    fn go(rng: &mut Rng, depth: usize, s: &mut String) {
        let n = rng.range(1, 3);
        for _ in 0..n {
            match if depth == 0 { rng.below(4) } else { rng.below(12) } {
                0 | 1 => s.push_str(*rng.pick(&["a", "b c", "x", "é", "*e*", "`c`", "\\]", "\\[", "&amp;", "<http://u.v>", "]", "[", "!", "`", "\n", "**", "_"])),
                2 => s.push_str(*rng.pick(&["`[`", "`]`", "`](u)`", "``a]``", "`a", "<x:]>", "<x:[>", "`]", "[`"])),
                3 => s.push_str(*rng.pick(&["[ref]", "[Foo][]", "[t][ref]", "[missing]", "[a][missing]", "[]", "[][ref]", "![ref]"])),
                4..=6 => { s.push('['); go(rng, depth - 1, s); s.push_str(*rng.pick(&["](u)", "](u)", "](<u v> \"t\")", "]", "][ref]", "][]", "](", "](u", "](javascript:x)", "] (u)", "](u 't')", "]( u )", "](\nu\n)"])); }
                7 | 8 => { s.push_str("!["); go(rng, depth - 1, s); s.push_str(*rng.pick(&["](i)", "](i \"t\")", "]", "][ref]"])); }
                9 => { s.push('['); go(rng, depth - 1, s); }
                10 => { go(rng, depth - 1, s); s.push(']'); }
                _ => { s.push('*'); go(rng, depth - 1, s); s.push('*'); }
            }
        }
    }
    let mut s = String::new();
    let d = rng.range(1, 8);
    go(rng, d, &mut s);
    s
}

fn label_of(n: usize) -> String { let mut s = String::new(); for i in 0..n { s.push(if i > 0 && i + 1 < n && i % 7 == 3 { '-' } else { (b'a' + (i % 26) as u8) as char }); } s }

fn autolinks(rng: &mut Rng) -> String {
    let n = rng.range(1, 3);
    let mut s = String::new();
    for i in 0..n {
        if i > 0 { s.push_str(*rng.pick(&[" ", "", "x", "\n"])); }
        let a = match rng.below(24) {
            0 => "<http://example.com>".to_string(),
            1 => "<a@b.c>".into(),
            2 => "<javascript:alert(1)>".into(),
            3 => "<JaVaScRiPt:x>".into(),
            4 => "<data:image/png;base64,AA>".into(),
            5 => "<data:text/html,x>".into(),
            6 => "<file:///etc>".into(),
            7 => "<vbscript:x>".into(),
            8 => format!("<a@{}.com>", label_of(63)),
            9 => format!("<a@{}.com>", label_of(64)),
            10 => format!("<a@x.{}>", label_of(rng.range(60, 66))),
            11 => format!("<{}:x>", "s".repeat(rng.range(1, 3))),
            12 => format!("<a{}:x>", "b".repeat(rng.range(29, 33))),
            13 => "<a@b-.c>".into(),
            14 => "<a@-b.c>".into(),
            15 => "<a@b..c>".into(),
            16 => "<a@b.c.>".into(),
            17 => "<a.!#$%&'*+/=?^_`{|}~-z@b-c.d9>".into(),
            18 => "<http://a b>".into(),
            19 => "<http://é.com/ü?q=%20%zz&x>".into(),
            20 => "<h+.-1:>".into(),
            21 => "<1h:x>".into(),
            22 => "<http://a<b>".into(),
            _ => format!("<{}>", doc::sig_string(rng, 8).replace('\n', " ")),
        };
        s.push_str(&a);
    }
    s
}

fn code_brackets(rng: &mut Rng) -> String {
    let n = rng.range(2, 9);
    let mut s = String::new();
    for _ in 0..n {
        s.push_str(*rng.pick(&["`", "``", "```", "`", "[", "]", "](u)", "a", " ", "  ", "\n", "[`", "`]", "*", "![", "\\`", "é", "` `", "`` ` ``", "[a]", "(u)", "<x:`>", "&#96;"]));
    }
    s
}

fn entities_escapes(rng: &mut Rng) -> String {
    let n = rng.range(1, 6);
    let mut s = String::new();
    for _ in 0..n {
        s.push_str(*rng.pick(&["&amp;", "&#35;", "&#x41;", "&copy;", "&#0;", "&nosuch;", "&#xD800;", "&#99999999;", "&#1234567;", "&#x1234567;", "&AMP;", "&lt;", "&", "&#", "&#x", "&;", "&a;", "&amp", "&ClockwiseContourIntegral;", "&CounterClockwiseContourIntegral;", "&\u{17f}hy;", "&\u{212a}opf;",
            "\\*", "\\\\", "\\a", "\\é", "\\\n", "\\\n  x", "\\", " ", "a", "  \n", " \n", "\n", "\n   ", "x  ", "\t\n", "\\&amp;", "&#X41;", "&#x110000;", "&#xFFFF;", "&#65533;"]));
    }
    s
}

fn random_refs(rng: &mut Rng) -> Option<Refs> {
    if rng.chance(1, 5) { return None; }
    let n = rng.below(4);
    let mut v = vec![];
    for _ in 0..n {
        let l = *rng.pick(&["ref", "REF", "Foo", "r  2", "ẞ", "t", "a", "b c", "[x]", "é"]);
        let d = *rng.pick(&["/url", "http://e.x/%20", "", "javascript:x", "/a(b)"]);
        let t = match rng.below(3) { 0 => None, 1 => Some("T &amp; t".to_string()), _ => Some(String::new()) };
        v.push((l.to_string(), d.to_string(), t));
    }
    Some(v)
}

/// sources whose paragraphs sit behind list markers, quotes, tabs and partial tabs (as corr/inlineops.rs)
fn gen_block_source(rng: &mut Rng) -> String {
    const PRE: &[&str] = &["", "", "- ", "  ", "\t", " \t", "  \t", "   \t", "> ", ">\t", "1. ", "   ", "-\t", "- \t", " - ", "> - ", ">  \t", "10. "];
    const EOL: &[&str] = &["\n", "\n", "\n", "\r\n", "\n\n"];
    let lines = rng.range(1, 6);
    let mut s = String::new();
    for _ in 0..lines {
        for _ in 0..rng.below(3) { s.push_str(*rng.pick(PRE)); }
        s.push_str(&doc::inline_text(rng, 1, 3).replace('\n', " "));
        if rng.chance(1, 4) { s.push_str(*rng.pick(&["  ", "\\", " ", "\t"])); }
        s.push_str(*rng.pick(EOL));
    }
    if rng.chance(1, 3) { s.pop(); }
    s
}

fn collect_roots(n: &Node, acc: &mut Vec<(String, Vec<(usize, usize)>)>) {
    if let Some(r) = n.cast::<InlineRoot>() { acc.push((r.content.clone(), r.mapping.clone())); }
    for c in n.children.iter() { collect_roots(c, acc); }
}

/// run the block parser (inline rule removed): InlineRoot contents + mappings + the reference map of the document
fn roots_of(md_blocks: &MarkdownIt, src: &str) -> (Vec<(String, Vec<(usize, usize)>)>, Option<Refs>) {
    let tree = match guarded(|| md_blocks.parse(src)) { Ok(t) => t, Err(_) => return (vec![], None) };
    let mut roots = vec![];
    collect_roots(&tree, &mut roots);
    let refs = tree.cast::<Root>().and_then(|r| r.env.get::<ReferenceMap>()).map(|m| {
        m.iter().map(|(k, e)| (k.label.clone(), e.destination.clone(), e.title.clone())).collect::<Vec<_>>()
    });
    (roots, refs)
}

fn boundaries(s: &str) -> Vec<usize> { (0..=s.len()).filter(|i| s.is_char_boundary(*i)).collect() }

// ---------------------------------------------------------------------------------------------
// COPY of the html fragment generator of `corr/html.rs` (`HTML_BLOCKS`, `ws` … `fragment`), unchanged

const HTML_BLOCKS: [&str; 62] = [
    "address", "article", "aside", "base", "basefont", "blockquote", "body", "caption", "center", "col", "colgroup", "dd",
    "details", "dialog", "dir", "div", "dl", "dt", "fieldset", "figcaption", "figure", "footer", "form", "frame", "frameset",
    "h1", "h2", "h3", "h4", "h5", "h6", "head", "header", "hr", "html", "iframe", "legend", "li", "link", "main", "menu",
    "menuitem", "nav", "noframes", "ol", "optgroup", "option", "p", "param", "section", "source", "summary", "table", "tbody",
    "td", "tfoot", "th", "thead", "title", "tr", "track", "ul",
];

const WS: &[&str] = &[" ", " ", " ", " ", "  ", "\t", "\n", "\u{a0}", "\u{2028}", "\u{3000}", "\u{85}", "\u{c}", "\u{b}", "\r",
    "\u{2003}", "\u{1680}", "\u{202f}", "\u{205f}", "\u{2029}", "\u{200a}",
    // not white space
    "\u{200b}", "\u{feff}", "\u{180e}", "\u{1f}", "\u{1c}", "\u{0}", "\u{2060}"];

const TAG_NAMES: &[&str] = &["a", "a", "a", "A", "b", "em", "span", "x-y", "a1", "h-", "img", "input", "br", "q", "Z9-", "a-b-c", "abbr",
    "é", "1a", "-a", "a_b", "a.b", "a:b", "ſ", "\u{212a}"];

const RAW_NAMES: &[&str] = &["script", "pre", "style", "textarea"];

fn ws(rng: &mut Rng) -> &'static str { *rng.pick(WS) }

fn plain_ws(rng: &mut Rng) -> &'static str { *rng.pick(&[" ", " ", " ", "  ", "\t", " \t "]) }

/// random case + the two case-folding traps
fn fold_case(rng: &mut Rng, name: &str) -> String {
    let mode = rng.below(6);
    name.chars().map(|c| {
        if mode == 0 { return c; }
        if mode == 1 { return c.to_ascii_uppercase(); }
        if c == 's' && rng.chance(1, 4) { return '\u{17f}'; }
        if c == 'k' && rng.chance(1, 3) { return '\u{212a}'; }
        if mode == 5 && rng.chance(1, 12) { return *rng.pick(&['\u{131}', '\u{130}', 'ß', '\u{1e9e}', 'é', '0', '\u{fb06}', '\u{ff53}', '\u{1c88}']); }
        if rng.chance(1, 2) { c.to_ascii_uppercase() } else { c }
    }).collect()
}

fn tag_name(rng: &mut Rng) -> String {
    match rng.below(10) {
        0 | 1 => { let n = *rng.pick(&HTML_BLOCKS); fold_case(rng, n) }
        2 => { let n = *rng.pick(RAW_NAMES); fold_case(rng, n) }
        3 => format!("{}{}", *rng.pick(&HTML_BLOCKS), *rng.pick(&["x", "1", "-", "s", "font"])),
        _ => (*rng.pick(TAG_NAMES)).to_string(),
    }
}

fn attr_name(rng: &mut Rng) -> &'static str {
    *rng.pick(&["href", "b", "c", "_x", ":y", "a.b", "a:b-c", "data-x", "X1", "x_", "é", "1a", "-a", ".a", "a\u{a0}", "a/b", ""])
}

fn attr_value(rng: &mut Rng) -> String {
    match rng.below(14) {
        0 | 1 => (*rng.pick(&["c", "c/", "/", "1", "a&b", "é", "x.y", "a-b", "/u/v", "#", "a\\", "a(b)", "[x]", "{y}", "a|b", "~", "😀"])).to_string(),
        2 => (*rng.pick(&["x\u{a0}y", "\u{a0}", "a\u{2028}b", "x\u{3000}", "\u{85}z", "p\u{a0}q\u{a0}r", "x\u{a0}y=z", "x\u{2003}y='>'", "\u{a0}\u{a0}", "a\u{a0}/"])).to_string(),
        3 => (*rng.pick(&["x`", "a=b", "a<b", "a\"b", "a'b", "a b", "", "a\tb", "\u{1f}", "a\u{0}"])).to_string(),
        4 | 5 | 6 => format!("'{}'", *rng.pick(&["x", "", "a b>c", "\"", "a\nb", "é", " ", "<b>", "a=b", "/>", "\u{a0}"])),
        7 | 8 | 9 => format!("\"{}\"", *rng.pick(&["x", "", "a b>c", "'", "a\nb", "é", " ", "<b>", "a=b", "/>", "\u{a0}"])),
        10 => (*rng.pick(&["'unterminated", "\"unterminated", "'a\"", "\"a'", "'", "\""])).to_string(),
        _ => format!("{}{}", *rng.pick(&["c", "x", "1"]), *rng.pick(&["", "/", "//"])),
    }
}

fn attribute(rng: &mut Rng) -> String {
    let mut s = String::new();
    let k = *rng.pick(&[1usize, 1, 1, 1, 2, 0]);
    for _ in 0..k { s.push_str(if rng.chance(1, 4) { ws(rng) } else { plain_ws(rng) }); }
    s.push_str(attr_name(rng));
    if rng.chance(2, 3) {
        if rng.chance(1, 4) { s.push_str(ws(rng)); }
        s.push('=');
        if rng.chance(1, 4) { s.push_str(ws(rng)); if rng.chance(1, 3) { s.push_str(ws(rng)); } }
        s.push_str(&attr_value(rng));
    }
    s
}

fn open_tag(rng: &mut Rng) -> String {
    let mut s = format!("<{}", tag_name(rng));
    for _ in 0..*rng.pick(&[0usize, 0, 1, 1, 1, 2, 2, 3, 5]) { s.push_str(&attribute(rng)); }
    if rng.chance(1, 3) { s.push_str(ws(rng)); }
    s.push_str(*rng.pick(&[">", ">", ">", ">", "/>", "/>", "", "//>", "/ >", "/"]));
    s
}

fn close_tag(rng: &mut Rng) -> String {
    format!("<{}{}{}{}", *rng.pick(&["/", "/", "/", "/", "/ ", "//"]), tag_name(rng),
        *rng.pick(&["", "", "", " ", "  ", "\t", "\n", "\u{a0}", "\u{2028}", " b", "/", " /", "\u{200b}"]), *rng.pick(&[">", ">", ">", ""]))
}

fn comment(rng: &mut Rng) -> String {
    if rng.chance(1, 3) {
        return (*rng.pick(&["<!---->", "<!-->", "<!--->", "<!--a--b-->", "<!----->", "<!------>", "<!-- -->", "<!--a-->", "<!--a--->", "<!---a-->",
            "<!--->-->", "<!-->-->", "<!--a>b-->", "<!---->-->", "<!--a-", "<!--a--", "<!--", "<!-", "<!--é-->", "<!--a\nb-->", "<!--a- -b-->", "<!-- a -- b -->",
            "<!--a->-->", "<!--a-b-c-->", "<!---\n-->", "<!---- -->", "<!--x-->y-->"])).to_string();
    }
    let mut s = String::from("<!--");
    for _ in 0..rng.range(0, 5) { s.push_str(*rng.pick(&["a", "-", "--", "->", ">", "b c", "\n", "é", "-a", "a-", " ", "<", "!", "\u{a0}"])); }
    s.push_str(*rng.pick(&["-->", "-->", "-->", "--", "->", "", "--->"]));
    s
}

fn processing(rng: &mut Rng) -> String {
    if rng.chance(1, 3) {
        return (*rng.pick(&["<??>", "<?>", "<?>?>", "<? ?>", "<?php echo '>' ?>", "<?a?b?>", "<?a\nb?>", "<?", "<?a", "<?a?", "<?é?>", "<??", "<???>", "<?x? >?>"])).to_string();
    }
    let mut s = String::from("<?");
    for _ in 0..rng.range(0, 4) { s.push_str(*rng.pick(&["a", "?", ">", "php ", "\n", "é", " ", "<", "?>"])); }
    s.push_str(*rng.pick(&["?>", "?>", "?", ">", ""]));
    s
}

fn declaration(rng: &mut Rng) -> String {
    if rng.chance(1, 3) {
        return (*rng.pick(&["<!DOCTYPE html>", "<!DOCTYPE>", "<!D >", "<!D\u{a0}>", "<!doctype html>", "<!Doctype x>", "<!D1 x>", "<!É x>", "<!X\n\ny>", "<!X y",
            "<!X  a<b >", "<!ELEMENT br EMPTY>", "<!A\t>", "<! A b>", "<!A-B c>", "<!ſ x>", "<!\u{212a} x>", "<!A\u{2028}b>>"])).to_string();
    }
    format!("<!{}{}{}{}", *rng.pick(&["DOCTYPE", "X", "AB", "doctype", "Ab", "A1", ""]), ws(rng), *rng.pick(&["", "html", "a b", "é", "<", "\n", "'>'"]), *rng.pick(&[">", ">", ""]))
}

fn cdata(rng: &mut Rng) -> String {
    if rng.chance(1, 3) {
        return (*rng.pick(&["<![CDATA[]]>", "<![CDATA[x]]>", "<![CDATA[]]]>", "<![CDATA[]]]]>", "<![CDATA[]>]]>", "<![CDATA[ ]] >]]>", "<![cdata[x]]>", "<![CDATA [x]]>",
            "<![CDATA[x]]", "<![CDATA[", "<![CDATA", "<![CDATA[a\nb]]>", "<![CDATA[é]]>x]]>", "<![CDATA[<b>]]>"])).to_string();
    }
    let mut s = String::from("<![CDATA[");
    for _ in 0..rng.range(0, 4) { s.push_str(*rng.pick(&["a", "]", "]]", ">", "]>", "\n", "é", " ", "<"])); }
    s.push_str(*rng.pick(&["]]>", "]]>", "]]", "]>", ""]));
    s
}

const ALPHABET: &[&str] = &["<", ">", "!", "?", "/", "-", "=", "\"", "'", " ", "\t", "\n", "a", "b", "A", "[", "]", "`", "\u{a0}", "\u{2028}", "é", "😀", "ſ", "\u{212a}", "C", "D", "T", "s", "k", "\r", "\u{0}"];

fn mutate(rng: &mut Rng, s: &str) -> String {
    let cs: Vec<char> = s.chars().collect();
    if cs.is_empty() { return s.to_string(); }
    let mut out = String::new();
    let at = rng.below(cs.len());
    let op = rng.below(4);
    for (i, c) in cs.iter().enumerate() {
        if i == at {
            match op {
                0 => continue,
                1 => { out.push_str(*rng.pick(ALPHABET)); out.push(*c); continue; }
                2 => { out.push_str(*rng.pick(ALPHABET)); continue; }
                _ => { return out; }
            }
        }
        out.push(*c);
    }
    out
}

fn random_string(rng: &mut Rng) -> String {
    let mut s = String::from(if rng.chance(4, 5) { "<" } else { "" });
    for _ in 0..rng.range(0, 10) { s.push_str(*rng.pick(ALPHABET)); }
    s
}

fn fragment(rng: &mut Rng, out: &mut Out) -> String {
    let f = match rng.below(20) {
        0..=6 => { out.stats.count("gen:open-tag"); open_tag(rng) }
        7 | 8 => { out.stats.count("gen:close-tag"); close_tag(rng) }
        9 | 10 | 11 => { out.stats.count("gen:comment"); comment(rng) }
        12 | 13 => { out.stats.count("gen:processing"); processing(rng) }
        14 | 15 => { out.stats.count("gen:declaration"); declaration(rng) }
        16 | 17 => { out.stats.count("gen:cdata"); cdata(rng) }
        18 => { out.stats.count("gen:link-forms"); (*rng.pick(&["<a>", "<a href>", "</a >", "<A>", "</a>", "<a\n>", "<a\u{a0}>", "<a/>", "<ab>", "</ab>", "</A>", "</a\u{2028}>", "<a\tb>", "</a\n\n>", "<a x='</a>'>"])).to_string() }
        _ => { out.stats.count("gen:random"); random_string(rng) }
    };
    if rng.chance(1, 5) { out.stats.count("gen:mutated"); mutate(rng, &f) } else { f }
}

// ---------------------------------------------------------------------------------------------
// html contents (new)

/// words and fragments side by side
fn html_mix(rng: &mut Rng, out: &mut Out) -> String {
    let n = rng.range(1, 6);
    let mut s = String::new();
    for _ in 0..n {
        match rng.below(7) {
            0 | 1 | 2 => s.push_str(&fragment(rng, out)),
            3 => s.push_str(*rng.pick(WORDS)),
            4 => s.push_str(*rng.pick(&["*", "**", "_", "`", "[", "]", "](u)", "![", "\\", "&amp;", "\n", "  \n", "<", ">", "<http://x.y>", "<a@b.c>", "~~"])),
            5 => s.push_str(*rng.pick(&["<a>", "</a>", "<a href=\"u\">", "<b>", "</b>", "<i x='y'>", "<br/>", "<!-- c -->", "<?p?>", "<!D x>", "<![CDATA[x]]>"])),
            _ => s.push_str(&doc::inline_text(rng, 0, 2)),
        }
    }
    s
}

/// fragments inside link labels, image descriptions, emphasis, code spans; next to autolinks; unterminated; `<a>`…`</a>`;
/// at the end of the window
fn html_context(rng: &mut Rng, out: &mut Out) -> String {
    let f = fragment(rng, out);
    let g = fragment(rng, out);
    let close = *rng.pick(&["](u)", "](u)", "](<u v> \"t\")", "]", "][ref]", "][]", "](", "](u", "] (u)", "](u 't')"]);
    match rng.below(28) {
        0 => format!("[a {} d]{}", f, close),
        1 => (*rng.pick(&["[a <b c=\"]\"> d](u)", "[a <b c=']'> d](u)", "[a <b c=]> d](u)", "[a <b ]> d](u)", "[a <!--]--> d](u)", "[a <?]?> d](u)", "[a <![CDATA[]]]> d](u)", "[a <![CDATA[x]]> d](u)",
            "[a <!X ]> d](u)", "[a <b c=\"](v)\"> d](u)", "[a <b c=\"[\"> d](u)", "[a </b ]> d](u)", "[a <b\n]> d](u)", "[<b c=\"]\">](u)", "[<b c=\"]\"](u)", "[a <b c=\"]\"> d]", "[a <b c=\"]\"> d][ref]"])).to_string(),
        2 => format!("![x {} y]{}", f, *rng.pick(&["(i)", "(i \"t\")", "", "[ref]"])),
        3 => (*rng.pick(&["![a <b c=\"]\"> d](i)", "![<b>](i)", "![a <b](i) c>", "![<!--]-->](i)", "![x <a> y](i)</a>", "![[<b c=\"]\">](v)](i)"])).to_string(),
        4 => format!("{}a {} b{}", *rng.pick(&["*", "**", "_", "__", "~~", "***"]), f, *rng.pick(&["*", "**", "_", "__", "~~", "***"])),
        5 => (*rng.pick(&["*a <b c=\"*\"> d*", "*a <b* c>", "<b *c*>", "<b c=\"*x*\">", "**<b>**", "_<b>_", "*<b>*x", "a*<b>*", "<b>*x*</b>", "*a <!--*--> b*", "~~<s>~~", "<b c=_x_ d=_y_>"])).to_string(),
        6 => format!("`{}`", f),
        7 => (*rng.pick(&["`a <b` c>", "<b c=\"`\"> `x`", "<b `c`>", "`<b>`", "``<b c=\"`\">``", "<b c=\"`\"> d`", "`a <b c=\"`\">", "<!--`--> `", "` <b> `` <c> `", "<b c='``'> `` x ``"])).to_string(),
        8 => (*rng.pick(&["<http://x>", "<http>", "<http://x> <http>", "<http> <http://x>", "<a@b.c>", "<a@b>", "<a b@c.d>", "<http://x y>", "<http:>", "<h:x>", "<hh:x>", "<http://x><b>", "<b><http://x>",
            "<http://a<b>", "<a href=\"<http://x>\">", "<http://x/<b>>", "<mailto:a@b.c>", "<a.b>", "<a.b@c.d>", "<a:b>", "<ab:c d>", "<ab:c>", "<A1+.-:x>", "<http://]>", "[<http://]>](u)", "[<http ]>](u)"])).to_string(),
        9 => format!("{}{}{}", autolinks(rng), *rng.pick(&["", " ", "x"]), f),
        10 => format!("{}{}{}", f, *rng.pick(&["", " ", "x"]), autolinks(rng)),
        11 => (*rng.pick(&["<a href=\"x", "<!--", "a <b", "<b c='", "<b c=\"x\" ", "<?", "<![CDATA[", "<!X", "</b", "<", "a<", "<b\n", "<b c", "<b c=", "a <b c=\"]\"", "[a <b c=\"](u)", "[a <!--](u)", "![a <b](u)", "*<b*", "`<b`"])).to_string(),
        12 => { let n = rng.range(1, 6); let mut s = String::new(); for _ in 0..n { s.push_str(*rng.pick(&["<a>", "</a>", "<a href='x'>", "</a >", "<a\n>", "<A>", "</A>", "<ab>", "x", " ", "<a/>", "</a\n>"])); } s }
        13 => (*rng.pick(&["<a><a><a>", "</a></a></a>", "<a>x</a>", "[<a>](u)", "[</a>](u)", "[<a>](u)</a>", "<a>[x](u)</a>", "[a<a>b</a>c](u)", "[<a>[<a>](u)](v)", "![<a>](i)", "![</a></a>](i)",
            "[x <a> [y </a> z](u) w](v)", "*<a>*</a>", "`<a>`</a>", "<a>`</a>`", "[<a><a>]", "[<a>]</a>", "<a\u{a0}>", "<a>\\</a>", "<a>&amp;</a>"])).to_string(),
        14 => format!("[{}]{}", html_mix(rng, out), close),
        15 => format!("[a [{}](v) c]{}", f, close),
        16 => format!("![a [{}](v) ![{}](w)]{}", f, g, *rng.pick(&["(i)", "", "[ref]"])),
        17 => format!("[{} [x]{} y]{}", f, *rng.pick(&["", "(v)", "[ref]"]), close),
        18 => (*rng.pick(&["[x <b](u) c>", "[x <b](u) c>](v)", "[x <!--](u)-->", "[x <!--](u)-->](v)", "![x <b](i) c>", "[x <b c=\"](u)\">", "[x <b c=\"](u)\">](v)", "*x <b* c>", "*x <b* c>*",
            "[a](<b>)", "[a](u \"<b>\")", "[a](<b c=\"x\">)", "[a]<b>(u)", "[a][<b>]", "[<b>][]", "[<b>]", "[a]<b>", "[ref<b>]", "[x <b\n](u) c>"])).to_string(),
        19 => format!("{}\\{}", *rng.pick(&["", "a", "\\"]), f),
        20 => format!("{}&lt;{}&gt;", f, g),
        21 => format!("{}\n{}", f, g),
        22 => format!("a  \n{}\\\n{}", f, g),
        23 => { let inner = nested_brackets(rng); format!("{}{}{}", f, inner, g) }
        24 => { let inner = code_brackets(rng); format!("{}{}{}", inner, f, *rng.pick(&["`", "``", "", "]"])) }
        25 => (*rng.pick(&["[l <i>](u)", "a <b c=\"]\">x</b> [l <i>](u)", "[x <http://y> <z w>](u)", "[x <http://y]> <z w>](u)", "[x <z w]>](u)", "[x <z \"]\">](u)", "[x <z=']'>](u)"])).to_string(),
        26 => format!("{} {}", html_mix(rng, out), emph_stress(rng)),
        _ => format!("{}{}", f, g),
    }
}

fn marker_of(name: &str) -> Option<char> {
    match name { "newline" => Some('\n'), "escape" => Some('\\'), "backticks" => Some('`'), "link" => Some('['), "image" => Some('!'), "autolink" | "html" => Some('<'), "entity" => Some('&'), "linkEnd" => Some(']'), "emph:2a:1" | "emph:2a:0" => Some('*'), "emph:5f:0" | "emph:5f:1" => Some('_'), "emph:7e:1" => Some('~'), _ => None }
}

fn count_html(out: &mut Out, conf: &Conf, c: &str) {
    if conf.chain.iter().any(|r| r == "html") {
        out.stats.count("conf:html-in-chain");
        if !conf.chain.iter().any(|r| r == "autolink") { out.stats.count("conf:html-without-autolink"); }
    } else { out.stats.count("conf:no-html"); }
    if c.contains('<') { out.stats.count("content:has-lt"); }
}

pub fn run(n: usize, rng: &mut Rng, out: &mut Out) {
    // pool of configurations
    let mut confs: Vec<Conf> = vec![build_conf(&STDH, 100), build_conf(&STDH[..9], 100)];
    for _ in 0..40 {
        let plugs = random_plugs(rng);
        let mx = if rng.chance(1, 3) { *rng.pick(&[0u32, 1, 2, 3, 4, 5]) } else { 100 };
        confs.push(build_conf(&plugs, mx));
    }
    for mx in 0..=5u32 { confs.push(build_conf(&STDH, mx)); }
    // html alone; html + text-free; html before / behind autolink; html without autolink
    confs.push(build_conf(&[Plug::Html], 100));
    confs.push(build_conf(&[Plug::Html, Plug::Autolink], 100));
    confs.push(build_conf(&[Plug::Autolink, Plug::Html], 100));
    confs.push(build_conf(&[Plug::Html, Plug::Link, Plug::Image, Plug::Backticks], 100));
    confs.push(build_conf(&[Plug::Link, Plug::Image, Plug::Backticks, Plug::Emphasis, Plug::Html], 3));
    confs.push(build_conf(&STD, 100));
    for c in confs.iter() { if c.chain.iter().any(|r| r.starts_with('?')) { out.stats.count("UNKNOWN-RULE-IN-CHAIN"); } }
    let small: Vec<usize> = (0..confs.len()).filter(|i| confs[*i].md.max_nesting < 10).collect();

    let mut md_blocks = MarkdownIt::new();
    cmark::add(&mut md_blocks);
    md_blocks.remove_rule::<InlineParserRule>();

    // the inline parts of all spec examples, once each with the standard configuration
    let mut spec_roots: Vec<(String, Vec<(usize, usize)>, Option<Refs>)> = vec![];
    for s in doc::SPEC.iter() {
        let (roots, refs) = roots_of(&md_blocks, s);
        for (c, m) in roots { spec_roots.push((c, m, refs.clone())); }
    }
    let mut spec_i = 0;

    for i in 0..n {
        let ci = if rng.chance(1, 2) { rng.below(2) } else { rng.below(confs.len()) };
        let conf = &confs[ci];
        match i % 20 {
            0 => {
                let c = doc::inline_text(rng, 0, 6);
                count_html(out, conf, &c);
                emit_parse(out, conf, &c, &[(0, 0)], &random_refs(rng), "parse:gen-inline-text");
            }
            1 => if rng.chance(1, 2) {
                let d = rng.range(2, 6);
                let f = crate::oracle::c02::emph_forest(rng, d);
                let h = fragment(rng, out);
                let c = match rng.below(5) { 0 => format!("[{}](u)", f), 1 => format!("![{}](u) {}", f, crate::oracle::c02::emph_forest(rng, 2)), 2 => format!("{}{}", h, f), 3 => format!("[{} {}](u)", f, h), _ => f };
                let small: Vec<&Conf> = confs.iter().filter(|c| c.md.max_nesting >= 1 && c.md.max_nesting <= 5).collect();
                let conf = if !small.is_empty() && rng.chance(3, 4) { *rng.pick(&small) } else { conf };
                emit_parse(out, conf, &c, &[(0, 0)], &random_refs(rng), "parse:emph-forest");
            } else {
                let c = doc::sig_string(rng, 30);
                count_html(out, conf, &c);
                emit_parse(out, conf, &c, &[(0, 0)], &random_refs(rng), "parse:gen-sig-string");
            }
            2 => {
                if spec_i < spec_roots.len() {
                    let (c, m, r) = spec_roots[spec_i].clone(); spec_i += 1;
                    emit_parse(out, &confs[0], &c, &m, &r, "parse:spec-example");
                    if ci != 0 { emit_parse(out, conf, &c, &m, &r, "parse:spec-example-other-config"); }
                } else {
                    let (c, m, r) = rng.pick(&spec_roots).clone();
                    let c2 = doc::mutate(rng, &c);
                    if c2 == c { emit_parse(out, conf, &c, &m, &r, "parse:spec-example-again"); }
                    else { emit_parse(out, conf, &c2, &[(0, rng.below(5))], &r, "parse:spec-example-mutated"); }
                }
            }
            3 => {
                let c = emph_stress(rng);
                emit_parse(out, conf, &c, &[(0, 0)], &None, "parse:emphasis-stress");
            }
            4 | 5 => {
                let conf = if rng.chance(2, 3) && !small.is_empty() { &confs[*rng.pick(&small)] } else { conf };
                let c = nested_brackets(rng);
                count_html(out, conf, &c);
                emit_parse(out, conf, &c, &[(0, 0)], &random_refs(rng), "parse:nested-brackets");
            }
            6 => {
                let c = code_brackets(rng);
                emit_parse(out, conf, &c, &[(0, 0)], &random_refs(rng), "parse:code-brackets");
            }
            7 => {
                let c = autolinks(rng);
                count_html(out, conf, &c);
                emit_parse(out, conf, &c, &[(0, 0)], &None, "parse:autolinks");
            }
            8 => {
                let c = entities_escapes(rng);
                emit_parse(out, conf, &c, &[(0, 0)], &None, "parse:entities-escapes");
                if rng.chance(1, 6) {
                    // ill-formed tables: the panics must agree as well
                    let c = html_mix(rng, out);
                    let m: Vec<(usize, usize)> = match rng.below(3) { 0 => vec![], 1 => vec![(1, 0)], _ => vec![(0, 5), (2, 0)] };
                    emit_parse(out, conf, &c, &m, &None, "parse:ill-formed-mapping");
                }
            }
            9 => {
                // contents and mappings exactly as the block parser produces them
                let src = match rng.below(6) { 0 | 4 | 5 => gen_block_source(rng), 1 => doc::grammar_doc(rng), 2 => { let s = rng.pick(&doc::SPEC).clone(); doc::wrap_container(rng, &s) } _ => { let s = rng.pick(&doc::SPEC).clone(); doc::mutate(rng, &s) } };
                let (roots, refs) = roots_of(&md_blocks, &src);
                for (c, m) in roots.iter().take(3) { count_html(out, conf, c); emit_parse(out, conf, c, m, &refs, "parse:block-parser-roots"); }
            }
            10 | 11 | 12 => {
                let c = html_mix(rng, out);
                count_html(out, conf, &c);
                // multi-line mappings for multi-line contents
                let mapping: Vec<(usize, usize)> = if rng.chance(1, 4) {
                    let mut m = vec![(0usize, 2usize)]; let mut off = 2usize;
                    for (i, b) in c.bytes().enumerate() { if b == b'\n' { off += rng.below(4); m.push((i + 1, i + 1 + off)); } }
                    m
                } else { vec![(0, 0)] };
                emit_parse(out, conf, &c, &mapping, &random_refs(rng), "parse:html-mix");
            }
            13 | 14 | 15 | 16 => {
                let conf = if rng.chance(1, 4) && !small.is_empty() { &confs[*rng.pick(&small)] } else { conf };
                let c = html_context(rng, out);
                count_html(out, conf, &c);
                emit_parse(out, conf, &c, &[(0, 0)], &random_refs(rng), "parse:html-context");
            }
            17 | 18 => {
                // single rule calls, both modes, on the same state description
                let c = match rng.below(8) { 0 => doc::inline_text(rng, 0, 4), 1 => nested_brackets(rng), 2 => code_brackets(rng), 3 => autolinks(rng), 4 => entities_escapes(rng), 5 | 6 => html_context(rng, out), _ => html_mix(rng, out) };
                if c.is_empty() { continue; }
                let bs = boundaries(&c);
                let refs = random_refs(rng);
                // (rule, position) pairs where the rule's marker stands
                let mut cands: Vec<(String, usize)> = vec![];
                for name in conf.chain.iter() {
                    if let Some(m) = marker_of(name) { for (i, ch) in c.char_indices() { if ch == m { cands.push((name.clone(), i)); } } }
                }
                if conf.chain.is_empty() { continue; }
                for _ in 0..4 {
                    let violate = rng.chance(1, 14);
                    let (name, pos) = if !cands.is_empty() && rng.chance(5, 6) && !violate { rng.pick(&cands).clone() }
                        else { (rng.pick(&conf.chain).clone(), if violate { rng.below(c.len() + 2) } else { bs[rng.below(bs.len() - 1)] }) };
                    let later: Vec<usize> = bs.iter().copied().filter(|b| *b > pos).collect();
                    let pos_max = if violate { rng.below(c.len() + 2) } else if rng.chance(2, 3) || later.is_empty() { c.len() } else { *rng.pick(&later) };
                    if !violate && pos >= pos_max { continue; }
                    let level = if rng.chance(1, 4) { rng.below(4) as u32 } else { 0 };
                    let pre = if name == "newline" && !violate && rng.chance(2, 3) { let earlier: Vec<usize> = bs.iter().copied().filter(|b| *b <= pos).collect(); Some(*rng.pick(&earlier)) } else { None };
                    let mapping = if rng.chance(1, 12) { vec![] } else if rng.chance(1, 12) { vec![(1, 0)] } else { vec![(0, rng.below(4))] };
                    // the ends of `i32` only for the html rule: `full_link::rule` has its own `link_level += 1`, which the (frozen)
                    // model of the link rule computes in unbounded integers (it cannot overflow in html-free configurations)
                    let link_level = if name == "html" { *rng.pick(&[0i32, 0, 0, 0, 1, -1, 7, i32::MAX, i32::MIN, i32::MAX - 1, i32::MIN + 1]) } else { *rng.pick(&[0i32, 0, 0, 1, -1, 7, -2147483647, 2147483000]) };
                    if name == "html" && (link_level == i32::MAX || link_level == i32::MIN) { out.stats.count("rule:html:link-level-at-i32-end"); }
                    emit_rule(out, conf, &name, true, &c, pos, pos_max, &mapping, &refs, level, pre, link_level);
                    emit_rule(out, conf, &name, false, &c, pos, pos_max, &mapping, &refs, level, pre, link_level);
                }
            }
            _ => {
                let c = match rng.below(5) { 0 => nested_brackets(rng), 1 => code_brackets(rng), 2 => doc::inline_text(rng, 0, 4), 3 => html_mix(rng, out), _ => html_context(rng, out) };
                if c.is_empty() { continue; }
                let bs = boundaries(&c);
                let conf = if rng.chance(1, 2) && !small.is_empty() { &confs[*rng.pick(&small)] } else { conf };
                let lts: Vec<usize> = c.char_indices().filter(|(_, ch)| *ch == '<' || *ch == '[').map(|(i, _)| i).collect();
                for _ in 0..3 {
                    let pos = if !lts.is_empty() && rng.chance(1, 2) { *rng.pick(&lts) } else { bs[rng.below(bs.len() - 1)] };
                    let level = if rng.chance(1, 2) { rng.below(7) as u32 } else { 0 };
                    let later: Vec<usize> = bs.iter().copied().filter(|b| *b > pos).collect();
                    let pos_max = if rng.chance(3, 4) || later.is_empty() { c.len() } else { *rng.pick(&later) };
                    emit_skip(out, conf, &c, pos, pos_max, &[(0, 0)], &random_refs(rng), level);
                }
            }
        }
    }
}
