//! stream `block`: the complete block-level parser for html-free chains (any subset / order of the
//! nine cmark block rules), no inline pass (the `InlineRoot` placeholders survive), whole-document
//! trees with ranges + the reference map, and single rules at one line of a fresh state in both
//! modes.  Request / answer grammar: see `Driver/Block.lean`.
use super::Out;
use crate::gen::doc::{any_doc, grammar_doc, mutate, wrap_container, SPEC};
use crate::rng::Rng;
use crate::util::{guarded, hexs};
use markdown_it::common::ErasedSet;
use markdown_it::parser::block::{BlockRule, BlockState};
use markdown_it::parser::core::Root;
use markdown_it::parser::inline::builtin::InlineParserRule;
use markdown_it::parser::inline::InlineRoot;
use markdown_it::plugins::cmark::block::blockquote::{self, Blockquote, BlockquoteScanner};
use markdown_it::plugins::cmark::block::code::{self, CodeBlock, CodeScanner};
use markdown_it::plugins::cmark::block::fence::{self, CodeFence, FenceScanner};
use markdown_it::plugins::cmark::block::heading::{self, ATXHeading, HeadingScanner};
use markdown_it::plugins::cmark::block::hr::{self, HrScanner, ThematicBreak};
use markdown_it::plugins::cmark::block::lheading::{self, LHeadingScanner, SetextHeader};
use markdown_it::plugins::cmark::block::list::{self, BulletList, ListItem, ListScanner, OrderedList};
use markdown_it::plugins::cmark::block::paragraph::{self, Paragraph, ParagraphScanner};
use markdown_it::plugins::cmark::block::reference::{self, ReferenceMap, ReferenceScanner};
use markdown_it::{MarkdownIt, Node};

pub const RULES: [&str; 9] = ["code", "fence", "blockquote", "hr", "list", "reference", "heading", "lheading", "paragraph"];

fn add_plugin(md: &mut MarkdownIt, name: &str) {
    match name {
        "code" => code::add(md),
        "fence" => fence::add(md),
        "blockquote" => blockquote::add(md),
        "hr" => hr::add(md),
        "list" => list::add(md),
        "reference" => reference::add(md),
        "heading" => heading::add(md),
        "lheading" => lheading::add(md),
        "paragraph" => paragraph::add(md),
        _ => unreachable!(),
    }
}

/// the bare scanner, no ordering constraint (any order can be produced this way)
fn add_raw(md: &mut MarkdownIt, name: &str) {
    match name {
        "code" => { md.block.add_rule::<CodeScanner>(); }
        "fence" => { md.block.add_rule::<FenceScanner>(); }
        "blockquote" => { md.block.add_rule::<BlockquoteScanner>(); }
        "hr" => { md.block.add_rule::<HrScanner>(); }
        "list" => { md.block.add_rule::<ListScanner>(); }
        "reference" => { md.block.add_rule::<ReferenceScanner>(); }
        "heading" => { md.block.add_rule::<HeadingScanner>(); }
        "lheading" => { md.block.add_rule::<LHeadingScanner>(); }
        "paragraph" => { md.block.add_rule::<ParagraphScanner>(); }
        _ => unreachable!(),
    }
}

fn name_of_type(ty: &str) -> &'static str {
    for (suffix, name) in [("CodeScanner", "code"), ("FenceScanner", "fence"), ("BlockquoteScanner", "blockquote"),
        ("HrScanner", "hr"), ("ListScanner", "list"), ("ReferenceScanner", "reference"), ("LHeadingScanner", "lheading"),
        ("HeadingScanner", "heading"), ("ParagraphScanner", "paragraph")] {
        if ty.ends_with(suffix) { return name; }
    }
    "?"
}

/// the effective chain, read back from the `Debug` output of the real block parser
fn chain_of(md: &MarkdownIt) -> String {
    let dbg = format!("{:?}", md.block);
    let s = dbg.find("compiled: [").map(|p| p + "compiled: [".len()).unwrap();
    let e = s + dbg[s..].find(']').unwrap();
    let mut names = vec![];
    for part in dbg[s..e].split("), ") {
        let part = part.trim().trim_start_matches('(').trim_end_matches(')');
        if part.is_empty() { continue; }
        names.push(name_of_type(part.splitn(2, ", ").nth(1).unwrap_or("")));
    }
    if names.is_empty() { "-".into() } else { names.join(",") }
}

/// parser with exactly the given block rules, added in the given order (`raw`: bare scanners, so the
/// chain IS that order; otherwise through the plugins' `add`, with their ordering constraints), no inline pass
fn build(order: &[&str], raw: bool, max_nesting: u32) -> MarkdownIt {
    let mut md = MarkdownIt::new();
    md.remove_rule::<InlineParserRule>();
    // `FenceSettings` lives in `md.env` and is only set by `fence::add` (the `rule` requests run the
    // fence scanner also when it is not in the chain)
    fence::add(&mut md);
    md.block.remove_rule::<FenceScanner>();
    if raw {
        for n in order { add_raw(&mut md, n); }
    } else {
        for n in order { add_plugin(&mut md, n); }
    }
    md.max_nesting = max_nesting;
    md
}

fn cp(c: char) -> u32 { c as u32 }

fn dump(node: &Node, out: &mut String) {
    out.push('(');
    if node.is::<Root>() { out.push_str("root"); }
    else if node.is::<Paragraph>() { out.push('p'); }
    else if node.is::<Blockquote>() { out.push_str("bq"); }
    else if node.is::<ListItem>() { out.push_str("li"); }
    else if let Some(x) = node.cast::<BulletList>() { out.push_str(&format!("ul:{}", cp(x.marker))); }
    else if let Some(x) = node.cast::<OrderedList>() { out.push_str(&format!("ol:{}:{}", x.start, cp(x.marker))); }
    else if let Some(x) = node.cast::<CodeBlock>() { out.push_str(&format!("code:{}", hexs(&x.content))); }
    else if let Some(x) = node.cast::<CodeFence>() { out.push_str(&format!("fence:{}:{}:{}:{}", hexs(&x.info), cp(x.marker), x.marker_len, hexs(&x.content))); }
    else if let Some(x) = node.cast::<ThematicBreak>() { out.push_str(&format!("hr:{}:{}", cp(x.marker), x.marker_len)); }
    else if let Some(x) = node.cast::<ATXHeading>() { out.push_str(&format!("h:{}", x.level)); }
    else if let Some(x) = node.cast::<SetextHeader>() { out.push_str(&format!("sh:{}:{}", x.level, cp(x.marker))); }
    else if let Some(x) = node.cast::<InlineRoot>() {
        let m: Vec<String> = x.mapping.iter().map(|(a, b)| format!("{}/{}", a, b)).collect();
        out.push_str(&format!("inl:{}:{}", hexs(&x.content), if m.is_empty() { "-".to_string() } else { m.join(",") }));
    }
    else { out.push_str("?unknown"); }
    out.push(' ');
    match node.srcmap.map(|m| m.get_byte_offsets()) { Some((a, b)) => out.push_str(&format!("{}-{}", a, b)), None => out.push_str("none") }
    for c in node.children.iter() { out.push(' '); dump(c, out); }
    out.push(')');
}

fn dump_refs(env: &ErasedSet) -> String {
    let mut rows: Vec<(String, String)> = vec![];
    if let Some(map) = env.get::<ReferenceMap>() {
        for (k, e) in map.iter() {
            let hk = hexs(&k.label);
            rows.push((hk.clone(), format!("{}={}={}", hk, hexs(&e.destination), match &e.title { Some(t) => hexs(t), None => "none".into() })));
        }
    }
    rows.sort();
    rows.into_iter().map(|r| r.1).collect::<Vec<_>>().join(";")
}

fn panic_class(msg: &str) -> &'static str {
    if msg.contains("didn't increment") { "progress" }
    else if msg.contains("index out of bounds") { "index" }
    else if msg.contains("byte index") || msg.contains("char boundary") || msg.contains("slice index") || msg.contains("out of range for slice") || msg.contains("begin <= end") { "slice" }
    else if msg.contains("attempt to subtract") { "sub" }
    else if msg.contains("assertion failed") { "assert" }
    else if msg.contains("unwrap()") { "unwrap" }
    else { "other" }
}

fn run_rule(name: &str, state: &mut BlockState, silent: bool) -> bool {
    match name {
        "code" => CodeScanner::run(state, silent),
        "fence" => FenceScanner::run(state, silent),
        "blockquote" => BlockquoteScanner::run(state, silent),
        "hr" => HrScanner::run(state, silent),
        "list" => ListScanner::run(state, silent),
        "reference" => ReferenceScanner::run(state, silent),
        "heading" => HeadingScanner::run(state, silent),
        "lheading" => LHeadingScanner::run(state, silent),
        "paragraph" => ParagraphScanner::run(state, silent),
        _ => unreachable!(),
    }
}

// ---------------------------------------------------------------------------------------------
// documents

fn blanks(rng: &mut Rng, tabs: bool) -> String {
    let k = *rng.pick(&[0usize, 0, 0, 1, 1, 2, 3, 4, 5, 8]);
    (0..k).map(|_| if tabs && rng.chance(1, 3) { '\t' } else { ' ' }).collect()
}

fn digits(rng: &mut Rng) -> String {
    match rng.below(8) {
        0 => "1".into(), 1 => "2".into(), 2 => "0".into(), 3 => "10".into(), 4 => "007".into(),
        5 => "123456789".into(), 6 => "1234567890".into(), _ => format!("{}", rng.below(1000)),
    }
}

/// one line of block-significant material (no terminator)
fn atom(rng: &mut Rng) -> String {
    match rng.below(40) {
        0 | 1 => "foo".into(),
        2 => "bar baz".into(),
        3 => String::new(),
        4 => blanks(rng, true),
        5 => format!("{} h{}", "#".repeat(rng.range(1, 7)), *rng.pick(&["", " #", " ##  ", "#", " \\#", "\t#\t"])),
        6 => (*rng.pick(&["#", "##", "#\t", "# ", "#x", "#######", "###### six", "# #", "## a ## b ##", "#\u{a0}a", "# é #"])).to_string(),
        7 => (*rng.pick(&["===", "---", "=", "-", "--  ", "== =", "=\t", "-- -", "___", "***", "* * *", " - - -", "_ _ _ _", "**", "*-*", "- - x", "***\t"])).to_string(),
        8 => format!("{}{}", *rng.pick(&["```", "~~~", "````", "~~~~~", "``", "~~"]), *rng.pick(&["", "rust", " js x", "a&amp;b", "c\\*d", "`", "~", " ~~~", "\té"])),
        9 => (*rng.pick(&["```", "~~~", "````", "~~~  ", "```\t", "~~~~", "``` x"])).to_string(),
        10 | 11 => format!("{}{}{}", *rng.pick(&["-", "*", "+"]), *rng.pick(&[" ", "  ", "   ", "    ", "     ", "\t", " \t", ""]), *rng.pick(&["a", "b", "", "- c", "> q", "# h", "```", "1. n", "    code", "[r]: /x"])),
        12 | 13 => format!("{}{}{}{}", digits(rng), *rng.pick(&[".", ")", ":"]), *rng.pick(&[" ", "  ", "    ", "     ", "\t", ""]), *rng.pick(&["a", "b", "", "- c", "> q", "2. n"])),
        14 => (*rng.pick(&["-", "*", "+", "1.", "2)", "-\t", "- ", "1. ", "-  ", "-   \t"])).to_string(),
        15 | 16 => format!("{}{}{}", *rng.pick(&[">", "> ", ">  ", ">\t", ">>", "> >", ">     "]), *rng.pick(&["", "a", "- l", "# h", "```", "    c", "> n", "1. o", "---", "[r]: /y"]), ""),
        17 => ">".into(),
        18 => format!("[{}]: {}{}", *rng.pick(&["ref", "REF", "Foo", "r  2", "ẞ", "a\\]b", " ", "x[y", "é"]), *rng.pick(&["/url", "<u v>", "javascript:x", "/a(b)c", "", "<>", "/f&ouml;\\*", "x%20"]), *rng.pick(&["", " \"t\"", " 't'", " (t)", " \"t\" x", "  'a &amp; \\' b'", " \"unclosed", "\t\"tab\""])),
        19 => (*rng.pick(&["[ref]:", "[ref]", "[ref]: ", "[a]:\t/b", "[multi", "line]: /x", "[t]: /u \"multi", "title\"", "title\" trailing", "  /dest", "  'title'", "[a]: /u 'x", "", "y'", "[\\", "[a\\", "[a]:</u>\"t\"", "[a]: <u>\"t\"", "[a]: /u\"t\""])).to_string(),
        20 => format!("    {}", *rng.pick(&["code", "- x", "> q", "", "\tdeep", "```"])),
        21 => format!("\t{}", *rng.pick(&["tab", "- x", "", "\t2", " x"])),
        22 => format!("{}{}", *rng.pick(&[" ", "  ", "   "]), *rng.pick(&["x", "- i", "> q", "# h", "***", "```", "1. o", "===", "[r]: /z"])),
        23 => (*rng.pick(&["é", "日本", "😀 x", "\u{a0}", "\u{a0}- a", "a\u{2003}", "\u{b}x", "\u{c}", "a\\", "\\"])).to_string(),
        24 => format!("{}. x", "1".repeat(rng.range(1, 11))),
        25 => (*rng.pick(&["1. a", "2. b", "1) c", "3) d", "- e", "* f", "+ g", "0. z"])).to_string(),
        26 => (*rng.pick(&["  b", "   b", "    b", "     b", "      b", " b", "\tb", " \tb", "  \tb"])).to_string(),
        27 => (*rng.pick(&["> ```", "> - a", ">   b", "- > q", "- ```", "  ```", "1. > x", "   > y", "- - - a", "- * b", "> 1. a", ">    b"])).to_string(),
        28 => crate::gen::doc::sig_string(rng, 8).replace('\n', " ").replace('\0', "0"),
        29 => format!("{}{}", blanks(rng, true), *rng.pick(&["x", "-", "- a", ">", "> a", "#", "```", "1.", "***", "==="])),
        _ => crate::gen::doc::word(rng),
    }
}

fn terminator(rng: &mut Rng, mode: usize) -> &'static str {
    match mode { 0 => "\n", 1 => "\r\n", 2 => "\r", _ => *rng.pick(&["\n", "\n", "\r\n", "\r"]) }
}

/// lines of atoms, optionally inside container prefixes kept / dropped per line (lazy continuation)
fn block_doc(rng: &mut Rng) -> String {
    let mode = *rng.pick(&[0usize, 0, 0, 0, 1, 2, 3]);
    let n = *rng.pick(&[1usize, 2, 3, 4, 5, 6, 8, 10, 14]);
    // a stack of container prefixes, changing slowly
    let mut stack: Vec<(String, String)> = vec![];
    let mut s = String::new();
    let mut fresh: Vec<bool> = vec![];
    for i in 0..n {
        if i > 0 { s.push_str(terminator(rng, mode)); }
        match rng.below(10) {
            0 | 1 if stack.len() < 4 => {
                let c = match rng.below(6) {
                    0 | 1 => ("> ".to_string(), "> ".to_string()),
                    2 => (">".to_string(), ">".to_string()),
                    3 => ("- ".to_string(), "  ".to_string()),
                    4 => { let d = digits(rng); let m = format!("{}. ", d); let w = " ".repeat(m.len()); (m, w) }
                    _ => ("*   ".to_string(), "    ".to_string()),
                };
                stack.push(c); fresh.push(true);
            }
            2 if !stack.is_empty() => { stack.pop(); fresh.pop(); }
            _ => {}
        }
        let lazy = rng.chance(1, 7);
        for (j, (first, rest)) in stack.iter().enumerate() {
            if lazy && rng.chance(1, 2) { continue; }
            s.push_str(if fresh[j] { first } else { rest });
            fresh[j] = false;
        }
        if rng.chance(1, 6) { let t = rng.chance(1, 2); s.push_str(&blanks(rng, t)); }
        s.push_str(&atom(rng));
        if rng.chance(1, 10) { s.push_str(*rng.pick(&[" ", "  ", "\t"])); }
    }
    for _ in 0..*rng.pick(&[0usize, 1, 1, 2]) { s.push_str(terminator(rng, mode)); }
    s
}

fn special_doc(rng: &mut Rng) -> String {
    match rng.below(16) {
        0 => { let k = rng.range(1, 9); format!("{}a", ">".repeat(k)) }
        1 => { let k = rng.range(1, 7); format!("{}a\n{}b", "> ".repeat(k), "> ".repeat(rng.below(k + 1))) }
        2 => { let k = rng.range(1, 7); format!("{}a", "- ".repeat(k)) }
        3 => { let k = rng.range(1, 5); format!("{}a\n\n{}b", "1. ".repeat(k), "   ".repeat(rng.below(k + 1))) }
        4 => { let k = rng.range(1, 5); let mut s = String::new(); for _ in 0..k { s.push_str("> - "); } s + "a\n> b\nc" }
        5 => "-\n\n  foo\n-\n  bar\n- \n\n\n  baz".into(),
        6 => "- a\n\n- b\n\n\n- c\n- d\n\n  e\n- f".into(),
        7 => format!("{}. a\n{}. b\n{}) c", digits(rng), digits(rng), digits(rng)),
        8 => "[foo]: /url \"title\nspans\nlines\"\n\n[bar]:\n   /u\n  'a\n\nb'\n[foo]: /second\n[FOO]: /third".into(),
        9 => "[a]: /x 'one\ntwo' junk\n[b]: /y \"t\"\n[c]: </z> (p\\)q)\nrest".into(),
        10 => "a\n    lazy code\n> q\nlazy\n    deep lazy\n- i\nlazy2\n      more".into(),
        11 => "```\nunclosed\n> ```\n> inner\nout\n~~~~\n~~~\n~~~~~\n   ```\n    ```\n```".into(),
        12 => " - a\n  - b\n   - c\n    - d\n     - e\n      - f\n".into(),
        13 => "\t- a\n- b\n\t- c\n\n\t\td\n -\te\n\n\t f\n>\tq\n>\t\tcode".into(),
        14 => "foo\n---\nbar\n===\n- x\n---\n> y\n===\n    z\n===\n\n===\n".into(),
        _ => { let k = rng.range(2, 30); (0..k).map(|_| *rng.pick(&["> ", "- ", "1. ", ">", "* ", "   ", "\t"])).collect::<String>() + "x" }
    }
}

fn tabify(rng: &mut Rng, src: &str) -> String {
    let mut out = String::new();
    let mut at_start = true;
    let cs: Vec<char> = src.chars().collect();
    let mut i = 0;
    while i < cs.len() {
        let c = cs[i];
        if c == '\n' { at_start = true; out.push(c); i += 1; continue; }
        if c == ' ' && rng.chance(1, 3) {
            if at_start && i + 3 < cs.len() && cs[i + 1] == ' ' && cs[i + 2] == ' ' && cs[i + 3] == ' ' && rng.chance(1, 2) { out.push('\t'); i += 4; continue; }
            out.push('\t'); i += 1; continue;
        }
        if c != ' ' && c != '>' && c != '-' { at_start = false; }
        out.push(c); i += 1;
    }
    out
}

fn line_endings(rng: &mut Rng, src: &str) -> String {
    match rng.below(3) { 0 => src.replace('\n', "\r\n"), 1 => src.replace('\n', "\r"), _ => { let mut o = String::new(); for c in src.chars() { if c == '\n' { o.push_str(*rng.pick(&["\n", "\r\n", "\r"])); } else { o.push(c); } } o } }
}

fn gen_doc(rng: &mut Rng, i: usize) -> String {
    let base = match i % 12 {
        0 | 1 | 2 | 3 => block_doc(rng),
        4 => grammar_doc(rng),
        5 => any_doc(rng),
        6 => { let s = rng.pick(&SPEC).clone(); mutate(rng, &s) }
        7 => special_doc(rng),
        8 => { let d = if rng.chance(1, 2) { block_doc(rng) } else { rng.pick(&SPEC).clone() }; wrap_container(rng, &d) }
        9 => { let d = block_doc(rng); mutate(rng, &d) }
        10 => { let d = grammar_doc(rng); wrap_container(rng, &d) }
        _ => block_doc(rng),
    };
    match rng.below(10) {
        0 => tabify(rng, &base),
        1 => line_endings(rng, &base),
        2 => { let t = tabify(rng, &base); line_endings(rng, &t) }
        _ => base,
    }
}

// ---------------------------------------------------------------------------------------------
// configurations

struct Conf { md: MarkdownIt, chain: String, max_nesting: u32 }

fn conf(order: &[&str], raw: bool, max_nesting: u32) -> Conf {
    let md = build(order, raw, max_nesting);
    let chain = chain_of(&md);
    Conf { md, chain, max_nesting }
}

fn shuffled(rng: &mut Rng, v: &mut Vec<&'static str>) {
    for i in (1..v.len()).rev() { let j = rng.below(i + 1); v.swap(i, j); }
}

fn random_conf(rng: &mut Rng, out: &mut Out) -> Conf {
    let max_nesting = match rng.below(16) { 0 => 0, 1 => 1, 2 => 2, 3 => 3, 4 => 5, _ => 100 };
    let mut v: Vec<&'static str> = RULES.to_vec();
    match rng.below(10) {
        0..=4 => { out.stats.count("conf:stock"); }
        5 => { let k = rng.below(v.len()); v.remove(k); out.stats.count("conf:omit-one"); }
        6 => { v.retain(|_| rng.chance(2, 3)); out.stats.count("conf:subset"); }
        7 => { shuffled(rng, &mut v); out.stats.count("conf:plugin-order-shuffled"); }
        _ => { v.retain(|_| rng.chance(3, 4)); shuffled(rng, &mut v); out.stats.count("conf:raw-any-order"); return conf(&v, true, max_nesting); }
    }
    conf(&v, false, max_nesting)
}

fn emit_parse(out: &mut Out, c: &Conf, src: &str, tag: &str) {
    let req = format!("block parse {} {} {}", hexs(src), c.max_nesting, c.chain);
    let ans = match guarded(|| {
        let root = c.md.parse(src);
        let mut s = String::new();
        dump(&root, &mut s);
        let refs = dump_refs(&root.cast::<Root>().unwrap().env);
        (s, refs)
    }) {
        Ok((s, refs)) => {
            for (pat, key) in [("(bq ", "tree:blockquote"), ("(ul:", "tree:bullet-list"), ("(ol:", "tree:ordered-list"), ("(code:", "tree:code-block"),
                ("(fence:", "tree:fence"), ("(hr:", "tree:hr"), ("(h:", "tree:atx"), ("(sh:", "tree:setext"), ("(p ", "tree:paragraph"), ("(li ", "tree:list-item")] {
                if s.contains(pat) { out.stats.count(key); }
            }
            if !refs.is_empty() { out.stats.count("tree:references"); }
            if s.contains("(inl:") && !s.contains("(p ") && !c.chain.contains("paragraph") { out.stats.count("tree:fallback-inline-root"); }
            if s.contains("(li (inl:") || s.contains(") (inl:") && s.contains("(li ") { out.stats.count("tree:tight-list"); }
            format!("{}|refs:{}", s, refs)
        }
        Err(e) => { out.stats.count("parse:panic"); format!("PANIC:{}", panic_class(&e)) }
    };
    out.stats.count(tag);
    out.emit(&req, &ans, src.lines().count() > 1);
}

fn rule_once(c: &Conf, src: &str, name: &str, line: usize, silent: bool) -> (Result<(bool, usize, Vec<String>), String>, String) {
    let mut env = ErasedSet::new();
    let r = guarded(|| {
        let mut st = BlockState::new(src, &c.md, &mut env, Node::default());
        st.line = line;
        let v = run_rule(name, &mut st, silent);
        let mut nodes: Vec<String> = vec![];
        for ch in st.node.children.iter() { let mut s = String::new(); dump(ch, &mut s); nodes.push(s); }
        (v, st.line, nodes)
    });
    (r, dump_refs(&env))
}

/// single rules at one line of a fresh state, both modes: every rule that accepts the line in real
/// mode, plus one rule drawn at random
fn emit_rule(out: &mut Out, rng: &mut Rng, c: &Conf, src: &str) {
    let mut env = ErasedSet::new();
    let nlines = { let st = BlockState::new(src, &c.md, &mut env, Node::default()); st.line_max };
    let line = if rng.chance(1, 40) { nlines } else { rng.below(nlines) };
    let extra = *rng.pick(&RULES);
    for name in RULES {
        let accepts = matches!(rule_once(c, src, name, line, false).0, Ok((true, _, _)));
        if !accepts && name != extra { continue; }
        for silent in [true, false] {
            let (r, refs) = rule_once(c, src, name, line, silent);
            let ans = match r {
                Ok((v, l, nodes)) => {
                    if v { out.stats.count(&format!("rule:{}:{}", name, if silent { "silent-true" } else { "real-true" })); }
                    format!("{}:{}:{}|refs:{}", v as u8, l, if nodes.is_empty() { "-".to_string() } else { nodes.join(" ") }, refs)
                }
                Err(e) => { out.stats.count("rule:panic"); format!("PANIC:{}", panic_class(&e)) }
            };
            out.emit(&format!("block rule {} {} {} {} {} {}", name, silent as u8, hexs(src), line, c.max_nesting, c.chain), &ans, true);
        }
    }
}

pub fn run(n: usize, rng: &mut Rng, out: &mut Out) {
    let stock = conf(&RULES, false, 100);
    // every spec input, stock chain
    for s in SPEC.iter() { emit_parse(out, &stock, s, "doc:spec"); }
    let fixed = ["", "\n", "a", "a\n", "\n\n", " ", "\t", ">", "-", "1.", "#", "```", "    ", "[a]: b", "- a\n- b", "> a\nb", "a\n===", "***"];
    for s in fixed { emit_parse(out, &stock, s, "doc:fixed"); }
    for mn in [0u32, 1, 2, 3, 5] {
        let c = conf(&RULES, false, mn);
        for s in ["> > > > > > a", "- - - - - - a", "> - > - a\n> - > - b", "1. > 2. > x\n\ny", "a\n> b\n- c"] { emit_parse(out, &c, s, "doc:small-max-nesting"); }
    }
    for i in 0..n {
        let src = gen_doc(rng, i);
        if src.len() > 1500 { continue; }
        let c = random_conf(rng, out);
        if c.max_nesting < 100 { out.stats.count("conf:small-max-nesting"); }
        if src.contains('\t') { out.stats.count("doc:with-tab"); }
        if src.contains('\r') { out.stats.count("doc:with-cr"); }
        emit_parse(out, &c, &src, "doc:generated");
        if i % 3 == 0 { emit_rule(out, rng, &c, &src); }
    }
}
