//! Running the real parser safely: big-stack worker thread, panic capture, hook access, breadcrumbs.
use crate::cfg::Cfg;
use crate::util::guarded;
use markdown_it::Node;

pub const BIG_STACK: usize = 3 << 30; // virtual only; touched pages are what counts

/// run `f` on a thread with a very large stack (deep recursion is observed by the gauge, not by SIGSEGV)
pub fn big_stack<T: Send + 'static>(f: impl FnOnce() -> T + Send + 'static) -> T {
    std::thread::Builder::new().stack_size(BIG_STACK).spawn(f).unwrap().join().unwrap()
}

pub struct Parsed {
    pub html: String,
    pub xhtml: String,
    pub tree: Node,
}

/// parse + render + xrender under catch_unwind
pub fn parse_render(md: &markdown_it::MarkdownIt, src: &str) -> Result<Parsed, String> {
    guarded(|| {
        let tree = md.parse(src);
        let html = tree.render();
        let xhtml = tree.xrender();
        Parsed { html, xhtml, tree }
    })
}

pub fn parse_cfg(cfg: &Cfg, src: &str) -> Result<Parsed, String> {
    let md = cfg.build();
    parse_render(&md, src)
}

/// breadcrumb: the case being executed, so that a process abort can be attributed to an input
pub fn breadcrumb(tag: &str, text: &str) {
    if let Ok(p) = std::env::var("MDIT_BREADCRUMB") {
        let _ = std::fs::write(p, format!("{}\n{}", tag, text));
    }
}

#[cfg(mdit_verif)]
pub mod hooks {
    pub use markdown_it::verif_hooks::*;
}
