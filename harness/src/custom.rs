//! Contract-conforming custom rules used by the C08 / C16 oracles and streams.
use markdown_it::parser::block::{BlockRule, BlockState};
use markdown_it::parser::core::CoreRule;
use markdown_it::parser::inline::{InlineRule, InlineState};
use markdown_it::{MarkdownIt, Node, NodeValue, Renderer};
use std::cell::RefCell;

#[derive(Debug)]
pub struct AtBlock;
impl NodeValue for AtBlock {
    fn render(&self, node: &Node, fmt: &mut dyn Renderer) { fmt.cr(); fmt.self_close("hr", &node.attrs); fmt.text("@"); fmt.cr(); }
}

thread_local! {
    /// (silent?, line, verdict)
    pub static AT_LOG: RefCell<Vec<(bool, usize, bool)>> = RefCell::new(vec![]);
}

fn at_matches(state: &BlockState) -> bool {
    if state.line_indent(state.line) >= 4 { return false; }
    state.get_line(state.line).trim_end() == "@@@"
}

fn at_run(state: &mut BlockState, silent: bool, style_a: bool) -> bool {
    let line = state.line;
    let ok = at_matches(state);
    // a line an enclosing block quote has already marked as paragraph continuation (negative indent) is decided:
    // the paragraph rule skips it without look-ahead; a claim made on it by an inner container's scan is moot
    let decided = state.line_offsets[line].indent_nonspace < 0;
    AT_LOG.with(|l| l.borrow_mut().push((silent, line, ok && !(silent && decided))));
    if !ok { return false; }
    if !silent {
        let mut node = Node::new(AtBlock);
        node.srcmap = state.get_map(state.line, state.line);
        state.node.children.push(node);
        state.line += 1;
    } else if style_a {
        // documented contract (examples/ferris): in silent mode only advance the line
        state.line += 1;
    }
    true
}

/// style A: advances `state.line` in look-ahead mode (like the shipped Ferris example)
pub struct AtRuleA;
impl BlockRule for AtRuleA { fn run(state: &mut BlockState, silent: bool) -> bool { at_run(state, silent, true) } }
/// style B: leaves `state.line` alone in look-ahead mode
pub struct AtRuleB;
impl BlockRule for AtRuleB { fn run(state: &mut BlockState, silent: bool) -> bool { at_run(state, silent, false) } }

#[derive(Debug)]
pub struct Pair(pub char);
impl NodeValue for Pair {
    fn render(&self, _: &Node, fmt: &mut dyn Renderer) { fmt.open("s", &[]); fmt.text(&self.0.to_string()); fmt.close("s"); }
}

fn pair_run(state: &mut InlineState, silent: bool, m: char) -> Option<usize> {
    let mut chars = state.src[state.pos..state.pos_max].chars();
    if chars.next() != Some(m) { return None; }
    if chars.next() != Some(m) { return None; }
    let len = 2 * m.len_utf8();
    if !silent {
        let mut node = Node::new(Pair(m));
        node.srcmap = state.get_map(state.pos, state.pos + len);
        state.node.children.push(node);
    }
    Some(len)
}

macro_rules! pair_rule {
    ($name:ident, $m:expr) => {
        pub struct $name;
        impl InlineRule for $name {
            const MARKER: char = $m;
            fn run(state: &mut InlineState, silent: bool) -> Option<usize> { pair_run(state, silent, $m) }
        }
    };
}
pair_rule!(PairX, 'x');
pair_rule!(PairParen, '(');
pair_rule!(PairE, 'é');
pair_rule!(PairPlus, '+');

#[derive(Debug)]
pub struct Stamp;
impl NodeValue for Stamp { fn render(&self, _: &Node, fmt: &mut dyn Renderer) { fmt.cr(); fmt.text("[stamp]"); fmt.cr(); } }
pub struct StampRule;
impl CoreRule for StampRule { fn run(root: &mut Node, _: &MarkdownIt) { root.children.push(Node::new(Stamp)); } }
