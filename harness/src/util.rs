//! hex / json helpers, panic capture
use std::collections::HashSet;
use std::panic::{catch_unwind, AssertUnwindSafe};
use std::sync::Mutex;

pub fn hex(bytes: &[u8]) -> String {
    if bytes.is_empty() { return "-".into(); }
    let mut s = String::with_capacity(bytes.len() * 2);
    for b in bytes { s.push_str(&format!("{:02x}", b)); }
    s
}
pub fn hexs(s: &str) -> String { hex(s.as_bytes()) }

pub fn unhex(s: &str) -> Option<Vec<u8>> {
    if s == "-" { return Some(vec![]); }
    let b = s.as_bytes();
    if b.len() % 2 != 0 { return None; }
    let mut v = Vec::new();
    for i in (0..b.len()).step_by(2) {
        v.push(u8::from_str_radix(std::str::from_utf8(&b[i..i + 2]).ok()?, 16).ok()?);
    }
    Some(v)
}

pub fn jstr(s: &str) -> String {
    let mut o = String::from("\"");
    for c in s.chars() {
        match c {
            '"' => o.push_str("\\\""),
            '\\' => o.push_str("\\\\"),
            '\n' => o.push_str("\\n"),
            '\r' => o.push_str("\\r"),
            '\t' => o.push_str("\\t"),
            c if (c as u32) < 0x20 || c == '\u{7f}' => o.push_str(&format!("\\u{:04x}", c as u32)),
            c => o.push(c),
        }
    }
    o.push('"');
    o
}

static LAST_PANIC: Mutex<Option<String>> = Mutex::new(None);

pub fn install_panic_hook() {
    std::panic::set_hook(Box::new(|info| {
        let loc = info.location().map(|l| format!("{}:{}", l.file(), l.line())).unwrap_or_default();
        let msg = if let Some(s) = info.payload().downcast_ref::<&str>() { s.to_string() }
                  else if let Some(s) = info.payload().downcast_ref::<String>() { s.clone() }
                  else { String::new() };
        *LAST_PANIC.lock().unwrap() = Some(format!("{} @ {}", msg, loc));
    }));
}

/// run `f`, mapping a panic to `Err("<message> @ <file>:<line>")`
pub fn guarded<T>(f: impl FnOnce() -> T) -> Result<T, String> {
    match catch_unwind(AssertUnwindSafe(f)) {
        Ok(v) => Ok(v),
        Err(_) => Err(LAST_PANIC.lock().unwrap().take().unwrap_or_else(|| "panic".into())),
    }
}

/// statistics every stream / oracle reports (all measured)
#[derive(Default)]
pub struct Stats {
    pub evaluations: u64,
    pub distinct: HashSet<u64>,
    pub counters: Vec<(String, u64)>,
    pub samples: Vec<String>,
}

impl Stats {
    pub fn count(&mut self, key: &str) { self.add(key, 1); }
    pub fn add(&mut self, key: &str, n: u64) {
        for (k, v) in self.counters.iter_mut() { if k == key { *v += n; return; } }
        self.counters.push((key.to_string(), n));
    }
    /// register a case; `nontrivial` by the caller's stated rule; distinctness by hash of `repr`
    pub fn case(&mut self, repr: &str, nontrivial: bool) {
        self.evaluations += 1;
        if nontrivial {
            let h = fnv(repr.as_bytes());
            if self.distinct.insert(h) && self.samples.len() < 6 && (self.distinct.len() % 97 == 1) {
                self.samples.push(repr.chars().take(300).collect());
            }
        }
    }
    pub fn json(&self) -> String {
        let cs: Vec<String> = self.counters.iter().map(|(k, v)| format!("{}:{}", jstr(k), v)).collect();
        let ss: Vec<String> = self.samples.iter().map(|s| jstr(s)).collect();
        format!("{{\"evaluations\":{},\"distinct_nontrivial\":{},\"counters\":{{{}}},\"samples\":[{}]}}",
            self.evaluations, self.distinct.len(), cs.join(","), ss.join(","))
    }
}

pub fn fnv(b: &[u8]) -> u64 {
    let mut h: u64 = 0xcbf29ce484222325;
    for x in b { h ^= *x as u64; h = h.wrapping_mul(0x100000001b3); }
    h
}
