//! C11: code content is opaque and reproduced verbatim (fenced, indented, span) at nesting depth 0-3.
use super::Report;
use crate::cfg::Cfg;
use crate::dump::kind;
use crate::gen::doc;
use crate::rng::Rng;
use crate::util::hexs;
use markdown_it::Node;
use markdown_it::parser::inline::Text;
use markdown_it::plugins::cmark::block::code::CodeBlock;
use markdown_it::plugins::cmark::block::fence::CodeFence;

fn payload_line(rng: &mut Rng) -> String {
    let mut s = match rng.below(12) {
        0 => "".to_string(),
        1 => "   ".to_string(),
        2 => "\tx\ty".to_string(),
        3 => "``` not a fence ~~~".to_string(),
        4 => "&amp; \\* <b> [a](b) &#35;".to_string(),
        5 => "  leading and trailing  ".to_string(),
        6 => "x\0y".to_string(),
        7 => "> - 1. # ===".to_string(),
        8 => "``".to_string(),
        9 => "~~".to_string(),
        _ => doc::sig_string(rng, 10),
    };
    s = s.replace('\n', " ").replace('\r', " ");
    s
}

fn max_run(s: &str, m: char) -> usize {
    let mut best = 0; let mut cur = 0;
    for c in s.chars() { if c == m { cur += 1; best = best.max(cur); } else { cur = 0; } }
    best
}

fn wrap_ctx(rng: &mut Rng, doc: &str, depth: usize) -> String {
    let mut d = doc.to_string();
    for _ in 0..depth {
        let lines: Vec<&str> = d.split('\n').collect();
        d = if rng.chance(1, 2) {
            lines.iter().map(|l| format!("> {}", l)).collect::<Vec<_>>().join("\n")
        } else {
            lines.iter().enumerate().map(|(i, l)| if i == 0 { format!("- {}", l) } else { format!("  {}", l) }).collect::<Vec<_>>().join("\n")
        };
    }
    d
}

fn find<'a>(n: &'a Node, k: &str) -> Option<&'a Node> {
    if kind(n) == k { return Some(n); }
    for c in n.children.iter() { if let Some(x) = find(c, k) { return Some(x); } }
    None
}

fn find_all<'a>(n: &'a Node, k: &str, out: &mut Vec<&'a Node>) {
    if kind(n) == k { out.push(n); }
    for c in n.children.iter() { find_all(c, k, out); }
}

fn html_unescape(s: &str) -> String {
    s.replace("&lt;", "<").replace("&gt;", ">").replace("&quot;", "\"").replace("&amp;", "&")
}

pub fn run(n: usize, rng: &mut Rng, rep: &mut Report) {
    let md_stock = Cfg::stock().build();
    // the same plugins reached through a HISTORY: a rule with a non-punctuation marker first, one parse, the code rules afterwards
    let md_hist = {
        use markdown_it::plugins::cmark::{block, inline};
        let mut m = markdown_it::MarkdownIt::new();
        m.inline.add_rule::<crate::custom::PairE>();
        block::paragraph::add(&mut m); inline::newline::add(&mut m);
        let _ = crate::util::guarded(|| m.parse("warm éé up `x` *y*\n\n    z").render());
        inline::escape::add(&mut m); inline::backticks::add(&mut m); inline::emphasis::add(&mut m); inline::link::add(&mut m);
        inline::image::add(&mut m); inline::autolink::add(&mut m); inline::entity::add(&mut m);
        block::code::add(&mut m); block::fence::add(&mut m); block::blockquote::add(&mut m); block::hr::add(&mut m); block::list::add(&mut m);
        block::reference::add(&mut m); block::heading::add(&mut m); block::lheading::add(&mut m);
        m
    };
    for case_no in 0..n {
        let md = if case_no % 6 == 5 { &md_hist } else { &md_stock };
        let depth = rng.below(4);
        let which = rng.below(3);
        let (doc, want, what): (String, String, &str) = match which {
            0 => {
                let k = rng.range(0, 4);
                let lines: Vec<String> = (0..k).map(|_| payload_line(rng)).collect();
                let m = if rng.chance(1, 2) { '`' } else { '~' };
                let longest = lines.iter().map(|l| max_run(l, m)).max().unwrap_or(0);
                let fence = m.to_string().repeat(longest.max(2) + 1 + rng.below(2));
                let mut d = fence.clone();
                for l in lines.iter() { d.push('\n'); d.push_str(l); }
                d.push('\n'); d.push_str(&fence);
                let want = if lines.is_empty() { String::new() } else { lines.join("\n") + "\n" };
                (d, want, "fence")
            }
            1 => {
                let k = rng.range(1, 4);
                let mut lines: Vec<String> = (0..k).map(|_| payload_line(rng)).collect();
                let blank = |s: &str| s.chars().all(|c| c == ' ' || c == '\t');
                if blank(&lines[0]) { lines[0] = "first".into(); }
                let last = lines.len() - 1;
                if blank(&lines[last]) { lines[last] = "last\tx".into(); }
                let d = lines.iter().map(|l| format!("    {}", l)).collect::<Vec<_>>().join("\n");
                (d, lines.join("\n") + "\n", "indented")
            }
            _ => {
                let mut t = payload_line(rng);
                if rng.chance(1, 3) { t.push('\n'); t.push_str("word "); t.push_str(&payload_line(rng)); }
                if t.is_empty() { t = "`".into(); }
                // continuation lines must not start a block construct or be blank (paragraph structure wins in CommonMark)
                if t.split('\n').skip(1).any(|l| l.trim().is_empty()) || t.split('\n').any(|l| l.trim().is_empty() && t.contains('\n')) { t = t.replace('\n', " "); }
                let ticks = "`".repeat(max_run(&t, '`') + 1);
                // in context: other backtick runs (of OTHER lengths, so that they cannot pair with ours) and spans around it
                let n = ticks.len();
                // unmatched context runs all have distinct lengths > n, so they can pair with nothing
                let run = |k: usize| "`".repeat(n + k);
                let before = match rng.below(4) { 0 => String::new(), 1 => format!("w {} x ", run(1)), 2 => format!("{}q{} ", run(5), run(5)), _ => format!("[{} y {}z ", run(1), run(3)) };
                let after = match rng.below(3) { 0 => String::new(), 1 => format!(" v {}", run(2)), _ => format!(" {}r{} {}", run(6), run(6), run(4)) };
                // a leading run of 3+ backticks at the start of the line would be a fence: start with a word
                let d = format!("p {before}{ticks} {t} {ticks}{after}");
                (d, t.replace('\n', " "), "span")
            }
        };
        // what stands in front of the code block must not matter: blocks that END right before it (reference definitions with
        // one-line, multi-line and backslash-continued titles, headings, breaks, a paragraph the fence interrupts)
        let doc = if which == 2 || !rng.chance(1, 3) { doc } else {
            let pre = *rng.pick(&["[r]: /u\n", "[r]: /u \"a\\\nb\"\n", "[r]: /u 'a\nb\\\nc'\n", "[r]:\n  /u\n  (t)\n", "[r]: </u>\n[s]: /v \"x\\\\\"\n",
                               "# h\n", "***\n", "h\n===\n", "words\n"]);
            rep.stats.count("preceded_by_block");
            if which == 1 { format!("{}\n{}", pre, doc) } else { format!("{}{}", pre, doc) }
        };
        let full = wrap_ctx(rng, &doc, depth);
        // a first line such as "- -     -" is a thematic break in CommonMark (block structure wins over the list reading)
        let is_hr = |l: &str| { let t: String = l.chars().filter(|c| *c != ' ' && *c != '\t').collect(); t.len() >= 3 && (t.chars().all(|c| c == '-') || t.chars().all(|c| c == '*') || t.chars().all(|c| c == '_')) };
        if full.split('\n').any(|l| is_hr(l.trim_start_matches(|c: char| c == '>' || c == ' '))) && depth > 0 { rep.stats.count("skipped_hr_lookalike"); continue; }
        // "line endings normalised": the same document with CRLF or bare CR line endings must give the same content
        let full = match rng.below(4) { 0 => full.replace('\n', "\r\n"), 1 => full.replace('\n', "\r"), _ => full };
        let input = format!("kind={} depth={} src={}", what, depth, hexs(&full));
        let tree = match crate::util::guarded(|| md.parse(&full)) { Ok(t) => t, Err(_) => { rep.stats.count("skipped_panic_C01"); continue; } };
        rep.stats.case(&input, want.len() > 3);
        rep.stats.count(what);
        let got: Option<String> = match which {
            0 => find(&tree, "CodeFence").and_then(|n| n.cast::<CodeFence>()).map(|f| f.content.clone()),
            1 => find(&tree, "CodeBlock").and_then(|n| n.cast::<CodeBlock>()).map(|f| f.content.clone()),
            _ => {
                let mut all = vec![]; find_all(&tree, "CodeInline", &mut all);
                let texts: Vec<String> = all.iter().filter_map(|n| if n.children.len() == 1 { n.children[0].cast::<Text>() } else { None }).map(|t| t.content.clone()).collect();
                texts.iter().find(|c| **c == want).cloned().or_else(|| texts.first().cloned())
            }
        };
        match got {
            None => rep.violation(&format!("{}-missing", what), input.clone(), format!("no {} node with the payload; tree {}", what, crate::dump::dump(&tree, false))),
            Some(g) if g != want => rep.violation(&format!("{}-content", what), input.clone(), format!("content {:?}, expected {:?}", g, want)),
            Some(_) => {
                // rendered: escaped payload appears between <code...> and </code>, nothing interpreted
                let html = tree.render();
                // some <code ...>PAYLOAD</code> element reproduces the payload
                let mut ok = false;
                let mut rest = html.as_str();
                while let Some(i) = rest.find("<code") {
                    let r = &rest[i..];
                    let s0 = match r.find('>') { Some(j) => j + 1, None => break };
                    let e = match r[s0..].find("</code>") { Some(e) => e, None => break };
                    if html_unescape(&r[s0..s0 + e]) == want.replace('\0', "\u{fffd}") { ok = true; break; }
                    rest = &r[s0 + e..];
                }
                if !ok { rep.violation(&format!("{}-render", what), input.clone(), format!("rendered {:?} does not reproduce {:?}", html, want)); }
            }
        }
    }
}
