//! C03: without the raw-HTML plugin the output is well-formed, fully escaped markup.
use super::Report;
use crate::cfg;
use crate::gen::doc;
use crate::rng::Rng;
use crate::util::hexs;

// configurations may contain structures of the documented generics, rendered by the harness as <s>
const ELEMENTS: &[&str] = &["p", "blockquote", "ul", "ol", "li", "pre", "code", "h1", "h2", "h3", "h4", "h5", "h6", "hr", "em", "strong", "s", "a", "img", "br"];
const VOID: &[&str] = &["hr", "img", "br"];

fn attrs_for(tag: &str) -> &'static [&'static str] {
    match tag { "a" => &["href", "title"], "img" => &["src", "alt", "title"], "ol" => &["start"], "code" => &["class"], _ => &[] }
}

fn delim_free(s: &str) -> bool {
    if s.contains('<') || s.contains('>') || s.contains('"') { return false; }
    let b = s.as_bytes();
    let mut i = 0;
    while i < b.len() {
        if b[i] == b'&' {
            let r = &s[i..];
            if !(r.starts_with("&amp;") || r.starts_with("&lt;") || r.starts_with("&gt;") || r.starts_with("&quot;")) { return false; }
        }
        i += 1;
    }
    true
}

/// recogniser of the safe output language
pub fn recognise(html: &str) -> Result<(), String> {
    let mut stack: Vec<String> = vec![];
    let mut rest = html;
    while !rest.is_empty() {
        if let Some(r) = rest.strip_prefix('<') {
            let end = r.find('>').ok_or("unterminated tag")?;
            let inner = &r[..end];
            rest = &r[end + 1..];
            if let Some(name) = inner.strip_prefix('/') {
                if !ELEMENTS.contains(&name) { return Err(format!("closing unknown element {:?}", name)); }
                match stack.pop() { Some(t) if t == name => {}, other => return Err(format!("</{}> closes {:?}", name, other)) }
                continue;
            }
            let (inner, xhtml_void) = match inner.strip_suffix(" /") { Some(i) => (i, true), None => (inner, false) };
            let name_end = inner.find(' ').unwrap_or(inner.len());
            let name = &inner[..name_end];
            if !ELEMENTS.contains(&name) { return Err(format!("unknown element {:?}", name)); }
            if xhtml_void && !VOID.contains(&name) { return Err(format!("self-closing non-void {:?}", name)); }
            let mut a = &inner[name_end..];
            while !a.is_empty() {
                let r = a.strip_prefix(' ').ok_or(format!("garbage in tag {:?}", inner))?;
                let eq = r.find("=\"").ok_or(format!("attribute without quoted value in {:?}", inner))?;
                let an = &r[..eq];
                if !(attrs_for(name).contains(&an) || an == "data-sourcepos") { return Err(format!("attribute {:?} on <{}>", an, name)); }
                let v = &r[eq + 2..];
                let q = v.find('"').ok_or("unterminated attribute value")?;
                if !delim_free(&v[..q]) { return Err(format!("attribute value {:?} not escaped", &v[..q])); }
                a = &v[q + 1..];
            }
            if !VOID.contains(&name) { stack.push(name.to_string()); }
        } else {
            let end = rest.find('<').unwrap_or(rest.len());
            if !delim_free(&rest[..end]) { return Err(format!("character data {:?} not escaped", &rest[..end])); }
            rest = &rest[end..];
        }
    }
    if let Some(t) = stack.pop() { return Err(format!("<{}> never closed", t)); }
    Ok(())
}

/// every named reference of the table whose expansion contains a markup delimiter (incl. multi-code-point ones)
static DELIM_REFS: once_cell::sync::Lazy<Vec<&'static str>> = once_cell::sync::Lazy::new(|| {
    entities::ENTITIES.iter().filter(|e| e.entity.ends_with(';') && e.characters.chars().any(|c| "<>\"&".contains(c))).map(|e| e.entity).collect()
});

fn hostile(rng: &mut Rng) -> String {
    if rng.chance(1, 4) {
        let r = *rng.pick(&DELIM_REFS);
        let astral = *rng.pick(&["", "😀", "\u{10000}", "é"]);
        return match rng.below(5) {
            0 => format!("{astral}{r}script{r} {astral}<x>"),
            1 => format!("[{r}]({r} \"{astral}{r}\")"),
            2 => format!("![{astral}{r}](/u '{r}')"),
            3 => format!("``` {r}\n{astral}{r}\n```"),
            _ => format!("# {astral}{r}\n\n> {r}\n\n- *{r}* `{r}`"),
        };
    }
    let p = *rng.pick(&["\"><script>alert(1)</script>", "\" onmouseover=\"x", "<img src=x onerror=y>", "&lt;b&gt;", "&#60;b&#62;", "'\"><", "\\\"", "&quot;&#34;&#x22;", "<!--", "]]>", "\0<x>"]);
    match rng.below(9) {
        0 => format!("[a]({})", p),
        1 => format!("[a](<{}>)", p),
        2 => format!("[a](/u \"{}\")", p),
        3 => format!("![{}](/u '{}')", p, p),
        4 => format!("```{}\n{}\n```", p, p),
        5 => format!("`{}`", p),
        6 => format!("<http://x/{}>", p),
        7 => format!("[r]: /u \"{}\"\n\n[r] {}", p, p),
        _ => format!("    {}\n\n# {}\n\n1234567890. {}", p, p, p),
    }
}

pub fn run(n: usize, rng: &mut Rng, rep: &mut Report) {
    let mut cases: Vec<(cfg::Cfg, String)> = vec![];
    for _ in 0..n {
        let c = cfg::sample(rng, false, false);
        let d = if rng.chance(1, 3) { hostile(rng) } else { doc::any_doc(rng) };
        cases.push((c, d));
    }
    let res = crate::run::big_stack(move || {
        let mut rep = Report::new();
        for (i, (c, d)) in cases.into_iter().enumerate() {
            // every 9th case: the html plugin WAS added, a document was parsed, then its two rules were removed
            let md = if i % 9 == 4 {
                let mut md = c.build();
                markdown_it::plugins::html::add(&mut md);
                let _ = crate::util::guarded(|| md.parse("warm <b>up</b>\n\n<div>\nx\n</div>").render());
                md.inline.remove_rule::<markdown_it::plugins::html::html_inline::HtmlInlineScanner>();
                md.block.remove_rule::<markdown_it::plugins::html::html_block::HtmlBlockScanner>();
                md
            } else { c.build() };
            let input = format!("cfg[{}] src={}", c.describe(), hexs(&d));
            let (h, x) = match crate::util::guarded(|| { let t = md.parse(&d); (t.render(), t.xrender()) }) { Ok(v) => v, Err(_) => { rep.stats.count("skipped_panic_C01"); continue; } };
            rep.stats.case(&input, d.contains('<') || d.contains('"') || d.contains('&'));
            if let Err(e) = recognise(&h) { rep.violation("not-safe-html", input.clone(), format!("{} in {:?}", e, h)); }
            if let Err(e) = recognise(&x) { rep.violation("not-safe-xhtml", input.clone(), format!("{} in {:?}", e, x)); }
        }
        rep
    });
    rep.stats = res.stats;
    rep.violations = res.violations;
}
