//! C02: tree depth and tokenizer recursion are bounded by the nesting limit, never by the input.
use super::Report;
use crate::cfg::Cfg;
use crate::dump;
use crate::rng::Rng;
use crate::run::breadcrumb;
use markdown_it::Node;

pub fn families() -> Vec<(&'static str, fn(usize) -> String)> {
    vec![
        ("quote", |n| ">".repeat(n) + "a"),
        ("quote-sp", |n| "> ".repeat(n) + "a"),
        ("bullet", |n| "- ".repeat(n) + "a"),
        ("ordered", |n| "1. ".repeat(n) + "a"),
        ("quote-bullet", |n| "> - ".repeat(n) + "a"),
        ("brackets", |n| "[".repeat(n)),
        ("brackets-closed", |n| "[".repeat(n) + "a" + &"]".repeat(n)),
        ("links", |n| "[".repeat(n) + "a" + &"](x)".repeat(n)),
        ("images", |n| "![".repeat(n) + "a" + &"](x)".repeat(n)),
        ("img-link", |n| "![[".repeat(n) + "a" + &"](y)](x)".repeat(n)),
        ("emph", |n| "*a ".repeat(n) + &"a*".repeat(n)),
        ("emph-us", |n| "_a ".repeat(n) + &"a_".repeat(n)),
        ("strong", |n| "**a ".repeat(n) + &"a**".repeat(n)),
        ("strike", |n| "~~a ".repeat(n) + &"a~~".repeat(n)),
        ("quote-in-item", |n| { let mut s = String::new(); for i in 0..n { s.push_str(&" ".repeat(0 * i)); s.push_str("- > "); } s + "a" }),
        // emphasis restarts its allowance below every image: the family that reaches the quadratic bound
        ("emph-in-img", |n| "*a *b ![".repeat(n) + "c" + &"](i) b* a*".repeat(n)),
        ("strong-in-link", |n| "**a [".repeat(n) + "c" + &"](u) a**".repeat(n)),
        ("ref-links", |n| "[a]: /x\n\n".to_string() + &"[".repeat(n) + "a" + &"][a]".repeat(n)),
    ]
}

const EMPH: &[&str] = &["Em", "Strong", "Strikethrough"];

/// (full depth, depth not counting emphasis-like wrappers)
pub fn depths(node: &Node) -> (usize, usize) {
    let mut full = 0;
    let mut non_emph = 0;
    let mut stack = vec![(node, 1usize, 1usize)];
    while let Some((n, d, e)) = stack.pop() {
        if d > full { full = d; }
        if e > non_emph { non_emph = e; }
        for c in n.children.iter() {
            let is_emph = EMPH.contains(&dump::kind(c));
            stack.push((c, d + 1, if is_emph { e } else { e + 1 }));
        }
    }
    (full, non_emph)
}

/// longest chain of directly nested emphasis-like wrappers (a link or image in between restarts the count):
/// `EmphDepth.inline_emph_depth_bounded` says it is at most max_nesting
pub fn emph_chain(node: &Node) -> usize {
    let mut best = 0;
    let mut stack = vec![(node, 0usize)];
    while let Some((n, run)) = stack.pop() {
        let k = dump::kind(n);
        let run = if EMPH.contains(&k) || k == "Gen" { run + 1 } else if k == "Text" || k == "TextSpecial" || k == "Softbreak" || k == "Hardbreak" || k == "CodeInline" { run } else { 0 };
        if run > best { best = run; }
        for c in n.children.iter() { stack.push((c, run)); }
    }
    best
}

/// a random forest of emphasis: siblings of different depth inside enclosing pairs (the matcher has to take the
/// MAXIMUM depth among the nodes it wraps, whatever their order)
pub fn emph_forest(rng: &mut Rng, depth: usize) -> String {
    let k = rng.range(1, 3);
    let mut s = String::new();
    for i in 0..k {
        if i > 0 { s.push(' '); }
        if depth == 0 || rng.chance(1, 4) { s.push_str(*rng.pick(&["a", "b c", "x"])); continue; }
        let m = *rng.pick(&["*", "_", "**", "~~"]);
        let d = if rng.chance(1, 2) { depth - 1 } else { rng.below(depth) };
        s.push_str(m); s.push_str(&emph_forest(rng, d)); s.push_str(m);
    }
    s
}

pub fn bound(max_nesting: u32) -> usize { 4 * max_nesting as usize + 16 }

/// `Pipeline.doc_full_depth_bounded` (Props/EmphDepthDoc.lean): the depth of the whole tree, emphasis wrappers
/// included, is at most 1 for N = 0 and N + 1 + depthBound N otherwise, depthBound N = 1 + N(N+3)/2
/// (links and images nest at most N deep, at most N - l emphasis wrappers sit at level l); reached for N = 1, 2
pub fn full_bound(max_nesting: u32) -> usize { let n = max_nesting as usize; if n == 0 { 1 } else { n + 1 + 1 + n * (n + 3) / 2 } }

pub fn run(n: usize, rng: &mut Rng, rep: &mut Report) {
    // n scales the largest size: quick n=3000, thorough n=20000
    let sizes: Vec<usize> = vec![40, 150, 600, n].into_iter().filter(|s| *s <= n).collect();
    let limits = [0u32, 1, 3, 10, 100];
    let mut cases = vec![];
    for (name, f) in families() {
        for &sz in sizes.iter() {
            for &mn in limits.iter() {
                // largest size only with two limits (cost)
                if sz == n && sz > 1000 && !(mn == 100 || mn == 3) { continue; }
                cases.push((name, sz, mn, f(sz)));
            }
        }
    }
    // random mixtures
    for _ in 0..40 {
        let mut s = String::new();
        let k = rng.range(50, 400);
        for _ in 0..k { s.push_str(*rng.pick(&["> ", "- ", "[", "![", "*a ", "1. ", "_a ", "**"])); }
        s.push('a');
        for _ in 0..k { s.push_str(*rng.pick(&["](x)", "]", "a*", " a_", "**", ")"])); }
        cases.push(("mixed", k, *rng.pick(&limits), s));
    }
    for _ in 0..(n / 10).max(200) {
        let d = rng.range(2, 8);
        let f = emph_forest(rng, d);
        let src = match rng.below(4) { 0 => format!("[{}](u)", f), 1 => format!("> {}", f), _ => f };
        cases.push(("emph-forest", d, *rng.pick(&[1u32, 2, 3, 5]), src));
    }
    let res = crate::run::big_stack(move || {
        let mut rep = Report::new();
        for (name, sz, mn, src) in cases {
            let mut cfg = Cfg::stock();
            cfg.mask |= 1 << crate::cfg::STRIKE;
            cfg.max_nesting = mn;
            let input = format!("family={} n={} max_nesting={}", name, sz, mn);
            breadcrumb("C02", &input);
            let md = cfg.build();
            #[cfg(mdit_verif)]
            crate::run::hooks::reset(false);
            let r = crate::util::guarded(|| {
                let tree = md.parse(&src);
                let html = tree.render();
                let mut visited = 0usize;
                tree.walk(|_, _| visited += 1);
                (depths(&tree), html.len(), visited, emph_chain(&tree))
            });
            #[cfg(mdit_verif)]
            let gauge = crate::run::hooks::take();
            rep.stats.case(&input, sz >= 150);
            match r {
                Err(e) => rep.violation("panic", input, e),
                Ok(((full, non_emph), _, _, chain)) => {
                    let b = bound(mn);
                    if chain > mn as usize {
                        rep.violation("emph-chain", if name == "emph-forest" { format!("{} src={}", input, crate::util::hexs(&src)) } else { input.clone() }, format!("{} directly nested emphasis wrappers with max_nesting {}", chain, mn));
                    }
                    rep.stats.add("max_full_depth_seen", 0);
                    if non_emph > b {
                        rep.violation("depth", input.clone(), format!("tree depth {} (without emphasis wrappers {}) exceeds bound {} for max_nesting {}", full, non_emph, b, mn));
                    } else if full > full_bound(mn) {
                        rep.violation("emph-depth", input.clone(), format!("tree depth {} exceeds bound {} for max_nesting {}; every level beyond the bound is an emphasis wrapper", full, full_bound(mn), mn));
                    }
                    rep.stats.add(&format!("max_full_depth_seen_N{}", mn), 0);
                    let key = format!("max_full_depth_seen_N{}", mn);
                    let cur = rep.stats.counters.iter().find(|(k, _)| *k == key).map(|(_, v)| *v).unwrap_or(0);
                    if full as u64 > cur { rep.stats.add(&key, full as u64 - cur); }
                    #[cfg(mdit_verif)]
                    {
                        if gauge.max_depth as usize > b {
                            rep.violation("frames", input.clone(), format!("{} simultaneous tokenizer frames exceed bound {} (max level seen {})", gauge.max_depth, b, gauge.max_level));
                        }
                        if gauge.max_level > mn.max(1) + 1 {
                            rep.violation("level", input.clone(), format!("nesting level {} entered with max_nesting {}", gauge.max_level, mn));
                        }
                    }
                }
            }
        }
        rep
    });
    rep.stats = res.stats;
    rep.violations = res.violations;
}
