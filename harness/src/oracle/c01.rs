//! C01: parse -> render -> xrender returns normally for every input x configuration.
use super::Report;
use crate::cfg;
use crate::gen::doc;
use crate::rng::Rng;
use crate::run::{breadcrumb, parse_render};
use crate::util::hexs;
use std::time::Instant;

pub fn run(n: usize, rng: &mut Rng, rep: &mut Report) {
    // corpus of past failures first
    let corpus: Vec<&str> = vec!["[`", "[a `` b](x) `c`", "![`", "[[`]]", "*[`*"];
    let mut cases: Vec<(cfg::Cfg, String)> = corpus.iter().map(|s| (cfg::Cfg::stock(), s.to_string())).collect();
    for s in corpus.iter() { cases.push((cfg::Cfg::cmark_only(), s.to_string())); }
    for _ in 0..n {
        let c = cfg::sample(rng, false, true);
        let d = match rng.below(8) {
            0 => if rng.chance(1, 5) { doc::counter_boundary(rng) } else { let k = rng.range(1, 40); doc::adversarial(rng, k) }
            _ => doc::any_doc(rng),
        };
        cases.push((c, d));
    }
    let res = crate::run::big_stack(move || {
        let mut rep = Report::new();
        let mut last_cfg: Option<(cfg::Cfg, markdown_it::MarkdownIt)> = None;
        for (c, d) in cases {
            let input = format!("cfg[{}] src={}", c.describe(), hexs(&d));
            breadcrumb("C01", &input);
            if last_cfg.as_ref().map(|(lc, _)| lc != &c).unwrap_or(true) {
                match crate::util::guarded(|| c.build()) {
                    Ok(md) => last_cfg = Some((c.clone(), md)),
                    Err(e) => { rep.violation("panic-config", input, e); continue; }
                }
            }
            let md = &last_cfg.as_ref().unwrap().1;
            #[cfg(mdit_verif)]
            crate::run::hooks::reset(false);
            let t0 = Instant::now();
            let r = parse_render(md, &d);
            let dt = t0.elapsed().as_secs_f64();
            // every panic of the inline parser MODEL is a memo hit of skip_token beyond the current pos_max
            // (Props/InlineTotal: parseInline_panic_memo_only); that it never happens under the shipped rules is the
            // open lemma - counted here on the real code (a count, not a verdict: the property speaks of panics)
            #[cfg(mdit_verif)]
            { let h = crate::run::hooks::take(); rep.stats.add("skip_token_memo_hits", h.memo_hits); rep.stats.add("skip_token_memo_hits_beyond_pos_max", h.memo_hits_beyond); }
            let nontrivial = d.chars().any(|ch| "*_[`<&\\>-#".contains(ch));
            rep.stats.case(&input, nontrivial);
            rep.stats.count(if c == cfg::Cfg::stock() { "cfg_stock" } else { "cfg_other" });
            match r {
                Ok(p) => { rep.stats.add("html_bytes", p.html.len() as u64); }
                Err(e) => {
                    // the first panic poisons nothing: parser is rebuilt
                    last_cfg = None;
                    rep.stats.count("panics");
                    rep.violation("panic", input.clone(), e);
                }
            }
            // generous linear bound: 2 s + 1 ms per input byte
            if dt > 2.0 + 0.001 * d.len() as f64 {
                rep.violation("hang", input, format!("{:.1}s for {} bytes", dt, d.len()));
            }
        }
        rep
    });
    rep.stats = res.stats;
    rep.violations = res.violations;
}
