//! C12: escapes and character references mean the same in every context; escape round trip.
use super::Report;
use crate::cfg::Cfg;
use crate::dump::kind;
use crate::rng::Rng;
use crate::util::hexs;
use markdown_it::{MarkdownIt, Node};
use markdown_it::parser::inline::{Text, TextSpecial};
use markdown_it::plugins::cmark::inline::link::Link;

fn shown(n: &Node, out: &mut String) {
    if let Some(t) = n.cast::<Text>() { out.push_str(&t.content); }
    if let Some(t) = n.cast::<TextSpecial>() { out.push_str(&t.content); }
    for c in n.children.iter() { shown(c, out); }
}

fn first_link(n: &Node) -> Option<&Link> {
    if let Some(l) = n.cast::<Link>() { return Some(l); }
    for c in n.children.iter() { if let Some(l) = first_link(c) { return Some(l); } }
    None
}

fn html_unescape(s: &str) -> String {
    s.replace("&lt;", "<").replace("&gt;", ">").replace("&quot;", "\"").replace("&amp;", "&")
}

/// what `r` denotes in each of the five contexts; None = context not applicable for this value
fn contexts(md: &MarkdownIt, r: &str) -> Result<Vec<(&'static str, Option<String>)>, String> {
    crate::util::guarded(|| {
        let mut v = vec![];
        // paragraph text (anchored by a letter so that the reference cannot start a block construct)
        let t = md.parse(&format!("a{}b", r));
        let mut s = String::new(); shown(&t, &mut s);
        let para = s.strip_prefix('a').and_then(|x| x.strip_suffix('b')).map(|x| x.to_string());
        v.push(("paragraph", para.clone()));
        // the same in a LONG paragraph: behind 60 links (120 brackets, hundreds of look-ahead steps) a reference still denotes
        // what it denotes in a short one - nothing accumulated along the paragraph may switch the inline rules off
        {
            let pre = "[see-also](/u), ".repeat(60);
            let t = md.parse(&format!("{}a{}b", pre, r));
            let mut s = String::new(); shown(&t, &mut s);
            let shown_pre = "see-also, ".repeat(60);
            let long = s.strip_prefix(shown_pre.as_str()).and_then(|x| x.strip_prefix('a')).and_then(|x| x.strip_suffix('b')).map(|x| x.to_string());
            v.push(("paragraph-behind-60-links", long));
        }
        let a = para.unwrap_or_default();
        // the expected destination is computed with the ENCODER (property C17, checked on its own), not with the parser's
        // `normalize_link` field: a defect in that function must not cancel out on both sides of the comparison
        let norm = |x: &str| markdown_it::common::mdurl::encode(x, markdown_it::common::mdurl::AsciiSet::from(crate::corr::url::DEFAULT_SAFE), true);
        // destination: decoded BEFORE normalisation -> compare normalised forms
        let t = md.parse(&format!("[x](</{}>)", r));
        v.push(("destination", first_link(&t).map(|l| l.url.clone()).map(|u| if u == norm(&format!("/{}", a)) { a.clone() } else { format!("<url {}>", u) })));
        // title
        let t = md.parse(&format!("[x](/u \"{}\")", r));
        v.push(("title", first_link(&t).and_then(|l| l.title.clone())));
        // reference definition (destination and title)
        let t = md.parse(&format!("[k]: </{}> \"{}\"\n\n[k]", r, r));
        v.push(("definition-title", first_link(&t).and_then(|l| l.title.clone())));
        v.push(("definition-destination", first_link(&t).map(|l| l.url.clone()).map(|u| if u == norm(&format!("/{}", a)) { a.clone() } else { format!("<url {}>", u) })));
        // info string: only when the denoted text is a non-empty whitespace-free word
        if !a.is_empty() && !a.chars().any(|c| c.is_whitespace()) {
            let h = md.parse(&format!("~~~ {}\n~~~", r)).render();
            let cls = h.find("class=\"language-").map(|i| { let x = &h[i + 16..]; html_unescape(&x[..x.find('"').unwrap_or(x.len())]) });
            v.push(("info-string", cls));
        }
        v
    })
}

const PUNCT: &str = "!\"#$%&'()*+,-./:;<=>?@[\\]^_`{|}~";

pub fn run(n: usize, rng: &mut Rng, rep: &mut Report) {
    let md = Cfg::cmark_only().build();
    let mut refs: Vec<String> = vec![];
    // all named references of the table
    let names: Vec<&str> = entities::ENTITIES.iter().filter(|e| e.entity.ends_with(';')).map(|e| e.entity).collect();
    rep.stats.add("named_in_table", names.len() as u64);
    let take_all = n >= 20000;
    for (i, nm) in names.iter().enumerate() { if take_all || i % 9 == (n % 9) || nm.len() <= 5 { refs.push(nm.to_string()); } }
    // numeric references: boundary classes + stratified sample, three spellings
    let mut codes: Vec<u32> = vec![0, 1, 8, 9, 10, 11, 13, 14, 31, 32, 34, 38, 60, 62, 65, 127, 128, 159, 160, 0xD7FF, 0xD800, 0xDFFF, 0xE000, 0xFDCF, 0xFDD0, 0xFDEF, 0xFDF0, 0xFFFD, 0xFFFE, 0xFFFF, 0x10000, 0x1FFFE, 0x1FFFF, 0x10FFFD, 0x10FFFE, 0x10FFFF, 0x110000, 0xFFFFFF, 9999999];
    for _ in 0..(n / 20).max(40) { codes.push((rng.next() % 0x110000) as u32); }
    for c in codes {
        match rng.below(3) { 0 => refs.push(format!("&#{};", c)), 1 => refs.push(format!("&#x{:x};", c)), _ => refs.push(format!("&#X{:X};", c)) }
        if c < 0x100000 && rng.chance(1, 4) { refs.push(format!("&#{:07};", c)); refs.push(format!("&#x{:06X};", c)); }
    }
    for c in PUNCT.chars() { refs.push(format!("\\{}", c)); }
    // concatenations whose decoded text looks like another escape / reference: decoding must happen exactly once
    let lead = ["\\\\", "&amp;", "&#38;", "&#x26;", "&#92;", "&bsol;", "\\&"];
    let tail = ["*", "lt;", "#35;", "#x41;", "amp;", "\\*", "&lt;", "quot;", "\\", "[", "#0;"];
    for l in lead.iter() { for t in tail.iter() { refs.push(format!("x{}{}y", l, t)); } }
    for _ in 0..(n / 10).max(60) {
        let k = rng.range(2, 4);
        let mut s = String::from("p");
        for _ in 0..k { s.push_str(*rng.pick(&["\\\\", "&amp;", "&#38;", "\\&", "&#92;", "lt;", "#35;", "amp;", "*", "\\*", "&quot;", "q", "&#x5c;", ";"])); }
        // two bare `*` would pair into emphasis in paragraph text (markup, not a reference): keep at most one
        let bare_stars = |s: &str| { let b = s.as_bytes(); let (mut i, mut k) = (0, 0); while i < b.len() { if b[i] == b'\\' && i + 1 < b.len() && b[i + 1].is_ascii_punctuation() { i += 2; continue; } if b[i] == b'*' { k += 1; } i += 1; } k };
        if bare_stars(&s) > 1 { continue; }
        s.push('z');
        refs.push(s);
    }
    for r in refs {
        let valid_numeric_or_named_or_escape = true;
        let _ = valid_numeric_or_named_or_escape;
        // numeric references with more digits than CommonMark allows are not "valid" references: skip
        if let Some(d) = r.strip_prefix("&#") { let d = d.trim_end_matches(';'); let (hex, digits) = if d.starts_with('x') || d.starts_with('X') { (true, &d[1..]) } else { (false, d) }; if digits.len() > if hex { 6 } else { 7 } { continue; } }
        let input = format!("ref={}", hexs(&r));
        match contexts(&md, &r) {
            Err(e) => { rep.violation("panic", input, e); }
            Ok(v) => {
                rep.stats.case(&input, true);
                let base = v[0].1.clone();
                for (ctx, val) in v.iter().skip(1) {
                    if *val != base {
                        rep.stats.count(&format!("differs_{}", ctx));
                        rep.violation(&format!("context-{}", ctx), input.clone(), format!("denotes {:?} in paragraph text but {:?} in {}", base, val, ctx));
                        break;
                    }
                }
            }
        }
    }
    // round trip: escape every ASCII punctuation character of a printable single-line string
    for _ in 0..n {
        let k = rng.range(1, 20);
        let mut s = String::new();
        for _ in 0..k {
            match rng.below(5) {
                0 | 1 => s.push(PUNCT.chars().nth(rng.below(PUNCT.len())).unwrap()),
                2 => s.push(' '),
                3 => s.push(*rng.pick(&['é', '日', '😀', 'ß', '1', '0', 'x', 'a'])),
                _ => s.push(char::from_u32(rng.range(0x21, 0x7e) as u32).unwrap()),
            }
        }
        let s = s.trim().to_string();
        if s.is_empty() { continue; }
        let escd: String = s.chars().map(|c| if c.is_ascii_punctuation() { format!("\\{}", c) } else { c.to_string() }).collect();
        let input = format!("roundtrip={}", hexs(&s));
        match crate::util::guarded(|| md.parse(&escd)) {
            Err(e) => rep.violation("panic", input, e),
            Ok(t) => {
                rep.stats.case(&input, s.chars().filter(|c| c.is_ascii_punctuation()).count() >= 2);
                let mut got = String::new(); shown(&t, &mut got);
                let one_para = t.children.len() == 1 && kind(&t.children[0]) == "Paragraph";
                if got != s || !one_para { rep.violation("roundtrip", input, format!("escaped {:?} displays {:?} (single paragraph: {})", escd, got, one_para)); }
            }
        }
    }
}
