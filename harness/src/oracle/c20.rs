//! C20: ErasedSet = map with at most one value per type; walk = pre-order with true depth; replace keeps the rest.
use super::Report;
use crate::rng::Rng;
use markdown_it::common::ErasedSet;
use markdown_it::{Node, NodeValue};
use markdown_it::common::sourcemap::SourcePos;
use std::any::TypeId;
use std::collections::HashMap;

#[derive(Debug, PartialEq, Clone, Default)] pub struct ZstA;
#[derive(Debug, PartialEq, Clone, Default)] pub struct ZstB;
#[derive(Debug, PartialEq, Clone, Default)] pub struct NewA(pub u32);
#[derive(Debug, PartialEq, Clone, Default)] pub struct NewB(pub u32);

pub const NTYPES: usize = 10;

fn apply_t<T: std::fmt::Debug + 'static>(set: &mut ErasedSet, op: char, v: u32, mk: fn(u32) -> T, rd: fn(&T) -> u32) -> String {
    match op {
        'i' => match set.insert::<T>(mk(v)) { Some(o) => format!("some:{}", rd(&o)), None => "none".into() },
        'g' => match set.get::<T>() { Some(o) => format!("some:{}", rd(o)), None => "none".into() },
        'm' => match set.get_mut::<T>() { Some(o) => { *o = mk(v); "1".into() } None => "0".into() },
        'o' => { let x = set.get_or_insert::<T>(mk(v)); format!("{}", rd(x)) }
        'r' => match set.remove::<T>() { Some(o) => format!("some:{}", rd(&o)), None => "none".into() },
        'h' => (set.contains::<T>() as u8).to_string(),
        _ => unreachable!(),
    }
}

/// two DISTINCT types whose `std::any::type_name` is identical (same-named structs in sibling blocks of one function):
/// a store keyed by the type name instead of the TypeId confuses them
fn same_name(set: &mut ErasedSet, which: usize, op: char, v: u32) -> (String, TypeId) {
    if which == 0 {
        #[derive(Debug)] struct Same(u32);
        (apply_t::<Same>(set, op, v, |v| Same(v), |o| o.0), TypeId::of::<Same>())
    } else {
        #[derive(Debug)] struct Same(u32);
        (apply_t::<Same>(set, op, v, |v| Same(v), |o| o.0), TypeId::of::<Same>())
    }
}

/// apply op on type index `k` with value `v`; returns the canonical result string
pub fn apply(set: &mut ErasedSet, op: char, k: usize, v: u32) -> String {
    macro_rules! go { ($t:ty, $mk:expr, $rd:expr) => {{
        let mk = $mk; let rd = $rd;
        match op {
            'i' => match set.insert::<$t>(mk(v)) { Some(o) => format!("some:{}", rd(&o)), None => "none".into() },
            'g' => match set.get::<$t>() { Some(o) => format!("some:{}", rd(o)), None => "none".into() },
            'm' => match set.get_mut::<$t>() { Some(o) => { *o = mk(v); "1".into() } None => "0".into() },
            'o' => { let x = set.get_or_insert::<$t>(mk(v)); format!("{}", rd(x)) }
            'r' => match set.remove::<$t>() { Some(o) => format!("some:{}", rd(&o)), None => "none".into() },
            'h' => (set.contains::<$t>() as u8).to_string(),
            _ => unreachable!(),
        }
    }}}
    match op {
        'c' => { set.clear(); return "-".into(); }
        'l' => return set.len().to_string(),
        'e' => return (set.is_empty() as u8).to_string(),
        _ => {}
    }
    match k {
        0 => go!(u8, |v: u32| (v % 256) as u8, |o: &u8| *o as u32),
        1 => go!(u16, |v: u32| (v % 65536) as u16, |o: &u16| *o as u32),
        2 => go!(String, |v: u32| v.to_string(), |o: &String| o.parse::<u32>().unwrap()),
        3 => go!(&'static str, |v: u32| ["zero", "one", "two", "three"][(v % 4) as usize], |o: &&'static str| ["zero", "one", "two", "three"].iter().position(|x| x == o).unwrap() as u32),
        4 => go!(ZstA, |_v: u32| ZstA, |_o: &ZstA| 0u32),
        5 => go!(ZstB, |_v: u32| ZstB, |_o: &ZstB| 0u32),
        6 => go!(NewA, |v: u32| NewA(v), |o: &NewA| o.0),
        7 => go!(NewB, |v: u32| NewB(v), |o: &NewB| o.0),
        8 => same_name(set, 0, op, v).0,
        _ => same_name(set, 1, op, v).0,
    }
}

/// value as stored for type k (what the reference map keeps)
pub fn stored(k: usize, v: u32) -> u32 { match k { 0 => v % 256, 1 => v % 65536, 3 => v % 4, 4 | 5 => 0, _ => v } }

fn tid(k: usize) -> TypeId {
    match k { 0 => TypeId::of::<u8>(), 1 => TypeId::of::<u16>(), 2 => TypeId::of::<String>(), 3 => TypeId::of::<&'static str>(), 4 => TypeId::of::<ZstA>(), 5 => TypeId::of::<ZstB>(), 6 => TypeId::of::<NewA>(), 7 => TypeId::of::<NewB>(),
              8 => { let mut s = ErasedSet::new(); same_name(&mut s, 0, 'h', 0).1 }
              _ => { let mut s = ErasedSet::new(); same_name(&mut s, 1, 'h', 0).1 } }
}

pub fn gen_ops(rng: &mut Rng) -> Vec<(char, usize, u32)> {
    let n = rng.range(1, 60);
    (0..n).map(|_| (*rng.pick(&['i', 'i', 'g', 'g', 'm', 'o', 'o', 'r', 'h', 'l', 'e', 'c', 'i', 'r']), rng.below(NTYPES), rng.below(1000) as u32)).collect()
}

#[derive(Debug)] pub struct K(pub u32);
impl NodeValue for K {}

pub fn gen_tree(rng: &mut Rng, depth: usize, counter: &mut u32) -> Node {
    let mut n = Node::new(K(*counter));
    *counter += 1;
    n.srcmap = Some(SourcePos::new(*counter as usize, *counter as usize + 3));
    n.attrs.push(("a", counter.to_string()));
    if depth < 5 { for _ in 0..rng.below(4) { let c = gen_tree(rng, depth + 1, counter); n.children.push(c); } }
    n
}

/// a deep spine (100-300 levels) with bushy subtrees hanging off it at random depths, including the bottom
pub fn gen_deep_tree(rng: &mut Rng, counter: &mut u32) -> Node {
    let depth = rng.range(100, 300);
    let mut cur = gen_tree(rng, 3, counter);
    for d in (0..depth).rev() {
        let mut n = Node::new(K(*counter));
        *counter += 1;
        if rng.chance(1, 3) { let c = gen_tree(rng, 4, counter); n.children.push(c); }
        n.children.push(cur);
        if rng.chance(1, 3) || d > depth - 3 { let c = gen_tree(rng, 4, counter); n.children.push(c); }
        cur = n;
    }
    cur
}

pub fn tree_sexpr(n: &Node) -> String {
    let mut s = format!("({}", n.cast::<K>().map(|k| k.0).unwrap_or(999999));
    for c in n.children.iter() { s.push_str(&tree_sexpr(c)); }
    s.push(')');
    s
}

pub fn run(n: usize, rng: &mut Rng, rep: &mut Report) {
    env_pipeline(n / 3 + 1, rng, rep);
    for _ in 0..n {
        let ops = gen_ops(rng);
        let input = format!("ops={}", ops.iter().map(|(o, k, v)| format!("{}{}:{}", o, k, v)).collect::<Vec<_>>().join(";"));
        let mut set = ErasedSet::new();
        let mut reference: HashMap<TypeId, u32> = HashMap::new();
        let mut bad = None;
        for (idx, (op, k, v)) in ops.iter().enumerate() {
            let got = match crate::util::guarded(|| apply(&mut set, *op, *k, *v)) { Ok(g) => g, Err(e) => { bad = Some(format!("op #{} panics: {}", idx, e)); break; } };
            let sv = stored(*k, *v);
            let want = match op {
                'i' => match reference.insert(tid(*k), sv) { Some(o) => format!("some:{}", o), None => "none".into() },
                'g' => match reference.get(&tid(*k)) { Some(o) => format!("some:{}", o), None => "none".into() },
                'm' => match reference.get_mut(&tid(*k)) { Some(o) => { *o = sv; "1".into() } None => "0".into() },
                'o' => reference.entry(tid(*k)).or_insert(sv).to_string(),
                'r' => match reference.remove(&tid(*k)) { Some(o) => format!("some:{}", o), None => "none".into() },
                'h' => (reference.contains_key(&tid(*k)) as u8).to_string(),
                'c' => { reference.clear(); "-".into() }
                'l' => reference.len().to_string(),
                _ => (reference.is_empty() as u8).to_string(),
            };
            if got != want { bad = Some(format!("op #{} ({}{}:{}) returned {} but a map returns {}", idx, op, k, v, got, want)); break; }
            if set.len() != reference.len() { bad = Some(format!("after op #{} len {} vs {}", idx, set.len(), reference.len())); break; }
        }
        rep.stats.case(&input, ops.len() >= 8);
        if let Some(d) = bad { rep.violation("map-semantics", input, d); }
    }
    // traversal and replace
    for _ in 0..n / 4 + 1 {
        let mut counter = 0;
        let mut t = if rng.chance(1, 6) { gen_deep_tree(rng, &mut counter) } else { gen_tree(rng, 0, &mut counter) };
        let input = format!("tree={}", tree_sexpr(&t));
        let mut got = vec![];
        t.walk(|n, d| got.push((n.cast::<K>().unwrap().0, d)));
        // manual pre-order with explicit stack
        let mut want = vec![];
        let mut stack = vec![(&t, 0u32)];
        while let Some((n, d)) = stack.pop() { want.push((n.cast::<K>().unwrap().0, d)); for c in n.children.iter().rev() { stack.push((c, d + 1)); } }
        rep.stats.case(&input, counter > 3);
        if got != want { rep.violation("walk", input.clone(), format!("walk {:?} vs pre-order {:?}", got, want)); }
        let mut got_mut = vec![];
        t.walk_mut(|n, d| got_mut.push((n.cast::<K>().unwrap().0, d)));
        if got_mut != want { rep.violation("walk_mut", input.clone(), format!("walk_mut {:?} vs pre-order {:?}", got_mut, want)); }
        // replace keeps children, range, attrs
        let before = (tree_sexpr(&t), t.srcmap.map(|m| m.get_byte_offsets()), t.attrs.clone(), t.children.len());
        #[derive(Debug)] struct Other; impl NodeValue for Other {}
        t.replace(Other);
        if !t.is::<Other>() || t.is::<K>() { rep.violation("replace", input.clone(), "kind not replaced".into()); }
        let kids: String = t.children.iter().map(tree_sexpr).collect();
        if (t.srcmap.map(|m| m.get_byte_offsets()), t.attrs.clone(), t.children.len()) != (before.1, before.2, before.3) || !before.0.ends_with(&format!("{})", kids)) {
            rep.violation("replace", input, "children / range / attrs changed".into());
        }
    }
}

// ---- the document environment and node environments as seen THROUGH the parser: values a rule or a node
// constructor stores and nobody removes are still there, exactly once, when the parse returns
#[derive(Debug, PartialEq, Eq, Clone, Copy)] pub struct DocTag(pub u32);
#[derive(Debug, PartialEq, Eq, Clone, Copy)] pub struct DocCount(pub u32);
#[derive(Debug, PartialEq, Eq, Clone, Copy)] pub struct DocFlag; // zero-sized
#[derive(Debug, PartialEq, Eq, Clone, Copy)] pub struct Origin(pub u32);
#[derive(Debug, PartialEq, Eq, Clone, Copy)] pub struct Seen(pub u32);

pub struct EnvEarly;
impl markdown_it::parser::core::CoreRule for EnvEarly {
    fn run(root: &mut Node, _: &markdown_it::MarkdownIt) {
        let env = &mut root.cast_mut::<markdown_it::parser::core::Root>().unwrap().env;
        env.insert(DocTag(7)); env.insert(DocFlag); env.get_or_insert(DocCount(0)).0 += 1;
    }
}
pub struct EnvMid;
impl markdown_it::parser::core::CoreRule for EnvMid {
    fn run(root: &mut Node, _: &markdown_it::MarkdownIt) {
        let env = &mut root.cast_mut::<markdown_it::parser::core::Root>().unwrap().env;
        env.get_or_insert(DocCount(100)).0 += 1;
    }
}
pub struct EnvLate;
impl markdown_it::parser::core::CoreRule for EnvLate {
    fn run(root: &mut Node, _: &markdown_it::MarkdownIt) {
        let env = &mut root.cast_mut::<markdown_it::parser::core::Root>().unwrap().env;
        env.get_or_insert(DocCount(1000)).0 += 1;
        root.walk_mut(|n, _| { if n.is::<crate::cfg::Gen>() { n.env.get_or_insert(Seen(100)).0 += 1; } });
    }
}

fn stamped(kind: &'static str) -> Node {
    let mut n = Node::new(crate::cfg::Gen(kind));
    n.env.insert(Origin(kind.len() as u32)); n.env.insert(Seen(1)); n.env.insert(DocFlag);
    n
}

pub fn env_parser(c: &crate::cfg::Cfg) -> markdown_it::MarkdownIt {
    use markdown_it::generics::inline::{code_pair, emph_pair, full_link};
    use markdown_it::parser::block::builtin::BlockParserRule;
    use markdown_it::parser::inline::builtin::InlineParserRule;
    let mut md = c.build();
    code_pair::add_with::<'%', true>(&mut md, |_| stamped("pct"));
    code_pair::add_with::<'$', false>(&mut md, |_| stamped("dollar"));
    emph_pair::add_with::<'^', 1, true>(&mut md, || stamped("sup"));
    full_link::add_prefix::<'?', true>(&mut md, |_, _| stamped("qlink"));
    md.add_rule::<EnvEarly>().before::<BlockParserRule>();
    md.add_rule::<EnvMid>().after::<BlockParserRule>().before::<InlineParserRule>();
    md.add_rule::<EnvLate>().after_all();
    md
}

pub fn env_doc(rng: &mut Rng) -> String {
    match rng.below(8) {
        0 => (*rng.pick(&["", " ", "\n", "\n\n \n", "\t", "\u{feff}"])).to_string(),
        1 => { let mut s = String::new(); for i in 0..rng.range(1, 4) { s.push_str(&format!("[r{}]: /u{} 't'\n", i, i)); } s }
        2 | 3 => { let mut s = crate::gen::doc::any_doc(rng); s.push_str(*rng.pick(&["\n\n?[q *e*](/u) %p *e*% $m$ x^s^", " ?[q](/u)", "\n> %a% ?[b `c`](/d 't')\n", "\n- ^s ?[l](/x)^\n"])); s }
        4 => format!("?[{}](/u)", crate::gen::doc::inline_text(rng, 0, 4)),
        5 => format!("%{}% ^{}^", crate::gen::doc::inline_text(rng, 0, 3), crate::gen::doc::inline_text(rng, 0, 3)),
        _ => crate::gen::doc::any_doc(rng),
    }
}

pub fn env_pipeline(n: usize, rng: &mut Rng, rep: &mut Report) {
    let mut cases = vec![];
    for _ in 0..n {
        let mut c = crate::cfg::sample(rng, false, true);
        c.mask &= (1 << crate::cfg::N_PLUGINS) - 1;
        cases.push((c, env_doc(rng)));
    }
    let res = crate::run::big_stack(move || {
        let mut rep = Report::new();
        for (c, d) in cases {
            let input = format!("env cfg[{}] src={}", c.describe(), crate::util::hexs(&d));
            let md = env_parser(&c);
            let tree = match crate::util::guarded(|| md.parse(&d)) { Ok(t) => t, Err(_) => { rep.stats.count("skipped_panic_C01"); continue; } };
            let mut gens = 0;
            let mut bad: Option<String> = None;
            match tree.cast::<markdown_it::parser::core::Root>() {
                None => bad = Some("the root node is not a Root".into()),
                Some(r) => {
                    if r.env.get::<DocTag>() != Some(&DocTag(7)) { bad = Some(format!("document env: DocTag stored before the block pass reads {:?}", r.env.get::<DocTag>())); }
                    else if !r.env.contains::<DocFlag>() { bad = Some("document env: zero-sized DocFlag lost".into()); }
                    else if r.env.get::<DocCount>() != Some(&DocCount(3)) { bad = Some(format!("document env: counter touched by three get_or_insert calls reads {:?}, a map gives Some(DocCount(3))", r.env.get::<DocCount>())); }
                }
            }
            tree.walk(|node, _| {
                if let Some(g) = node.cast::<crate::cfg::Gen>() {
                    gens += 1;
                    let want = Origin(g.0.len() as u32);
                    if node.env.get::<Origin>() != Some(&want) && bad.is_none() { bad = Some(format!("node env of {:?}: Origin stored by the constructor reads {:?}", g, node.env.get::<Origin>())); }
                    if node.env.get::<Seen>() != Some(&Seen(2)) && bad.is_none() { bad = Some(format!("node env of {:?}: Seen(1) + one get_or_insert increment reads {:?}", g, node.env.get::<Seen>())); }
                    if !node.env.contains::<DocFlag>() && bad.is_none() { bad = Some(format!("node env of {:?}: zero-sized flag lost", g)); }
                }
            });
            rep.stats.case(&input, gens > 0 || tree.children.is_empty());
            if gens > 0 { rep.stats.count("env_docs_with_constructor_nodes"); }
            if tree.children.is_empty() { rep.stats.count("env_docs_without_blocks"); }
            if let Some(b) = bad { rep.violation("env-through-parser", input, b); }
        }
        rep
    });
    for (k, v) in res.stats.counters.iter() { for _ in 0..*v { rep.stats.count(k); } }
    rep.stats.evaluations += res.stats.evaluations;
    rep.violations.extend(res.violations);
}
