//! C13: reference links resolve by normalised label; first definition wins; definitions produce no output.
use super::Report;
use crate::cfg::Cfg;
use crate::dump::kind;
use crate::rng::Rng;
use crate::util::hexs;
use markdown_it::Node;
use markdown_it::plugins::cmark::inline::image::Image;
use markdown_it::plugins::cmark::inline::link::Link;
use once_cell::sync::Lazy;

/// case-fold classes: each row lists strings that are equal under full Unicode case folding
/// (produced by Python's str.casefold at check time into $MDIT_CASEFOLD; a built-in subset is the fallback)
pub static FOLD: Lazy<Vec<Vec<String>>> = Lazy::new(|| {
    let mut rows: Vec<Vec<String>> = vec![];
    if let Ok(p) = std::env::var("MDIT_CASEFOLD") {
        if let Ok(t) = std::fs::read_to_string(p) {
            for l in t.lines() {
                let v: Vec<String> = l.split('\t').map(|s| s.to_string()).filter(|s| !s.is_empty()).collect();
                if v.len() >= 2 { rows.push(v); }
            }
        }
    }
    if rows.is_empty() {
        for r in [vec!["ß", "ẞ", "ss", "SS", "Ss"], vec!["σ", "Σ", "ς"], vec!["k", "K", "\u{212a}"], vec!["å", "Å", "\u{212b}"],
                  vec!["ǆ", "ǅ", "Ǆ"], vec!["θ", "Θ", "ϑ", "ϴ"], vec!["ﬁ", "fi", "FI"], vec!["é", "É"], vec!["я", "Я"], vec!["ω", "Ω", "\u{2126}"]] {
            rows.push(r.into_iter().map(|s| s.to_string()).collect());
        }
    }
    rows
});

const BASES: &[&str] = &["foo", "bar baz", "q", "alpha beta gamma", "x1", "zed\\ end", "w\\ x y"];

/// a spelling of base label `b` (index) that must match every other spelling of the same base
fn variant(rng: &mut Rng, base: usize, off: usize, fold_row: Option<&Vec<String>>) -> String {
    let mut s = String::new();
    for c in BASES[(base + off) % BASES.len()].chars() {
        if c == ' ' { s.push_str(*rng.pick(&[" ", "  ", "\n", " \t ", "\t"])); }
        else if rng.chance(1, 2) { s.extend(c.to_uppercase()); } else { s.push(c); }
    }
    if let Some(row) = fold_row { s.push(' '); s.push_str(rng.pick(row).as_str()); }
    // long labels (size limits are counted in characters after normalisation, if at all): same padding word for one base
    if (base + off) % 5 == 0 { for _ in 0..280 { s.push_str(" ыы"); } }
    if rng.chance(1, 4) { s = format!(" {} ", s); }
    s
}

fn collect<'a>(n: &'a Node, out: &mut Vec<&'a Node>) {
    if kind(n) == "Link" || kind(n) == "Image" { out.push(n); }
    for c in n.children.iter() { collect(c, out); }
}

/// container layouts around a definition whose outcome is fixed by CommonMark: (document, expected (href, title) of
/// the one use `[foo]`, or None when it must stay unresolved)
const LAYOUTS: &[(&str, Option<(&str, Option<&str>)>)] = &[
    ("- > [foo]:\n> /url\n\n[foo]", None),                       // the `>` line at the marker column is a NEW quote
    ("1. > [foo]: /url\n  > (t)\n\n[foo]", Some(("/url", None))),  // ... and cannot supply a title
    ("- > [foo]: /url\n  > 't'\n\n[foo]", Some(("/url", Some("t")))), // properly indented continuation does
    ("> [foo]: /url\n> 't'\n\n[foo]", Some(("/url", Some("t")))),
    ("> [foo]:\n> /url\n\n[foo]", Some(("/url", None))),
    ("- [foo]:\n  /url\n\n[foo]", Some(("/url", None))),
    ("- [foo]:\n/url\n\n[foo]", Some(("/url", None))),                // lazy continuation line of the item's paragraph
    ("> - [foo]: /a\n\n- > [foo]: /b\n\n[foo]", Some(("/a", None))),
    ("[foo]\n===\n\n[foo]: /url", Some(("/url", None))),
    ("[foo]\n---\n\n> [foo]: /url 't'", Some(("/url", Some("t")))),
];

pub fn run(n: usize, rng: &mut Rng, rep: &mut Report) {
    let md_plain = Cfg::stock().build();
    // the same plugins reached through a HISTORY: everything but the reference rule, one parse (the chains are compiled),
    // then the reference plugin - definitions must work whenever the plugin was added
    let md_hist = {
        use markdown_it::plugins::cmark::{block, inline};
        let mut m = markdown_it::MarkdownIt::new();
        inline::newline::add(&mut m); inline::escape::add(&mut m); inline::backticks::add(&mut m); inline::emphasis::add(&mut m);
        inline::link::add(&mut m); inline::image::add(&mut m); inline::autolink::add(&mut m); inline::entity::add(&mut m);
        block::code::add(&mut m); block::fence::add(&mut m); block::blockquote::add(&mut m); block::hr::add(&mut m); block::list::add(&mut m);
        block::heading::add(&mut m); block::lheading::add(&mut m); block::paragraph::add(&mut m);
        markdown_it::plugins::html::add(&mut m);
        let _ = crate::util::guarded(|| m.parse("[w]: /warm\n\n[w] *up*\n\n- x").render());
        let _ = format!("{:?}", m.block);
        block::reference::add(&mut m);
        m
    };
    for (li, (docu, want)) in LAYOUTS.iter().enumerate().chain(LAYOUTS.iter().enumerate()) .enumerate().map(|(j, (i, x))| (if j >= LAYOUTS.len() { i + 1000 } else { i }, x)) {
        let md = if li >= 1000 { &md_hist } else { &md_plain };
        let input = format!("src={}", hexs(docu));
        let tree = match crate::util::guarded(|| md.parse(docu)) { Ok(t) => t, Err(_) => continue };
        rep.stats.case(&input, true);
        let mut links = vec![];
        collect(&tree, &mut links);
        let got: Vec<(String, Option<String>)> = links.iter().filter_map(|l| l.cast::<Link>().map(|l| (l.url.clone(), l.title.clone()))).collect();
        let ok = match want { None => got.is_empty(), Some((u, t)) => !got.is_empty() && got.iter().all(|(gu, gt)| gu == u && gt.as_deref() == *t) };
        if !ok { rep.violation("layout", input, format!("expected {:?}, links found {:?}", want, got)); }
    }
    for _ in 0..n {
        let fold_row = if rng.chance(2, 3) { Some(rng.pick(&FOLD).clone()) } else { None };
        let off = rng.below(BASES.len());
        let nb = rng.range(1, 4);                    // bases in play
        let k = rng.range(0, 5);                     // definitions
        let mut defs: Vec<(usize, String)> = vec![]; // (base, block text)
        let mut first_for: Vec<Option<usize>> = vec![None; BASES.len()];
        for i in 0..k {
            let b = rng.below(nb);
            let label = variant(rng, b, off, fold_row.as_ref());
            let dest = format!("/d{}", i);
            let title = match rng.below(5) { 0 => format!("t{}", i), 1 => format!("t{}", i), 2 => format!("t{}", i), _ => format!("t{}", i) };
            let _ = title;
            let def = format!("[{}]: {} \"t{}\"", label.replace('\n', "\n "), dest, i);
            let placed = match rng.below(5) { 0 => format!("> {}", def.replace('\n', "\n> ")), 1 => format!("- {}", def.replace('\n', "\n  ")), 2 => format!("> - {}", def.replace('\n', "\n>   ")), _ => def };
            if first_for[b].is_none() { first_for[b] = Some(i); }
            defs.push((b, placed));
        }
        let ub = rng.below(nb.max(1) + 1).min(BASES.len() - 1); // sometimes a base without definition
        let ulabel = variant(rng, ub, off, fold_row.as_ref()).replace('\n', " ");
        let form = rng.below(4);
        let usage = match form { 0 => format!("[text][{}]", ulabel), 1 => format!("[{}][]", ulabel), 2 => format!("[{}]", ulabel), _ => format!("![alt][{}]", ulabel) };
        let use_at = rng.below(defs.len() + 1);
        let mut blocks: Vec<String> = vec![];
        // the use stands in every kind of text block: paragraph, ATX and setext headings, list item, quote, inside emphasis
        let use_block = match rng.below(9) {
            0 => format!("# h {} end", usage),
            1 => format!("see {} end\n===", usage),
            2 => format!("see {} end\n---", usage),
            3 => format!("- item {} end", usage),
            4 => format!("> quoted {} end", usage),
            5 => format!("para *em {} em* end", usage),
            6 => format!("1. > deep {} end", usage),
            _ => format!("para {} end", usage),
        };
        for (i, (_, d)) in defs.iter().enumerate() { if i == use_at { blocks.push(use_block.clone()); } blocks.push(d.clone()); }
        if use_at >= defs.len() { blocks.push(use_block.clone()); }
        let docu = blocks.join("\n\n");
        let input = format!("src={}", hexs(&docu));
        let md = if rng.chance(1, 5) { rep.stats.count("parser_by_history"); &md_hist } else { &md_plain };
        let tree = match crate::util::guarded(|| md.parse(&docu)) { Ok(t) => t, Err(_) => { rep.stats.count("skipped_panic_C01"); continue; } };
        rep.stats.case(&input, k >= 2);
        let mut links = vec![];
        collect(&tree, &mut links);
        let expect = first_for[ub];
        match (expect, links.len()) {
            (None, 0) => { rep.stats.count("unresolved_ok"); }
            (None, _) => rep.violation("resolves-without-definition", input.clone(), format!("use {:?} resolved although no definition matches; tree {}", usage, crate::dump::dump(&tree, false))),
            (Some(i), 1) => {
                let (url, title) = if let Some(l) = links[0].cast::<Link>() { (l.url.clone(), l.title.clone()) } else { let im = links[0].cast::<Image>().unwrap(); (im.url.clone(), im.title.clone()) };
                if url != format!("/d{}", i) || title != Some(format!("t{}", i)) {
                    rep.violation("first-wins", input.clone(), format!("use {:?} got ({:?},{:?}), first matching definition is #{}", usage, url, title, i));
                }
                rep.stats.count("resolved_ok");
            }
            (Some(i), m) => rep.violation("not-resolved", input.clone(), format!("use {:?} should resolve to definition #{} but {} link nodes found; tree {}", usage, i, m, crate::dump::dump(&tree, false))),
        }
        // definitions alone produce no output
        if k > 0 && rng.chance(1, 3) {
            let only: Vec<String> = defs.iter().filter(|(_, d)| d.starts_with('[')).map(|(_, d)| d.clone()).collect();
            if !only.is_empty() {
                // also with multi-line titles, a line break hidden behind a backslash included
                let only: Vec<String> = only.into_iter().map(|d| if rng.chance(1, 3) { d.replacen("\"t", *rng.pick(&["\"one\\\ntwo ", "\"one\ntwo ", "\"a\\\n[zz]: /y "]), 1) } else { d }).collect();
                let dd = only.join("\n\n");
                if let Ok(h) = crate::util::guarded(|| md.parse(&dd).render()) {
                    if !h.is_empty() { rep.violation("definition-output", format!("src={}", hexs(&dd)), format!("definitions render {:?}", h)); }
                }
            }
        }
    }
}
