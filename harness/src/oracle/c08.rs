//! C08: deleting the intermediate parse calls from any add/remove/parse history does not change the final parse.
use super::Report;
use crate::custom::*;
use crate::dump::dump;
use crate::rng::Rng;
use crate::util::hexs;
use markdown_it::MarkdownIt;
use markdown_it::plugins::cmark;

#[derive(Clone, Debug)]
pub enum Op { Add(usize), Remove(usize), Parse(String) }

pub const NRULES: usize = 29;
pub const RULE_NAMES: [&str; NRULES] = ["block@", "inline-x", "inline-(", "inline-é", "inline-+", "core-stamp", "shipped-escape", "shipped-hr",
    // plugin-level: the documented `add` functions of the generics and of the shipped plugins
    "code_pair<%,tokenize>", "code_pair<$,verbatim>", "strikethrough", "emph_pair<~,1>", "emph_pair<^,1>", "html", "emph_pair<*,3>", "code_pair<~,verbatim>", "shipped-backticks",
    // every other shipped CommonMark rule, removed and re-added through its own `add`
    "cmark-code", "cmark-fence", "cmark-blockquote", "cmark-list", "cmark-reference", "cmark-heading", "cmark-lheading", "cmark-paragraph",
    "cmark-newline", "cmark-emphasis", "cmark-autolink", "cmark-entity"];
use crate::cfg::Gen;
use markdown_it::generics::inline::{code_pair, emph_pair};
use markdown_it::Node;

pub fn apply(md: &mut MarkdownIt, op: &Op) -> Option<String> {
    match op {
        Op::Add(k) => { match k {
            0 => { md.block.add_rule::<AtRuleB>(); }
            1 => { md.inline.add_rule::<PairX>(); }
            2 => { md.inline.add_rule::<PairParen>(); }
            3 => { md.inline.add_rule::<PairE>(); }
            4 => { md.inline.add_rule::<PairPlus>(); }
            5 => { md.add_rule::<StampRule>(); }
            6 => { md.inline.add_rule::<cmark::inline::escape::EscapeScanner>(); }
            7 => { md.block.add_rule::<cmark::block::hr::HrScanner>(); }
            8 => code_pair::add_with::<'%', true>(md, |_| Node::new(Gen("pct"))),
            9 => code_pair::add_with::<'$', false>(md, |_| Node::new(Gen("dollar"))),
            10 => markdown_it::plugins::extra::add(md),
            11 => emph_pair::add_with::<'~', 1, true>(md, || Node::new(Gen("sub"))),
            12 => emph_pair::add_with::<'^', 1, true>(md, || Node::new(Gen("sup"))),
            13 => markdown_it::plugins::html::add(md),
            14 => emph_pair::add_with::<'*', 3, true>(md, || Node::new(Gen("em3"))),
            15 => code_pair::add_with::<'~', false>(md, |_| Node::new(Gen("tilde"))),
            16 => cmark::inline::backticks::add(md),
            17 => cmark::block::code::add(md),
            18 => cmark::block::fence::add(md),
            19 => cmark::block::blockquote::add(md),
            20 => cmark::block::list::add(md),
            21 => cmark::block::reference::add(md),
            22 => cmark::block::heading::add(md),
            23 => cmark::block::lheading::add(md),
            24 => cmark::block::paragraph::add(md),
            25 => cmark::inline::newline::add(md),
            26 => cmark::inline::emphasis::add(md),
            27 => cmark::inline::autolink::add(md),
            _ => cmark::inline::entity::add(md),
        } None }
        Op::Remove(k) => { match k {
            0 => md.block.remove_rule::<AtRuleB>(),
            1 => md.inline.remove_rule::<PairX>(),
            2 => md.inline.remove_rule::<PairParen>(),
            3 => md.inline.remove_rule::<PairE>(),
            4 => md.inline.remove_rule::<PairPlus>(),
            5 => md.remove_rule::<StampRule>(),
            6 => md.inline.remove_rule::<cmark::inline::escape::EscapeScanner>(),
            7 => md.block.remove_rule::<cmark::block::hr::HrScanner>(),
            8 => md.inline.remove_rule::<code_pair::CodePairScanner<'%', true>>(),
            9 => md.inline.remove_rule::<code_pair::CodePairScanner<'$', false>>(),
            10 | 11 => md.inline.remove_rule::<emph_pair::EmphPairScanner<'~', true>>(),
            12 => md.inline.remove_rule::<emph_pair::EmphPairScanner<'^', true>>(),
            13 => { md.inline.remove_rule::<markdown_it::plugins::html::html_inline::HtmlInlineScanner>(); md.block.remove_rule::<markdown_it::plugins::html::html_block::HtmlBlockScanner>() }
            14 | 16 => md.inline.remove_rule::<code_pair::CodePairScanner<'`', false>>(),
            15 => md.inline.remove_rule::<code_pair::CodePairScanner<'~', false>>(),
            17 => md.block.remove_rule::<cmark::block::code::CodeScanner>(),
            18 => md.block.remove_rule::<cmark::block::fence::FenceScanner>(),
            19 => md.block.remove_rule::<cmark::block::blockquote::BlockquoteScanner>(),
            20 => md.block.remove_rule::<cmark::block::list::ListScanner>(),
            21 => md.block.remove_rule::<cmark::block::reference::ReferenceScanner>(),
            22 => md.block.remove_rule::<cmark::block::heading::HeadingScanner>(),
            23 => md.block.remove_rule::<cmark::block::lheading::LHeadingScanner>(),
            24 => md.block.remove_rule::<cmark::block::paragraph::ParagraphScanner>(),
            25 => md.inline.remove_rule::<cmark::inline::newline::NewlineScanner>(),
            26 => { md.inline.remove_rule::<emph_pair::EmphPairScanner<'*', true>>(); md.inline.remove_rule::<emph_pair::EmphPairScanner<'_', false>>() }
            27 => md.inline.remove_rule::<cmark::inline::autolink::AutolinkScanner>(),
            _ => md.inline.remove_rule::<cmark::inline::entity::EntityScanner>(),
        } None }
        Op::Parse(d) => { let t = md.parse(d); Some(format!("{} || {}", t.render(), dump(&t, false))) }
    }
}

pub fn fresh() -> MarkdownIt {
    let mut md = MarkdownIt::new();
    cmark::add(&mut md);
    md
}

pub fn probe_doc(rng: &mut Rng) -> String {
    let parts = ["xx", "((", "éé", "++", "@@@", "\\*", "***", "a xx b", "x", "é(", "word", "- - -", "*e*", "`c`", "a+b", "x\\x",
        "l1\nl2\nl3", "p\n# h", "p\n===", "    code", "p\n    lazy\nq", "> q\nlazy", "- i\n- j", "[r]: /u\n\n[r]", "```\nf\n```", "a\n\n\nb\nc\n# h2\n", "1. o\n   p", "&amp; <http://a.b>", "t  \nbr",
        "%p%", "%% q %%", "$m$", "~~s~~", "H~2~O", "~t~", "x^2^", "<b>h</b>", "<div>\nd\n</div>", "***3***", "`` c2 ``", "%*e*%", "~~a ~b~ c~~"];
    let n = rng.range(1, 6);
    let mut s = String::new();
    for i in 0..n { if i > 0 { s.push_str(*rng.pick(&[" ", "\n", "\n\n"])); } s.push_str(*rng.pick(&parts)); }
    s
}

pub fn gen_history(rng: &mut Rng) -> Vec<Op> {
    let n = rng.range(2, 9);
    let mut v = vec![];
    for _ in 0..n {
        v.push(match rng.below(5) { 0 | 1 => Op::Add(rng.below(NRULES)), 2 => Op::Remove(rng.below(NRULES)), _ => Op::Parse(probe_doc(rng)) });
    }
    v.push(Op::Parse(probe_doc(rng) + "\n\nxx (( éé ++ \\* %p% $m$ ~~s~~ H~2~O x^2^ <b>h</b> ***3*** `c`\n\n@@@\n\n***\n\n<div>\nd\n</div>\n\nx\n# h\n\n    four\nlazy\n===\n\n> q\n- i\n\n[r]: /u\n\n[r] &amp; <http://a.b>  \nbr"));
    v
}

pub fn encode(h: &[Op]) -> String {
    h.iter().map(|o| match o { Op::Add(k) => format!("A{}", k), Op::Remove(k) => format!("R{}", k), Op::Parse(d) => format!("P{}", hexs(d)) }).collect::<Vec<_>>().join(";")
}

pub fn decode(s: &str) -> Option<Vec<Op>> {
    s.split(';').map(|t| {
        let (k, rest) = t.split_at(1);
        match k { "A" => rest.parse().ok().map(Op::Add), "R" => rest.parse().ok().map(Op::Remove), "P" => crate::util::unhex(rest).and_then(|b| String::from_utf8(b).ok()).map(Op::Parse), _ => None }
    }).collect()
}

/// `mdit-harness c08-history <encoded>`: run ONE history in this (fresh) process and print the final parse
pub fn run_one(enc: &str) -> String {
    let h = match decode(enc) { Some(h) => h, None => return "bad-history".into() };
    match crate::util::guarded(|| { let mut md = fresh(); let mut last = None; for o in &h { if let Some(r) = apply(&mut md, o) { last = Some(r); } } last }) {
        Ok(r) => format!("ok {}", hexs(&r.unwrap_or_default())),
        Err(e) => format!("panic {}", hexs(&e)),
    }
}

fn in_fresh_process(h: &[Op]) -> Option<String> {
    let exe = std::env::current_exe().ok()?;
    let out = std::process::Command::new(exe).arg("c08-history").arg(encode(h)).output().ok()?;
    Some(String::from_utf8_lossy(&out.stdout).trim().to_string())
}

pub fn run(n: usize, rng: &mut Rng, rep: &mut Report) {
    let corpus = vec![
        vec![Op::Parse("a".into()), Op::Remove(6), Op::Parse("\\*".into())],
        vec![Op::Parse("a".into()), Op::Add(1), Op::Parse("a xx b".into())],
        vec![Op::Parse("a".into()), Op::Remove(7), Op::Parse("- - -".into())],
        vec![Op::Parse("`c`".into()), Op::Add(8), Op::Parse("%p%".into())],
        vec![Op::Add(10), Op::Parse("~~s~~".into()), Op::Add(11), Op::Parse("H~2~O".into())],
        vec![Op::Add(13), Op::Parse("<b>h</b>".into()), Op::Remove(13), Op::Parse("<b>h</b>".into())],
        vec![Op::Remove(16), Op::Add(3), Op::Parse("é `x`".into()), Op::Add(16), Op::Parse("`*x*` éé".into())],
    ];
    for i in 0..n + corpus.len() {
        let h = if i < corpus.len() { corpus[i].clone() } else { gen_history(rng) };
        let input = format!("history={}", encode(&h));
        let run = |ops: &[Op]| crate::util::guarded(|| { let mut md = fresh(); let mut last = None; for o in ops { if let Some(r) = apply(&mut md, o) { last = Some(r); } } last });
        let full = run(&h);
        let stripped: Vec<Op> = h.iter().enumerate().filter(|(i, o)| *i == h.len() - 1 || !matches!(o, Op::Parse(_))).map(|(_, o)| o.clone()).collect();
        let reference = run(&stripped);
        rep.stats.case(&input, h.iter().filter(|o| matches!(o, Op::Parse(_))).count() >= 2 && h.iter().any(|o| !matches!(o, Op::Parse(_))));
        match (full, reference) {
            (Ok(a), Ok(b)) => if a != b { rep.violation("parse-dependent-chain", input.clone(), format!("with intermediate parses {:?}; without {:?}", a, b)); },
            (Err(a), Ok(_)) => rep.violation("parse-dependent-chain", input.clone(), format!("history with parses panics: {}", a)),
            (Ok(_), Err(b)) => rep.violation("parse-dependent-chain", input.clone(), format!("history without parses panics: {}", b)),
            (Err(_), Err(_)) => { rep.stats.count("both_panic"); }
        }
        // process-wide state (a static, a thread-local) written by parse would contaminate both runs above alike:
        // for a sample, each of the two histories runs in a process of its own
        if i < corpus.len() || i % 24 == 0 {
            if let (Some(a), Some(b)) = (in_fresh_process(&h), in_fresh_process(&stripped)) {
                rep.stats.count("fresh_process_pairs");
                if a != b { rep.violation("parse-dependent-chain", input.clone(), format!("each history in a process of its own: with intermediate parses {}; without {}", a, b)); }
            } else { rep.stats.count("fresh_process_spawn_failed"); }
        }
    }
}
