//! C04: dangerous URL schemes are never emitted as link or image destinations.
use super::Report;
use crate::cfg::Cfg;
use crate::dump::kind;
use crate::rng::Rng;
use crate::util::hexs;
use markdown_it::Node;
use markdown_it::plugins::cmark::inline::autolink::Autolink;
use markdown_it::plugins::cmark::inline::image::Image;
use markdown_it::plugins::cmark::inline::link::Link;

/// WHATWG URL pre-processing + scheme extraction, as a browser does it
pub fn browser_scheme(u: &str) -> Option<String> {
    let t: String = u.trim_matches(|c: char| c <= ' ').chars().filter(|c| !matches!(c, '\t' | '\n' | '\r')).collect();
    let mut it = t.chars();
    let first = it.next()?;
    if !first.is_ascii_alphabetic() { return None; }
    let mut s = String::new();
    s.push(first.to_ascii_lowercase());
    for c in it {
        if c == ':' { return Some(s); }
        if c.is_ascii_alphanumeric() || c == '+' || c == '-' || c == '.' { s.push(c.to_ascii_lowercase()); } else { return None; }
    }
    None
}

pub fn dangerous(u: &str) -> bool {
    match browser_scheme(u).as_deref() {
        Some("javascript") | Some("vbscript") | Some("file") => true,
        Some("data") => {
            let t: String = u.trim_matches(|c: char| c <= ' ').chars().filter(|c| !matches!(c, '\t' | '\n' | '\r')).collect::<String>().to_ascii_lowercase();
            !(t.starts_with("data:image/gif;") || t.starts_with("data:image/png;") || t.starts_with("data:image/jpeg;") || t.starts_with("data:image/webp;"))
        }
        _ => false,
    }
}

fn disguise(rng: &mut Rng, scheme: &str) -> String {
    let mut s = String::new();
    for c in scheme.chars().chain(std::iter::once(':')) {
        match rng.below(14) {
            0 => s.push(c.to_ascii_uppercase()),
            1 => s.push_str(&format!("&#{};", c as u32)),
            2 => s.push_str(&format!("&#x{:x};", c as u32)),
            3 => s.push_str(&format!("&#X{:X};", c as u32)),
            4 if c == ':' => s.push_str("&colon;"),
            5 if c.is_ascii_punctuation() => { s.push('\\'); s.push(c); }
            6 => { s.push(c); s.push_str(*rng.pick(&["&Tab;", "&NewLine;", "&#9;", "&#10;", "&#13;", "\\\t", "%09", "%0A", "&#0;", "&#1;", "&nbsp;", "&ZeroWidthSpace;", "\u{200b}"])); }
            7 => s.push_str(&format!("%{:02X}", c as u32)),
            8 => s.push_str(&format!("&#{:07};", c as u32)),
            // two levels: the reference's own ampersand is itself escaped (markdown decodes one level only)
            9 => s.push_str(&format!("{}#{};", rng.pick(&["&amp;", "\\&", "&#38;", "&#x26;"]), c as u32)),
            10 if c == ':' => s.push_str(*rng.pick(&["&amp;colon;", "\\&colon;", "&amp;#58;", "&amp;#x3a;"])),
            _ => s.push(c),
        }
    }
    s
}

fn urls<'a>(n: &'a Node, out: &mut Vec<(String, String)>) {
    if let Some(l) = n.cast::<Link>() { out.push(("Link".into(), l.url.clone())); }
    if let Some(l) = n.cast::<Image>() { out.push(("Image".into(), l.url.clone())); }
    if let Some(l) = n.cast::<Autolink>() { out.push(("Autolink".into(), l.url.clone())); }
    let _ = kind(n);
    for c in n.children.iter() { urls(c, out); }
}

/// what a browser makes of an attribute value: EVERY character reference is decoded (numeric ones also
/// without the final semicolon), one pass
pub fn attr_unescape(s: &str) -> String {
    let b: Vec<char> = s.chars().collect();
    let mut o = String::new();
    let mut i = 0;
    while i < b.len() {
        if b[i] != '&' { o.push(b[i]); i += 1; continue; }
        // numeric
        if i + 2 < b.len() && b[i + 1] == '#' {
            let (hex, mut j) = if b[i + 2] == 'x' || b[i + 2] == 'X' { (true, i + 3) } else { (false, i + 2) };
            let st = j;
            while j < b.len() && (if hex { b[j].is_ascii_hexdigit() } else { b[j].is_ascii_digit() }) && j - st < 8 { j += 1; }
            if j > st {
                let digits: String = b[st..j].iter().collect();
                if let Ok(code) = u32::from_str_radix(&digits, if hex { 16 } else { 10 }) {
                    o.push(char::from_u32(code).filter(|c| *c != '\0').unwrap_or('\u{fffd}'));
                    i = if j < b.len() && b[j] == ';' { j + 1 } else { j };
                    continue;
                }
            }
        }
        // named (with semicolon)
        let mut j = i + 1;
        while j < b.len() && b[j].is_ascii_alphanumeric() && j - i < 34 { j += 1; }
        if j < b.len() && b[j] == ';' && j > i + 1 {
            let name: String = b[i..=j].iter().collect();
            if let Some(e) = entities::ENTITIES.iter().find(|e| e.entity == name) { o.push_str(e.characters); i = j + 1; continue; }
        }
        o.push('&');
        i += 1;
    }
    o
}

pub fn html_urls(html: &str) -> Vec<String> {
    let mut v = vec![];
    for key in [" href=\"", " src=\""] {
        let mut rest = html;
        while let Some(i) = rest.find(key) {
            let r = &rest[i + key.len()..];
            let q = r.find('"').unwrap_or(r.len());
            v.push(attr_unescape(&r[..q]));
            rest = &r[q..];
        }
    }
    v
}

pub fn run(n: usize, rng: &mut Rng, rep: &mut Report) {
    let md = Cfg::cmark_only().build();
    for _ in 0..n {
        let scheme = *rng.pick(&["javascript", "vbscript", "file", "data", "data:text/html", "data:image/svg+xml", "data:image/png", "http", "data:image/gif;x", "JaVaScRiPt"]);
        let lead = *rng.pick(&["", "", "", " ", "&#32;", "&#9;", "\\ ", "&#1;", "&Tab;", "%20", "&nbsp;"]);
        // bodies that imitate the data-image exception or contain further scheme-like text
        let body = *rng.pick(&["alert(1)", "alert(1)", "/*image/png;*/alert(1)", "image/gif;base64,AAAA", "text/html;image/png;base64,AAAA", "//x#data:image/jpeg;", "%0Aalert(1)//image/webp;", "x"]);
        let raw = format!("{}{}{}", lead, disguise(rng, scheme), body);
        let plainly_dangerous = lead.is_empty() && raw.to_ascii_lowercase().starts_with(&format!("{}:", scheme.to_ascii_lowercase())) && dangerous(&raw);
        let pos = rng.below(8);
        let d = match pos {
            0 => format!("[a]({})", raw),
            1 => format!("[a](<{}>)", raw),
            2 => format!("![a]({} \"t\")", raw),
            3 => format!("[a]: {}\n\n[a]", raw),
            4 => format!("[a]: <{}> 't'\n\n[a][] ![x][a]", raw),
            5 => format!("[a]: {}\n\n[x][a]", raw),
            6 => format!("<{}>", raw),
            _ => format!("[![i]({})]({})", raw, raw),
        };
        // a harmless twin of the SAME shape and byte length in an earlier block (paragraph, list item or quote): whatever is
        // remembered about the first destination - by position, length, hash or label - must not vouch for the second
        let twinned = rng.chance(1, 3);
        let d = if !twinned { d } else {
            let pad = |n: usize| -> String { let base = "http://example.com/"; if n >= base.len() { format!("{}{}", base, "x".repeat(n - base.len())) } else { format!("/{}", "y".repeat(n.saturating_sub(1))) } };
            let twin = d.replace(&raw, &pad(raw.len())).replace("[a]", "[b]");
            match rng.below(4) { 0 => format!("{}\n\n{}", twin, d), 1 => format!("- {}\n\n{}", twin.replace('\n', "\n  "), d), 2 => format!("> {}\n\n{}", twin.replace('\n', "\n> "), d), _ => format!("{}\n\n{}\n\n{}", twin, d, twin) }
        };
        if twinned { rep.stats.count("with_harmless_twin"); }
        let input = format!("src={}", hexs(&d));
        let (tree, html) = match crate::util::guarded(|| { let t = md.parse(&d); let h = t.render(); (t, h) }) { Ok(v) => v, Err(_) => { rep.stats.count("skipped_panic_C01"); continue; } };
        rep.stats.case(&input, raw.contains('&') || raw.contains('\\') || raw.contains('%'));
        let mut us = vec![];
        urls(&tree, &mut us);
        if !us.is_empty() { rep.stats.count("links_emitted"); }
        for (k, u) in us.iter() {
            if dangerous(u) { rep.violation("dangerous-url-tree", input.clone(), format!("{} node carries url {:?}", k, u)); }
        }
        for u in html_urls(&html) {
            if dangerous(&u) { rep.violation("dangerous-url-html", input.clone(), format!("rendered destination {:?} in {:?}", u, html)); }
        }
        if plainly_dangerous && !twinned && pos != 7 && (html.contains("<a ") || html.contains("<img ")) {
            rep.violation("rejected-not-literal", input.clone(), format!("rejected destination still produced a link/image: {:?}", html));
        }
    }
}
