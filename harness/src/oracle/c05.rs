//! C05: every node carries a valid, nested, ordered and faithful source range.
use super::Report;
use crate::cfg;
use crate::dump::kind;
use crate::gen::doc;
use crate::rng::Rng;
use crate::util::hexs;
use markdown_it::Node;
use markdown_it::parser::inline::{Text, TextSpecial};

pub fn ranges_ok(src: &str, root: &Node) -> Result<(), (String, String)> {
    fn rng_of(n: &Node) -> Option<(usize, usize)> { n.srcmap.map(|m| m.get_byte_offsets()) }
    let len = src.len();
    match rng_of(root) {
        Some((0, e)) if e == len => {}
        other => return Err(("root".into(), format!("root range {:?}, expected (0,{})", other, len))),
    }
    let mut stack: Vec<&Node> = vec![root];
    while let Some(n) = stack.pop() {
        let (a, b) = match rng_of(n) { Some(r) => r, None => return Err(("missing".into(), format!("{} has no range", kind(n)))) };
        if !(a <= b && b <= len) { return Err(("bounds".into(), format!("{} range ({},{}) not within 0..={}", kind(n), a, b, len))); }
        if !src.is_char_boundary(a) || !src.is_char_boundary(b) { return Err(("boundary".into(), format!("{} range ({},{}) splits a character", kind(n), a, b))); }
        if let Some(t) = n.cast::<Text>() {
            let sl = &src[a..b];
            if !sl.contains('\n') && !sl.contains('\r') && sl != t.content {
                // known finding: a tab split by a container's indent leaves VIRTUAL spaces (columns without source
                // bytes) in front of the text; in a code span they are content, and no range can select them
                if t.content.len() > sl.len() && t.content.ends_with(sl) && t.content[..t.content.len() - sl.len()].bytes().all(|c| c == b' ') && src[..a].ends_with('\t') {
                    return Err(("text-faithful-split-tab".into(), format!("Text {:?} has range ({},{}) selecting {:?}: the leading spaces are the virtual columns of the tab before it, cut by a container indent", t.content, a, b, sl)));
                }
                return Err(("text-faithful".into(), format!("Text {:?} has range ({},{}) selecting {:?}", t.content, a, b, sl)));
            }
        }
        if let Some(t) = n.cast::<TextSpecial>() {
            if &src[a..b] != t.markup {
                return Err(("special-faithful".into(), format!("TextSpecial markup {:?} has range ({},{}) selecting {:?}", t.markup, a, b, &src[a..b])));
            }
        }
        let mut prev_end = a;
        let mut first = true;
        for c in n.children.iter() {
            if let Some((ca, cb)) = rng_of(c) {
                if ca < a || cb > b { return Err(("nesting".into(), format!("{} ({},{}) not within parent {} ({},{})", kind(c), ca, cb, kind(n), a, b))); }
                if !first && ca < prev_end { return Err(("order".into(), format!("{} ({},{}) starts before the end {} of its previous sibling under {}", kind(c), ca, cb, prev_end, kind(n)))); }
                if ca <= cb { prev_end = cb; }
                first = false;
            }
            stack.push(c);
        }
    }
    Ok(())
}

pub fn targeted(rng: &mut Rng) -> String {
    // emphasis / trim / hardbreak content in 2nd+ paragraphs, containers, after tabs, multi-byte, CR/CRLF
    let inl = doc::inline_text(rng, 0, 5);
    let pre = *rng.pick(&["a\n\n", "é\n\n", "> ", "- ", "1. ", "- a\n\n \t", "> - ", "x\r\n\r\n", "# h\n", "", "\tcode\n\n", "- a\n  - "]);
    let post = *rng.pick(&["", "\n", "  \nd", "\n\nz", "\r\n"]);
    // code spans that cross a line whose tab is split by a container indent (virtual spaces inside code content)
    if rng.chance(1, 8) {
        let open = *rng.pick(&["- `", "> `", "1. `x", "- ``", "- a `b", ">  - `", "- `  ", "-    ` a", "-   ` ", "-  `` a", "10. ` x", ">   ` a"]);
        let cont = *rng.pick(&["\n\t", "\n\t\t", "\n \t", "\n>\t", "\n  \t", "\r\n\t"]);
        let close = *rng.pick(&[" `", "`", " ``", "\n\t`", " ` z", "`\u{e9}"]);
        let mid = if rng.chance(1, 3) { String::new() } else { doc::inline_text(rng, 0, 2).replace('`', "'") };
        return format!("{open}{cont}{mid}{close}");
    }
    format!("{pre}{inl}{post}")
}

pub fn run(n: usize, rng: &mut Rng, rep: &mut Report) {
    let corpus = ["a\n\n*b*", "a\n\n*b* c  \nd", "> ```\nfoo\n```", "- a\n\n \tb", "- `\n\ta `", "- )) `\n\t\u{e9} `", "-    ` a\n\t\t`", "-    ` a\n\t\t`\u{e9}"];
    let mut cases: Vec<(cfg::Cfg, String)> = corpus.iter().map(|s| (cfg::Cfg::stock(), s.to_string())).collect();
    for _ in 0..n {
        let c = if rng.chance(2, 3) { let mut c = cfg::Cfg::stock(); if rng.chance(1, 3) { c.mask |= 1 << cfg::STRIKE; } c } else { cfg::sample(rng, true, true) };
        let d = if rng.chance(1, 3) { targeted(rng) } else { doc::any_doc(rng) };
        cases.push((c, d));
    }
    let res = crate::run::big_stack(move || {
        let mut rep = Report::new();
        for (c, d) in cases {
            let input = format!("cfg[{}] src={}", c.describe(), hexs(&d));
            let md = c.build();
            let tree = match crate::util::guarded(|| md.parse(&d)) { Ok(t) => t, Err(_) => { rep.stats.count("skipped_panic_C01"); continue; } };
            let nontrivial = crate::dump::size(&tree) > 3;
            rep.stats.case(&input, nontrivial);
            if let Err((class, detail)) = ranges_ok(&d, &tree) {
                rep.stats.count(&format!("viol_{}", class));
                rep.violation(&class, input, detail);
            }
        }
        rep
    });
    rep.stats = res.stats;
    rep.violations = res.violations;
}
