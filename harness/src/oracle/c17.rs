//! C17 on the real `mdurl::encode`: alphabet, escape preservation, idempotence, round trip, no panic.
use super::Report;
use crate::corr::url::{gen_set, gen_string};
use crate::rng::Rng;
use crate::util::{guarded, hex};
use markdown_it::common::mdurl::{encode, AsciiSet};

fn pct_decode(b: &[u8]) -> Vec<u8> {
    let mut o = vec![];
    let mut i = 0;
    while i < b.len() {
        if b[i] == b'%' && i + 2 < b.len() && b[i + 1].is_ascii_hexdigit() && b[i + 2].is_ascii_hexdigit() {
            let h = |x: u8| (x as char).to_digit(16).unwrap() as u8;
            o.push(h(b[i + 1]) * 16 + h(b[i + 2]));
            i += 3;
        } else { o.push(b[i]); i += 1; }
    }
    o
}

fn has(bits: u128, b: u8) -> bool { b < 128 && bits & (1u128 << b) != 0 }

/// is `out` a word of: (safe literal | %XX)* ?  (greedy left-to-right parse is complete because a
/// literal '%' is only allowed when '%' is safe, in which case both readings are accepted)
fn in_language(out: &[u8], bits: u128) -> bool {
    fn go(out: &[u8], bits: u128, i: usize, memo: &mut Vec<Option<bool>>) -> bool {
        if i == out.len() { return true; }
        if let Some(r) = memo[i] { return r; }
        let mut ok = false;
        if out[i] == b'%' && i + 2 < out.len() + 0 && out[i + 1].is_ascii_hexdigit() && out[i + 2].is_ascii_hexdigit() {
            ok = go(out, bits, i + 3, memo);
        }
        if !ok && has(bits, out[i]) { ok = go(out, bits, i + 1, memo); }
        memo[i] = Some(ok);
        ok
    }
    let mut memo = vec![None; out.len() + 1];
    go(out, bits, 0, &mut memo)
}


fn collect_urls(n: &markdown_it::Node, out: &mut Vec<String>) {
    use markdown_it::plugins::cmark::inline::{autolink::Autolink, image::Image, link::Link};
    if let Some(l) = n.cast::<Link>() { out.push(l.url.clone()); }
    if let Some(l) = n.cast::<Image>() { out.push(l.url.clone()); }
    if let Some(l) = n.cast::<Autolink>() { out.push(l.url.clone()); }
    for c in n.children.iter() { collect_urls(c, out); }
}

/// every destination the parser emits is a word of (safe | %XX)* over the shipped safe set
fn documents(n: usize, rng: &mut Rng, rep: &mut Report) {
    let md = crate::cfg::Cfg::cmark_only().build();
    let (_, bits) = crate::corr::url::set_bits(crate::corr::url::DEFAULT_SAFE.as_bytes(), true);
    let specials = ['%', '^', '`', '{', '|', '}', '!', '#', '$', '&', '\'', '*', '+', '/', '=', '?', '_', '~', '-', '.'];
    for _ in 0..n {
        let raw = gen_string(rng).replace(['\n', '\r', '<', '>', '\0'], "");
        let d = match rng.below(6) {
            0 => { let mut l = String::from("a"); for _ in 0..rng.range(1, 4) { l.push(*rng.pick(&specials)); l.push('b'); } format!("<{}@example.com>", l) }
            1 => format!("<http://example.com/{}>", raw.replace(' ', "")),
            2 => format!("[x](<{}>)", raw),
            3 => format!("![x](/p{} \"t\")", raw.replace([' ', '(', ')'], "")),
            4 => format!("[r]: <{}>\n\n[r]", raw),
            _ => format!("[sale](/off/{}%{})", rng.range(1, 99), *rng.pick(&["", "2", "a", "G", "25", "%"])),
        };
        let input = format!("doc={}", hex(d.as_bytes()));
        let tree = match guarded(|| md.parse(&d)) { Ok(t) => t, Err(_) => continue };
        let mut urls = vec![];
        collect_urls(&tree, &mut urls);
        rep.stats.case(&input, !urls.is_empty());
        for u in urls {
            if !in_language(u.as_bytes(), bits) {
                rep.violation("destination-alphabet", input.clone(), format!("emitted destination {:?} is not made of safe characters and well-formed %XX only", u));
            }
        }
    }
}

pub fn run(n: usize, rng: &mut Rng, rep: &mut Report) {
    documents(n / 2, rng, rep);
    for _ in 0..n {
        let s = gen_string(rng);
        let (_, bits) = gen_set(rng);
        let mk = || { let mut a = AsciiSet::empty(); for b in 0u8..128 { if has(bits, b) { a = a.add(b); } } a };
        for keep in [false, true] {
            let input = format!("set={} keep={} src={}", bits, keep as u8, hex(s.as_bytes()));
            let out = match guarded(|| encode(&s, mk(), keep)) {
                Ok(o) => o,
                Err(e) => { rep.violation("panic", input, e); continue; }
            };
            let ob = out.as_bytes();
            let l = s.len();
            let sb = s.as_bytes();
            let nontrivial = sb.iter().any(|x| *x >= 0x80) || (l >= 1 && sb[l - 1] == b'%') || (l >= 2 && sb[l - 2] == b'%');
            rep.stats.case(&input, nontrivial);
            if !in_language(ob, bits) {
                rep.violation("alphabet", input.clone(), format!("output {} is not (safe|%XX)*", hex(ob)));
            }
            if keep {
                // every valid escape of the input survives: decoding is unchanged
                if pct_decode(ob) != pct_decode(sb) {
                    rep.violation("keep-preserves", input.clone(), format!("decode(out)={} decode(in)={}", hex(&pct_decode(ob)), hex(&pct_decode(sb))));
                }
                match guarded(|| encode(&out, mk(), true)) {
                    Ok(o2) => if o2 != out { rep.violation("idempotent", input.clone(), format!("encode(out)={} out={}", hex(o2.as_bytes()), hex(ob))); },
                    Err(e) => rep.violation("panic", input.clone(), e),
                }
            } else if !has(bits, b'%') {
                if pct_decode(ob) != sb {
                    rep.violation("roundtrip", input.clone(), format!("decode(out)={} in={}", hex(&pct_decode(ob)), hex(sb)));
                }
            }
        }
    }
}
