//! C17 on the real `mdurl::encode`: alphabet, escape preservation, idempotence, round trip, no panic.
use super::Report;
use crate::corr::url::{gen_set, gen_string};
use crate::rng::Rng;
use crate::util::{guarded, hex};
use markdown_it::common::mdurl::{encode, AsciiSet};

fn pct_decode(b: &[u8]) -> Vec<u8> {
    let mut o = vec![];
    let mut i = 0;
    while i < b.len() {
        if b[i] == b'%' && i + 2 < b.len() && b[i + 1].is_ascii_hexdigit() && b[i + 2].is_ascii_hexdigit() {
            let h = |x: u8| (x as char).to_digit(16).unwrap() as u8;
            o.push(h(b[i + 1]) * 16 + h(b[i + 2]));
            i += 3;
        } else { o.push(b[i]); i += 1; }
    }
    o
}

fn has(bits: u128, b: u8) -> bool { b < 128 && bits & (1u128 << b) != 0 }

/// is `out` a word of: (safe literal | %XX)* ?  (greedy left-to-right parse is complete because a
/// literal '%' is only allowed when '%' is safe, in which case both readings are accepted)
fn in_language(out: &[u8], bits: u128) -> bool {
    fn go(out: &[u8], bits: u128, i: usize, memo: &mut Vec<Option<bool>>) -> bool {
        if i == out.len() { return true; }
        if let Some(r) = memo[i] { return r; }
        let mut ok = false;
        if out[i] == b'%' && i + 2 < out.len() + 0 && out[i + 1].is_ascii_hexdigit() && out[i + 2].is_ascii_hexdigit() {
            ok = go(out, bits, i + 3, memo);
        }
        if !ok && has(bits, out[i]) { ok = go(out, bits, i + 1, memo); }
        memo[i] = Some(ok);
        ok
    }
    let mut memo = vec![None; out.len() + 1];
    go(out, bits, 0, &mut memo)
}


fn collect_urls(n: &markdown_it::Node, out: &mut Vec<String>) {
    use markdown_it::plugins::cmark::inline::{autolink::Autolink, image::Image, link::Link};
    if let Some(l) = n.cast::<Link>() { out.push(l.url.clone()); }
    if let Some(l) = n.cast::<Image>() { out.push(l.url.clone()); }
    if let Some(l) = n.cast::<Autolink>() { out.push(l.url.clone()); }
    for c in n.children.iter() { collect_urls(c, out); }
}

/// every destination the parser emits is a word of (safe | %XX)* over the shipped safe set
fn documents(n: usize, rng: &mut Rng, rep: &mut Report) {
    let md = crate::cfg::Cfg::cmark_only().build();
    // the same parser with the other documented mode of the encoder installed as the destination normaliser
    let mut md_nokeep = crate::cfg::Cfg::cmark_only().build();
    md_nokeep.normalize_link = |s| encode(s, AsciiSet::from(crate::corr::url::DEFAULT_SAFE), false);
    let (_, bits) = crate::corr::url::set_bits(crate::corr::url::DEFAULT_SAFE.as_bytes(), true);
    let specials = ['%', '^', '`', '{', '|', '}', '!', '#', '$', '&', '\'', '*', '+', '/', '=', '?', '_', '~', '-', '.'];
    for _ in 0..n {
        let raw = gen_string(rng).replace(['\n', '\r', '<', '>', '\0'], "");
        let d = match rng.below(6) {
            0 => { let mut l = String::from("a"); for _ in 0..rng.range(1, 4) { l.push(*rng.pick(&specials)); l.push('b'); } format!("<{}@example.com>", l) }
            1 => format!("<http://example.com/{}>", raw.replace(' ', "")),
            2 => format!("[x](<{}>)", raw),
            3 => format!("![x](/p{} \"t\")", raw.replace([' ', '(', ')'], "")),
            4 => format!("[r]: <{}>\n\n[r]", raw),
            _ => format!("[sale](/off/{}%{})", rng.range(1, 99), *rng.pick(&["", "2", "a", "G", "25", "%"])),
        };
        let input = format!("doc={}", hex(d.as_bytes()));
        let tree = match guarded(|| md.parse(&d)) { Ok(t) => t, Err(_) => continue };
        let mut urls = vec![];
        collect_urls(&tree, &mut urls);
        rep.stats.case(&input, !urls.is_empty());
        for u in urls {
            if !in_language(u.as_bytes(), bits) {
                rep.violation("destination-alphabet", input.clone(), format!("emitted destination {:?} is not made of safe characters and well-formed %XX only", u));
            }
        }
        // destinations written in <..> without escapes or references reach the encoder unchanged: the href is exactly
        // encode(raw) (keep mode: decoding unchanged, idempotent), and in the non-keeping mode it decodes to the raw bytes
        let plain = raw.replace(['\\', '&', '\t'], "");
        let plain = plain.trim().to_string();
        if plain.is_empty() { continue; }
        let form = rng.below(4);
        let d2 = match form { 0 => format!("[x](<{}>)", plain), 1 => format!("[r]: <{}>\n\n[r]", plain), 2 => format!("![x][r]\n\n[r]: <{}> 't'", plain), _ => format!("[r]: <{}>\n\n[a][r] [r][] ![i][r]", plain) };
        let input2 = format!("doc={}", hex(d2.as_bytes()));
        for (mode, m) in [("keep", &md), ("nokeep", &md_nokeep)] {
            let tree = match guarded(|| m.parse(&d2)) { Ok(t) => t, Err(_) => continue };
            let mut urls = vec![];
            collect_urls(&tree, &mut urls);
            rep.stats.count(&format!("pipeline_{}_{}", mode, if urls.is_empty() { "no_link" } else { "link" }));
            for u in urls {
                let ub = u.as_bytes();
                if mode == "keep" {
                    if pct_decode(ub) != pct_decode(plain.as_bytes()) || encode(&u, AsciiSet::from(crate::corr::url::DEFAULT_SAFE), true) != u {
                        rep.violation("destination-keep", input2.clone(), format!("destination {:?} for raw {:?}: existing escapes not preserved or not a fixed point", u, plain));
                    }
                } else if pct_decode(ub) != plain.as_bytes() {
                    rep.violation("destination-roundtrip", input2.clone(), format!("non-keeping normaliser: destination {:?} decodes to {} but the raw destination is {}", u, hex(&pct_decode(ub)), hex(plain.as_bytes())));
                }
            }
        }
    }
}

pub fn run(n: usize, rng: &mut Rng, rep: &mut Report) {
    documents(n / 2, rng, rep);
    for _ in 0..n {
        let s = gen_string(rng);
        let (_, bits) = gen_set(rng);
        // the configured set is reached either by adds alone or by a longer history: extra bytes added and removed again,
        // and bytes removed that were never in it (a defensive `SET.remove(b'%')`) - the set meant is the same
        let extras: Vec<u8> = if rng.chance(1, 3) { (0..rng.range(1, 6)).map(|_| match rng.below(3) { 0 => *rng.pick(b"%?#/ "), _ => rng.below(128) as u8 }).filter(|b| !has(bits, *b)).collect() } else { vec![] };
        let readd = rng.chance(1, 2);
        if !extras.is_empty() { rep.stats.count("set_by_history"); }
        let mk = || {
            let mut a = AsciiSet::empty();
            for b in 0u8..128 { if has(bits, b) { a = a.add(b); } }
            for (i, b) in extras.iter().enumerate() { if readd || i % 2 == 0 { a = a.add(*b); } }
            for b in extras.iter() { a = a.remove(*b); }
            a
        };
        for keep in [false, true] {
            let input = format!("set={} keep={} src={}", bits, keep as u8, hex(s.as_bytes()));
            let out = match guarded(|| encode(&s, mk(), keep)) {
                Ok(o) => o,
                Err(e) => { rep.violation("panic", input, e); continue; }
            };
            let ob = out.as_bytes();
            let l = s.len();
            let sb = s.as_bytes();
            let nontrivial = sb.iter().any(|x| *x >= 0x80) || (l >= 1 && sb[l - 1] == b'%') || (l >= 2 && sb[l - 2] == b'%');
            rep.stats.case(&input, nontrivial);
            if !in_language(ob, bits) {
                rep.violation("alphabet", input.clone(), format!("output {} is not (safe|%XX)*", hex(ob)));
            }
            if keep {
                // every valid escape of the input survives: decoding is unchanged
                if pct_decode(ob) != pct_decode(sb) {
                    rep.violation("keep-preserves", input.clone(), format!("decode(out)={} decode(in)={}", hex(&pct_decode(ob)), hex(&pct_decode(sb))));
                }
                match guarded(|| encode(&out, mk(), true)) {
                    Ok(o2) => if o2 != out { rep.violation("idempotent", input.clone(), format!("encode(out)={} out={}", hex(o2.as_bytes()), hex(ob))); },
                    Err(e) => rep.violation("panic", input.clone(), e),
                }
            } else if !has(bits, b'%') {
                if pct_decode(ob) != sb {
                    rep.violation("roundtrip", input.clone(), format!("decode(out)={} in={}", hex(&pct_decode(ob)), hex(sb)));
                }
            }
        }
    }
}
