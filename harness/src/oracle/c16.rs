//! C16: look-ahead never contradicts, alters or replaces real parsing.
use super::Report;
use crate::cfg;
use crate::custom::*;
use crate::gen::doc;
use crate::rng::Rng;
use crate::util::hexs;
use markdown_it::MarkdownIt;

fn custom_doc(rng: &mut Rng) -> String {
    let pred = *rng.pick(&["para", "> quote", "- item", "- a\n  - nested", "```\nfence\n```", "# head", "1. one", "> - q", "[r]: /u", "para\nline2", "- a\n\n  b", "***", "<div>",
                          "- > quote", "- > q\n  > r", "1. > q", "- - > q", "> - > q", "- a\n  > q"]);
    let sep = *rng.pick(&["\n", "\n", "\n\n", "\n  ", "\n> ", "\n   ", "\n  ", "\n    "]);
    let post = *rng.pick(&["", "\nb", "\n\nb", "\n@@@", "\n- c", "\n  tail", " one\n  tail", "\n   tail"]);
    format!("{}{}@@@{}", pred, sep, post)
}

/// brackets, backtick runs of mixed lengths and short words: the look-ahead / code-span cache interplay
pub fn backtick_soup(rng: &mut Rng) -> String {
    let k = rng.range(2, 12);
    let mut s = String::new();
    for _ in 0..k {
        s.push_str(*rng.pick(&["`", "`", "``", "```", "[", "]", "](x)", "![", "a", "b ", " ", "\\`", "*", "<http://a.b>", "&amp;", "\n"]));
    }
    s
}

pub fn run(n: usize, rng: &mut Rng, rep: &mut Report) {
    // (a)+(b): dual-run probe over documents x configurations
    let mut cases: Vec<(cfg::Cfg, String, bool)> = vec![];
    for s in ["[`a` `", "x [ `a` `b", "![`a` `", "[``a]`](x)", "``[`a`](x)", "``` `a``b` ``c``"] { cases.push((cfg::Cfg::stock(), s.to_string(), false)); }
    for _ in 0..n {
        let d = if rng.chance(1, 4) { backtick_soup(rng) } else { doc::any_doc(rng) };
        cases.push((cfg::sample(rng, false, true), d, rng.chance(1, 3)));
    }
    let res = crate::run::big_stack(move || {
        let mut rep = Report::new();
        for (c, d, with_custom) in cases {
            let build = || { let mut md = c.build(); if with_custom { md.inline.add_rule::<PairX>(); md.inline.add_rule::<PairParen>(); md.block.add_rule::<AtRuleA>(); } md };
            let input = format!("cfg[{}] custom={} src={}", c.describe(), with_custom as u8, hexs(&d));
            #[cfg(mdit_verif)]
            {
                let md: MarkdownIt = build();
                crate::run::hooks::reset(false);
                let plain = crate::util::guarded(|| md.parse(&d).render());
                let md: MarkdownIt = build();
                crate::run::hooks::reset(true);
                let probed = crate::util::guarded(|| md.parse(&d).render());
                let log = crate::run::hooks::take();
                rep.stats.case(&input, log.log.iter().any(|r| r.silent.is_some()));
                rep.stats.add("probe_records", log.log.len() as u64);
                rep.stats.add("silent_successes", log.log.iter().filter(|r| r.silent.is_some()).count() as u64);
                match (plain, probed) {
                    (Ok(a), Ok(b)) => if a != b { rep.violation("lookahead-alters-parse", input.clone(), format!("html without probe {:?}, with silent calls interleaved {:?}", a, b)); },
                    (Err(_), _) => { rep.stats.count("skipped_panic_C01"); continue; }
                    (Ok(_), Err(e)) => rep.violation("lookahead-alters-parse", input.clone(), format!("panics only with silent calls interleaved: {}", e)),
                }
                if let Some(m) = log.contradicted.first() {
                    rep.violation("lookahead-contradicts", input.clone(), format!("inline rule #{} succeeded in look-ahead (skip_token) at {} with length {:?} but the real call there gave {:?}", m.rule_idx, m.at, m.silent, m.real));
                }
                if let Some(m) = log.failed_moved.first() {
                    rep.violation("failed-rule-moves-position", input.clone(), format!("{} rule #{} reported no match at {} but left the position at {:?}: the speculative scan inside it left a trace", if m.inline { "inline" } else { "block" }, m.rule_idx, m.at, m.real));
                }
                if let Some(m) = log.mismatches.first() {
                    let class = if !m.silent_kept_tree { "lookahead-touches-tree" } else if !m.silent_kept_pos { "lookahead-changes-state" } else { "lookahead-contradicts" };
                    rep.violation(class, input.clone(), format!("{} rule #{} at {}: silent {:?}, real {:?}, tree kept {}, state kept {}", if m.inline { "inline" } else { "block" }, m.rule_idx, m.at, m.silent, m.real, m.silent_kept_tree, m.silent_kept_pos));
                }
            }
            #[cfg(not(mdit_verif))]
            { let _ = (&build, &input); rep.stats.count("hooks_off"); }
        }
        rep
    });
    rep.stats = res.stats;
    rep.violations = res.violations;
    // (c): contract-conforming custom block rule, both look-ahead styles, after every kind of predecessor
    for _ in 0..n / 2 + 8 {
        let d = if rng.chance(4, 5) { custom_doc(rng) } else { let mut x = doc::grammar_doc(rng); x.push_str("\n@@@\n"); x };
        let input = format!("custom-block src={}", hexs(&d));
        let mut outs = vec![];
        // "whatever container precedes it" - and whichever other rules are loaded: half of the cases run under a sampled plugin
        // subset / registration order (paragraph rule kept, default nesting limit: over the limit content is dropped by design)
        let c = if rng.chance(1, 2) { cfg::Cfg::stock() } else { let mut c = cfg::sample(rng, true, true); c.max_nesting = 100; c };
        let input = format!("{} cfg[{}]", input, c.describe());
        for style_a in [true, false] {
            let mut md = c.build();
            if style_a { md.block.add_rule::<AtRuleA>(); } else { md.block.add_rule::<AtRuleB>(); }
            AT_LOG.with(|l| l.borrow_mut().clear());
            let r = crate::util::guarded(|| md.parse(&d).render());
            let log = AT_LOG.with(|l| l.borrow().clone());
            outs.push((style_a, r, log));
        }
        rep.stats.case(&input, true);
        let mut htmls = vec![];
        for (style_a, r, log) in outs.iter() {
            let html = match r { Ok(h) => h.clone(), Err(_) => { rep.stats.count("skipped_panic_C01"); continue; } };
            htmls.push(html.clone());
            // "no line of the source is silently skipped": every @@@ line either became the custom block or its text is
            // still in the output (paragraph continuation, code, raw html). A claim made during a speculative container
            // scan need not be honoured at that very line (lazy continuation lines, html blocks running to a blank line).
            let real = log.iter().filter(|(s, _, ok)| !*s && *ok).count();
            let in_src = d.matches("@@@").count();
            // the custom block renders `<hr ATTRS>@` (attributes when the sourcepos plugin is loaded)
            let custom_out = html.match_indices("<hr").filter(|(i, _)| html[*i..].find('>').map_or(false, |j| html[*i + j..].starts_with(">@"))).count();
            let in_out = html.matches("@@@").count() + custom_out;
            if in_out != in_src {
                rep.violation("source-line-lost", input.clone(), format!("style {}: the source has {} @@@ lines, the output shows {} (custom blocks built: {}): {:?}", if *style_a { "A" } else { "B" }, in_src, in_out, real, html));
            }
        }
        if htmls.len() == 2 && htmls[0] != htmls[1] {
            rep.violation("style-dependent", input.clone(), format!("style A renders {:?}, style B renders {:?}", htmls[0], htmls[1]));
        }
    }
}
