//! C19: rendering is pure; XHTML differs only in void elements; serializer faithful to renderer events.
use super::Report;
use crate::cfg;
use crate::dump::dump;
use crate::gen::doc;
use crate::rng::Rng;
use crate::util::hexs;
use markdown_it::{Node, Renderer};

#[derive(Debug, Clone, PartialEq)]
pub enum Ev { Open(String, Vec<(String, String)>), Close(String), SelfClose(String, Vec<(String, String)>), Text(String), Raw(String), Cr }

/// independent implementation of the public Renderer trait that records events
#[derive(Default)]
pub struct Recorder { pub evs: Vec<Ev> }
impl Renderer for Recorder {
    fn open(&mut self, tag: &str, attrs: &[(&str, String)]) { self.evs.push(Ev::Open(tag.into(), attrs.iter().map(|(k, v)| (k.to_string(), v.clone())).collect())); }
    fn close(&mut self, tag: &str) { self.evs.push(Ev::Close(tag.into())); }
    fn self_close(&mut self, tag: &str, attrs: &[(&str, String)]) { self.evs.push(Ev::SelfClose(tag.into(), attrs.iter().map(|(k, v)| (k.to_string(), v.clone())).collect())); }
    fn contents(&mut self, nodes: &[Node]) { for n in nodes { n.node_value.render(n, self); } }
    fn cr(&mut self) { self.evs.push(Ev::Cr); }
    fn text(&mut self, text: &str) { self.evs.push(Ev::Text(text.into())); }
    fn text_raw(&mut self, text: &str) { self.evs.push(Ev::Raw(text.into())); }
}

pub fn record(node: &Node) -> Vec<Ev> {
    let mut r = Recorder::default();
    node.node_value.render(node, &mut r);
    r.evs
}

pub fn esc(s: &str) -> String { s.replace('&', "&amp;").replace('<', "&lt;").replace('>', "&gt;").replace('"', "&quot;") }

/// reference serialisation of an event list (the property's description of the built-in serializer)
pub fn serialize(evs: &[Ev], xhtml: bool) -> String {
    let mut o = String::new();
    let attrs = |o: &mut String, a: &Vec<(String, String)>| for (k, v) in a { o.push(' '); o.push_str(&esc(k)); o.push_str("=\""); o.push_str(&esc(v)); o.push('"'); };
    for e in evs {
        match e {
            Ev::Open(t, a) => { o.push('<'); o.push_str(t); attrs(&mut o, a); o.push('>'); }
            Ev::Close(t) => { o.push_str("</"); o.push_str(t); o.push('>'); }
            Ev::SelfClose(t, a) => { o.push('<'); o.push_str(t); attrs(&mut o, a); if xhtml { o.push_str(" /"); } o.push('>'); }
            Ev::Text(s) => o.push_str(&esc(s)),
            Ev::Raw(s) => o.push_str(s),
            Ev::Cr => if !o.is_empty() && !o.ends_with('\n') { o.push('\n'); },
        }
    }
    o.replace('\0', "\u{fffd}")
}

pub fn run(n: usize, rng: &mut Rng, rep: &mut Report) {
    let mut cases: Vec<(cfg::Cfg, String)> = vec![];
    // deep trees (renderers with depth-dependent behaviour): emphasis is not bounded by max_nesting
    for d in [
        "*a _b ".repeat(60) + "needle" + &" b_ a*".repeat(60),
        "> ".repeat(99) + "needle",
        "> ".repeat(70) + &"*a ".repeat(45) + "needle" + &" a*".repeat(45),
        "- ".repeat(49) + "needle *x*",
        "[".repeat(90) + "needle" + &"](u)".repeat(90),
    ] { cases.push((cfg::Cfg::stock(), d)); }
    for _ in 0..n { cases.push((cfg::sample(rng, false, true), doc::any_doc(rng))); }
    let res = crate::run::big_stack(move || {
        let mut rep = Report::new();
        for (c, d) in cases {
            let md = c.build();
            let input = format!("cfg[{}] src={}", c.describe(), hexs(&d));
            let tree = match crate::util::guarded(|| md.parse(&d)) { Ok(t) => t, Err(_) => { rep.stats.count("skipped_panic_C01"); continue; } };
            let before = dump(&tree, true);
            let r = crate::util::guarded(|| (tree.render(), tree.xrender(), tree.render(), tree.xrender(), record(&tree)));
            let (h1, x1, h2, x2, evs) = match r { Ok(v) => v, Err(_) => { rep.stats.count("skipped_panic_C01"); continue; } };
            rep.stats.case(&input, evs.len() > 4);
            rep.stats.add("events", evs.len() as u64);
            if dump(&tree, true) != before { rep.violation("tree-modified", input.clone(), "tree dump differs after rendering".into()); }
            if h1 != h2 || x1 != x2 { rep.violation("not-repeatable", input.clone(), format!("first {:?} second {:?}", h1, h2)); }
            let sh = serialize(&evs, false);
            let sx = serialize(&evs, true);
            if sh != h1 { rep.violation("serializer-html", input.clone(), format!("built-in {:?} vs events {:?}", h1, sh)); }
            if sx != x1 { rep.violation("serializer-xhtml", input.clone(), format!("built-in {:?} vs events {:?}", x1, sx)); }
            // a pure function of the TREE: edit the rendered tree through its public fields and render again - the result must be
            // that of the same edit on a twin that was never rendered (anything render() left behind in a node would show here)
            if let Ok(mut twin) = crate::util::guarded(|| md.parse(&d)) {
                let mut rendered = tree;
                fn edit(n: &mut markdown_it::Node, k: usize) {
                    match k % 4 {
                        0 => { n.children.pop(); }
                        1 => { n.children.reverse(); }
                        2 => { if let Some(c) = n.children.first_mut() { c.children.clear(); c.attrs.push(("data-x", "1".into())); } }
                        _ => { if let Some(c) = n.children.last_mut() { if let Some(g) = c.children.first_mut() { g.children.clear(); } else { c.attrs.push(("data-y", "2".into())); } } }
                    }
                }
                let k = d.len();
                edit(&mut rendered, k); edit(&mut twin, k);
                let a = crate::util::guarded(|| (rendered.render(), rendered.xrender()));
                let b = crate::util::guarded(|| (twin.render(), twin.xrender()));
                rep.stats.count("edited_after_render");
                match (a, b) {
                    (Ok(a), Ok(b)) => if a != b { rep.violation("render-history", input.clone(), format!("edit #{} after rendering gives {:?}; the same edit on a never-rendered tree gives {:?}", k % 4, a.0, b.0)); },
                    (a, b) => if a.is_ok() != b.is_ok() { rep.violation("render-history", input.clone(), format!("edit #{}: rendered-then-edited ok={} fresh ok={}", k % 4, a.is_ok(), b.is_ok())); }
                }
            }
            // XHTML = HTML with " /" before '>' exactly at self-close events: remove them and compare
            let voids = evs.iter().filter(|e| matches!(e, Ev::SelfClose(..))).count();
            if x1.len() != h1.len() + 2 * voids { rep.violation("xhtml-diff", input.clone(), format!("xhtml {:?} html {:?} voids {}", x1, h1, voids)); }
        }
        rep
    });
    rep.stats = res.stats;
    rep.violations = res.violations;
}
