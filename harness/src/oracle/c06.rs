//! C06: container prefixing changes neither interpretation nor source mapping (tab-free documents).
use super::Report;
use crate::cfg::Cfg;
use crate::dump;
use crate::gen::doc;
use crate::rng::Rng;
use crate::util::hexs;
use markdown_it::Node;

/// split into (line text, terminator) pairs; a trailing terminator does not start another line
pub fn split_lines(d: &str) -> Vec<(String, String)> {
    let mut out = vec![];
    let mut cur = String::new();
    let mut it = d.chars().peekable();
    while let Some(c) = it.next() {
        if c == '\n' { out.push((std::mem::take(&mut cur), "\n".to_string())); }
        else if c == '\r' {
            if it.peek() == Some(&'\n') { it.next(); out.push((std::mem::take(&mut cur), "\r\n".to_string())); }
            else { out.push((std::mem::take(&mut cur), "\r".to_string())); }
        } else { cur.push(c); }
    }
    if !cur.is_empty() || out.is_empty() { out.push((cur, String::new())); }
    out
}

fn prefix_all(d: &str, p: &str) -> String {
    split_lines(d).into_iter().map(|(l, t)| format!("{}{}{}", p, l, t)).collect()
}

fn wrap(open: &str, inner: &str, close: &str) -> String {
    let mut s = String::from(open);
    s.push_str(inner);
    if !inner.is_empty() && !inner.ends_with('\n') { s.push('\n'); }
    s.push_str(close);
    s
}

/// dump with every range passed through `f`
fn dump_shift(node: &Node, f: &dyn Fn(usize) -> usize, out: &mut String) {
    out.push('(');
    out.push_str(&format!("{:?}", node.node_value));
    if let Some(m) = node.srcmap { let (a, b) = m.get_byte_offsets(); out.push_str(&format!(" [{},{})", f(a), f(b))); } else { out.push_str(" [none)"); }
    for c in node.children.iter() { out.push(' '); dump_shift(c, f, out); }
    out.push(')');
}

pub fn nesting_ok(d: &str) -> bool {
    // "within the nesting limit": keep well below the default limit of 100
    d.matches('>').count() + d.matches("- ").count() + d.matches('[').count() + d.matches(". ").count() + d.matches('*').count() + d.matches('+').count() < 60
}

pub fn run(n: usize, rng: &mut Rng, rep: &mut Report) {
    let mut cases: Vec<(bool, String)> = vec![];
    for (i, s) in doc::SPEC.iter().enumerate() { if !s.contains('\t') { cases.push((false, s.clone())); cases.push((true, s.clone())); if i % 4 == 0 && !s.contains('\r') { cases.push((i % 8 == 0, s.replace('\n', "\r\n"))); } } }
    for _ in 0..n {
        let d = doc::any_doc(rng).replace('\t', " ");
        if !nesting_ok(&d) { continue; }
        // the relations hold whatever terminates the lines
        let d = match rng.below(8) { 0 | 1 => d.replace("\r\n", "\n").replace('\n', "\r\n"), 2 => d.replace("\r\n", "\n").replace('\n', "\r"), _ => d };
        cases.push((rng.chance(1, 2), d));
    }
    let res = crate::run::big_stack(move || {
        let mut rep = Report::new();
        for (html_on, d) in cases {
            let c = if html_on { Cfg::stock() } else { Cfg::cmark_only() };
            let md = c.build();
            let input = format!("cfg[{}] src={}", c.describe(), hexs(&d));
            let base = match crate::util::guarded(|| { let t = md.parse(&d); (t.render(), t) }) { Ok(x) => x, Err(_) => { rep.stats.count("skipped_panic_C01"); continue; } };
            rep.stats.case(&input, d.contains('\n') && base.0.len() > 10);
            // (1) block quote relation: HTML and shifted tree
            let q = prefix_all(&d, "> ");
            match crate::util::guarded(|| { let t = md.parse(&q); (t.render(), t) }) {
                Err(e) => rep.violation("quote-panic", input.clone(), e),
                Ok((qh, qt)) => {
                    let expect = wrap("<blockquote>\n", &base.0, "</blockquote>\n");
                    if qh != expect {
                        rep.violation("quote-html", input.clone(), format!("quoted renders {:?}, expected {:?}", qh, expect));
                    } else if !d.contains('\r') {
                        // tree below the quote = tree of D with ranges shifted by the inserted prefix bytes
                        let shift = |p: usize| p + 2 * (1 + d.as_bytes()[..p.min(d.len())].iter().filter(|b| **b == b'\n').count());
                        let mut want = String::new();
                        for ch in base.1.children.iter() { dump_shift(ch, &shift, &mut want); }
                        let mut got = String::new();
                        if qt.children.len() == 1 && dump::kind(&qt.children[0]) == "Blockquote" {
                            for ch in qt.children[0].children.iter() { dump_shift(ch, &|p| p, &mut got); }
                            if want != got { rep.violation("quote-tree", input.clone(), format!("tree under quote {} differs from shifted tree of D {}", got, want)); }
                        } else {
                            rep.violation("quote-tree", input.clone(), format!("quoted document does not parse to a single Blockquote: {}", dump::dump(&qt, false)));
                        }
                        rep.stats.count("quote_tree_compared");
                    }
                }
            }
            // (2) loose list item relation (D must contain a non-blank line)
            if split_lines(&d).iter().any(|(l, _)| !l.trim_matches(' ').is_empty()) {
                let l = format!("- x\n\n{}", prefix_all(&d, "  "));
                match crate::util::guarded(|| md.parse(&l).render()) {
                    Err(e) => rep.violation("item-panic", input.clone(), e),
                    Ok(lh) => {
                        let expect = format!("<ul>\n<li>\n<p>x</p>\n{}", wrap("", &base.0, "</li>\n</ul>\n"));
                        if lh != expect { rep.violation("item-html", input.clone(), format!("item renders {:?}, expected {:?}", lh, expect)); }
                    }
                }
                rep.stats.count("item_relation");
            }
        }
        rep
    });
    rep.stats = res.stats;
    rep.violations = res.violations;
}
