//! C10: HTML independent of line-ending convention and of one final line ending.
use super::Report;
use crate::cfg;
use crate::gen::doc;
use crate::rng::Rng;
use crate::util::hexs;

fn edgy(rng: &mut Rng) -> String {
    match rng.below(10) {
        0 => "```\nopen fence".into(),
        1 => "<div>\nopen html".into(),
        2 => "[foo]:\n/url\n'title\nmore'\n\n[foo]".into(),
        3 => "a\\\nb  \nc".into(),
        4 => "> a\nlazy\n> b".into(),
        5 => "a   \n   \nb".into(),
        6 => "    code\n\n    more\n".into(),
        7 => "- a\n\n  b\n- c".into(),
        8 => "`a\nb`  \n*c\nd*".into(),
        _ => "<!-- x\n\ny -->\nz".into(),
    }
}

pub fn run(n: usize, rng: &mut Rng, rep: &mut Report) {
    let mut cases: Vec<(cfg::Cfg, String)> = vec![];
    for _ in 0..n {
        let c = cfg::sample(rng, false, true);
        let d = if rng.chance(1, 5) { edgy(rng) } else { doc::any_doc(rng) };
        cases.push((c, d));
    }
    let res = crate::run::big_stack(move || {
        let mut rep = Report::new();
        for (c, d) in cases {
            let md = c.build();
            let render = |s: &str| crate::util::guarded(|| md.parse(s).render());
            let input = format!("cfg[{}] src={}", c.describe(), hexs(&d));
            let base = match render(&d) { Ok(h) => h, Err(_) => { rep.stats.count("skipped_panic_C01"); continue; } };
            let mut nontrivial = false;
            if !d.contains('\r') {
                nontrivial = d.contains('\n');
                for (name, nl) in [("crlf", "\r\n"), ("cr", "\r")] {
                    let v = d.replace('\n', nl);
                    match render(&v) {
                        Ok(h) => if h != base { rep.violation(name, input.clone(), format!("LF html {:?} vs {} html {:?}", base, name, h)); },
                        Err(e) => rep.violation(name, input.clone(), format!("{} variant panics: {}", name, e)),
                    }
                }
                rep.stats.count("replacement_relation");
            }
            if !d.ends_with('\n') && !d.ends_with('\r') {
                let v = format!("{}\n", d);
                match render(&v) {
                    Ok(h) => if h != base { rep.violation("final-newline", input.clone(), format!("html {:?} vs with final newline {:?}", base, h)); },
                    Err(e) => rep.violation("final-newline", input.clone(), format!("variant panics: {}", e)),
                }
                rep.stats.count("final_newline_relation");
            }
            rep.stats.case(&input, nontrivial);
        }
        rep
    });
    rep.stats = res.stats;
    rep.violations = res.violations;
}
