//! C07: a parser that has parsed any sequence of documents behaves like a fresh one; parsing is deterministic.
use super::Report;
use crate::cfg;
use crate::dump::dump;
use crate::gen::doc;
use crate::rng::Rng;
use crate::util::hexs;

fn leaky_doc(rng: &mut Rng) -> String {
    match rng.below(9) {
        0 => "[ref]: /leak \"t\"\n\n[ref]".into(),
        1 => "[ref] [REF][] [x][ref] ![i][ref]".into(),
        2 => "`a ``b ```c ````d".into(),
        3 => "``` x `` y ` z".into(),
        4 => "*a **b _c __d*** e_".into(),
        5 => "**a *b **c *d".into(),
        6 => "```rust\nx\n```".into(),
        7 => "plain text first".into(),
        _ => doc::any_doc(rng),
    }
}

/// related documents, as an editor preview or a streaming consumer produces them: growing prefixes of one text
/// (cut at random character boundaries and between the CR and the LF of every CRLF), then the text with one
/// character replaced, then a shrinking prefix - any state keyed on "the previous document" shows here
fn related_docs(rng: &mut Rng) -> Vec<String> {
    let mut base = if rng.chance(1, 2) { doc::any_doc(rng) } else { leaky_doc(rng) };
    if rng.chance(1, 2) { base = base.replace('\n', "\r\n"); }
    if rng.chance(1, 4) { base = base.replace('\n', "\r"); }
    let bounds: Vec<usize> = (0..=base.len()).filter(|&i| base.is_char_boundary(i)).collect();
    let mut cuts: Vec<usize> = (0..rng.range(1, 5)).map(|_| bounds[rng.below(bounds.len())]).collect();
    let crlf: Vec<usize> = base.match_indices("\r\n").map(|(i, _)| i + 1).collect();
    if !crlf.is_empty() { for _ in 0..rng.range(1, 3) { cuts.push(crlf[rng.below(crlf.len())]); } }
    let crs: Vec<usize> = base.match_indices('\r').map(|(i, _)| i + 1).collect();
    if !crs.is_empty() { cuts.push(crs[rng.below(crs.len())]); }
    cuts.sort(); cuts.dedup();
    let mut docs: Vec<String> = cuts.iter().map(|&c| base[..c].to_string()).collect();
    docs.push(base.clone());
    if bounds.len() > 2 {
        let i = rng.below(bounds.len() - 1);
        let mut edited = String::new();
        edited.push_str(&base[..bounds[i]]);
        edited.push(['x', '\n', '*', '`', '[', ' '][rng.below(6)]);
        edited.push_str(&base[bounds[i + 1]..]);
        docs.push(edited);
    }
    if let Some(&c) = cuts.first() { docs.push(base[..c].to_string()); }
    docs
}

pub fn run(n: usize, rng: &mut Rng, rep: &mut Report) {
    let mut hists: Vec<(cfg::Cfg, Vec<String>)> = vec![];
    for _ in 0..n {
        let c = cfg::sample(rng, false, true);
        let k = rng.range(2, 8);
        let mut docs: Vec<String> = if rng.chance(1, 3) { related_docs(rng) } else { (0..k).map(|_| leaky_doc(rng)).collect() };
        if rng.chance(1, 2) { let i = rng.below(docs.len()); let d = docs[i].clone(); docs.push(d); }
        hists.push((c, docs));
    }
    let res = crate::run::big_stack(move || {
        let mut rep = Report::new();
        for (c, docs) in hists {
            let input = format!("cfg[{}] docs={}", c.describe(), docs.iter().map(|d| hexs(d)).collect::<Vec<_>>().join(","));
            let used = c.build();
            let mut bad = None;
            for (i, d) in docs.iter().enumerate() {
                let a = crate::util::guarded(|| { let t = used.parse(d); (dump(&t, true), t.render(), t.xrender()) });
                let fresh = c.build();
                let b = crate::util::guarded(|| { let t = fresh.parse(d); (dump(&t, true), t.render(), t.xrender()) });
                match (a, b) {
                    (Ok(x), Ok(y)) => if x != y { bad = Some((i, format!("document #{}: reused parser gives {:?}, fresh parser gives {:?}", i, x.1, y.1))); break; },
                    (Err(_), Err(_)) => {}
                    (x, y) => { bad = Some((i, format!("document #{}: reused ok={} fresh ok={}", i, x.is_ok(), y.is_ok()))); break; }
                }
            }
            rep.stats.case(&input, docs.len() >= 3);
            rep.stats.add("parses", docs.len() as u64);
            if let Some((_, detail)) = bad { rep.violation("state-leak", input, detail); }
        }
        rep
    });
    rep.stats = res.stats;
    rep.violations = res.violations;
}
