//! C07: a parser that has parsed any sequence of documents behaves like a fresh one; parsing is deterministic.
use super::Report;
use crate::cfg;
use crate::dump::dump;
use crate::gen::doc;
use crate::rng::Rng;
use crate::util::hexs;

fn leaky_doc(rng: &mut Rng) -> String {
    match rng.below(9) {
        0 => "[ref]: /leak \"t\"\n\n[ref]".into(),
        1 => "[ref] [REF][] [x][ref] ![i][ref]".into(),
        2 => "`a ``b ```c ````d".into(),
        3 => "``` x `` y ` z".into(),
        4 => "*a **b _c __d*** e_".into(),
        5 => "**a *b **c *d".into(),
        6 => "```rust\nx\n```".into(),
        7 => "plain text first".into(),
        _ => doc::any_doc(rng),
    }
}

pub fn run(n: usize, rng: &mut Rng, rep: &mut Report) {
    let mut hists: Vec<(cfg::Cfg, Vec<String>)> = vec![];
    for _ in 0..n {
        let c = cfg::sample(rng, false, true);
        let k = rng.range(2, 8);
        let mut docs: Vec<String> = (0..k).map(|_| leaky_doc(rng)).collect();
        if rng.chance(1, 2) { let i = rng.below(docs.len()); let d = docs[i].clone(); docs.push(d); }
        hists.push((c, docs));
    }
    let res = crate::run::big_stack(move || {
        let mut rep = Report::new();
        for (c, docs) in hists {
            let input = format!("cfg[{}] docs={}", c.describe(), docs.iter().map(|d| hexs(d)).collect::<Vec<_>>().join(","));
            let used = c.build();
            let mut bad = None;
            for (i, d) in docs.iter().enumerate() {
                let a = crate::util::guarded(|| { let t = used.parse(d); (dump(&t, true), t.render(), t.xrender()) });
                let fresh = c.build();
                let b = crate::util::guarded(|| { let t = fresh.parse(d); (dump(&t, true), t.render(), t.xrender()) });
                match (a, b) {
                    (Ok(x), Ok(y)) => if x != y { bad = Some((i, format!("document #{}: reused parser gives {:?}, fresh parser gives {:?}", i, x.1, y.1))); break; },
                    (Err(_), Err(_)) => {}
                    (x, y) => { bad = Some((i, format!("document #{}: reused ok={} fresh ok={}", i, x.is_ok(), y.is_ok()))); break; }
                }
            }
            rep.stats.case(&input, docs.len() >= 3);
            rep.stats.add("parses", docs.len() as u64);
            if let Some((_, detail)) = bad { rep.violation("state-leak", input, detail); }
        }
        rep
    });
    rep.stats = res.stats;
    rep.violations = res.violations;
}
