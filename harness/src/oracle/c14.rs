//! C14: the returned tree is well-formed.
use super::Report;
use crate::cfg;
use crate::dump::kind;
use crate::gen::doc;
use crate::rng::Rng;
use crate::util::hexs;
use markdown_it::Node;
use markdown_it::parser::inline::Text;

const INLINE: &[&str] = &["Text", "TextSpecial", "Softbreak", "Hardbreak", "CodeInline", "Em", "Strong", "Strikethrough", "Link", "Image", "Autolink", "HtmlInline", "Gen"];
const INLINE_PARENTS: &[&str] = &["Paragraph", "ATXHeading", "SetextHeader", "ListItem", "Em", "Strong", "Strikethrough", "Link", "Image", "CodeInline", "Autolink", "Gen"];
const LEAF: &[&str] = &["Text", "TextSpecial", "Softbreak", "Hardbreak", "ThematicBreak", "CodeBlock", "CodeFence", "HtmlBlock", "HtmlInline"];
const PLACEHOLDER: &[&str] = &["InlineRoot", "EmphMarker", "Empty"];
const LISTS: &[&str] = &["BulletList", "OrderedList"];

pub fn wf(root: &Node) -> Result<(), (String, String)> {
    if kind(root) != "Root" { return Err(("root".into(), format!("top node is {}", kind(root)))); }
    let mut stack: Vec<(&Node, usize)> = vec![(root, 0)];
    while let Some((n, d)) = stack.pop() {
        let k = kind(n);
        if PLACEHOLDER.contains(&k) { return Err(("placeholder".into(), format!("{} survives at depth {}", k, d))); }
        if k == "Root" && d != 0 { return Err(("root".into(), format!("Root at depth {}", d))); }
        if LEAF.contains(&k) && !n.children.is_empty() { return Err(("leaf-children".into(), format!("{} has {} children", k, n.children.len()))); }
        if let Some(t) = n.cast::<Text>() { if t.content.is_empty() { return Err(("empty-text".into(), format!("empty Text under depth {}", d))); } }
        let mut prev_text = false;
        for c in n.children.iter() {
            let ck = kind(c);
            if (ck == "ListItem") != LISTS.contains(&k) { return Err(("list-shape".into(), format!("{} directly under {}", ck, k))); }
            if INLINE.contains(&ck) && !INLINE_PARENTS.contains(&k) { return Err(("inline-place".into(), format!("inline node {} directly under {}", ck, k))); }
            let is_text = ck == "Text";
            if is_text && prev_text { return Err(("adjacent-text".into(), format!("two adjacent Text siblings under {}", k))); }
            prev_text = is_text;
            stack.push((c, d + 1));
        }
    }
    Ok(())
}

pub fn run(n: usize, rng: &mut Rng, rep: &mut Report) {
    let mut cases: Vec<(cfg::Cfg, String)> = vec![];
    // boundary of the nesting limit, systematically: exactly / one less / one more than max_nesting nested links,
    // images and quotes, with EMPTY and non-empty innermost content, with and without an emphasis-like rule (no
    // emphasis-like rule = no join pass that would tidy up afterwards)
    for mn in [1u32, 2, 3, 4] {
        for k in [mn as usize - 1, mn as usize, mn as usize + 1] {
            if k == 0 { continue; }
            for inner in ["", "a", " ", "*"] {
                for with_emph in [false, true] {
                    let mut c = cfg::Cfg::cmark_only();
                    if !with_emph { c.mask &= !(1 << 3); } // bit 3 = emphasis (NAMES order)
                    c.max_nesting = mn;
                    cases.push((c.clone(), format!("{}{}{}", "![".repeat(k), inner, "](u)".repeat(k))));
                    cases.push((c.clone(), format!("{}{}{}", "[".repeat(k), inner, "](u)".repeat(k))));
                    cases.push((c.clone(), format!("{}{}", "> ".repeat(k), if inner.is_empty() { "[](u)" } else { inner })));
                    cases.push((c.clone(), format!("{}![{}](u)", "- ".repeat((k + 1) / 2), inner)));
                }
            }
        }
    }
    // DEEP trees: the post passes (splice, join) must reach every depth the parser can produce - block nesting and inline
    // nesting add up (about 100 + 100 + emphasis allowance under the default limit); leftovers at the bottom: an unmatched
    // delimiter run, an empty label, adjacent texts
    for (q, l, e) in [(99usize, 0usize, 29usize), (95, 0, 40), (0, 45, 45), (60, 19, 60), (99, 0, 99), (30, 30, 90), (0, 0, 99)] {
        for leaf in ["x * y", "x _ y __", "[](u) *", "a\\\nb *", "`c` ~ d"] {
            let mut inner = String::new();
            for i in 0..e { inner.push_str(if i % 2 == 0 { "*a " } else { "_a " }); }
            inner.push_str(leaf);
            for i in (0..e).rev() { inner.push_str(if i % 2 == 0 { " a*" } else { " a_" }); }
            let d = format!("{}{}{}", "> ".repeat(q), "- ".repeat(l), inner);
            cases.push((cfg::Cfg::stock(), d.clone()));
            cases.push((cfg::Cfg::full(), d));
        }
    }
    for _ in 0..n {
        let c = cfg::sample(rng, true, true);
        let d = if rng.chance(1, 4) { crate::oracle::c05::targeted(rng) } else { doc::any_doc(rng) };
        cases.push((c, d));
    }
    let res = crate::run::big_stack(move || {
        let mut rep = Report::new();
        for (c, d) in cases {
            let input = format!("cfg[{}] src={}", c.describe(), hexs(&d));
            let md = c.build();
            let tree = match crate::util::guarded(|| md.parse(&d)) { Ok(t) => t, Err(_) => { rep.stats.count("skipped_panic_C01"); continue; } };
            rep.stats.case(&input, crate::dump::size(&tree) > 3);
            if let Err((class, detail)) = wf(&tree) {
                rep.violation(&class, input, detail);
            }
        }
        rep
    });
    rep.stats = res.stats;
    rep.violations = res.violations;
}
