//! Implementation-side oracles: the property stated directly on the real crate.
use crate::rng::Rng;
use crate::util::{jstr, Stats};

pub mod c01;
pub mod c02;
pub mod c03;
pub mod c04;
pub mod c05;
pub mod c06;
pub mod c07;
pub mod c08;
pub mod c09;
pub mod c10;
pub mod c11;
pub mod c12;
pub mod c13;
pub mod c14;
pub mod c15;
pub mod c16;
pub mod c17;
pub mod c18;
pub mod c19;
pub mod c20;

pub struct Violation {
    pub class: String,     // short slug of what failed (used for known-finding matching)
    pub input: String,     // hex / textual replay input
    pub detail: String,    // observed vs required
}

pub struct Report {
    pub stats: Stats,
    pub violations: Vec<Violation>,
}

impl Report {
    pub fn new() -> Self { Report { stats: Stats::default(), violations: vec![] } }
    pub fn violation(&mut self, class: &str, input: String, detail: String) {
        if self.violations.len() < 200 {
            self.violations.push(Violation { class: class.into(), input, detail });
        }
    }
    pub fn json(&self) -> String {
        let vs: Vec<String> = self.violations.iter().map(|v| format!(
            "{{\"class\":{},\"input\":{},\"detail\":{}}}", jstr(&v.class), jstr(&v.input), jstr(&v.detail))).collect();
        format!("{{\"stats\":{},\"violations\":[{}]}}", self.stats.json(), vs.join(","))
    }
}

pub type OracleFn = fn(n: usize, rng: &mut Rng, rep: &mut Report);

pub fn oracles() -> Vec<(&'static str, OracleFn)> {
    vec![
        ("C01", c01::run as OracleFn),
        ("C02", c02::run as OracleFn),
        ("C03", c03::run as OracleFn),
        ("C04", c04::run as OracleFn),
        ("C05", c05::run as OracleFn),
        ("C06", c06::run as OracleFn),
        ("C07", c07::run as OracleFn),
        ("C08", c08::run as OracleFn),
        ("C09", c09::run as OracleFn),
        ("C10", c10::run as OracleFn),
        ("C11", c11::run as OracleFn),
        ("C12", c12::run as OracleFn),
        ("C13", c13::run as OracleFn),
        ("C14", c14::run as OracleFn),
        ("C15", c15::run as OracleFn),
        ("C16", c16::run as OracleFn),
        ("C17", c17::run as OracleFn),
        ("C18", c18::run as OracleFn),
        ("C19", c19::run as OracleFn),
        ("C20", c20::run as OracleFn),
    ]
}
