//! Implementation-side oracles: the property stated directly on the real crate.
use crate::rng::Rng;
use crate::util::{jstr, Stats};

pub mod c17;

pub struct Violation {
    pub class: String,     // short slug of what failed (used for known-finding matching)
    pub input: String,     // hex / textual replay input
    pub detail: String,    // observed vs required
}

pub struct Report {
    pub stats: Stats,
    pub violations: Vec<Violation>,
}

impl Report {
    pub fn new() -> Self { Report { stats: Stats::default(), violations: vec![] } }
    pub fn violation(&mut self, class: &str, input: String, detail: String) {
        if self.violations.len() < 200 {
            self.violations.push(Violation { class: class.into(), input, detail });
        }
    }
    pub fn json(&self) -> String {
        let vs: Vec<String> = self.violations.iter().map(|v| format!(
            "{{\"class\":{},\"input\":{},\"detail\":{}}}", jstr(&v.class), jstr(&v.input), jstr(&v.detail))).collect();
        format!("{{\"stats\":{},\"violations\":[{}]}}", self.stats.json(), vs.join(","))
    }
}

pub type OracleFn = fn(n: usize, rng: &mut Rng, rep: &mut Report);

pub fn oracles() -> Vec<(&'static str, OracleFn)> {
    vec![
        ("C17", c17::run as OracleFn),
    ]
}
