//! C15: byte offset -> (line, column) agrees with the direct definition.
use super::Report;
use crate::rng::Rng;
use crate::util::hexs;
use markdown_it::common::sourcemap::{SourcePos, SourceWithLineStarts};

pub fn gen_text(rng: &mut Rng) -> String {
    let lines = rng.range(0, 5);
    let mut s = String::new();
    for _ in 0..lines {
        let len = *rng.pick(&[0usize, 1, 3, 14, 15, 16, 17, 18, 30, 31, 32, 33, 34, 47, 48, 49, 64, 65, 70]);
        for _ in 0..len {
            s.push(match rng.below(10) { 0 => 'é', 1 => '日', 2 => '😀', 3 => ' ', _ => char::from_u32(rng.range(0x21, 0x7e) as u32).unwrap() });
        }
        s.push_str(*rng.pick(&["\n", "\n", "\r\n", "\r", "\n\n", "\r\r\n", ""]));
    }
    s
}

/// the property's direct definition (clamped); the empty text gives (1,0)
pub fn spec(src: &str, off: usize) -> (u32, u32) {
    if src.is_empty() { return (1, 0); }
    let b = src.as_bytes();
    let o = off.min(b.len() - 1);
    let line_end = |j: usize| b[j] == b'\n' || (b[j] == b'\r' && !(j + 1 < b.len() && b[j + 1] == b'\n'));
    let mut line = 1u32;
    let mut last: isize = -1;
    for j in 0..=o { if line_end(j) { line += 1; last = j as isize; } }
    let mut col = 0u32;
    for (k, _) in src.char_indices() { if (k as isize) > last && k <= o { col += 1; } }
    (line, col)
}

/// "and hence every source-position attribute in the output": attributes written by the sourcepos plugin
fn attributes(n: usize, rng: &mut Rng, rep: &mut Report) {
    let mut c = crate::cfg::Cfg::stock();
    c.mask |= 1 << crate::cfg::SOURCEPOS;
    let stock_md = c.build();
    for i in 0..n {
        // every third case: another plugin subset and registration ORDER (the position plugin may be registered first)
        let sampled;
        let (md, cdesc) = if i % 3 == 1 {
            let mut c = crate::cfg::sample(rng, false, true);
            c.mask |= 1 << crate::cfg::SOURCEPOS;
            if c.order_seed == 0 { c.order_seed = 1 + rng.below(1000) as u64; }
            sampled = c.build();
            (&sampled, c.describe())
        } else { (&stock_md, c.describe()) };
        let mut d = match i % 5 { 0 => gen_text(rng), 1 => crate::gen::doc::grammar_doc(rng).replace('\n', "\r"), 2 => format!("\u{feff}{}", crate::gen::doc::grammar_doc(rng)), _ => crate::gen::doc::any_doc(rng) };
        if i % 7 == 0 { d = d.chars().filter(|c| c.is_ascii()).collect::<String>().replace('\n', "\r"); }
        let tree = match crate::util::guarded(|| md.parse(&d)) { Ok(t) => t, Err(_) => continue };
        let input = format!("cfg[{}] doc={}", cdesc, hexs(&d));
        let mut bad = None;
        let mut k = 0;
        tree.walk(|node, _| {
            if let (Some(m), Some((_, v))) = (node.srcmap, node.attrs.iter().find(|(k, _)| *k == "data-sourcepos")) {
                let (a, b) = m.get_byte_offsets();
                let s = spec(&d, a); let e = spec(&d, if b > 0 { b - 1 } else { 0 });
                let want = format!("{}:{}-{}:{}", s.0, s.1, e.0, e.1);
                k += 1;
                if *v != want && bad.is_none() { bad = Some(format!("node with range ({},{}) carries data-sourcepos {:?}, the definition gives {:?}", a, b, v, want)); }
            }
        });
        rep.stats.case(&input, k > 2);
        rep.stats.add("attributes_checked", k);
        if let Some(b) = bad { rep.violation("attribute", input, b); }
    }
}

pub fn run(n: usize, rng: &mut Rng, rep: &mut Report) {
    attributes(n * 4, rng, rep);
    let fixed = ["", "a", "abc\ndef", "a\r\nb", "\r\r\n\n", "\n", "\r", "é", "0123456789abcdef0123456789abcdef0123456789", "日本語\n日本語日本語日本語日本語日本語日本語日本語"];
    for i in 0..n + fixed.len() {
        let t = if i < fixed.len() { fixed[i].to_string() } else { gen_text(rng) };
        let map = match crate::util::guarded(|| SourceWithLineStarts::new(&t)) { Ok(m) => m, Err(e) => { rep.violation("panic", format!("text={}", hexs(&t)), e); continue; } };
        let mut bad = None;
        for off in 0..t.len() + 3 {
            // get_positions((off, off+1)) evaluates get_position(off) twice (start, and end-1 = off)
            let r = crate::util::guarded(|| SourcePos::new(off, off + 1).get_positions(&map));
            rep.stats.evaluations += 1;
            match r {
                Err(e) => { bad = Some((off, format!("panic {}", e))); break; }
                Ok((s, e)) => {
                    let want = spec(&t, off);
                    if s != want || e != want { bad = Some((off, format!("get_position({}) = {:?}/{:?}, definition gives {:?}", off, s, e, want))); break; }
                }
            }
        }
        let input = format!("text={}", hexs(&t));
        rep.stats.case(&input, t.chars().count() > 16 || t.contains('\r'));
        rep.stats.evaluations -= 1;
        if let Some((off, d)) = bad { rep.violation("position", format!("{} offset={}", input, off), d); }
        // range form: end uses end-1 unless end == 0
        let a = rng.below(t.len() + 2); let b = a + rng.below(4);
        if let Ok((s, e)) = crate::util::guarded(|| SourcePos::new(a, b).get_positions(&map)) {
            let we = spec(&t, if b > 0 { b - 1 } else { 0 });
            if s != spec(&t, a) || e != we { rep.violation("range", format!("{} range=({},{})", input, a, b), format!("got {:?}-{:?}", s, e)); }
        }
    }
}
