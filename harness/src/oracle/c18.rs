//! C18: image alt text = the plain text its description would display.
use super::Report;
use crate::cfg::Cfg;
use crate::dump::kind;
use crate::gen::doc;
use crate::rng::Rng;
use crate::util::hexs;
use markdown_it::Node;
use markdown_it::parser::inline::{Text, TextSpecial};

/// what a list of inline nodes displays as plain text
pub fn display(nodes: &[Node], out: &mut String) {
    for n in nodes {
        if let Some(t) = n.cast::<Text>() { out.push_str(&t.content); }
        else if let Some(t) = n.cast::<TextSpecial>() { out.push_str(&t.content); }
        else if kind(n) == "Softbreak" || kind(n) == "Hardbreak" { out.push('\n'); }
        else { display(&n.children, out); } // emphasis, links, code spans, nested images, autolinks
    }
}

fn images<'a>(n: &'a Node, out: &mut Vec<&'a Node>) {
    if kind(n) == "Image" { out.push(n); return; } // outermost only
    for c in n.children.iter() { images(c, out); }
}

fn attr_unescape(s: &str) -> String {
    s.replace("&lt;", "<").replace("&gt;", ">").replace("&quot;", "\"").replace("&amp;", "&")
}

pub fn run(n: usize, rng: &mut Rng, rep: &mut Report) {
    let md = Cfg::cmark_only().build();
    let corpus = ["![a \\* &amp; b\nc](x)", "![*e* `c` [l](u) ![i](v) <http://a.b>](x)", "![a  \nb\\\nc](x)",
                  "![*](x)", "![**](x)", "![_](x)", "![a *_* b](x)", "![see [*](/n) below](x)", "![~](x)", "![\nfoo](x)", "![a&#10;\nb](x)", "![a ![\nb](/i) c](x)"];
    for i in 0..n + corpus.len() {
        let d = if i < corpus.len() { corpus[i].to_string() } else if rng.chance(1, 5) {
            // containers whose only child is a lone delimiter run / a break at the start
            let lone = *rng.pick(&["*", "**", "_", "__", "~", "***", "\n", "&#10;\n", "\\\n"]);
            match rng.below(4) { 0 => format!("![{}](/x)", lone), 1 => format!("![a [{}](/n) b](/x)", lone), 2 => format!("![*{}* c](/x)", lone), _ => format!("![a ![{}b](/i) c](/x)", lone) }
        } else { format!("![{}](/x)", doc::inline_text(rng, 1, 5)) };
        let input = format!("src={}", hexs(&d));
        let tree = match crate::util::guarded(|| md.parse(&d)) { Ok(t) => t, Err(_) => { rep.stats.count("skipped_panic_C01"); continue; } };
        let mut imgs = vec![];
        images(&tree, &mut imgs);
        rep.stats.case(&input, !imgs.is_empty() && imgs[0].children.len() > 1);
        for im in imgs {
            let mut want = String::new();
            display(&im.children, &mut want);
            let html = im.render();
            // the outermost img element is the whole rendering: <img src="..." alt="..." [title=".."]>
            let got = html.find(" alt=\"").map(|i| { let r = &html[i + 6..]; attr_unescape(&r[..r.find('"').unwrap_or(r.len())]) });
            if got.as_deref() != Some(&want.replace('\0', "\u{fffd}")) {
                rep.violation("alt-text", input.clone(), format!("alt {:?}, description displays {:?}", got, want));
                break;
            }
        }
    }
}
