//! C18: image alt text = the plain text its description would display.
use super::Report;
use crate::cfg::Cfg;
use crate::dump::kind;
use crate::gen::doc;
use crate::rng::Rng;
use crate::util::hexs;
use markdown_it::Node;
use markdown_it::parser::inline::{Text, TextSpecial};

/// what a list of inline nodes displays as plain text
pub fn display(nodes: &[Node], out: &mut String) {
    for n in nodes {
        if let Some(t) = n.cast::<Text>() { out.push_str(&t.content); }
        else if let Some(t) = n.cast::<TextSpecial>() { out.push_str(&t.content); }
        else if kind(n) == "Softbreak" || kind(n) == "Hardbreak" { out.push('\n'); }
        else { display(&n.children, out); } // emphasis, links, code spans, nested images, autolinks
    }
}

fn images<'a>(n: &'a Node, out: &mut Vec<&'a Node>) {
    if kind(n) == "Image" { out.push(n); return; } // outermost only
    for c in n.children.iter() { images(c, out); }
}

fn attr_unescape(s: &str) -> String {
    s.replace("&lt;", "<").replace("&gt;", ">").replace("&quot;", "\"").replace("&amp;", "&")
}

/// independent second reading of "what the description displays": render the description's nodes through the
/// real HTML renderer (as the content of a paragraph) and strip the markup
fn display_via_html(children: Vec<Node>) -> String {
    let mut p = Node::new(markdown_it::plugins::cmark::block::paragraph::Paragraph);
    p.children = children;
    let html = p.render();
    let body = html.trim_end_matches('\n').strip_prefix("<p>").and_then(|x| x.strip_suffix("</p>")).unwrap_or(&html).to_string();
    let mut out = String::new();
    let mut rest = body.as_str();
    while !rest.is_empty() {
        if let Some(r) = rest.strip_prefix('<') {
            let end = r.find('>').unwrap_or(r.len());
            let tag = &r[..end];
            if tag.starts_with("img") {
                if let Some(i) = tag.find(" alt=\"") { let v = &tag[i + 6..]; out.push_str(&attr_unescape(&v[..v.find('"').unwrap_or(v.len())])); }
            }
            rest = &r[(end + 1).min(r.len())..];
            if tag == "br" || tag == "br /" { rest = rest.strip_prefix('\n').map(|x| { out.push('\n'); x }).unwrap_or(rest); }
        } else {
            let end = rest.find('<').unwrap_or(rest.len());
            out.push_str(&attr_unescape(&rest[..end]));
            rest = &rest[end..];
        }
    }
    out
}

fn take_first_image_children(n: &mut Node) -> Option<Vec<Node>> {
    if kind(n) == "Image" { return Some(std::mem::take(&mut n.children)); }
    for c in n.children.iter_mut() { if let Some(v) = take_first_image_children(c) { return Some(v); } }
    None
}

pub fn run(n: usize, rng: &mut Rng, rep: &mut Report) {
    let md = Cfg::cmark_only().build();
    let md_ctx = { let mut c = Cfg::cmark_only(); c.mask |= 1 << crate::cfg::STRIKE; c.build() };
    let corpus = ["![a \\* &amp; b\nc](x)", "![*e* `c` [l](u) ![i](v) <http://a.b>](x)", "![a  \nb\\\nc](x)",
                  "![*](x)", "![**](x)", "![_](x)", "![a *_* b](x)", "![see [*](/n) below](x)", "![~](x)", "![\nfoo](x)", "![a&#10;\nb](x)", "![a ![\nb](/i) c](x)"];
    let deep = format!("![{}x*{}](/x)", "*a ".repeat(300), " b*".repeat(299));
    let deep2 = format!("![{}x{}](/x)", "_a ".repeat(270), " b_".repeat(270));
    // emphasis nesting is limited by max_nesting since fix 8078f5b; descriptions deeper than 256 levels still exist:
    // the allowance restarts below every nested image (30 images x 10 wrappers = depth > 330)
    let deep3 = format!("![{}x{}](/x)", format!("{}![", "*a ".repeat(10)).repeat(30), format!("](u){}", " b*".repeat(10)).repeat(30));
    // images nested exactly up to the nesting limit: when all k images are produced, the outermost alt is the plain word
    for (k, limit) in [(1usize, 1u32), (2, 2), (3, 3), (2, 3), (4, 4), (5, 5), (99, 100), (100, 100), (7, 100)] {
        let d = format!("{}word{}", "![".repeat(k), "](u)".repeat(k));
        let mut c = Cfg::cmark_only(); c.max_nesting = limit;
        let m = c.build();
        if let Ok(t) = crate::util::guarded(|| m.parse(&d)) {
            let mut imgs = vec![]; images(&t, &mut imgs);
            rep.stats.count("nesting_limit_family");
            if imgs.len() == k {
                let html = imgs[0].render();
                let got = html.find(" alt=\"").map(|i| { let r = &html[i + 6..]; attr_unescape(&r[..r.find('"').unwrap_or(r.len())]) }).unwrap_or_default();
                if got != "word" { rep.violation("alt-at-nesting-limit", format!("max_nesting={} src={}", limit, hexs(&d)), format!("{} nested images are produced, the outermost alt is {:?}, the description displays \"word\"", k, got)); }
            }
        }
    }
    for i in 0..n + corpus.len() + 3 {
        let d = if i == n + corpus.len() + 2 { deep3.clone() } else if i == n + corpus.len() { deep.clone() } else if i == n + corpus.len() + 1 { deep2.clone() } else if i < corpus.len() { corpus[i].to_string() } else if rng.chance(1, 5) {
            // containers whose only child is a lone delimiter run / a break at the start
            let lone = *rng.pick(&["*", "**", "_", "__", "~", "***", "\n", "&#10;\n", "\\\n"]);
            match rng.below(4) { 0 => format!("![{}](/x)", lone), 1 => format!("![a [{}](/n) b](/x)", lone), 2 => format!("![*{}* c](/x)", lone), _ => format!("![a ![{}b](/i) c](/x)", lone) }
        } else { format!("![{}](/x)", doc::inline_text(rng, 1, 5)) };
        let input = format!("src={}", hexs(&d));
        let mut tree = match crate::util::guarded(|| md.parse(&d)) { Ok(t) => t, Err(_) => { rep.stats.count("skipped_panic_C01"); continue; } };
        let mut second: Option<(String, String)> = None; // (alt, html-derived display) of the first image
        {
            let mut imgs = vec![];
            images(&tree, &mut imgs);
            if let Some(im) = imgs.first() {
                let html = im.render();
                let got = html.find(" alt=\"").map(|i| { let r = &html[i + 6..]; attr_unescape(&r[..r.find('"').unwrap_or(r.len())]) }).unwrap_or_default();
                second = Some((got, String::new()));
            }
        }
        if let Some((got, _)) = second.clone() {
            // line breaks next to each other / at the start are merged by the HTML renderer's cr rule: not comparable
            if !got.contains("\n\n") && !got.starts_with('\n') && !got.contains('\0') && !got.contains('\u{fffd}') {
                let mut t2 = match crate::util::guarded(|| md.parse(&d)) { Ok(t) => t, Err(_) => continue };
                if let Some(ch) = take_first_image_children(&mut t2) {
                    if let Ok(disp) = crate::util::guarded(move || display_via_html(ch)) {
                        rep.stats.count("compared_with_rendered_description");
                        if disp != got && !disp.contains("\n\n") && !disp.starts_with('\n') {
                            rep.violation("alt-vs-rendered-description", input.clone(), format!("alt {:?}, but the description rendered as inline text displays {:?}", got, disp));
                        }
                    }
                }
            }
        }
        // the description is tokenized on its own: what stands BEFORE the image in the same paragraph (closed and
        // unmatched delimiter runs of every marker) cannot change what the description displays
        if let Some((alone, _)) = second.clone() {
            let pre = *rng.pick(&["*x* y* ", "_a_ b_ ", "**s** t** ", "a* b ", "~~a~~ b~~ ", "x** *y ", "__p__ q__ r_ ", "w ", "*x* y* _a_ b_ "]);
            let d2 = format!("{}{}", pre, d);
            if let Ok(t2) = crate::util::guarded(|| md_ctx.parse(&d2)) {
                let mut imgs = vec![];
                images(&t2, &mut imgs);
                if let Some(im) = imgs.first() {
                    let html = im.render();
                    let got2 = html.find(" alt=\"").map(|i| { let r = &html[i + 6..]; attr_unescape(&r[..r.find('"').unwrap_or(r.len())]) }).unwrap_or_default();
                    let alone2 = if std::ptr::eq(&md, &md_ctx) { alone.clone() } else {
                        let t = md_ctx.parse(&d); let mut v = vec![]; images(&t, &mut v);
                        v.first().map(|im| { let html = im.render(); html.find(" alt=\"").map(|i| { let r = &html[i + 6..]; attr_unescape(&r[..r.find('"').unwrap_or(r.len())]) }).unwrap_or_default() }).unwrap_or_default()
                    };
                    rep.stats.count("compared_in_context");
                    if got2 != alone2 {
                        rep.violation("alt-context-dependent", format!("src={}", hexs(&d2)), format!("alt {:?} after the text {:?}, but {:?} when the image stands alone", got2, pre, alone2));
                    }
                }
            }
        }
        // "the characters its description would display as inline text": the description D on its OWN, as a paragraph,
        // displays what the alt says (D one line, starting with a letter and ending with a letter or digit so that neither a
        // block construct nor the flanking of a final delimiter run can differ; the image covers the whole source)
        if d.starts_with("![") && d.ends_with("](/x)") && !d.contains('\n') {
            let desc = &d[2..d.len() - 5];
            let ok_shape = desc.chars().next().map_or(false, |c| c.is_ascii_alphabetic()) && desc.chars().last().map_or(false, |c| c.is_ascii_alphanumeric());
            let mut imgs = vec![]; images(&tree, &mut imgs);
            let whole = imgs.first().and_then(|im| im.srcmap).map_or(false, |m| m.get_byte_offsets() == (0, d.len()));
            if ok_shape && whole {
                if let (Some((alt, _)), Ok(mut t3)) = (second.clone(), crate::util::guarded(|| md.parse(desc))) {
                    if t3.children.len() == 1 && crate::dump::kind(&t3.children[0]) == "Paragraph" {
                        let ch = std::mem::take(&mut t3.children[0].children);
                        if let Ok(disp) = crate::util::guarded(move || display_via_html(ch)) {
                            rep.stats.count("compared_with_standalone_description");
                            if disp != alt && !alt.contains('\0') && !alt.contains('\u{fffd}') {
                                rep.violation("alt-vs-standalone-description", input.clone(), format!("alt {:?}, but the description parsed on its own displays {:?}", alt, disp));
                            }
                        }
                    }
                }
            }
        }
        let _ = &mut tree;
        let mut imgs = vec![];
        images(&tree, &mut imgs);
        rep.stats.case(&input, !imgs.is_empty() && imgs[0].children.len() > 1);
        for im in imgs {
            let mut want = String::new();
            display(&im.children, &mut want);
            let html = im.render();
            // the outermost img element is the whole rendering: <img src="..." alt="..." [title=".."]>
            let got = html.find(" alt=\"").map(|i| { let r = &html[i + 6..]; attr_unescape(&r[..r.find('"').unwrap_or(r.len())]) });
            if got.as_deref() != Some(&want.replace('\0', "\u{fffd}")) {
                rep.violation("alt-text", input.clone(), format!("alt {:?}, description displays {:?}", got, want));
                break;
            }
        }
    }
}
