//! C09 on the real `Ruler`: permutation, constraints, greedy canonical order, loud failure.
use super::Report;
use crate::rng::Rng;
use crate::util::guarded;
use markdown_it::common::ruler::Ruler;

#[derive(Clone, Debug)]
pub enum Con { Before(usize), After(usize), Require(usize) }
#[derive(Clone, Debug)]
pub struct Item { pub marks: Vec<usize>, pub prio: u8, pub cons: Vec<Con> } // prio 0 normal, 1 before_all, 2 after_all

pub fn gen_rules(rng: &mut Rng) -> Vec<Item> {
    // mostly small sets; sometimes large ones (sorting / hashing implementations change behaviour with size)
    let n = if rng.chance(1, 6) { rng.range(18, 48) } else { rng.range(0, 9) };
    let nmarks = rng.range(1, 12).max(if n > 9 { n } else { 1 });
    let mut v = vec![];
    for i in 0..n {
        let mut marks = vec![if rng.chance(4, 5) { i } else { rng.below(nmarks) }];
        for _ in 0..rng.below(3) { if rng.chance(1, 2) { marks.push(20 + rng.below(3)); } }
        let prio = match rng.below(6) { 0 => 1, 1 => 2, _ => 0 };
        let mut cons = vec![];
        let dense = rng.chance(1, 3) && n <= 9;
        if n > 9 && !rng.chance(1, 6) { v.push(Item { marks, prio, cons }); continue; }
        for _ in 0..rng.below(if dense { 4 } else { 2 }) {
            let m = match rng.below(10) { 0 => 99, 1 => 20 + rng.below(3), _ => rng.below(n.max(1)) };
            cons.push(match rng.below(7) { 0..=2 => Con::Before(m), 3..=5 => Con::After(m), _ => Con::Require(m) });
        }
        v.push(Item { marks, prio, cons });
    }
    v
}

pub fn encode(rules: &[Item]) -> String {
    if rules.is_empty() { return "-".into(); }
    rules.iter().map(|r| format!("{}|{}|{}",
        r.marks.iter().map(|m| m.to_string()).collect::<Vec<_>>().join(","),
        ["n", "b", "a"][r.prio as usize],
        r.cons.iter().map(|c| match c { Con::Before(m) => format!("b{}", m), Con::After(m) => format!("a{}", m), Con::Require(m) => format!("r{}", m) }).collect::<Vec<_>>().join(","))).collect::<Vec<_>>().join(";")
}

pub fn build(rules: &[Item]) -> Ruler<usize, usize> {
    let mut r = Ruler::new();
    for (i, it) in rules.iter().enumerate() {
        let item = r.add(it.marks[0], i);
        for m in it.marks.iter().skip(1) { item.alias(*m); }
        match it.prio { 1 => { item.before_all(); } 2 => { item.after_all(); } _ => {} }
        for c in it.cons.iter() { match c { Con::Before(m) => { item.before(*m); } Con::After(m) => { item.after(*m); } Con::Require(m) => { item.require(*m); } } }
    }
    r
}

/// canonical answer of the real ruler: ok:<indices> | missing | cyclic | PANIC:<msg>
pub fn real(rules: &[Item]) -> String {
    let r = build(rules);
    match guarded(|| r.iter().copied().collect::<Vec<usize>>()) {
        Ok(v) => format!("ok:{}", v.iter().map(|x| x.to_string()).collect::<Vec<_>>().join(",")),
        Err(e) if e.starts_with("missing dependency") => {
            // message: missing dependency: <first mark> requires <mark>
            let parts: Vec<&str> = e.split(" @ ").next().unwrap().split_whitespace().collect();
            format!("missing:{}:{}", parts.get(2).unwrap_or(&"?"), parts.get(4).unwrap_or(&"?"))
        }
        Err(e) if e.starts_with("cyclic dependency") => "cyclic".into(),
        Err(e) => format!("PANIC:{}", e),
    }
}

/// i must precede j
pub fn edge(rules: &[Item], i: usize, j: usize) -> bool {
    rules[i].cons.iter().any(|c| matches!(c, Con::Before(m) if rules[j].marks.contains(m)))
        || rules[j].cons.iter().any(|c| matches!(c, Con::After(m) if rules[i].marks.contains(m)))
}

pub fn spec(rules: &[Item]) -> String {
    let n = rules.len();
    let held = |m: usize| rules.iter().any(|r| r.marks.contains(&m));
    // rank order: before_all, normal, after_all; insertion order within a class
    let mut order: Vec<usize> = vec![];
    for p in [1u8, 0, 2] { for i in 0..n { if rules[i].prio == p { order.push(i); } } }
    // missing requirement (first in rank order, then constraint order)
    for &i in order.iter() { for c in rules[i].cons.iter() { if let Con::Require(m) = c { if !held(*m) { return format!("missing:{}:{}", rules[i].marks[0], m); } } } }
    let mut placed: Vec<usize> = vec![];
    while placed.len() < n {
        let next = order.iter().copied().find(|&j| !placed.contains(&j) && (0..n).all(|i| !edge(rules, i, j) || placed.contains(&i)));
        match next { Some(j) => placed.push(j), None => return "cyclic".into() }
    }
    format!("ok:{}", placed.iter().map(|x| x.to_string()).collect::<Vec<_>>().join(","))
}

// ---- the chain order on EVERY use inside the parser: tokenizer loops and look-ahead sweeps -------------------
use markdown_it::parser::block::{BlockRule, BlockState};
use markdown_it::parser::inline::{InlineRule, InlineState};
use markdown_it::{MarkdownIt, Node, NodeValue, Renderer};
use std::cell::RefCell;

thread_local! {
    /// (block?, line or pos, silent, tracer index, verdict) in execution order
    static SWEEP: RefCell<Vec<(bool, usize, bool, usize, bool)>> = RefCell::new(vec![]);
}
#[derive(Debug)]
struct TrNode;
impl NodeValue for TrNode { fn render(&self, _: &Node, fmt: &mut dyn Renderer) { fmt.text("@"); } }

/// block tracer `N`: a one-line block `<letter N>@...`; follows the look-ahead contract
struct TrB<const N: usize>;
impl<const N: usize> BlockRule for TrB<N> {
    fn run(state: &mut BlockState, silent: bool) -> bool {
        let line = state.line;
        let ok = state.line_indent(line) < 4 && {
            let mut c = state.get_line(line).chars();
            c.next() == Some((b'a' + N as u8) as char) && c.next() == Some('@')
        };
        SWEEP.with(|l| l.borrow_mut().push((true, line, silent, N, ok)));
        if !ok { return false; }
        if !silent {
            let mut node = Node::new(TrNode);
            node.srcmap = state.get_map(line, line);
            state.node.children.push(node);
            state.line += 1;
        }
        true
    }
}
/// inline tracer `N`: the two characters `@<digit N>`
struct TrI<const N: usize>;
impl<const N: usize> InlineRule for TrI<N> {
    const MARKER: char = '@';
    fn run(state: &mut InlineState, silent: bool) -> Option<usize> {
        let pos = state.pos;
        let mut c = state.src[state.pos..state.pos_max].chars();
        let ok = c.next() == Some('@') && c.next() == Some((b'0' + N as u8) as char);
        SWEEP.with(|l| l.borrow_mut().push((false, pos, silent, N, ok)));
        if !ok { return None; }
        if !silent {
            let mut node = Node::new(TrNode);
            node.srcmap = state.get_map(pos, pos + 2);
            state.node.children.push(node);
        }
        Some(2)
    }
}

/// register tracers 0..k in the order `perm`, with before/after constraints that force the chain order 0,1,..,k-1
fn add_tracers(md: &mut MarkdownIt, perm: &[usize], block: bool) {
    let mut have = [false; 6];
    macro_rules! addb { ($n:literal, $i:expr) => {{
        let b = md.block.add_rule::<TrB<$n>>();
        let b = if $i > 0 && have[$i - 1] { match $i - 1 { 0 => b.after::<TrB<0>>(), 1 => b.after::<TrB<1>>(), 2 => b.after::<TrB<2>>(), 3 => b.after::<TrB<3>>(), _ => b.after::<TrB<4>>() } } else { b };
        if $i < 5 && have[$i + 1] { match $i + 1 { 1 => { b.before::<TrB<1>>(); } 2 => { b.before::<TrB<2>>(); } 3 => { b.before::<TrB<3>>(); } 4 => { b.before::<TrB<4>>(); } _ => { b.before::<TrB<5>>(); } } }
    }} }
    macro_rules! addi { ($n:literal, $i:expr) => {{
        let b = md.inline.add_rule::<TrI<$n>>();
        let b = if $i > 0 && have[$i - 1] { match $i - 1 { 0 => b.after::<TrI<0>>(), 1 => b.after::<TrI<1>>(), 2 => b.after::<TrI<2>>(), 3 => b.after::<TrI<3>>(), _ => b.after::<TrI<4>>() } } else { b };
        if $i < 5 && have[$i + 1] { match $i + 1 { 1 => { b.before::<TrI<1>>(); } 2 => { b.before::<TrI<2>>(); } 3 => { b.before::<TrI<3>>(); } 4 => { b.before::<TrI<4>>(); } _ => { b.before::<TrI<5>>(); } } }
    }} }
    for &i in perm {
        if block { match i { 0 => addb!(0, i), 1 => addb!(1, i), 2 => addb!(2, i), 3 => addb!(3, i), 4 => addb!(4, i), _ => addb!(5, i) } }
        else { match i { 0 => addi!(0, i), 1 => addi!(1, i), 2 => addi!(2, i), 3 => addi!(3, i), 4 => addi!(4, i), _ => addi!(5, i) } }
        have[i] = true;
    }
}

fn sweep_doc(rng: &mut Rng, k: usize) -> String {
    let mut s = String::new();
    for _ in 0..rng.range(2, 9) {
        let pre = *rng.pick(&["", "", "", "> ", "- ", "  ", "   ", "    ", "1. ", "> > "]);
        let t = rng.below(k.max(1));
        let body = match rng.below(9) {
            0 | 1 => format!("{}@ x", (b'a' + t as u8) as char),
            2 | 3 => format!("text @{} more [l @{}](u) *e @{}*", t, rng.below(k.max(1)), rng.below(k.max(1))),
            4 => "plain words".to_string(),
            5 => String::new(),
            6 => "# head @0".to_string(),
            7 => "===".to_string(),
            _ => format!("w @{}@{} `@{}`", t, rng.below(k.max(1)), t),
        };
        s.push_str(pre); s.push_str(&body); s.push('\n');
    }
    s
}

/// every sweep over the chain - main loops and look-ahead alike, at every nesting depth - asks the rules in chain
/// order from the first one, and goes on to the next rule only when the previous one declined
fn sweep_order(n: usize, rng: &mut Rng, rep: &mut Report) {
    for _ in 0..n {
        let k = rng.range(2, 6);
        let mut perm: Vec<usize> = (0..k).collect();
        for i in (1..k).rev() { let j = rng.below(i + 1); perm.swap(i, j); }
        let mut perm_i = perm.clone();
        for i in (1..k).rev() { let j = rng.below(i + 1); perm_i.swap(i, j); }
        let src = sweep_doc(rng, k);
        let input = format!("tracers registered {:?} (block) {:?} (inline), constraints force 0..{}; src={}", perm, perm_i, k, crate::util::hexs(&src));
        let mut md = MarkdownIt::new();
        markdown_it::plugins::cmark::add(&mut md);
        add_tracers(&mut md, &perm, true);
        add_tracers(&mut md, &perm_i, false);
        SWEEP.with(|l| l.borrow_mut().clear());
        let r = guarded(|| { let t = md.parse(&src); t.render() });
        let log = SWEEP.with(|l| l.borrow().clone());
        rep.stats.case(&input, log.len() >= 6);
        rep.stats.add("sweep_calls", log.len() as u64);
        if r.is_err() { rep.violation("panic", input.clone(), format!("{:?}", r)); continue; }
        let mut prev: Option<(bool, usize, bool, usize, bool)> = None;
        for e in log.iter() {
            let ok = e.3 == 0 || matches!(prev, Some(p) if p.0 == e.0 && p.1 == e.1 && p.2 == e.2 && p.3 + 1 == e.3 && !p.4);
            if !ok {
                rep.violation("sweep-order", input.clone(), format!("{} rule #{} was asked at {} {} (look-ahead={}) although the previous call was {:?}: every use of the chain must start with rule #0 and follow the constrained order",
                    if e.0 { "block" } else { "inline" }, e.3, if e.0 { "line" } else { "pos" }, e.1, e.2, prev));
                break;
            }
            prev = Some(*e);
        }
    }
}

pub fn run(n: usize, rng: &mut Rng, rep: &mut Report) {
    sweep_order(n / 25 + 20, rng, rep);
    // corpus: phantom holder
    let corpus = vec![vec![Item { marks: vec![0], prio: 0, cons: vec![Con::Before(25)] }, Item { marks: vec![1], prio: 0, cons: vec![Con::Require(25)] }]];
    for i in 0..n + corpus.len() {
        let rules = if i < corpus.len() { corpus[i].clone() } else { gen_rules(rng) };
        let input = format!("rules={}", encode(&rules));
        let got = real(&rules);
        let want = spec(&rules);
        rep.stats.case(&input, rules.iter().map(|r| r.cons.len()).sum::<usize>() >= 2);
        rep.stats.count(if got.starts_with("ok") { "ok" } else if got.starts_with("missing") { "missing" } else { "cyclic" });
        let (got, want) = (if got.starts_with("missing") { "missing".to_string() } else { got }, if want.starts_with("missing") { "missing".to_string() } else { want });
        if got != want {
            let class = if want.starts_with("missing") && got.starts_with("ok") { "missing-not-reported" } else if want == "cyclic" && got.starts_with("ok") { "cycle-not-reported" } else if got.starts_with("PANIC") { "panic" } else { "order" };
            rep.violation(class, input.clone(), format!("ruler answers {} but the specification gives {}", got, want));
        }
        // use, remove a mark, use again: the second order must be the canonical order of the remaining rules
        if !rules.is_empty() && rng.chance(1, 2) {
            let mut r = build(&rules);
            let _ = guarded(|| r.iter().copied().collect::<Vec<usize>>());
            let vi = rng.below(rules.len()); let victim = *rng.pick(&rules[vi].marks);
            r.remove(victim);
            let got2 = match guarded(|| r.iter().copied().collect::<Vec<usize>>()) {
                Ok(v) => format!("ok:{}", v.iter().map(|x| x.to_string()).collect::<Vec<_>>().join(",")),
                Err(e) if e.starts_with("missing dependency") => "missing".into(),
                Err(e) if e.starts_with("cyclic dependency") => "cyclic".into(),
                Err(e) => format!("PANIC:{}", e),
            };
            // payloads are the original indices: map the specification's answer on the remaining rules back to them
            let keep: Vec<usize> = (0..rules.len()).filter(|i| !rules[*i].marks.contains(&victim)).collect();
            let rest: Vec<Item> = keep.iter().map(|i| rules[*i].clone()).collect();
            let mut want2 = spec(&rest);
            if let Some(l) = want2.strip_prefix("ok:") { want2 = format!("ok:{}", l.split(',').filter(|x| !x.is_empty()).map(|x| keep[x.parse::<usize>().unwrap()].to_string()).collect::<Vec<_>>().join(",")); }
            if want2.starts_with("missing") { want2 = "missing".into(); }
            if got2 != want2 { rep.violation("order-after-remove", format!("{} then use, remove({}), use", input, victim), format!("ruler answers {} but the remaining rules canonically give {}", got2, want2)); }
        }
        // the order is the same on every use
        let r = build(&rules);
        if let (Ok(a), Ok(b)) = (guarded(|| r.iter().copied().collect::<Vec<usize>>()), guarded(|| r.iter().copied().collect::<Vec<usize>>())) {
            if a != b { rep.violation("unstable", input, format!("{:?} then {:?}", a, b)); }
        }
    }
}
