//! C09 on the real `Ruler`: permutation, constraints, greedy canonical order, loud failure.
use super::Report;
use crate::rng::Rng;
use crate::util::guarded;
use markdown_it::common::ruler::Ruler;

#[derive(Clone, Debug)]
pub enum Con { Before(usize), After(usize), Require(usize) }
#[derive(Clone, Debug)]
pub struct Item { pub marks: Vec<usize>, pub prio: u8, pub cons: Vec<Con> } // prio 0 normal, 1 before_all, 2 after_all

pub fn gen_rules(rng: &mut Rng) -> Vec<Item> {
    // mostly small sets; sometimes large ones (sorting / hashing implementations change behaviour with size)
    let n = if rng.chance(1, 6) { rng.range(18, 48) } else { rng.range(0, 9) };
    let nmarks = rng.range(1, 12).max(if n > 9 { n } else { 1 });
    let mut v = vec![];
    for i in 0..n {
        let mut marks = vec![if rng.chance(4, 5) { i } else { rng.below(nmarks) }];
        for _ in 0..rng.below(3) { if rng.chance(1, 2) { marks.push(20 + rng.below(3)); } }
        let prio = match rng.below(6) { 0 => 1, 1 => 2, _ => 0 };
        let mut cons = vec![];
        let dense = rng.chance(1, 3) && n <= 9;
        if n > 9 && !rng.chance(1, 6) { v.push(Item { marks, prio, cons }); continue; }
        for _ in 0..rng.below(if dense { 4 } else { 2 }) {
            let m = match rng.below(10) { 0 => 99, 1 => 20 + rng.below(3), _ => rng.below(n.max(1)) };
            cons.push(match rng.below(7) { 0..=2 => Con::Before(m), 3..=5 => Con::After(m), _ => Con::Require(m) });
        }
        v.push(Item { marks, prio, cons });
    }
    v
}

pub fn encode(rules: &[Item]) -> String {
    if rules.is_empty() { return "-".into(); }
    rules.iter().map(|r| format!("{}|{}|{}",
        r.marks.iter().map(|m| m.to_string()).collect::<Vec<_>>().join(","),
        ["n", "b", "a"][r.prio as usize],
        r.cons.iter().map(|c| match c { Con::Before(m) => format!("b{}", m), Con::After(m) => format!("a{}", m), Con::Require(m) => format!("r{}", m) }).collect::<Vec<_>>().join(","))).collect::<Vec<_>>().join(";")
}

pub fn build(rules: &[Item]) -> Ruler<usize, usize> {
    let mut r = Ruler::new();
    for (i, it) in rules.iter().enumerate() {
        let item = r.add(it.marks[0], i);
        for m in it.marks.iter().skip(1) { item.alias(*m); }
        match it.prio { 1 => { item.before_all(); } 2 => { item.after_all(); } _ => {} }
        for c in it.cons.iter() { match c { Con::Before(m) => { item.before(*m); } Con::After(m) => { item.after(*m); } Con::Require(m) => { item.require(*m); } } }
    }
    r
}

/// canonical answer of the real ruler: ok:<indices> | missing | cyclic | PANIC:<msg>
pub fn real(rules: &[Item]) -> String {
    let r = build(rules);
    match guarded(|| r.iter().copied().collect::<Vec<usize>>()) {
        Ok(v) => format!("ok:{}", v.iter().map(|x| x.to_string()).collect::<Vec<_>>().join(",")),
        Err(e) if e.starts_with("missing dependency") => {
            // message: missing dependency: <first mark> requires <mark>
            let parts: Vec<&str> = e.split(" @ ").next().unwrap().split_whitespace().collect();
            format!("missing:{}:{}", parts.get(2).unwrap_or(&"?"), parts.get(4).unwrap_or(&"?"))
        }
        Err(e) if e.starts_with("cyclic dependency") => "cyclic".into(),
        Err(e) => format!("PANIC:{}", e),
    }
}

/// i must precede j
pub fn edge(rules: &[Item], i: usize, j: usize) -> bool {
    rules[i].cons.iter().any(|c| matches!(c, Con::Before(m) if rules[j].marks.contains(m)))
        || rules[j].cons.iter().any(|c| matches!(c, Con::After(m) if rules[i].marks.contains(m)))
}

pub fn spec(rules: &[Item]) -> String {
    let n = rules.len();
    let held = |m: usize| rules.iter().any(|r| r.marks.contains(&m));
    // rank order: before_all, normal, after_all; insertion order within a class
    let mut order: Vec<usize> = vec![];
    for p in [1u8, 0, 2] { for i in 0..n { if rules[i].prio == p { order.push(i); } } }
    // missing requirement (first in rank order, then constraint order)
    for &i in order.iter() { for c in rules[i].cons.iter() { if let Con::Require(m) = c { if !held(*m) { return format!("missing:{}:{}", rules[i].marks[0], m); } } } }
    let mut placed: Vec<usize> = vec![];
    while placed.len() < n {
        let next = order.iter().copied().find(|&j| !placed.contains(&j) && (0..n).all(|i| !edge(rules, i, j) || placed.contains(&i)));
        match next { Some(j) => placed.push(j), None => return "cyclic".into() }
    }
    format!("ok:{}", placed.iter().map(|x| x.to_string()).collect::<Vec<_>>().join(","))
}

pub fn run(n: usize, rng: &mut Rng, rep: &mut Report) {
    // corpus: phantom holder
    let corpus = vec![vec![Item { marks: vec![0], prio: 0, cons: vec![Con::Before(25)] }, Item { marks: vec![1], prio: 0, cons: vec![Con::Require(25)] }]];
    for i in 0..n + corpus.len() {
        let rules = if i < corpus.len() { corpus[i].clone() } else { gen_rules(rng) };
        let input = format!("rules={}", encode(&rules));
        let got = real(&rules);
        let want = spec(&rules);
        rep.stats.case(&input, rules.iter().map(|r| r.cons.len()).sum::<usize>() >= 2);
        rep.stats.count(if got.starts_with("ok") { "ok" } else if got.starts_with("missing") { "missing" } else { "cyclic" });
        let (got, want) = (if got.starts_with("missing") { "missing".to_string() } else { got }, if want.starts_with("missing") { "missing".to_string() } else { want });
        if got != want {
            let class = if want.starts_with("missing") && got.starts_with("ok") { "missing-not-reported" } else if want == "cyclic" && got.starts_with("ok") { "cycle-not-reported" } else if got.starts_with("PANIC") { "panic" } else { "order" };
            rep.violation(class, input.clone(), format!("ruler answers {} but the specification gives {}", got, want));
        }
        // use, remove a mark, use again: the second order must be the canonical order of the remaining rules
        if !rules.is_empty() && rng.chance(1, 2) {
            let mut r = build(&rules);
            let _ = guarded(|| r.iter().copied().collect::<Vec<usize>>());
            let vi = rng.below(rules.len()); let victim = *rng.pick(&rules[vi].marks);
            r.remove(victim);
            let got2 = match guarded(|| r.iter().copied().collect::<Vec<usize>>()) {
                Ok(v) => format!("ok:{}", v.iter().map(|x| x.to_string()).collect::<Vec<_>>().join(",")),
                Err(e) if e.starts_with("missing dependency") => "missing".into(),
                Err(e) if e.starts_with("cyclic dependency") => "cyclic".into(),
                Err(e) => format!("PANIC:{}", e),
            };
            // payloads are the original indices: map the specification's answer on the remaining rules back to them
            let keep: Vec<usize> = (0..rules.len()).filter(|i| !rules[*i].marks.contains(&victim)).collect();
            let rest: Vec<Item> = keep.iter().map(|i| rules[*i].clone()).collect();
            let mut want2 = spec(&rest);
            if let Some(l) = want2.strip_prefix("ok:") { want2 = format!("ok:{}", l.split(',').filter(|x| !x.is_empty()).map(|x| keep[x.parse::<usize>().unwrap()].to_string()).collect::<Vec<_>>().join(",")); }
            if want2.starts_with("missing") { want2 = "missing".into(); }
            if got2 != want2 { rep.violation("order-after-remove", format!("{} then use, remove({}), use", input, victim), format!("ruler answers {} but the remaining rules canonically give {}", got2, want2)); }
        }
        // the order is the same on every use
        let r = build(&rules);
        if let (Ok(a), Ok(b)) = (guarded(|| r.iter().copied().collect::<Vec<usize>>()), guarded(|| r.iter().copied().collect::<Vec<usize>>())) {
            if a != b { rep.violation("unstable", input, format!("{:?} then {:?}", a, b)); }
        }
    }
}
