//! Document generators (DESIGN.md §5.2): grammar, spec + mutation, adversarial families, malformed stream.
use crate::rng::Rng;
use once_cell::sync::Lazy;

pub static SPEC: Lazy<Vec<String>> = Lazy::new(|| {
    let path = std::env::var("MDIT_REPO").unwrap_or_else(|_| "/repo".into()) + "/tests/fixtures/commonmark/spec.txt";
    let text = std::fs::read_to_string(&path).unwrap_or_default();
    let open = "`".repeat(32) + " example";
    let close = "`".repeat(32);
    let mut out = vec![];
    let mut cur: Option<Vec<&str>> = None;
    for line in text.lines() {
        if cur.is_none() {
            if line == open { cur = Some(vec![]); }
        } else if line == close {
            let lines = cur.take().unwrap();
            if let Some(dot) = lines.iter().position(|l| *l == ".") {
                let mut src = lines[..dot].join("\n");
                src.push('\n');
                out.push(src.replace('→', "\t"));
            }
        } else {
            cur.as_mut().unwrap().push(line);
        }
    }
    out
});

const WORDS: &[&str] = &["foo", "bar", "baz", "a", "b", "x", "hello", "wörld", "日本", "é", "😀", "Foo", "BAR", "q1", "z", "i", "ß", "ǅ"];
const SIG: &[char] = &['*', '_', '[', ']', '(', ')', '!', '<', '>', '`', '~', '\\', '&', '#', ';', ':', '"', '\'', '-', '+', '=', '.', '1', ' ', ' ', '\n', '\t', '>', '/', '%', '@', '|', '{', '}', '^', '$', ',', '?', '0', '\0'];

pub fn word(rng: &mut Rng) -> String { (*rng.pick(WORDS)).to_string() }

pub fn sig_string(rng: &mut Rng, maxlen: usize) -> String {
    let n = rng.range(0, maxlen);
    let mut s = String::new();
    for _ in 0..n {
        if rng.chance(1, 3) { s.push_str(&word(rng)); } else { s.push(*rng.pick(SIG)); }
    }
    s
}

pub fn url(rng: &mut Rng) -> String {
    match rng.below(10) {
        0 => "/url".into(),
        1 => "http://example.com/a?b=c&d".into(),
        2 => "<my url>".into(),
        3 => "javascript:alert(1)".into(),
        4 => "data:image/png;base64,AAAA".into(),
        5 => "foo(bar)".into(),
        6 => "/f&ouml;&#35;\\*".into(),
        7 => "x%20y%".into(),
        8 => "".into(),
        _ => format!("/{}", word(rng)),
    }
}

pub fn title(rng: &mut Rng) -> String {
    match rng.below(6) {
        0 => "\"title\"".into(),
        1 => "'t &quot; \\\" x'".into(),
        2 => "(paren)".into(),
        3 => "\"multi\nline\"".into(),
        4 => "\"&#65;&amp;\"".into(),
        _ => format!("\"{}\"", word(rng)),
    }
}

pub fn inline_atom(rng: &mut Rng, depth: usize) -> String {
    let inner = |rng: &mut Rng| if depth < 3 { inline_text(rng, depth + 1, 3) } else { word(rng) };
    match rng.below(30) {
        0..=6 => word(rng),
        7 => format!("*{}*", inner(rng)),
        8 => format!("**{}**", inner(rng)),
        9 => format!("_{}_", inner(rng)),
        10 => format!("__{}__", inner(rng)),
        11 => { let t = "`".repeat(rng.range(1, 3)); format!("{t}{}{t}", sig_string(rng, 6).replace('\n', " ")) }
        12 => format!("[{}]({})", inner(rng), url(rng)),
        13 => format!("[{}]({} {})", inner(rng), url(rng), title(rng)),
        14 => format!("![{}]({})", inner(rng), url(rng)),
        15 => format!("[{}][{}]", inner(rng), rng.pick(&["ref", "REF", "Foo", "r  2", "missing"])),
        16 => format!("[{}]", rng.pick(&["ref", "REF", "Foo", "r 2", "missing"])),
        17 => (*rng.pick(&["<http://example.com>", "<mailto:a@b.c>", "<a@b.co>", "<javascript:x>", "<x:y z>", "<https://é.com/ü>"])).to_string(),
        18 => (*rng.pick(&["&amp;", "&#35;", "&#x41;", "&copy;", "&#0;", "&nosuch;", "&#xD800;", "&#99999999;", "&AMP;", "&lt;", "&quot;", "&",
                           "&#xD7FF;", "&#xDFFF;", "&#57343;", "&#xE000;", "&#xFDD0;", "&#xFDEF;", "&#xFFFE;", "&#xFFFF;", "&#x10FFFF;", "&#x110000;", "&#X1F600;", "&#1114111;", "&#8;", "&#x7F;", "&#x9F;", "&nvlt;", "&CounterClockwiseContourIntegral;"])).to_string(),
        19 => format!("\\{}", rng.pick(SIG)),
        20 => "  \n".into(),
        21 => "\\\n".into(),
        22 => format!("~~{}~~", inner(rng)),
        23 => (*rng.pick(&["<b>", "</b>", "<a href=\"x\">", "</a>", "<!-- c -->", "<?php ?>", "<br/>", "<x y='z'>", "<![CDATA[x]]>"])).to_string(),
        24 => rng.pick(SIG).to_string(),
        25 => format!("{}{}", rng.pick(&["*", "_", "**", "__", "***", "~", "~~"]), word(rng)),
        26 => format!("{}{}", word(rng), rng.pick(&["*", "_", "**", "__", "***", "~", "~~"])),
        27 => "\n".into(),
        28 => if rng.chance(1, 2) { format!("[{}", inner(rng)) } else {
            // structures of the documented generics with custom markers
            match rng.below(6) { 0 => format!("%{}%", inner(rng)), 1 => format!("%% {} %%", word(rng)), 2 => format!("${}$", word(rng)), 3 => format!("^{}^", inner(rng)), 4 => format!("=={}==", inner(rng)), _ => format!("?[{}](/q)", inner(rng)) }
        },
        _ => sig_string(rng, 4),
    }
}

pub fn inline_text(rng: &mut Rng, depth: usize, max_atoms: usize) -> String {
    let n = rng.range(1, max_atoms);
    let mut s = String::new();
    for i in 0..n {
        if i > 0 { s.push_str(*rng.pick(&[" ", " ", " ", "", "\n", "  "])); }
        s.push_str(&inline_atom(rng, depth));
    }
    s
}

fn prefix_lines(text: &str, first: &str, rest: &str) -> String {
    let mut out = String::new();
    for (i, l) in text.split('\n').enumerate() {
        if i > 0 { out.push('\n'); }
        if i == 0 { out.push_str(first); } else if !l.is_empty() || !rest.trim().is_empty() { out.push_str(rest); }
        out.push_str(l);
    }
    out
}

pub fn block(rng: &mut Rng, depth: usize) -> String {
    let nested = |rng: &mut Rng| -> String {
        let n = rng.range(1, 3);
        let mut v = vec![];
        for _ in 0..n { v.push(block(rng, depth + 1)); }
        v.join(if rng.chance(2, 3) { "\n\n" } else { "\n" })
    };
    let k = if depth >= 3 { rng.below(14) } else { rng.below(20) };
    match k {
        0..=3 => inline_text(rng, 0, 6),
        4 => format!("{} {}{}", "#".repeat(rng.range(1, 7)), inline_text(rng, 1, 3).replace('\n', " "), rng.pick(&["", " #", " ##  ", "#"])),
        5 => format!("{}\n{}", inline_text(rng, 1, 3), rng.pick(&["===", "---", "=", "--  ", "- -"])),
        6 => (*rng.pick(&["---", "***", "_ _ _", " * * *", "----------", "- - -"])).to_string(),
        7 => {
            let m = *rng.pick(&["```", "~~~", "````", "~~~~~"]);
            let info = *rng.pick(&["", "rust", " js x", "a&amp;b", "c\\*d", "`", "&#35;x"]);
            let body = sig_string(rng, 12);
            if rng.chance(1, 5) { format!("{m}{info}\n{body}") } else { format!("{m}{info}\n{body}\n{m}") }
        }
        8 => { let b = sig_string(rng, 10); prefix_lines(&b, "    ", "    ") }
        9 => (*rng.pick(&["[ref]: /url \"t\"", "[REF]: <u v> 'x'", "[Foo]:\n  /bar\n  (t)", "[r 2]: x", "[ref]: second", "[bad]: ", "[e]: javascript:x", "[ẞ]: /ss"])).to_string(),
        10 => (*rng.pick(&["<div>\nfoo\n</div>", "<!-- c\n-->", "<pre>\n\n*x*</pre>", "<?x\n?>", "<a>", "</table>", "<script>\nx", "<!DOCTYPE x>", "<![CDATA[\nx\n]]>"])).to_string(),
        11 => format!("\t{}", inline_text(rng, 2, 2)),
        12 => format!("{}{}", rng.pick(&[" ", "  ", "   "]), inline_text(rng, 1, 3)),
        13 => sig_string(rng, 10),
        14 | 15 => { let b = nested(rng); let p = *rng.pick(&["> ", ">", " > ", ">  "]); prefix_lines(&b, p, if rng.chance(1, 4) { "" } else { p }) }
        16 | 17 => {
            let m = *rng.pick(&["- ", "* ", "+ ", "1. ", "2) ", "10. ", "-   ", "- \t"]);
            let items = rng.range(1, 3);
            let mut v = vec![];
            for _ in 0..items {
                let b = nested(rng);
                let pad = " ".repeat(m.trim_end_matches('\t').len().max(2).min(m.len()));
                v.push(prefix_lines(&b, m, &pad));
            }
            v.join(if rng.chance(1, 2) { "\n" } else { "\n\n" })
        }
        18 => format!("{}\n{}", inline_text(rng, 1, 3), nested(rng)),
        _ => String::new(),
    }
}

pub fn grammar_doc(rng: &mut Rng) -> String {
    let n = rng.range(1, 5);
    let mut v = vec![];
    for _ in 0..n { v.push(block(rng, 0)); }
    let mut d = v.join(if rng.chance(3, 4) { "\n\n" } else { "\n" });
    if rng.chance(1, 2) { d.push('\n'); }
    d
}

pub fn mutate(rng: &mut Rng, src: &str) -> String {
    let mut chars: Vec<char> = src.chars().collect();
    let k = rng.range(1, 4);
    for _ in 0..k {
        match rng.below(6) {
            0 if !chars.is_empty() => { let i = rng.below(chars.len()); chars.remove(i); }
            1 => { let i = rng.below(chars.len() + 1); chars.insert(i, *rng.pick(SIG)); }
            2 if chars.len() >= 2 => { let i = rng.below(chars.len() - 1); chars.swap(i, i + 1); }
            3 if !chars.is_empty() => { let i = rng.below(chars.len()); chars[i] = *rng.pick(SIG); }
            4 if !chars.is_empty() => { // duplicate a line
                let s: String = chars.iter().collect();
                let lines: Vec<&str> = s.split('\n').collect();
                let i = rng.below(lines.len());
                let mut l2 = lines.clone();
                l2.insert(i, lines[i]);
                chars = l2.join("\n").chars().collect();
            }
            _ => { let i = rng.below(chars.len() + 1); for (j, c) in word(rng).chars().enumerate() { chars.insert(i + j, c); } }
        }
    }
    chars.into_iter().collect()
}

pub fn wrap_container(rng: &mut Rng, src: &str) -> String {
    match rng.below(3) {
        0 => prefix_lines(src, "> ", "> "),
        1 => prefix_lines(src, "- ", "  "),
        _ => prefix_lines(src, "1. ", "   "),
    }
}

/// adversarial families parameterised by size
pub fn adversarial(rng: &mut Rng, n: usize) -> String {
    match rng.below(22) {
        0 => ">".repeat(n) + "a",
        1 => "> ".repeat(n) + "a",
        2 => "- ".repeat(n) + "a",
        3 => "[".repeat(n),
        4 => "[".repeat(n) + "a" + &"](x)".repeat(n),
        5 => "![".repeat(n) + "a" + &"](x)".repeat(n),
        6 => "*a ".repeat(n) + &"a*".repeat(n),
        7 => "*".repeat(n) + "a" + &"*".repeat(n),
        8 => "`".repeat(n) + " a " + &"`".repeat(n / 2 + 1),
        9 => { let mut s = String::new(); for i in 1..=n.min(60) { s.push_str(&"`".repeat(i)); s.push('a'); } s }
        10 => "[`".into(),
        11 => "[a `` b](x) `c`".into(),
        12 => "_a ".repeat(n) + &"a_".repeat(n),
        13 => "1. ".repeat(n) + "a",
        14 => "<".repeat(n) + &">".repeat(n),
        15 => "\\".repeat(n),
        16 => "&".repeat(n) + "#x;",
        17 => "[a](".to_string() + &"(".repeat(n) + &")".repeat(n) + ")",
        18 => "\r".repeat(n) + "\n\r\n" + &"\t".repeat(n) + "a",
        19 => "~~a ".repeat(n) + &"a~~".repeat(n),
        20 => { let mut s = String::new(); for _ in 0..n { s.push_str("> - "); } s + "a" }
        _ => "[a]: /x\n".to_string() + &"[a]".repeat(n),
    }
}

/// runs of one significant character whose length sits on an 8- or 16-bit counter boundary
pub fn counter_boundary(rng: &mut Rng) -> String {
    let wide = rng.chance(1, 8);
    let len = if wide { *rng.pick(&[65535usize, 65536, 65537]) } else { *rng.pick(&[254usize, 255, 256, 257, 258, 511, 512, 513, 768, 1024]) };
    let ch = if wide { *rng.pick(&["#", "`", "~", "-", "=", "1", " "]) } else { *rng.pick(&["#", "`", "~", "-", "=", "1", " ", "*", "_", ">", "+", "\t", "[", "!", "<", "&", "\\", "\n", "é"]) };
    let pre = *rng.pick(&["", "", "a\n", "> ", "- ", "a ", "   "]);
    let post = *rng.pick(&["", " a", "\na", "a", ". a", "\n", " a\n\nb"]);
    let run = ch.repeat(len);
    match rng.below(4) {
        // opener and closer of the same boundary length
        0 => format!("{pre}{run}{post}{run}"),
        1 => format!("{pre}{run}\nx\n{run}\n"),
        _ => format!("{pre}{run}{post}"),
    }
}

/// uniform bytes filtered to valid UTF-8
pub fn malformed(rng: &mut Rng) -> String {
    let n = rng.range(0, 40);
    let bytes: Vec<u8> = (0..n).map(|_| match rng.below(4) { 0 => rng.below(256) as u8, 1 => *rng.pick(&[b'\n', b'\r', b'\t', b' ', 0, b'>', b'-', b'*', b'[', b']', b'`']), _ => rng.range(0x20, 0x7e) as u8 }).collect();
    String::from_utf8_lossy(&bytes).replace('\u{fffd}', "é")
}

/// the mixed stream every document-level oracle draws from
/// characters that Unicode-aware predicates (`is_numeric`, `is_alphabetic`, `is_whitespace`, case folding) accept where
/// CommonMark means the ASCII ones - put at the places where the syntax looks at a character class
pub fn confusable(rng: &mut Rng) -> String {
    const DIG: &[char] = &['１', '٣', '²', 'Ⅰ', '½', '৩', '𝟗', '₂', '〇'];
    const LET: &[char] = &['Ａ', 'ａ', 'é', 'ſ', '\u{212a}', 'ı', 'İ', 'ǅ', 'ß', 'Ω'];
    const SPC: &[char] = &['\u{a0}', '\u{2003}', '\u{3000}', '\u{1680}', '\u{85}', '\u{2028}', '\u{200b}', '\u{feff}', '\u{b}', '\u{c}'];
    const PUN: &[char] = &['！', '＃', '＊', '－', '．', '）', '［', '＞', '｀', '＿', '：', '～', '＜', '‐', '•'];
    if rng.chance(1, 2) {
        let d = *rng.pick(DIG); let d2 = *rng.pick(DIG); let l = *rng.pick(LET); let sp = *rng.pick(SPC); let p = *rng.pick(PUN);
        let t = *rng.pick(&["{d}. x", "{d}) x", "a\n{d}. b", "{d}{e}. x\n{d}. y", "- {d}. x", "> {d}.", "1{d}. x", "{d}.", "#{s}h", "# h{s}#", "{p}{p}{p}", "-{s}x", "1.{s}x", "{s}{s}{s}{s}code",
            "&#{d};", "&#x{d};", "&#{d}{e};", "&{l}mp;", "<{l}ttp://x.y>", "<http://x{s}y>", "[a]({l}avascript:x)", "[a](<x{s}y>)", "[{l}]: /u\n\n[{L}]", "```{l}{s}i\nx\n```", "~~~{d}\n~~~",
            "*{s}a{s}*", "**a{p}**b", "_{l}_a", "a{s}{s}\nb", "\\{p}", "\\{d}", "`{s}a{s}`", "<{l}iv>", "<!{l} x>", "<a {l}={d}>", "[x][{d}]\n\n[{d}]: /u", "{p} x", "{p}. x", "1{p} x", "={s}\n===", "x\n{p}{p}{p}"]);
        t.replace("{d}", &d.to_string()).replace("{e}", &d2.to_string()).replace("{l}", &l.to_string()).replace("{L}", &l.to_uppercase().to_string())
            .replace("{s}", &sp.to_string()).replace("{p}", &p.to_string())
    } else {
        let base = if rng.chance(1, 2) { rng.pick(&SPEC).clone() } else { grammar_doc(rng) };
        let mut chars: Vec<char> = base.chars().collect();
        for _ in 0..rng.range(1, 5) {
            if chars.is_empty() { break; }
            let i = rng.below(chars.len());
            let c = chars[i];
            chars[i] = if c.is_ascii_digit() { *rng.pick(DIG) } else if c.is_ascii_alphabetic() { *rng.pick(LET) } else if c == ' ' || c == '\t' { *rng.pick(SPC) } else if c.is_ascii_punctuation() { *rng.pick(PUN) } else { c };
        }
        chars.into_iter().collect()
    }
}

pub fn any_doc(rng: &mut Rng) -> String {
    let d = any_doc0(rng);
    // a byte order mark in front of the document is ordinary text to the parser
    if rng.chance(1, 40) { format!("\u{feff}{}", d) } else { d }
}

fn any_doc0(rng: &mut Rng) -> String {
    match rng.below(20) {
        0..=7 => grammar_doc(rng),
        8..=10 => { let s = rng.pick(&SPEC).clone(); s }
        11..=14 => { let s = rng.pick(&SPEC).clone(); mutate(rng, &s) }
        15 => { let s = rng.pick(&SPEC).clone(); wrap_container(rng, &s) }
        16 => if rng.chance(1, 6) { counter_boundary(rng) } else { let n = if rng.chance(1, 4) { rng.range(60, 160) } else { rng.range(1, 12) }; adversarial(rng, n) }
        17 => malformed(rng),
        18 => if rng.chance(1, 2) { sig_string(rng, 30) } else { confusable(rng) },
        _ => { let d = grammar_doc(rng); mutate(rng, &d) }
    }
}
