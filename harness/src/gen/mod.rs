pub mod doc;
