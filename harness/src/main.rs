#![allow(dead_code)]
mod rng;
mod util;
mod corr;
mod oracle;
mod gen;
mod cfg;
mod dump;
mod run;
mod custom;
mod tables;

use rng::Rng;

fn usage() -> ! {
    eprintln!("usage: mdit-harness corr <stream> <n> <seed> <outdir> | oracle <id> <n> <seed> | list");
    std::process::exit(2)
}

fn main() {
    util::install_panic_hook();
    let args: Vec<String> = std::env::args().collect();
    if args.len() < 2 { usage(); }
    match args[1].as_str() {
        "list" => {
            for (s, _) in corr::streams() { println!("stream {}", s); }
            for (s, _) in oracle::oracles() { println!("oracle {}", s); }
        }
        "tables" => { tables::write(&args[2]); }
        "c08-history" => { println!("{}", oracle::c08::run_one(&args[2])); }
        "corr" => {
            if args.len() < 6 { usage(); }
            let n: usize = args[3].parse().unwrap();
            let seed: u64 = args[4].parse().unwrap();
            let dir = &args[5];
            let f = corr::streams().into_iter().find(|(s, _)| *s == args[2]).unwrap_or_else(|| usage()).1;
            let mut rng = Rng::new(seed ^ util::fnv(args[2].as_bytes()));
            let mut out = corr::Out::new(dir, &args[2]);
            f(n, &mut rng, &mut out);
            println!("{}", out.finish().json());
        }
        "oracle" => {
            if args.len() < 5 { usage(); }
            let n: usize = args[3].parse().unwrap();
            let seed: u64 = args[4].parse().unwrap();
            let f = oracle::oracles().into_iter().find(|(s, _)| *s == args[2]).unwrap_or_else(|| usage()).1;
            let mut rng = Rng::new(seed ^ util::fnv(args[2].as_bytes()) ^ 0xabcdef);
            let mut rep = oracle::Report::new();
            f(n, &mut rng, &mut rep);
            println!("{}", rep.json());
        }
        _ => usage(),
    }
}
