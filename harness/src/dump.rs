//! Canonical one-line dump of a parsed tree (kind, payload Debug, range, attrs, children).
use markdown_it::Node;

pub fn kind(node: &Node) -> &'static str {
    let n = node.name();
    let n = n.split('<').next().unwrap_or(n);
    n.rsplit("::").next().unwrap_or(n)
}

pub fn dump(node: &Node, with_ranges: bool) -> String {
    let mut s = String::new();
    go(node, with_ranges, &mut s);
    s
}

fn go(node: &Node, with_ranges: bool, out: &mut String) {
    out.push('(');
    // Root's Debug contains the env (a hash map): print kind only
    if kind(node) == "Root" { out.push_str("Root"); } else { out.push_str(&format!("{:?}", node.node_value)); }
    if with_ranges {
        match node.srcmap { Some(m) => { let (a, b) = m.get_byte_offsets(); out.push_str(&format!(" [{},{})", a, b)); } None => out.push_str(" [none)") }
    }
    for (k, v) in node.attrs.iter() { out.push_str(&format!(" {}={:?}", k, v)); }
    for c in node.children.iter() { out.push(' '); go(c, with_ranges, out); }
    out.push(')');
}

pub fn depth(node: &Node) -> usize {
    // iterative to survive very deep trees
    let mut max = 0;
    let mut stack = vec![(node, 1usize)];
    while let Some((n, d)) = stack.pop() {
        if d > max { max = d; }
        for c in n.children.iter() { stack.push((c, d + 1)); }
    }
    max
}

pub fn size(node: &Node) -> usize {
    let mut k = 0;
    let mut stack = vec![node];
    while let Some(n) = stack.pop() { k += 1; for c in n.children.iter() { stack.push(c); } }
    k
}
