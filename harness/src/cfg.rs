//! Parser configurations: subsets x orders of the 21 shipped sub-plugins x max_nesting.
use crate::rng::Rng;
use markdown_it::MarkdownIt;
use markdown_it::plugins::{cmark, extra, html, sourcepos};

pub const N_PLUGINS: usize = 21;
/// further bits: structures built from the crate's documented generics (code_pair / emph_pair / full_link)
pub const N_EXTRA: usize = 5;
pub const EXTRA_NAMES: [&str; N_EXTRA] = ["code_pair<%,tokenize>", "code_pair<$,verbatim>", "emph_pair<^,1>", "emph_pair<=,2>", "full_link<?>"];

#[derive(Debug)] pub struct Gen(pub &'static str);
impl markdown_it::NodeValue for Gen {
    fn render(&self, node: &markdown_it::Node, fmt: &mut dyn markdown_it::Renderer) { fmt.open("s", &node.attrs); fmt.contents(&node.children); fmt.close("s"); }
}

pub const NAMES: [&str; N_PLUGINS] = [
    "newline", "escape", "backticks", "emphasis", "link", "image", "autolink", "entity",
    "code", "fence", "blockquote", "hr", "list", "reference", "heading", "lheading", "paragraph",
    "strikethrough", "html_inline", "html_block", "sourcepos",
];
pub const PARAGRAPH: usize = 16;
pub const STRIKE: usize = 17;
pub const HTML_INLINE: usize = 18;
pub const HTML_BLOCK: usize = 19;
pub const SOURCEPOS: usize = 20;
pub const CMARK_MASK: u32 = (1 << 17) - 1;

fn add_one(md: &mut MarkdownIt, i: usize) {
    match i {
        0 => cmark::inline::newline::add(md),
        1 => cmark::inline::escape::add(md),
        2 => cmark::inline::backticks::add(md),
        3 => cmark::inline::emphasis::add(md),
        4 => cmark::inline::link::add(md),
        5 => cmark::inline::image::add(md),
        6 => cmark::inline::autolink::add(md),
        7 => cmark::inline::entity::add(md),
        8 => cmark::block::code::add(md),
        9 => cmark::block::fence::add(md),
        10 => cmark::block::blockquote::add(md),
        11 => cmark::block::hr::add(md),
        12 => cmark::block::list::add(md),
        13 => cmark::block::reference::add(md),
        14 => cmark::block::heading::add(md),
        15 => cmark::block::lheading::add(md),
        16 => cmark::block::paragraph::add(md),
        17 => extra::inline::strikethrough::add(md),
        18 => html::html_inline::add(md),
        19 => html::html_block::add(md),
        20 => sourcepos::add(md),
        21 => markdown_it::generics::inline::code_pair::add_with::<'%', true>(md, |_| markdown_it::Node::new(Gen("pct"))),
        22 => markdown_it::generics::inline::code_pair::add_with::<'$', false>(md, |_| markdown_it::Node::new(Gen("dollar"))),
        23 => markdown_it::generics::inline::emph_pair::add_with::<'^', 1, true>(md, || markdown_it::Node::new(Gen("sup"))),
        24 => markdown_it::generics::inline::emph_pair::add_with::<'=', 2, true>(md, || markdown_it::Node::new(Gen("mark"))),
        25 => markdown_it::generics::inline::full_link::add_prefix::<'?', true>(md, |_, _| markdown_it::Node::new(Gen("qlink"))),
        _ => unreachable!(),
    }
}

#[derive(Clone, Debug, PartialEq)]
pub struct Cfg {
    pub mask: u32,
    pub order_seed: u64,   // 0 = canonical order (cmark::add order, then extras)
    pub max_nesting: u32,
}

impl Cfg {
    pub fn stock() -> Cfg { Cfg { mask: CMARK_MASK | 1 << HTML_INLINE | 1 << HTML_BLOCK, order_seed: 0, max_nesting: 100 } }
    pub fn cmark_only() -> Cfg { Cfg { mask: CMARK_MASK, order_seed: 0, max_nesting: 100 } }
    pub fn full() -> Cfg { Cfg { mask: (1 << N_PLUGINS) - 1, order_seed: 0, max_nesting: 100 } }
    pub fn has(&self, i: usize) -> bool { self.mask & (1 << i) != 0 }
    pub fn has_html(&self) -> bool { self.has(HTML_INLINE) || self.has(HTML_BLOCK) }
    pub fn order(&self) -> Vec<usize> {
        let mut v: Vec<usize> = (0..N_PLUGINS + N_EXTRA).filter(|i| self.has(*i)).collect();
        if self.order_seed != 0 {
            let mut r = Rng::new(self.order_seed);
            for i in (1..v.len()).rev() { let j = r.below(i + 1); v.swap(i, j); }
        }
        v
    }
    pub fn build(&self) -> MarkdownIt {
        let mut md = MarkdownIt::new();
        for i in self.order() { add_one(&mut md, i); }
        md.max_nesting = self.max_nesting;
        md
    }
    pub fn describe(&self) -> String {
        format!("mask={:#x} order_seed={} max_nesting={}", self.mask, self.order_seed, self.max_nesting)
    }
    pub fn parse_desc(s: &str) -> Option<Cfg> {
        let mut c = Cfg::stock();
        for part in s.split_whitespace() {
            let (k, v) = part.split_once('=')?;
            match k {
                "mask" => c.mask = u32::from_str_radix(v.trim_start_matches("0x"), 16).ok()?,
                "order_seed" => c.order_seed = v.parse().ok()?,
                "max_nesting" => c.max_nesting = v.parse().ok()?,
                _ => return None,
            }
        }
        Some(c)
    }
}

/// configuration sample: stock sets, single omissions, random subsets/orders, nesting limits
pub fn sample(rng: &mut Rng, need_paragraph: bool, allow_html: bool) -> Cfg {
    let mut c = match rng.below(10) {
        0..=2 => Cfg::stock(),
        3 => Cfg::cmark_only(),
        4 => Cfg::full(),
        5 | 6 => { let mut c = Cfg::full(); c.mask &= !(1 << rng.below(N_PLUGINS)); c }
        _ => Cfg { mask: (rng.next() as u32) & ((1 << N_PLUGINS) - 1), order_seed: 0, max_nesting: 100 },
    };
    // sometimes add structures built from the documented generics (custom markers % $ ^ = ?)
    if rng.chance(1, 6) { c.mask |= ((rng.next() as u32) & ((1 << N_EXTRA) - 1)) << N_PLUGINS; }
    if rng.chance(1, 3) { c.order_seed = 1 + rng.below(1000) as u64; }
    if rng.chance(1, 6) { c.max_nesting = *rng.pick(&[0, 1, 2, 3, 5, 10]); }
    if need_paragraph { c.mask |= 1 << PARAGRAPH; }
    if !allow_html { c.mask &= !(1 << HTML_INLINE | 1 << HTML_BLOCK); }
    c
}
