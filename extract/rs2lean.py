#!/usr/bin/env python3
"""rs2lean — a small translator from a SUBSET of Rust to Lean 4 (stdlib Python only).

For a whitelist of pure first-order functions of /repo the Lean definition is REGENERATED FROM THE RUST SOURCE on
every run (`lean/MdIt/Gen/Translated.lean`, namespace `MdIt.Gen.Translated`, import-free) and a Lean theorem
(`lean/MdIt/Props/GenTranslated.lean`) proves it equal, for all inputs in the range of the Rust types, to the
hand-written model function the property theorems are about.  A change of such a Rust function then either re-proves
automatically (harmless rewrite) or breaks a proof obligation (behavioural change): a tie by proof, not by shape.

    python3 extract/rs2lean.py --repo /repo --out /verif/lean/MdIt/Gen/Translated.lean \
            [--status /verif/work/translate_status.json] [--only NAME[,NAME..]] [--extra FILE:[IMPL::]FN ..]

Subset (anything else is REFUSED with a message naming the construct; the translator never guesses):
  * items: `[pub] [const] fn name(params) -> T { .. }`, free or inside `impl Type { .. }`;
    parameters `name: T`, `&self`/`self` of a tuple-struct newtype over an unsigned integer, `name: &Struct` of a struct
    with named fields (flattened: every USED field `p.f` becomes a parameter `p_f`, ordered by parameter then field name)
  * types: u8 u16 u32 u64 u128 usize (=64 bit) -> Nat, bool -> Bool, char -> Char, the newtype -> Nat
  * statements: `let x [: T] = e;`, `return e;`, `if c { .. } [else if ..] [else { .. }]` and `match` in statement
    position (blocks may `return`; the fall-through continuation is duplicated into the branches), tail expression
  * expressions: integer literals (decimal / hex / octal / binary, `_` separators, type suffix), `b'x'`, char literals,
    `true`/`false`, variables, `self.0`, `p.field`, `Self(e)` / `Type(e)`, `( e )`, `{ block }`, `if`/`else`
    expressions, `match` on integer / char literals, inclusive / exclusive ranges, `|` alternatives and a final `_`,
    `! && ||`, `== != < <= > >=`, `+ - * / %` (Nat arithmetic; the absence of overflow / underflow / division by
    zero — a panic or a wrap in Rust — is RECORDED as an assumption of the definition), `& | ^ ! << >>` with explicit
    width (`!x` = `(2^w-1) ^^^ x`, `x << n` = `(x <<< n) % 2^w`, assumption `n < w` recorded), `as` casts between
    unsigned widths / from char / from u8 to char, a small table of methods (`is_ascii_*`, `wrapping_*`, `min`, `max`,
    `pow`, `saturating_*`), calls of other functions / methods translated earlier in the same run.
Exit status: 0 = every whitelisted function translated; 2 = at least one refused / not found (its definition is
then ABSENT from the generated file, so the proof obligation about it fails to elaborate instead of passing on a stale
definition); the status file has one record per function: {anchor, ok, props, hard, detail, file, line, lean, model,
theorem, assumes}.
"""
import argparse, json, os, re, sys

# ---------------------------------------------------------------------------------------------- whitelist
WHITELIST = [
    dict(file='src/common/utils.rs', impl=None, fn='is_valid_entity_code', lean='is_valid_entity_code',
         model='MdIt.Entity.isValidEntityCode', theorem='MdIt.GenTranslated.translated_is_valid_entity_code_eq', props=['C12']),
    dict(file='src/common/mdurl/asciiset.rs', impl='AsciiSet', fn='new', lean='AsciiSet_new',
         model='MdIt.Url.asciiNew', theorem='MdIt.GenTranslated.translated_AsciiSet_new_eq', props=['C17', 'C04']),
    dict(file='src/common/mdurl/asciiset.rs', impl='AsciiSet', fn='empty', lean='AsciiSet_empty',
         model='0 (the empty history start of MdIt.Url.setOps)', theorem='MdIt.GenTranslated.translated_AsciiSet_empty_eq', props=['C17', 'C04']),
    dict(file='src/common/mdurl/asciiset.rs', impl='AsciiSet', fn='add', lean='AsciiSet_add',
         model='MdIt.Url.setAdd', theorem='MdIt.GenTranslated.translated_AsciiSet_add_eq', props=['C17', 'C04']),
    dict(file='src/common/mdurl/asciiset.rs', impl='AsciiSet', fn='remove', lean='AsciiSet_remove',
         model='MdIt.Url.setRemove', theorem='MdIt.GenTranslated.translated_AsciiSet_remove_eq', props=['C17', 'C04']),
    dict(file='src/common/mdurl/asciiset.rs', impl='AsciiSet', fn='has', lean='AsciiSet_has',
         model='MdIt.Url.setHas', theorem='MdIt.GenTranslated.translated_AsciiSet_has_eq', props=['C17', 'C04']),
    dict(file='src/generics/inline/emph_pair.rs', impl=None, fn='is_odd_match', lean='is_odd_match',
         model='MdIt.Inline.isOddMatch', theorem='MdIt.GenTranslated.translated_is_odd_match_eq', props=['C01', 'C05', 'C10', 'C11']),
]


class Refuse(Exception):
    pass


def refuse(what, pos=None, ctx=None):
    where = ''
    if ctx is not None and pos is not None:
        where = ' at %s:%d' % (ctx.rel, ctx.text.count('\n', 0, pos) + 1)
    raise Refuse('unsupported construct: %s%s' % (what, where))


# ---------------------------------------------------------------------------------------------- masking / item search
def mask(text):
    """same-length copy of `text` with comments, string / char literal contents replaced by blanks"""
    out = list(text)
    i, n = 0, len(text)

    def blank(a, b):
        for k in range(a, b):
            if out[k] != '\n':
                out[k] = ' '
    while i < n:
        c = text[i]
        if text.startswith('//', i):
            j = text.find('\n', i)
            j = n if j < 0 else j
            blank(i, j); i = j
        elif text.startswith('/*', i):
            depth, j = 1, i + 2
            while j < n and depth:
                if text.startswith('/*', j): depth += 1; j += 2
                elif text.startswith('*/', j): depth -= 1; j += 2
                else: j += 1
            blank(i, j); i = j
        elif c == 'r' and re.match(r'r#*"', text[i:]) and (i == 0 or not (text[i - 1].isalnum() or text[i - 1] == '_')):
            m = re.match(r'r(#*)"', text[i:])
            close = '"' + m.group(1)
            j = text.find(close, i + len(m.group(0)))
            j = n if j < 0 else j + len(close)
            blank(i, j); i = j
        elif c == '"':
            j = i + 1
            while j < n and text[j] != '"':
                j += 2 if text[j] == '\\' else 1
            blank(i, min(j + 1, n)); i = j + 1
        elif c == "'":
            m = re.match(r"'(\\(x[0-9a-fA-F]{2}|u\{[0-9a-fA-F_]+\}|.)|[^\\'])'", text[i:], re.S)
            if m:
                blank(i + 1, i + len(m.group(0)) - 1); i += len(m.group(0))
            else:
                i += 1            # a lifetime
        else:
            i += 1
    return ''.join(out)


def match_brace(masked, open_pos):
    depth = 0
    for k in range(open_pos, len(masked)):
        if masked[k] == '{': depth += 1
        elif masked[k] == '}':
            depth -= 1
            if depth == 0:
                return k
    return -1


def depth_at(masked, pos, lo=0):
    return masked.count('{', lo, pos) - masked.count('}', lo, pos)


def find_fn(text, masked, impl, name):
    """(start, end) offsets of the item `fn name` (from its first qualifier to the closing brace)"""
    lo, hi, base = 0, len(text), 0
    if impl is not None:
        spans = []
        for m in re.finditer(r'\bimpl\s+%s\s*\{' % re.escape(impl), masked):
            if depth_at(masked, m.start()) == 0:
                spans.append((m.end() - 1, match_brace(masked, m.end() - 1)))
        cands = []
        for a, b in spans:
            for m in re.finditer(r'\bfn\s+%s\b' % re.escape(name), masked[a:b]):
                if depth_at(masked, a + m.start(), a) == 1:
                    cands.append(a + m.start())
    else:
        cands = [m.start() for m in re.finditer(r'\bfn\s+%s\b' % re.escape(name), masked) if depth_at(masked, m.start()) == 0]
    if not cands:
        raise Refuse('function `%s%s` not found' % (impl + '::' if impl else '', name))
    if len(cands) > 1:
        raise Refuse('function `%s%s` defined %d times' % (impl + '::' if impl else '', name, len(cands)))
    fpos = cands[0]
    # qualifiers before `fn` on the same item
    m = re.search(r'((?:pub(?:\s*\([^)]*\))?\s+)?(?:(?:const|unsafe|async|extern(?:\s*"[^"]*")?)\s+)*)$', masked[:fpos])
    start = fpos - len(m.group(1)) if m else fpos
    ob = masked.find('{', fpos)
    semi = masked.find(';', fpos)
    if ob < 0 or (0 <= semi < ob):
        raise Refuse('function `%s` has no body' % name)
    end = match_brace(masked, ob)
    if end < 0:
        raise Refuse('unbalanced braces in `%s`' % name)
    return start, end + 1


def find_struct(masked, text, name):
    m = re.search(r'\bstruct\s+%s\s*\(\s*(?:pub\s+)?(\w+)\s*\)\s*;' % re.escape(name), masked)
    if m:
        return ('newtype', name, m.group(1))
    m = re.search(r'\bstruct\s+%s\s*\{' % re.escape(name), masked)
    if m:
        end = match_brace(masked, m.end() - 1)
        body = masked[m.end():end]
        fields = {}
        for fm in re.finditer(r'(?:pub(?:\s*\([^)]*\))?\s+)?(\w+)\s*:\s*([^,]+?)\s*(?:,|$)', body.strip(), re.S):
            fields[fm.group(1)] = fm.group(2).strip()
        return ('struct', name, fields)
    return None


# ---------------------------------------------------------------------------------------------- lexer
INT_TYPES = {'u8': 8, 'u16': 16, 'u32': 32, 'u64': 64, 'u128': 128, 'usize': 64}
SIGNED = {'i8', 'i16', 'i32', 'i64', 'i128', 'isize'}
PUNCT = ['..=', '...', '<<=', '>>=', '::', '->', '=>', '==', '!=', '<=', '>=', '&&', '||', '<<', '>>', '+=', '-=', '*=',
         '/=', '%=', '&=', '|=', '^=', '..', '+', '-', '*', '/', '%', '&', '|', '^', '!', '<', '>', '=', '(', ')', '{',
         '}', '[', ']', ',', ';', ':', '.', '#', '?', '@', '$', '~']
CHAR_ESC = {'n': 10, 'r': 13, 't': 9, '\\': 92, '0': 0, "'": 39, '"': 34}


class Ctx:
    def __init__(self, rel, text, offset):
        self.rel, self.text, self.offset = rel, text, offset


def lex(ctx, a, b):
    text, toks, i = ctx.text, [], a
    while i < b:
        c = text[i]
        if c.isspace():
            i += 1; continue
        if text.startswith('//', i):
            j = text.find('\n', i); i = b if j < 0 else j; continue
        if text.startswith('/*', i):
            depth, j = 1, i + 2
            while j < b and depth:
                if text.startswith('/*', j): depth += 1; j += 2
                elif text.startswith('*/', j): depth -= 1; j += 2
                else: j += 1
            i = j; continue
        if c == 'b' and i + 1 < b and text[i + 1] == "'":
            v, j = lex_char(ctx, i + 1)
            if v >= 128: refuse('non-ASCII byte literal', i, ctx)
            toks.append(('int', (v, 'u8', False), i)); i = j; continue
        if (c == 'b' and i + 1 < b and text[i + 1] == '"') or c == '"' or re.match(r'b?r#*"', text[i:i + 8]):
            refuse('string literal', i, ctx)
        if c.isalpha() or c == '_':
            m = re.match(r'[A-Za-z_][A-Za-z0-9_]*', text[i:])
            toks.append(('id', m.group(0), i)); i += len(m.group(0)); continue
        if c.isdigit():
            m = re.match(r'0x[0-9a-fA-F_]+|0o[0-7_]+|0b[01_]+|[0-9][0-9_]*', text[i:])
            body = m.group(0)
            j = i + len(body)
            if not body.startswith('0x') and re.match(r'\.[0-9]|[eE][+-]?[0-9]', text[j:j + 3]):
                refuse('floating-point literal', i, ctx)
            sm = re.match(r'(u8|u16|u32|u64|u128|usize|i8|i16|i32|i64|i128|isize|f32|f64)\b', text[j:])
            suffix = None
            if sm:
                suffix = sm.group(1); j += len(suffix)
                if suffix not in INT_TYPES: refuse('literal of signed / float type `%s`' % suffix, i, ctx)
            elif re.match(r'[A-Za-z_]', text[j:j + 1]):
                refuse('unknown literal suffix', i, ctx)
            digits = body.replace('_', '')
            base = 16 if digits.startswith('0x') else 8 if digits.startswith('0o') else 2 if digits.startswith('0b') else 10
            toks.append(('int', (int(digits[2:] if base != 10 else digits, base), suffix, base == 16), i)); i = j; continue
        if c == "'":
            m = re.match(r"'(\\(x[0-9a-fA-F]{2}|u\{[0-9a-fA-F_]+\}|.)|[^\\'])'", text[i:], re.S)
            if not m: refuse('lifetime / label', i, ctx)
            v, j = lex_char(ctx, i)
            toks.append(('char', v, i)); i = j; continue
        for p in PUNCT:
            if text.startswith(p, i):
                toks.append(('p', p, i)); i += len(p); break
        else:
            refuse('character %r' % c, i, ctx)
    toks.append(('eof', None, b))
    return toks


def lex_char(ctx, i):
    """char literal starting at the quote `i`; returns (code point, end)"""
    text = ctx.text
    m = re.match(r"'(\\(x[0-9a-fA-F]{2}|u\{[0-9a-fA-F_]+\}|.)|[^\\'])'", text[i:], re.S)
    if not m: refuse('malformed character literal', i, ctx)
    s = m.group(1)
    if s[0] != '\\': v = ord(s)
    elif s[1] == 'x': v = int(s[2:], 16)
    elif s[1] == 'u': v = int(s[3:-1].replace('_', ''), 16)
    elif s[1] in CHAR_ESC: v = CHAR_ESC[s[1]]
    else: refuse('character escape %r' % s, i, ctx)
    return v, i + len(m.group(0))


# ---------------------------------------------------------------------------------------------- parser (AST = tuples)
OK_ATTRS = {'allow', 'inline', 'doc', 'must_use', 'deny', 'warn', 'expect', 'rustfmt', 'cold', 'track_caller'}
BINPREC = {'*': 10, '/': 10, '%': 10, '+': 9, '-': 9, '<<': 8, '>>': 8, '&': 7, '^': 6, '|': 5,
           '==': 4, '!=': 4, '<': 4, '<=': 4, '>': 4, '>=': 4, '&&': 3, '||': 2}
STMT_KW = {'while': 'loop (`while`)', 'for': 'loop (`for`)', 'loop': 'loop (`loop`)', 'break': '`break`', 'continue': '`continue`',
           'unsafe': '`unsafe` block', 'fn': 'nested function', 'use': '`use` declaration inside a function',
           'const': 'local `const` item', 'static': 'local `static` item', 'struct': 'local item', 'enum': 'local item',
           'impl': 'local item', 'move': 'closure', 'async': '`async`', 'await': '`await`', 'dyn': '`dyn`'}


class Parser:
    def __init__(self, ctx, toks):
        self.ctx, self.toks, self.i = ctx, toks, 0

    def peek(self, k=0): return self.toks[min(self.i + k, len(self.toks) - 1)]
    def at(self, kind, val=None, k=0):
        t = self.peek(k)
        return t[0] == kind and (val is None or t[1] == val)
    def atp(self, val, k=0): return self.at('p', val, k)
    def next(self):
        t = self.toks[self.i]; self.i += 1; return t
    def refuse(self, what): refuse(what, self.peek()[2], self.ctx)
    def expect(self, kind, val=None):
        if not self.at(kind, val):
            t = self.peek()
            self.refuse('expected %s, found %r' % (val or kind, t[1]))
        return self.next()

    def attrs(self):
        while self.atp('#'):
            self.next()
            if self.atp('!'): self.refuse('inner attribute')
            self.expect('p', '[')
            name = self.expect('id')[1]
            if name not in OK_ATTRS: self.refuse('attribute `#[%s]`' % name)
            depth = 1
            while depth:
                t = self.next()
                if t[0] == 'eof': self.refuse('unterminated attribute')
                if t == ('p', '[', t[2]): depth += 1
                if t == ('p', ']', t[2]): depth -= 1

    # ---- items
    def fn_item(self):
        self.attrs()
        if self.at('id', 'pub'):
            self.next()
            if self.atp('('):
                while not self.atp(')'): self.next()
                self.next()
        while self.at('id') and self.peek()[1] in ('const', 'unsafe', 'async', 'extern'):
            if self.peek()[1] != 'const': self.refuse('`%s fn`' % self.peek()[1])
            self.next()
        self.expect('id', 'fn')
        name = self.expect('id')[1]
        if self.atp('<'): self.refuse('generic function')
        self.expect('p', '(')
        params = []
        while not self.atp(')'):
            pos = self.peek()[2]
            if self.atp('&') and self.at('id', 'self', 1):
                self.next(); self.next(); params.append(('self', ('ref', ('named', 'Self')), pos))
            elif self.atp('&') and self.at('id', 'mut', 1):
                self.refuse('`&mut self` / mutable receiver')
            elif self.at('id', 'self'):
                self.next(); params.append(('self', ('named', 'Self'), pos))
            else:
                if self.at('id', 'mut'): self.refuse('mutable parameter (`mut`)')
                if not self.at('id'): self.refuse('pattern parameter')
                pname = self.next()[1]
                self.expect('p', ':')
                params.append((pname, self.type_(), pos))
            if self.atp(','): self.next()
            elif not self.atp(')'): self.refuse('expected `,` or `)` in the parameter list')
        self.next()
        ret = ('unit',)
        if self.atp('->'):
            self.next(); ret = self.type_()
        if self.at('id', 'where'): self.refuse('`where` clause')
        body = self.block()
        if not self.at('eof'): self.refuse('text after the function body')
        return name, params, ret, body

    def type_(self):
        if self.atp('&'):
            self.next()
            if self.at('id', 'mut'): self.refuse('`&mut` type')
            return ('ref', self.type_())
        if self.atp('(') or self.atp('['): self.refuse('tuple / array / slice type')
        if self.atp('*'): self.refuse('raw pointer type')
        if not self.at('id'): self.refuse('type')
        name = self.next()[1]
        if name in ('impl', 'dyn', 'fn'): self.refuse('`%s` type' % name)
        if self.atp('::'): self.refuse('path type')
        if self.atp('<'): self.refuse('generic type `%s<..>`' % name)
        if name in SIGNED: self.refuse('signed integer type `%s`' % name)
        if name in ('f32', 'f64', 'str', 'String'): self.refuse('type `%s`' % name)
        return ('named', name)

    # ---- blocks and statements
    def block(self):
        self.expect('p', '{')
        stmts, tail = [], None
        while not self.atp('}'):
            self.attrs()
            t = self.peek()
            if t[0] == 'eof': self.refuse('unterminated block')
            if t[0] == 'id' and t[1] in STMT_KW: self.refuse(STMT_KW[t[1]])
            if self.atp(';'): self.next(); continue
            if self.at('id', 'let'):
                self.next()
                if self.at('id', 'mut'): self.refuse('mutable binding (`let mut`)')
                if not self.at('id'): self.refuse('pattern in `let`')
                name = self.next()[1]
                ty = None
                if self.atp(':'):
                    self.next(); ty = self.type_()
                if not self.atp('='): self.refuse('`let` without initialiser / `let .. else`')
                self.next()
                e = self.expr()
                if self.at('id', 'else'): self.refuse('`let .. else`')
                self.expect('p', ';')
                stmts.append(('let', name, ty, e, t[2])); continue
            if self.at('id', 'return'):
                self.next()
                e = None if (self.atp(';') or self.atp('}')) else self.expr()
                if self.atp(';'): self.next()
                stmts.append(('return', e, t[2])); continue
            e = self.expr()
            if self.atp(';'):
                self.next()
                if e[0] not in ('if', 'match', 'block'): refuse('expression statement (`%s`)' % e[0], t[2], self.ctx)
                stmts.append(('expr', e, t[2]))
            elif self.atp('}'):
                tail = e
            elif e[0] in ('if', 'match', 'block'):
                stmts.append(('expr', e, t[2]))
            elif self.atp('=') or (self.at('p') and self.peek()[1] in ('+=', '-=', '*=', '/=', '%=', '&=', '|=', '^=', '<<=', '>>=')):
                self.refuse('assignment (`%s`)' % self.peek()[1])
            else:
                self.refuse('expected `;` or `}`, found %r' % (self.peek()[1],))
        self.next()
        return ('block', stmts, tail)

    # ---- expressions
    def expr(self, minprec=1):
        lhs = self.cast()
        while True:
            t = self.peek()
            if t[0] != 'p' or t[1] not in BINPREC: break
            op, prec = t[1], BINPREC[t[1]]
            if prec < minprec: break
            self.next()
            rhs = self.expr(prec + 1)
            if prec == 4 and self.at('p') and self.peek()[1] in BINPREC and BINPREC[self.peek()[1]] == 4:
                self.refuse('chained comparison')
            lhs = ('bin', op, lhs, rhs, t[2])
        if self.atp('..') or self.atp('..='): self.refuse('range expression')
        if self.atp('?'): self.refuse('`?` operator')
        return lhs

    def cast(self):
        e = self.unary()
        while self.at('id', 'as'):
            pos = self.next()[2]
            e = ('cast', e, self.type_(), pos)
        return e

    def unary(self):
        t = self.peek()
        if self.atp('!'):
            self.next(); return ('not', self.unary(), t[2])
        if self.atp('-'): self.refuse('unary minus (signed arithmetic)')
        if self.atp('*'):
            self.next(); return ('deref', self.unary(), t[2])
        if self.atp('&') or self.atp('&&'): self.refuse('borrow expression (`&`)')
        return self.postfix(self.primary())

    def postfix(self, e):
        while True:
            if self.atp('.'):
                pos = self.next()[2]
                if self.at('int'):
                    v = self.next()[1]
                    e = ('tfield', e, v[0], pos); continue
                if self.at('id', 'await'): self.refuse('`await`')
                name = self.expect('id')[1]
                if self.atp('::'): self.refuse('turbofish')
                if self.atp('('):
                    e = ('mcall', e, name, self.args(), pos)
                else:
                    e = ('field', e, name, pos)
                continue
            if self.atp('['): self.refuse('indexing (`[..]`)')
            if self.atp('?'): self.refuse('`?` operator')
            return e

    def args(self):
        self.expect('p', '(')
        out = []
        while not self.atp(')'):
            out.append(self.expr())
            if self.atp(','): self.next()
            elif not self.atp(')'): self.refuse('expected `,` or `)` in an argument list')
        self.next()
        return out

    def primary(self):
        t = self.peek()
        if t[0] == 'int':
            self.next(); return ('int', t[1], t[2])
        if t[0] == 'char':
            self.next(); return ('char', t[1], t[2])
        if self.atp('('):
            self.next()
            if self.atp(')'): self.refuse('unit value `()`')
            e = self.expr()
            if self.atp(','): self.refuse('tuple expression')
            self.expect('p', ')')
            return ('paren', e, t[2])
        if self.atp('{'):
            return self.block() + (t[2],)
        if self.atp('|') or self.atp('||'): self.refuse('closure')
        if self.atp('['): self.refuse('array expression')
        if t[0] != 'id': self.refuse('token %r' % (t[1],))
        if t[1] in STMT_KW: self.refuse(STMT_KW[t[1]])
        if t[1] == 'if':
            self.next()
            if self.at('id', 'let'): self.refuse('`if let`')
            c = self.expr()
            th = self.block()
            el = None
            if self.at('id', 'else'):
                self.next()
                if self.at('id', 'if'):
                    el = ('elif', self.primary())
                else:
                    el = self.block()
            return ('if', c, th, el, t[2])
        if t[1] == 'match':
            self.next()
            scrut = self.expr()
            self.expect('p', '{')
            arms = []
            while not self.atp('}'):
                self.attrs()
                pats = [self.pattern()]
                while self.atp('|'):
                    self.next(); pats.append(self.pattern())
                if self.at('id', 'if'): self.refuse('match guard')
                self.expect('p', '=>')
                if self.at('id', 'return'):
                    rp = self.next()[2]
                    body = ('block', [('return', self.expr(), rp)], None, rp)
                else:
                    body = self.expr()
                arms.append((pats, body))
                if self.atp(','): self.next()
                elif not self.atp('}') and body[0] != 'block': self.refuse('expected `,` after a match arm')
            self.next()
            return ('match', scrut, arms, t[2])
        if t[1] in ('true', 'false'):
            self.next(); return ('bool', t[1] == 'true', t[2])
        # path
        self.next()
        path = [t[1]]
        while self.atp('::'):
            self.next()
            if self.atp('<'): self.refuse('turbofish')
            path.append(self.expect('id')[1])
        if self.atp('!'):
            if self.peek(1)[0] == 'p' and self.peek(1)[1] in ('(', '[', '{'): self.refuse('macro invocation `%s!`' % '::'.join(path))
        if self.atp('('):
            return ('call', path, self.args(), t[2])
        if len(path) > 1: return ('path', path, t[2])
        return ('var', t[1], t[2])

    def pattern(self):
        t = self.peek()
        if self.at('id', '_'):
            self.next(); return ('wild',)
        lo = self.patlit()
        if self.atp('..=') or self.atp('...'):
            self.next(); return ('range', lo, self.patlit(), True)
        if self.atp('..'):
            self.next()
            if self.atp('=>') or self.atp('|'): self.refuse('half-open range pattern without upper bound')
            return ('range', lo, self.patlit(), False)
        return ('lit', lo)

    def patlit(self):
        t = self.peek()
        if t[0] == 'int': self.next(); return ('int', t[1], t[2])
        if t[0] == 'char': self.next(); return ('char', t[1], t[2])
        if t[0] == 'id' and t[1] in ('true', 'false'): self.next(); return ('bool', t[1] == 'true', t[2])
        if t[0] == 'id': self.refuse('binding / path / constant pattern `%s`' % t[1])
        if self.atp('-'): self.refuse('negative literal pattern')
        self.refuse('pattern %r' % (t[1],))


# ---------------------------------------------------------------------------------------------- translation
LEAN_KW = {'from', 'at', 'then', 'end', 'open', 'fun', 'do', 'have', 'show', 'by', 'in', 'with', 'where', 'def', 'theorem',
           'instance', 'structure', 'class', 'namespace', 'section', 'variable', 'universe', 'import', 'let', 'if', 'else',
           'match', 'return', 'for', 'mut', 'deriving', 'Type', 'Prop', 'Sort', 'then', 'using', 'calc', 'infix', 'prefix',
           'notation', 'macro', 'syntax', 'set_option', 'attribute', 'private', 'protected', 'partial', 'unsafe', 'opaque',
           'axiom', 'example', 'abbrev', 'inductive', 'mutual', 'local', 'scoped', 'export', 'extends', 'nomatch', 'nofun',
           'true', 'false', 'self'}


def lname(n):
    return n + '_' if n in LEAN_KW else n


def fmt_int(v, hexa):
    return ('0x%X' % v) if hexa else str(v)


def tname(t):
    return t if isinstance(t, str) else t[0]


class Tr:
    """translation of one function"""
    def __init__(self, ctx, structs, selfty, known):
        self.ctx, self.structs, self.selfty, self.known = ctx, structs, selfty, known
        self.assumes = []
        self.env = {}
        self.flat = {}     # (param, field) -> type, for flattened struct parameters
        self.flat_used = set()

    def refuse(self, what, pos): refuse(what, pos, self.ctx)

    def assume(self, s):
        if s not in self.assumes: self.assumes.append(s)

    # types: 'u8'.. | 'bool' | 'char' | 'int?' | ('newtype', name, inner) | ('struct', name, fields)
    def rtype(self, t, pos):
        if t[0] == 'ref': return self.rtype(t[1], pos)
        if t[0] == 'unit': self.refuse('function without a result type', pos)
        n = t[1]
        if n in INT_TYPES or n in ('bool', 'char'): return n
        if n == 'Self':
            if self.selfty is None: self.refuse('`Self` outside an impl block', pos)
            n = self.selfty
        st = self.structs(n)
        if st is None: self.refuse('type `%s` (not a primitive, not a struct of this file)' % n, pos)
        if st[0] == 'newtype':
            if st[2] not in INT_TYPES: self.refuse('newtype `%s` over `%s`' % (n, st[2]), pos)
        return st

    def lean_ty(self, t):
        if t == 'bool': return 'Bool'
        if t == 'char': return 'Char'
        if t in INT_TYPES: return 'Nat'
        if isinstance(t, tuple) and t[0] == 'newtype': return 'Nat'
        raise Refuse('internal: no Lean type for %r' % (t,))

    def unify(self, got, want, pos, what):
        if want is None or got == want: return got
        if got == 'int?' and want in INT_TYPES: return want
        self.refuse('type mismatch in %s: `%s` where `%s` is expected' % (what, tname(got), tname(want)), pos)

    # ---- expressions: returns (lean text, type); `fr` = in function-result position (a `return` is allowed inside)
    def expr(self, e, want=None, fr=False):
        k = e[0]
        pos = e[-1]
        if k == 'paren':
            return self.expr(e[1], want, fr)
        if k == 'int':
            v, suf, hexa = e[1]
            ty = suf or (want if want in INT_TYPES else 'int?')
            if ty in INT_TYPES and v >= 2 ** INT_TYPES[ty]: self.refuse('literal %d out of range for `%s`' % (v, ty), pos)
            if want is not None: self.unify(ty, want, pos, 'an integer literal')
            return fmt_int(v, hexa), ty
        if k == 'char':
            self.unify('char', want, pos, 'a character literal')
            return '(Char.ofNat %d)' % e[1], 'char'
        if k == 'bool':
            self.unify('bool', want, pos, 'a boolean literal')
            return ('true' if e[1] else 'false'), 'bool'
        if k == 'var':
            n = e[1]
            if n not in self.env:
                self.refuse('name `%s` (not a parameter or local binding; constants / statics are outside the subset)' % n, pos)
            ty = self.env[n]
            if isinstance(ty, tuple) and ty[0] == 'struct': self.refuse('struct value `%s` used as a whole' % n, pos)
            self.unify(ty, want, pos, 'variable `%s`' % n)
            return lname(n), ty
        if k == 'deref':
            if e[1][0] != 'var': self.refuse('dereference of a non-variable', pos)
            return self.expr(e[1], want)
        if k == 'tfield':
            if e[2] != 0: self.refuse('tuple field `.%d`' % e[2], pos)
            s, ty = self.expr(e[1])
            if not (isinstance(ty, tuple) and ty[0] == 'newtype'): self.refuse('`.0` on a value that is not a tuple-struct newtype', pos)
            self.unify(ty[2], want, pos, '`.0`')
            return s, ty[2]
        if k == 'field':
            if e[1][0] != 'var' or e[1][1] not in self.env: self.refuse('field access on a non-parameter', pos)
            p = e[1][1]
            ty = self.env[p]
            if not (isinstance(ty, tuple) and ty[0] == 'struct'): self.refuse('field access `.%s` on a non-struct' % e[2], pos)
            if e[2] not in ty[2]: self.refuse('unknown field `%s.%s`' % (ty[1], e[2]), pos)
            fty = ty[2][e[2]]
            if fty not in INT_TYPES and fty not in ('bool', 'char'): self.refuse('field `%s.%s` of type `%s`' % (ty[1], e[2], fty), pos)
            self.flat_used.add((p, e[2]))
            self.flat[(p, e[2])] = fty
            self.unify(fty, want, pos, 'field `%s`' % e[2])
            return '%s_%s' % (p, e[2]), fty
        if k == 'not':
            s, ty = self.expr(e[1], want)
            if ty == 'bool': return '(!%s)' % s, 'bool'
            if ty in INT_TYPES: return '((2 ^ %d - 1) ^^^ %s)' % (INT_TYPES[ty], s), ty
            if ty == 'int?': self.refuse('`!` on an integer of undetermined width', pos)
            self.refuse('`!` on `%s`' % tname(ty), pos)
        if k == 'cast':
            return self.cast(e, want)
        if k == 'bin':
            return self.binop(e, want)
        if k == 'call':
            return self.call(e, want)
        if k == 'mcall':
            return self.mcall(e, want)
        if k == 'path':
            self.refuse('path expression `%s` (constants / enum values are outside the subset)' % '::'.join(e[1]), pos)
        if k == 'if':
            if e[3] is None: self.refuse('`if` without `else` used as a value', pos)
            c, _ = self.expr(e[1], 'bool')
            a, ta = self.block_value(e[2], want, fr)
            if e[3][0] == 'elif': b, tb = self.expr(e[3][1], want if want else (ta if ta != 'int?' else None), fr)
            else: b, tb = self.block_value(e[3], want if want else (ta if ta != 'int?' else None), fr)
            if ta == 'int?' and tb != 'int?':
                a, ta = self.block_value(e[2], tb, fr)
            if ta != tb: self.refuse('`if` branches of different types `%s` / `%s`' % (tname(ta), tname(tb)), pos)
            return '(if %s then %s else %s)' % (c, a, b), ta
        if k == 'match':
            return self.match_value(e, want, fr)
        if k == 'block':
            return self.block_value(e, want, fr)
        self.refuse('expression kind `%s`' % k, pos)

    def cast(self, e, want):
        pos = e[-1]
        to = self.rtype(e[2], pos)
        s, frm = self.expr(e[1])
        if isinstance(to, tuple): self.refuse('cast to `%s`' % tname(to), pos)
        self.unify(to, want, pos, 'an `as` cast')
        if frm == 'int?':
            # an unsuffixed literal: Rust would infer i32; refuse unless it is a plain literal that fits
            inner = e[1]
            while inner[0] == 'paren': inner = inner[1]
            if inner[0] != 'int' or to not in INT_TYPES: self.refuse('cast of an integer expression of undetermined type', pos)
            if inner[1][0] >= 2 ** 31: self.refuse('cast of an untyped literal beyond i32', pos)
            return fmt_int(inner[1][0] % 2 ** INT_TYPES[to], inner[1][2]), to
        if frm in INT_TYPES and to in INT_TYPES:
            if INT_TYPES[to] >= INT_TYPES[frm]: return s, to
            return '(%s %% 2 ^ %d)' % (s, INT_TYPES[to]), to
        if frm == 'char' and to in INT_TYPES:
            if INT_TYPES[to] >= 32: return '(%s).toNat' % s if not s.startswith('(') else '%s.toNat' % s, to
            return '(%s.toNat %% 2 ^ %d)' % (s if s.startswith('(') or s.isidentifier() else '(%s)' % s, INT_TYPES[to]), to
        if frm == 'u8' and to == 'char':
            return '(Char.ofNat %s)' % s, 'char'
        if frm == 'bool' and to in INT_TYPES:
            return '(if %s then 1 else 0)' % s, to
        self.refuse('cast from `%s` to `%s`' % (tname(frm), tname(to)), pos)

    def same_int(self, a, b, want, pos, op):
        """translate both operands at a common integer type"""
        sa, ta = self.expr(a, want if want in INT_TYPES else None)
        if ta == 'int?':
            sb, tb = self.expr(b, None)
            if tb != 'int?': sa, ta = self.expr(a, tb)
        else:
            sb, tb = self.expr(b, ta if ta in INT_TYPES else None)
        return sa, ta, sb, tb

    def binop(self, e, want):
        _, op, a, b, pos = e
        if op in ('&&', '||'):
            sa, _ = self.expr(a, 'bool'); sb, _ = self.expr(b, 'bool')
            self.unify('bool', want, pos, '`%s`' % op)
            return '(%s %s %s)' % (sa, op, sb), 'bool'
        if op in ('==', '!=', '<', '<=', '>', '>='):
            self.unify('bool', want, pos, 'a comparison')
            sa, ta = self.expr(a)
            if ta == 'int?':
                sb, tb = self.expr(b)
                if tb != 'int?': sa, ta = self.expr(a, tb)
            else:
                sb, tb = self.expr(b, ta if not isinstance(ta, tuple) else None)
            if ta != tb: self.refuse('comparison of `%s` with `%s`' % (tname(ta), tname(tb)), pos)
            if isinstance(ta, tuple): self.refuse('comparison of `%s` values' % tname(ta), pos)
            if ta == 'char': sa, sb = sa + '.toNat', sb + '.toNat'
            if ta == 'bool' and op not in ('==', '!='): self.refuse('ordering comparison of booleans', pos)
            if op in ('==', '!='): return '(%s %s %s)' % (sa, op, sb), 'bool'
            lop = {'<': '<', '<=': '≤', '>': '>', '>=': '≥'}[op]
            return '(decide (%s %s %s))' % (sa, lop, sb), 'bool'
        if op in ('<<', '>>'):
            sa, ta = self.expr(a, want if want in INT_TYPES else None)
            sb, tb = self.expr(b, None)
            if tb not in INT_TYPES and tb != 'int?': self.refuse('shift amount of type `%s`' % tname(tb), pos)
            if ta == 'bool' or ta == 'char' or isinstance(ta, tuple): self.refuse('`%s` on `%s`' % (op, tname(ta)), pos)
            if ta == 'int?': self.refuse('`%s` on an integer of undetermined width' % op, pos)
            w = INT_TYPES[ta]
            self.assume('%s < %d   (shift amount of `%s` on %s: Rust panics in debug builds / masks the amount in release builds otherwise)' % (self.src(b), w, op, ta))
            if op == '<<': return '((%s <<< %s) %% 2 ^ %d)' % (sa, sb, w), ta
            return '(%s >>> %s)' % (sa, sb), ta
        # arithmetic and bitwise
        sa, ta, sb, tb = self.same_int(a, b, want, pos, op)
        if op in ('&', '|', '^') and ta == 'bool' and tb == 'bool':
            lop = {'&': '&&', '|': '||', '^': '!='}[op]
            return '(%s %s %s)' % (sa, lop, sb), 'bool'
        if ta != tb: self.refuse('`%s` on `%s` and `%s`' % (op, tname(ta), tname(tb)), pos)
        if ta not in INT_TYPES and ta != 'int?': self.refuse('`%s` on `%s`' % (op, tname(ta)), pos)
        if want is not None: self.unify(ta, want, pos, '`%s`' % op)
        if op in ('&', '|', '^'):
            return '(%s %s %s)' % (sa, {'&': '&&&', '|': '|||', '^': '^^^'}[op], sb), ta
        if ta == 'int?': self.refuse('arithmetic `%s` on integers of undetermined type' % op, pos)
        w = INT_TYPES[ta]
        if op == '+': self.assume('%s + %s < 2^%d   (no %s overflow: Rust panics in debug builds / wraps in release builds otherwise)' % (self.src(a), self.src(b), w, ta))
        if op == '*': self.assume('%s * %s < 2^%d   (no %s overflow)' % (self.src(a), self.src(b), w, ta))
        if op == '-': self.assume('%s >= %s   (no %s underflow: Rust panics / wraps otherwise, Lean truncates at 0)' % (self.src(a), self.src(b), ta))
        if op in ('/', '%'):
            lit = b
            while lit[0] == 'paren': lit = lit[1]
            if not (lit[0] == 'int' and lit[1][0] != 0):
                self.assume('%s != 0   (Rust panics on division by zero, Lean returns %s)' % (self.src(b), '0' if op == '/' else 'the dividend'))
        return '(%s %s %s)' % (sa, op, sb), ta

    def src(self, e):
        """compact source rendering of an expression for the assumption notes"""
        k = e[0]
        if k == 'int': return fmt_int(e[1][0], e[1][2])
        if k == 'var': return e[1]
        if k == 'field': return '%s.%s' % (self.src(e[1]), e[2])
        if k == 'tfield': return '%s.%d' % (self.src(e[1]), e[2])
        if k == 'paren': return '(%s)' % self.src(e[1])
        if k == 'bin': return '%s %s %s' % (self.src(e[2]), e[1], self.src(e[3]))
        if k == 'cast': return '%s as %s' % (self.src(e[1]), e[2][1] if e[2][0] == 'named' else '_')
        if k == 'not': return '!%s' % self.src(e[1])
        if k == 'char': return 'char(%d)' % e[1]
        return '<%s>' % k

    def call(self, e, want):
        _, path, args, pos = e
        # newtype constructor
        if len(path) == 1 and (path[0] == 'Self' or (self.structs(path[0]) or ('',))[0] == 'newtype'):
            ty = self.rtype(('named', path[0]), pos)
            if not (isinstance(ty, tuple) and ty[0] == 'newtype'): self.refuse('constructor `%s(..)`' % path[0], pos)
            if len(args) != 1: self.refuse('constructor `%s` with %d arguments' % (path[0], len(args)), pos)
            s, _ = self.expr(args[0], ty[2])
            self.unify(ty, want, pos, 'constructor `%s(..)`' % path[0])
            return s, ty
        key = tuple(path)
        if len(path) == 2 and path[0] == 'Self' and self.selfty: key = (self.selfty, path[1])
        if key not in self.known:
            self.refuse('call of `%s` (not a function translated in this run)' % '::'.join(path), pos)
        lean, ptys, rty = self.known[key]
        if len(args) != len(ptys): self.refuse('call of `%s` with %d arguments' % ('::'.join(path), len(args)), pos)
        ss = [self.expr(a, t)[0] for a, t in zip(args, ptys)]
        self.unify(rty, want, pos, 'call of `%s`' % '::'.join(path))
        return '(%s%s)' % (lean, ''.join(' ' + s for s in ss)), rty

    def mcall(self, e, want):
        _, recv, name, args, pos = e
        s, ty = self.expr(recv)
        base = ty
        v = s
        if ty == 'char': v = s + '.toNat'
        def rng(*pairs):
            return '(' + ' || '.join('(decide (%d ≤ %s) && decide (%s ≤ %d))' % (a, v, v, b) if a != b else '(%s == %d)' % (v, a) for a, b in pairs) + ')'
        ASCII = {
            'is_ascii_digit': [(48, 57)],
            'is_ascii_hexdigit': [(48, 57), (65, 70), (97, 102)],
            'is_ascii_alphabetic': [(65, 90), (97, 122)],
            'is_ascii_alphanumeric': [(48, 57), (65, 90), (97, 122)],
            'is_ascii_uppercase': [(65, 90)],
            'is_ascii_lowercase': [(97, 122)],
            'is_ascii_punctuation': [(33, 47), (58, 64), (91, 96), (123, 126)],
            'is_ascii_whitespace': [(9, 9), (10, 10), (12, 12), (13, 13), (32, 32)],
            'is_ascii_control': [(0, 31), (127, 127)],
            'is_ascii_graphic': [(33, 126)],
            'is_ascii': [(0, 127)],
        }
        if name in ASCII:
            if ty not in ('char', 'u8'): self.refuse('method `%s` on `%s`' % (name, tname(ty)), pos)
            if args: self.refuse('method `%s` with arguments' % name, pos)
            self.unify('bool', want, pos, '`%s`' % name)
            return rng(*ASCII[name]), 'bool'
        if name in ('wrapping_add', 'wrapping_sub', 'wrapping_mul', 'min', 'max', 'pow', 'saturating_sub', 'saturating_add'):
            if ty not in INT_TYPES: self.refuse('method `%s` on `%s`' % (name, tname(ty)), pos)
            if len(args) != 1: self.refuse('method `%s` with %d arguments' % (name, len(args)), pos)
            w = INT_TYPES[ty]
            a, _ = self.expr(args[0], 'u32' if name == 'pow' else ty)
            self.unify(ty, want, pos, '`%s`' % name)
            if name == 'wrapping_add': return '((%s + %s) %% 2 ^ %d)' % (s, a, w), ty
            if name == 'wrapping_sub': return '((%s + 2 ^ %d - %s) %% 2 ^ %d)' % (s, w, a, w), ty
            if name == 'wrapping_mul': return '((%s * %s) %% 2 ^ %d)' % (s, a, w), ty
            if name == 'saturating_sub': return '(%s - %s)' % (s, a), ty
            if name == 'saturating_add': return '(min (%s + %s) (2 ^ %d - 1))' % (s, a, w), ty
            if name == 'pow':
                self.assume('%s ^ %s < 2^%d   (no overflow in `pow`)' % (self.src(recv), self.src(args[0]), w))
                return '(%s ^ %s)' % (s, a), ty
            return '(%s %s %s)' % (name, s, a), ty
        # a method of the impl type translated in this run
        if isinstance(ty, tuple) and ty[0] == 'newtype' and (ty[1], name) in self.known:
            lean, ptys, rty = self.known[(ty[1], name)]
            if len(ptys) != len(args) + 1: self.refuse('call of `%s::%s` with %d arguments' % (ty[1], name, len(args)), pos)
            ss = [s] + [self.expr(a, t)[0] for a, t in zip(args, ptys[1:])]
            self.unify(rty, want, pos, 'call of `%s`' % name)
            return '(%s%s)' % (lean, ''.join(' ' + x for x in ss)), rty
        self.refuse('method `.%s()` on `%s` (not in the method table)' % (name, tname(ty)), pos)

    # ---- patterns
    def pat_cond(self, pats, sv, sty, pos):
        conds = []
        v = sv + '.toNat' if sty == 'char' else sv

        def lit(p):
            if p[0] == 'int':
                if sty not in INT_TYPES: self.refuse('integer pattern on `%s`' % tname(sty), p[2])
                if p[1][1] not in (None, sty): self.refuse('pattern literal of type `%s` on `%s`' % (p[1][1], sty), p[2])
                if p[1][0] >= 2 ** INT_TYPES[sty]: self.refuse('pattern literal out of range', p[2])
                return fmt_int(p[1][0], p[1][2])
            if p[0] == 'char':
                if sty != 'char': self.refuse('character pattern on `%s`' % tname(sty), p[2])
                return str(p[1])
            self.refuse('boolean pattern', p[2])
        for p in pats:
            if p[0] == 'wild': return None
            if p[0] == 'lit': conds.append('(%s == %s)' % (v, lit(p[1])))
            else: conds.append('(decide (%s ≤ %s) && decide (%s %s %s))' % (lit(p[1]), v, v, '≤' if p[3] else '<', lit(p[2])))
        return conds[0] if len(conds) == 1 else '(' + ' || '.join(conds) + ')'

    def match_scrut(self, e):
        s, sty = self.expr(e[1])
        if sty == 'int?': self.refuse('`match` on an integer of undetermined type', e[-1])
        if sty not in INT_TYPES and sty != 'char': self.refuse('`match` on `%s`' % tname(sty), e[-1])
        arms = e[2]
        if not arms or any(p[0] == 'wild' for pats, _ in arms[:-1] for p in pats):
            self.refuse('`_` arm that is not the last arm', e[-1])
        if not any(p[0] == 'wild' for p in arms[-1][0]):
            self.refuse('`match` without a final `_` arm (exhaustiveness is not checked)', e[-1])
        return s, sty

    def match_value(self, e, want, fr):
        s, sty = self.match_scrut(e)
        pre, sv = '', s
        if not re.fullmatch(r'\w+', s):
            sv = 'scrut_'; pre = 'let scrut_ := %s; ' % s
        out, ty = [], want
        vals = []
        for pats, body in e[2]:
            c = self.pat_cond(pats, sv, sty, e[-1])
            b, tb = self.expr(body, ty, fr)
            if ty is None and tb != 'int?': ty = tb
            vals.append((c, b, tb, body))
        if ty is None: ty = 'int?'
        vals = [(c, b, tb, body) if tb == ty else (c,) + self.expr(body, ty, fr) + (body,) for c, b, tb, body in vals]
        txt = vals[-1][1]
        for c, b, tb, _ in reversed(vals[:-1]):
            txt = 'if %s then %s else %s' % (c, b, txt)
        return '(%s%s)' % (pre, txt), ty

    # ---- blocks
    def block_value(self, blk, want, fr):
        """a block used for its value"""
        saved = dict(self.env)
        try:
            return self.stmts(blk[1], blk[2], want, None, fr, blk)
        finally:
            self.env = saved

    def stmts(self, stmts, tail, want, k, fr, blk):
        """translate `stmts; tail`.  k = Lean text of the continuation when the block falls through (unit block), or None
        when the block yields the value.  Returns (text, type)."""
        if not stmts:
            if k is not None:
                if tail is None: return k
                if tail[0] in ('if', 'match', 'block'): return self.unit_stmt(tail, k, fr)
                self.refuse('value at the end of a unit block', tail[-1])
            if tail is None:
                self.refuse('block that falls through without a value', blk[-1] if len(blk) > 3 else None)
            return self.expr(tail, want, fr)
        st, rest = stmts[0], stmts[1:]
        if st[0] == 'let':
            _, name, ty, e, pos = st
            t = self.rtype(ty, pos) if ty else None
            s, te = self.expr(e, t)
            if te == 'int?': self.refuse('`let %s` of an integer of undetermined type (add a type annotation or a suffix)' % name, pos)
            if isinstance(te, tuple) and te[0] == 'struct': self.refuse('`let` of a struct value', pos)
            saved = dict(self.env)
            self.env[name] = te
            r = self.stmts(rest, tail, want, k, fr, blk)
            self.env = saved
            if k is not None: return 'let %s := %s; %s' % (lname(name), s, r)
            return '(let %s := %s; %s)' % (lname(name), s, r[0]), r[1]
        if st[0] == 'return':
            if not fr: self.refuse('`return` inside an expression that is not in result position', st[-1])
            if st[1] is None: self.refuse('`return` without a value', st[-1])
            s, t = self.expr(st[1], self.ret)
            return s if k is not None else (s, self.ret if want is None else self.unify(self.ret, want, st[-1], '`return`'))
        if st[0] == 'expr':
            if k is not None:
                kk = self.stmts(rest, tail, want, k, fr, blk)
                return self.unit_stmt(st[1], kk, fr)
            r = self.stmts(rest, tail, want, None, fr, blk)
            return self.unit_stmt(st[1], r[0], fr), r[1]
        self.refuse('statement kind `%s`' % st[0], st[-1])

    def unit_stmt(self, e, k, fr):
        """`if` / `match` / block in statement position, followed by the continuation text k"""
        if not fr: self.refuse('statement-level `%s` inside an expression that is not in result position' % e[0], e[-1])
        if e[0] == 'block':
            saved = dict(self.env)
            r = self.stmts(e[1], e[2], None, k, fr, e)
            self.env = saved
            return '(%s)' % r
        if e[0] == 'if':
            c, _ = self.expr(e[1], 'bool')
            a = self.unit_stmt(e[2], k, fr)
            if e[3] is None: b = k
            elif e[3][0] == 'elif': b = self.unit_stmt(e[3][1], k, fr)
            else: b = self.unit_stmt(e[3], k, fr)
            return '(if %s then %s else %s)' % (c, a, b)
        if e[0] == 'match':
            s, sty = self.match_scrut(e)
            pre, sv = '', s
            if not re.fullmatch(r'\w+', s):
                sv = 'scrut_'; pre = 'let scrut_ := %s; ' % s
            parts = []
            for pats, body in e[2]:
                if body[0] != 'block': self.refuse('match arm with a value in statement position', e[-1])
                parts.append((self.pat_cond(pats, sv, sty, e[-1]), self.unit_stmt(body, k, fr)))
            txt = parts[-1][1]
            for c, b in reversed(parts[:-1]):
                txt = 'if %s then %s else %s' % (c, b, txt)
            return '(%s%s)' % (pre, txt)
        self.refuse('statement `%s`' % e[0], e[-1])


def translate_fn(ctx, item, a, b, structs, known):
    toks = lex(ctx, a, b)
    name, params, ret, body = Parser(ctx, toks).fn_item()
    tr = Tr(ctx, structs, item['impl'], known)
    tr.ret = tr.rtype(ret, a)
    if isinstance(tr.ret, tuple) and tr.ret[0] == 'struct': refuse('struct result type', a, ctx)
    plist = []
    for pname, pty, pos in params:
        t = tr.rtype(pty, pos)
        tr.env[pname] = t
        plist.append((pname, t))
    text, _ = tr.stmts(body[1], body[2], tr.ret, None, True, body + (a,))
    lean_params, ptys = [], []
    for pname, t in plist:
        if isinstance(t, tuple) and t[0] == 'struct':
            for (p, f) in sorted(x for x in tr.flat_used if x[0] == pname):
                lean_params.append('(%s_%s : %s)' % (p, f, tr.lean_ty(tr.flat[(p, f)])))
                ptys.append(tr.flat[(p, f)])
        else:
            lean_params.append('(%s : %s)' % (lname(pname), tr.lean_ty(t)))
            ptys.append(t)
    sig = 'def %s %s: %s :=' % (item['lean'], ''.join(p + ' ' for p in lean_params), tr.lean_ty(tr.ret))
    return sig, text, tr.assumes, ptys, tr.ret


def layout(text):
    """break the top-level if-chain over lines (purely cosmetic, deterministic)"""
    if text.startswith('(') and text.endswith(')'):
        depth, ok = 0, True
        for i, c in enumerate(text):
            if c == '(': depth += 1
            elif c == ')':
                depth -= 1
                if depth == 0 and i != len(text) - 1: ok = False; break
        if ok: text = text[1:-1]
    out, depth, i = '', 0, 0
    while i < len(text):
        c = text[i]
        if c == '(': depth += 1
        elif c == ')': depth -= 1
        if text.startswith(' else (if ', i):
            # descend into the nested chain: drop its parenthesis only when it closes at the very end
            j, d = i + 6, 0
            for kx in range(j, len(text)):
                if text[kx] == '(': d += 1
                elif text[kx] == ')':
                    d -= 1
                    if d == 0: break
            if kx == len(text) - 1 - 0 and depth == 0:
                out += '\n  else ' + layout('(' + text[j + 1:kx] + ')').replace('\n', '\n')
                return out
        out += c; i += 1
    return out


def main():
    ap = argparse.ArgumentParser()
    ap.add_argument('--repo', default=os.environ.get('MDIT_REPO', '/repo'))
    ap.add_argument('--out', required=True)
    ap.add_argument('--status')
    ap.add_argument('--only', help='comma-separated Lean names: translate only these whitelist entries')
    ap.add_argument('--extra', action='append', default=[], help='FILE:[IMPL::]FN — translate one more function (testing)')
    args = ap.parse_args()
    items = [dict(w) for w in WHITELIST]
    if args.only:
        keep = set(args.only.split(','))
        items = [w for w in items if w['lean'] in keep]
    for x in args.extra:
        f, q = x.split(':', 1)
        impl, fn = (q.split('::') + [None])[:2] if '::' in q else (None, q)
        items.append(dict(file=f, impl=impl, fn=fn, lean=(impl + '_' if impl else '') + fn, model='', theorem='', props=[]))
    cache, status, defs, known = {}, [], [], {}
    failed = 0
    for it in items:
        rel = it['file']
        rec = dict(anchor='translated.' + it['lean'], ok=False, props=it['props'], hard=True, detail='', file=rel, line=0,
                   lean='MdIt.Gen.Translated.' + it['lean'], model=it['model'], theorem=it['theorem'], assumes=[])
        status.append(rec)
        try:
            if rel not in cache:
                try:
                    text = open(os.path.join(args.repo, rel), encoding='utf-8').read()
                except OSError as ex:
                    cache[rel] = None
                else:
                    cache[rel] = (text, mask(text))
            if cache[rel] is None:
                raise Refuse('source file %s not found' % rel)
            text, masked = cache[rel]
            ctx = Ctx(rel, text, 0)
            a, b = find_fn(text, masked, it['impl'], it['fn'])
            line = text.count('\n', 0, masked.find('fn', a)) + 1
            rec['line'] = line
            structs = lambda n, masked=masked, text=text: find_struct(masked, text, n)
            sig, body, assumes, ptys, rty = translate_fn(ctx, it, a, b, structs, known)
            key = (it['impl'], it['fn']) if it['impl'] else (it['fn'],)
            known[key] = (it['lean'], ptys, rty)
            srctext = text[a:b].replace('/-', '/ -').replace('-/', '- /')
            ind = len(text[text.rfind('\n', 0, a) + 1:a])
            srctext = '\n'.join(('    ' + (l[ind:] if l[:ind].strip() == '' else l)).rstrip() for l in srctext.split('\n'))
            comment = '/- %s:%d  %s%s\n%s' % (rel, line, it['impl'] + '::' if it['impl'] else '', it['fn'], srctext)
            if assumes:
                comment += '\n   assumes (side conditions under which Nat arithmetic is the Rust arithmetic):\n' + '\n'.join('     * ' + s for s in assumes)
            comment += '\n-/'
            defs.append('%s\n%s\n  %s' % (comment, sig, layout(body)))
            rec.update(ok=True, assumes=assumes)
        except Refuse as ex:
            failed += 1
            rec['detail'] = str(ex)
            defs.append('-- REFUSED %s%s (%s): %s' % (it['impl'] + '::' if it['impl'] else '', it['fn'], rel, str(ex).replace('\n', ' ')))
            print('rs2lean: REFUSED %s%s (%s): %s' % (it['impl'] + '::' if it['impl'] else '', it['fn'], rel, ex), file=sys.stderr)
    out_text = ('/- GENERATED by extract/rs2lean.py from /repo source on every run — do not edit.\n'
                '   Each definition is the translation of the Rust function quoted before it; Props/GenTranslated.lean proves\n'
                '   it equal to the hand-written model function. -/\n'
                'namespace MdIt.Gen.Translated\n\n' + '\n\n'.join(defs) + '\n\nend MdIt.Gen.Translated\n')
    os.makedirs(os.path.dirname(os.path.abspath(args.out)), exist_ok=True)
    old = open(args.out, encoding='utf-8').read() if os.path.exists(args.out) else None
    if old != out_text:
        open(args.out, 'w', encoding='utf-8').write(out_text)
    if args.status:
        os.makedirs(os.path.dirname(os.path.abspath(args.status)), exist_ok=True)
        json.dump(status, open(args.status, 'w'), indent=1)
    for s in status:
        if not s['ok']:
            print('TIE-BROKEN %s (%s): %s' % (s['anchor'], ','.join(s['props']), s['detail']))
    print('rs2lean: %d functions, %d refused; %s %s' % (len(items), failed, os.path.basename(args.out), 'rewritten' if old != out_text else 'unchanged'))
    sys.exit(2 if failed else 0)


if __name__ == '__main__':
    main()
