#!/usr/bin/env python3
"""Regenerates lean/MdIt/Gen/Consts.lean from /repo's CURRENT source (DESIGN.md §5.1) and
checks the code shape around every constant / pattern the models were written for.

Every extraction is a regex with an anchor assertion.  The result of every anchor is written to
work/extract_status.json as {anchor, ok, props, detail}; ./check treats a failed anchor as a broken
tie for exactly the properties it serves (`TIE-BROKEN <anchor>`).  The generated Lean file is
rewritten only when its content changes so that lake's cache stays valid.  The extractor never
interprets control flow — that is the correspondence's job.
"""
import re, os, sys, json, glob

REPO = os.environ.get('MDIT_REPO', '/repo')
HERE = os.path.dirname(os.path.abspath(__file__))
OUT = os.path.join(HERE, '..', 'lean', 'MdIt', 'Gen', 'Consts.lean')
STATUS = os.path.join(HERE, '..', 'work', 'extract_status.json')
status = []
defs = []


def src(rel):
    try:
        return open(os.path.join(REPO, rel), encoding='utf-8').read()
    except OSError:
        return ''


# Anchors whose fact is ALSO established behaviourally by a correspondence stream are `soft`: when the shape is
# not recognised (a harmless rewrite does that) they are reported in the evidence as advisory and do not break the
# tie by themselves.  `hard` anchors feed a generated constant a theorem depends on, or state a fact no execution
# can show (absence of a raw sink, of interior mutability, of a sixth look-ahead caller).
SOFT = {'asciiset.has', 'asciiset.add', 'sourcemap.get_position', 'sourcemap.checkpoint', 'utils.escape_html',
        'renderer.make_attr', 'renderer.text_escapes', 'renderer.cr', 'renderer.nul',
        'ruler.add_resets', 'ruler.remove_resets', 'inline.add_rule_resets', 'inline.remove_rule_resets',
        'lookahead.paragraph_restores_line', 'lookahead.lheading_restores_line', 'lookahead.reference_restores_line',
        'lookahead.list_restores_line', 'lookahead.quote_resets_line',
        'inline.skip_token_overlimit', 'inline.tokenize_guard', 'block.tokenize_guard', 'codepair.cache_fields',
        'skip_text.stopset_two_copies', 'utils.is_valid_entity_code', 'escape.escapable_arm'}


# VALUE anchors: a constant or pattern the model carries its own copy of, which is compared with the generated
# one by a Lean obligation (Props/GenC17.lean, Props/GenC02.lean) or by `expect` below, AND which every answer of a
# correspondence stream depends on (hex digits, safe set, regexes behind hand-written matchers).  When the source no
# longer has the SHAPE the extractor knows (a harmless rewrite: table replaced by a function, regex by a scanner),
# nothing can be read off: the generated constant falls back to the model's value, the anchor is reported as advisory
# ("lost"), and the tie for that constant is the correspondence alone.  A shape that IS recognised with a DIFFERENT
# value stays a hard break.
SOFT |= {'asciiset.new', 'encode.DIGITS', 'main.normalize_link', 'main.max_nesting_default'}
# Since the whole block parser is modelled (Model/Block.lean, stream `block` compares complete block parses and
# single rule calls in both modes), WHO calls the look-ahead is established behaviourally: a sixth caller, or a
# caller moved into a shared helper (refactoring R8-2), shows as a difference of the stream or not at all.
SOFT |= {'lookahead.callers_are_the_five'}


def anchor(name, props, pattern, text, flags=re.S):
    m = re.search(pattern, text, flags)
    status.append(dict(anchor=name, ok=bool(m), props=props, hard=name not in SOFT, detail='' if m else 'shape not recognised'))
    return m


def expect(name, props, cond, detail):
    status.append(dict(anchor=name, ok=bool(cond), props=props, hard=name not in SOFT, detail='' if cond else detail))
    return cond


def lean_nat_list(xs):
    return '[' + ', '.join(str(x) for x in xs) + ']'


def rust_str_bytes(lit):
    out, i = [], 0
    while i < len(lit):
        c = lit[i]
        if c == '\\' and i + 1 < len(lit):
            mp = {'n': 10, 'r': 13, 't': 9, '\\': 92, '"': 34, "'": 39, '0': 0}
            if lit[i + 1] in mp:
                out.append(mp[lit[i + 1]]); i += 2; continue
        out += list(c.encode('utf-8'))
        i += 1
    return out


ALL = ['C%02d' % i for i in range(1, 21)]

# ------------------------------------------------------------------ mdurl (C17, C04)
asciiset = src('src/common/mdurl/asciiset.rs')
m = anchor('asciiset.new', ['C17', 'C04'], r'pub const fn new\(\) -> Self \{\s*Self\((0x[0-9a-fA-F_]+)\)', asciiset)
defs.append('def asciiNew : Nat := %d' % (int(m.group(1).replace('_', ''), 16) if m else 0x07fffffe07fffffe03ff000000000000))
anchor('asciiset.has', ['C17', 'C04'], r'pub const fn has\(&self, byte: u8\) -> bool \{\s*self\.0 & 1 << byte != 0\s*\}', asciiset)
anchor('asciiset.add', ['C17', 'C04'], r'pub const fn add\(&self, byte: u8\) -> Self \{\s*Self\(self\.0 \| 1 << byte\)\s*\}', asciiset)
encode = src('src/common/mdurl/encode.rs')
m = anchor('encode.DIGITS', ['C17', 'C04'], r'const DIGITS\s*:\s*&\[\s*u8;\s*16\s*\]\s*=\s*b"([^"]*)";', encode)
defs.append('def digits : List Nat := ' + lean_nat_list(rust_str_bytes(m.group(1)) if m else list(b'0123456789ABCDEF')))
main = src('src/parser/main.rs')
m = anchor('main.normalize_link', ['C17', 'C04'], r'fn normalize_link\(str: &str\) -> String \{\s*const ASCII : AsciiSet = AsciiSet::from\(r#"([^"]*)"#\);\s*mdurl::encode\(str, ASCII, (true|false)\)\s*\}', main)
defs.append('def safeChars : List Nat := ' + lean_nat_list(rust_str_bytes(m.group(1)) if m else list(b";/?:@&=+$,-_.!~*'()#")))
defs.append('def normalizeKeepEscaped : Bool := ' + (m.group(2) if m else 'true'))

# ------------------------------------------------------------------ regex literals the hand matchers were written for
PATTERNS = [
    ('main.BAD_PROTO_RE', ['C04'], 'src/parser/main.rs', r'BAD_PROTO_RE[^;]*?Regex::new\(r#"(.*?)"#\)', '(?i)^(vbscript|javascript|file|data):'),
    ('main.GOOD_DATA_RE', ['C04'], 'src/parser/main.rs', r'GOOD_DATA_RE[^;]*?Regex::new\(r#"(.*?)"#\)', '(?i)^data:image/(gif|png|jpeg|webp);'),
    ('utils.UNESCAPE_MD_RE', ['C12', 'C04'], 'src/common/utils.rs', r'const UNESCAPE_MD_RE : &str = r##"(.*?)"##;', r'''\\([!"#$%&'()*+,\-./:;<=>?@\[\\\]^_`{|}~])'''),
    ('utils.ENTITY_RE', ['C12', 'C04'], 'src/common/utils.rs', r'const ENTITY_RE\s*: &str = r##"(.*?)"##;', '&([A-Za-z#][A-Za-z0-9]{1,31});'),
    ('utils.DIGITAL_ENTITY_TEST_RE', ['C12'], 'src/common/utils.rs', r'DIGITAL_ENTITY_TEST_RE[^;]*?Regex::new\(r#"(.*?)"#\)', '(?i)^&#(x[a-f0-9]{1,6}|[0-9]{1,7});$'),
    ('entity.DIGITAL_RE', ['C12'], 'src/plugins/cmark/inline/entity.rs', r'DIGITAL_RE[^;]*?Regex::new\("(.*?)"\)', '(?i)^&#((?:x[a-f0-9]{1,6}|[0-9]{1,7}));'),
    ('entity.NAMED_RE', ['C12'], 'src/plugins/cmark/inline/entity.rs', r'NAMED_RE[^;]*?Regex::new\("(.*?)"\)', '(?i)^&([a-z][a-z0-9]{1,31});'),
    ('utils.SPACE_RE', ['C13'], 'src/common/utils.rs', r'SPACE_RE[^;]*?Regex::new\(r"(.*?)"\)', r'\s+'),
    ('autolink.AUTOLINK_RE', ['C04'], 'src/plugins/cmark/inline/autolink.rs', r'AUTOLINK_RE[^;]*?Regex::new\(r"(.*?)"\)', r'^([a-zA-Z][a-zA-Z0-9+.\-]{1,31}):([^<>\x00-\x20]*)$'),
]
# the raw-HTML rules (Model/Html.lean): the regex source strings the hand-written matchers were written for
HB = 'src/plugins/html/html_block.rs'
RX = 'src/plugins/html/utils/regexps.rs'
HP = ['C01', 'C16']
PATTERNS += [
    ('html_block.seq1_open', HP, HB, r'Regex::new\(r#"(\(\?i\)\^<\(script[^"]*?)"#\)', r'(?i)^<(script|pre|style|textarea)(\s|>|$)'),
    ('html_block.seq1_close', HP, HB, r'Regex::new\(r#"(\(\?i\)</\(script[^"]*?)"#\)', r'(?i)</(script|pre|style|textarea)>'),
    ('html_block.seq2_open', HP, HB, r'Regex::new\(r#"(\^<!--)"#\)', r'^<!--'),
    ('html_block.seq2_close', HP, HB, r'Regex::new\(r#"(-->)"#\)', r'-->'),
    ('html_block.seq3_open', HP, HB, r'Regex::new\(r#"(\^<\\\?)"#\)', r'^<\?'),
    ('html_block.seq3_close', HP, HB, r'Regex::new\(r#"(\\\?>)"#\)', r'\?>'),
    ('html_block.seq4_open', HP, HB, r'Regex::new\(r#"(\^<!\[A-Z\])"#\)', r'^<![A-Z]'),
    ('html_block.seq4_close', HP, HB, r'Regex::new\(r#"(>)"#\)', r'>'),
    ('html_block.seq5_open', HP, HB, r'Regex::new\(r#"(\^<!\\\[CDATA\\\[)"#\)', r'^<!\[CDATA\['),
    ('html_block.seq5_close', HP, HB, r'Regex::new\(r#"(\\\]\\\]>)"#\)', r'\]\]>'),
    ('html_block.seq6_open', HP, HB, r'Regex::new\(&format!\("(\(\?i\)\^</\?\(\{block_names\}\)[^"]*?)"\)\)', r'(?i)^</?({block_names})(\\s|/?>|$)'),
    ('html_block.seq7_open', HP, HB, r'Regex::new\(&format!\("(\{open_close_tag_re\}[^"]*?)"\)\)', r'{open_close_tag_re}\\s*$'),
    ('html_block.blank_close', HP, HB, r'Regex::new\(r#"(\^\$)"#\)', r'^$'),
    ('regexps.attr_name', HP, RX, r'const attr_name\s*: &str = r#"(.*?)"#;', r'[a-zA-Z_:][a-zA-Z0-9:._-]*'),
    ('regexps.unquoted', HP, RX, r'const unquoted\s*: &str = r#"(.*?)"#;', r'''[^"'=<>`\x00-\x20]+'''),
    ('regexps.single_quoted', HP, RX, r'const single_quoted\s*: &str = r#"(.*?)"#;', r"'[^']*'"),
    ('regexps.double_quoted', HP, RX, r'const double_quoted\s*: &str = r#"(.*)"#;\s*\n\s*const attr_value', r'"[^"]*"'),
    ('regexps.attr_value', HP, RX, r'const attr_value\s*: &str = formatcp!\("(.*?)"\);', r'(?:{unquoted}|{single_quoted}|{double_quoted})'),
    ('regexps.attribute', HP, RX, r'const attribute\s*: &str = formatcp!\("(.*?)"\);', r'(?:\\s+{attr_name}(?:\\s*=\\s*{attr_value})?)'),
    ('regexps.open_tag', HP, RX, r'const open_tag\s*: &str = formatcp!\("(.*?)"\);', r'<[A-Za-z][A-Za-z0-9\\-]*{attribute}*\\s*/?>'),
    ('regexps.close_tag', HP, RX, r'const close_tag\s*: &str = r#"(.*?)"#;', r'</[A-Za-z][A-Za-z0-9\-]*\s*>'),
    ('regexps.comment', HP, RX, r'const comment\s*: &str = r#"(.*?)"#;', r'<!---->|<!--(?:-?[^>-])(?:-?[^-])*-->'),
    ('regexps.processing', HP, RX, r'const processing\s*: &str = r#"(.*?)"#;', r'<[?][\s\S]*?[?]>'),
    ('regexps.declaration', HP, RX, r'const declaration\s*: &str = r#"(.*?)"#;', r'<![A-Z]+\s+[^>]*>'),
    ('regexps.cdata', HP, RX, r'const cdata\s*: &str = r#"(.*?)"#;', r'<!\[CDATA\[[\s\S]*?\]\]>'),
    ('regexps.HTML_TAG_RE', HP, RX, r'HTML_TAG_RE[^;]*?formatcp!\("(.*?)"\)', r'^(?:{open_tag}|{close_tag}|{comment}|{processing}|{declaration}|{cdata})'),
    ('regexps.HTML_OPEN_CLOSE_TAG_RE', HP, RX, r'HTML_OPEN_CLOSE_TAG_RE[^;]*?formatcp!\("(.*?)"\)', r'^(?:{open_tag}|{close_tag})'),
    ('regexps.HTML_LINK_OPEN', HP, RX, r'HTML_LINK_OPEN[^;]*?Regex::new\(r#"(.*?)"#\)', r'^<a[>\s]'),
    ('regexps.HTML_LINK_CLOSE', HP, RX, r'HTML_LINK_CLOSE[^;]*?Regex::new\(r#"(.*?)"#\)', r'^</a\s*>'),
]
pat_defs = []
for name, props, rel, rx, want in PATTERNS:
    m = re.search(rx, src(rel), re.S)
    got = m.group(1) if m else None
    if got is None:
        # the regex is gone (e.g. replaced by a hand-written scanner): nothing to compare, tie by correspondence only
        status.append(dict(anchor=name, ok=False, props=props, hard=False, detail='pattern not found in the source (lost): the hand matcher %r is tied by the correspondence streams only' % want))
        got = want
    else:
        expect(name, props, got == want, 'pattern in source is %r, the hand matcher models %r' % (got, want))
    pat_defs.append('def %s : List Nat := %s' % ('pat_' + name.replace('.', '_'), lean_nat_list(list((got or '').encode('utf-8')))))
defs += pat_defs
# the 62 block-level element names of start condition 6 (generated; obligation in Props/GenHtml.lean)
hb = src('src/plugins/html/utils/blocks.rs')
m = anchor('html.HTML_BLOCKS', HP, r'pub const HTML_BLOCKS : \[&str; (\d+)\] = \[(.*?)\];', hb)
names = re.findall(r'"([^"]*)"', m.group(2)) if m else []
if m: expect('html.HTML_BLOCKS_len', HP, len(names) == int(m.group(1)), 'declared %s names, found %d' % (m.group(1), len(names)))
defs.append('def htmlBlockNames : List (List Nat) := [' + ', '.join(lean_nat_list(list(n.encode('utf-8'))) for n in names) + ']')

# ------------------------------------------------------------------ text scanner stop set, two copies (C08, C12)
skip = src('src/parser/inline/builtin/skip_text.rs')
arms = re.findall(r"'\\n' \| '!' \| '#' \| '\$' \| '%' \| '&' \| '\*' \| '\+' \| '-' \|\s*':' \| '<' \| '=' \| '>' \| '@' \| '\[' \| '\\\\' \| '\]' \| '\^' \|\s*'_' \| '`' \| '\{' \| '\}' \| '~'", skip)
expect('skip_text.stopset_two_copies', ['C08', 'C12'], len(arms) == 2, 'expected the 23-character stop set twice (SkipPunct arm and choose_text_impl), found %d' % len(arms))
defs.append('def textStop : List Nat := ' + lean_nat_list([10] + [ord(c) for c in '!#$%&*+-:<=>@[\\]^_`{}~']))

# ------------------------------------------------------------------ escapable set of the escape rule (C12)
esc = src('src/plugins/cmark/inline/escape.rs')
m = anchor('escape.escapable_arm', ['C12'], r"let content_str = match chr \{\s*((?:'[^']+'|'\\\\'|'\\''|\s|\|)+?)=> chr\.into\(\),", esc)
chars = []
if m:
    for tok in re.findall(r"'(\\\\|\\'|[^'])'", m.group(1)):
        chars.append({'\\\\': '\\', "\\'": "'"}.get(tok, tok))
defs.append('def escapable : List Nat := ' + lean_nat_list(sorted(ord(c) for c in chars)))
expect('escape.escapable_is_32_punct', ['C12'], (not m) or sorted(chars) == sorted('!"#$%&\'()*+,-./:;<=>?@[\\]^_`{|}~'), 'escapable set in escape.rs is %r' % ''.join(sorted(chars)))

# ------------------------------------------------------------------ valid entity code ranges (C12)
utils = src('src/common/utils.rs')
anchor('utils.is_valid_entity_code', ['C12'], r'if code >= 0xD800 && code <= 0xDFFF \{ return false; \}.*?if code >= 0xFDD0 && code <= 0xFDEF \{ return false; \}\s*if \(code & 0xFFFF\) == 0xFFFF \|\| \(code & 0xFFFF\) == 0xFFFE \{ return false; \}.*?if code <= 0x08 \{ return false; \}\s*if code == 0x0B \{ return false; \}\s*if code >= 0x0E && code <= 0x1F \{ return false; \}\s*if code >= 0x7F && code <= 0x9F \{ return false; \}.*?if code > 0x10FFFF \{ return false; \}\s*true', utils)

# ------------------------------------------------------------------ misc constants
m = anchor('main.max_nesting_default', ['C02'], r'max_nesting:\s*(\d+),', main)
defs.append('def maxNestingDefault : Nat := ' + (m.group(1) if m else '100'))
smap = src('src/common/sourcemap.rs')
m = anchor('sourcemap.checkpoint', ['C15'], r'if column % (\d+) == 0 && column > 0 \{\s*marks\.push', smap)
defs.append('def checkpointEvery : Nat := ' + (m.group(1) if m else '16'))
anchor('sourcemap.get_position', ['C15'], r'let byte_offset = byte_offset \+ 1;.*?binary_search_by\(\|mark\| mark\.offset\.cmp\(&byte_offset\)\) \{\s*Ok\(x\) => x,\s*Err\(x\) => x - 1,', smap)

# ------------------------------------------------------------------ nesting level sites (C02): is the level raised around each recursive call?
def raised(text, call):
    """every occurrence of `call` is directly preceded by `state.level += 1;` and followed by `state.level -= 1;`"""
    occ = [mm.start() for mm in re.finditer(re.escape(call), text)]
    if not occ:
        return None
    ok = True
    for o in occ:
        before = text[max(0, o - 120):o]
        after = text[o:o + 160]
        if not (re.search(r'state\.level \+= 1;\s*(?:state\.\w+ = [^;]+;\s*)*$', before) and re.search(r'state\.level -= 1;', after)):
            ok = False
    return ok
sites = {
    'quote': raised(src('src/plugins/cmark/block/blockquote.rs'), 'state.md.block.tokenize(state);'),
    'listItem': raised(src('src/plugins/cmark/block/list.rs'), 'state.md.block.tokenize(state);'),
    'linkLabel': raised(src('src/generics/inline/full_link.rs'), 'state.md.inline.tokenize(state);'),
    'skipRule': raised(src('src/parser/inline/mod.rs'), 'ok = rule(state, true);'),
}
lst = src('src/plugins/cmark/block/list.rs')
sites['listOuter'] = bool(re.search(r'let old_node = std::mem::replace\(&mut state\.node, new_node\);\s*state\.level \+= 1;', lst) and re.search(r'// Finalize list\s*state\.level -= 1;', lst))
for k, v in sites.items():
    expect('levelsite.' + k, ['C02', 'C01'], v is not None, 'recursive call site not found')
defs.append('/-- increment applied to the nesting level around each recursive call site (static scan), in the order\n'
            '    [quote, listOuter, listItem, linkLabel, skipRule] of `MdIt.Nesting.Sites.toList` -/\n'
            'def levelSites : List Nat := [' + ', '.join('%d' % (1 if sites[k] else 0) for k in ['quote', 'listOuter', 'listItem', 'linkLabel', 'skipRule']) + ']')
inl = src('src/parser/inline/mod.rs')
anchor('inline.skip_token_overlimit', ['C01', 'C02'], r'state\.pos = state\.pos_max;\s*state\.cache\.insert\(pos, state\.pos\);\s*return;', inl)
anchor('inline.tokenize_guard', ['C02'], r'if state\.level < state\.md\.max_nesting \{', inl)
anchor('block.tokenize_guard', ['C02'], r'if state\.level >= state\.md\.max_nesting \{\s*state\.line = state\.line_max;\s*break;', src('src/parser/block/mod.rs'))

# ------------------------------------------------------------------ raw sinks (C03): who calls text_raw, who constructs html nodes, who registers them
raw_users, html_ctors = [], []
for f in sorted(glob.glob(os.path.join(REPO, 'src', '**', '*.rs'), recursive=True)):
    rel = os.path.relpath(f, REPO)
    t = open(f, encoding='utf-8').read()
    t_nocomment = re.sub(r'//.*', '', t)
    if rel not in ('src/parser/renderer.rs', 'src/verif_hooks.rs') and re.search(r'\.text_raw\(', t_nocomment):
        raw_users.append(rel)
    if re.search(r'Node::new\(Html(Block|Inline)\s*\{', t_nocomment):
        html_ctors.append(rel)
expect('rawsinks.text_raw_callers', ['C03'], raw_users == ['src/plugins/html/html_block.rs', 'src/plugins/html/html_inline.rs'], 'text_raw is called from %r' % raw_users)
expect('rawsinks.html_node_constructors', ['C03'], html_ctors == ['src/plugins/html/html_block.rs', 'src/plugins/html/html_inline.rs'], 'Html nodes are constructed in %r' % html_ctors)
cm = src('src/plugins/cmark/mod.rs') + src('src/plugins/extra/mod.rs') + src('src/plugins/sourcepos.rs') + src('src/parser/block/builtin/mod.rs') + src('src/parser/inline/builtin/mod.rs')
expect('rawsinks.html_only_via_html_plugin', ['C03'], not re.search(r'html::|html_block|html_inline|HtmlBlock|HtmlInline', re.sub(r'//.*', '', cm)), 'a non-html plugin module mentions the html rules')
defs.append('def rawSinkFiles : List String := [' + ', '.join('"%s"' % r for r in raw_users) + ']')

# ------------------------------------------------------------------ renderer shape (C03, C19)
rend = src('src/parser/renderer.rs')
anchor('renderer.make_attr', ['C03', 'C19'], r"self\.result\.push\(' '\);\s*self\.result\.push_str\(&escape_html\(name\)\);\s*self\.result\.push\('='\);\s*self\.result\.push\('\"'\);\s*self\.result\.push_str\(&escape_html\(value\)\);\s*self\.result\.push\('\"'\);", rend)
anchor('renderer.text_escapes', ['C03', 'C19'], r'fn text\(&mut self, text: &str\) \{\s*self\.result\.push_str\(&escape_html\(text\)\);', rend)
anchor('renderer.cr', ['C03', 'C19'], r"match self\.result\.as_bytes\(\)\.last\(\) \{\s*Some\(b'\\n'\) \| None => \{\}\s*Some\(_\) => self\.result\.push\('\\n'\)", rend)
anchor('renderer.nul', ['C19'], r"input\.replace\('\\0', \"\\u\{FFFD\}\"\)", rend)
anchor('utils.escape_html', ['C03', 'C19'], r'pub fn escape_html\(str: &str\) -> Cow<str> \{\s*html_escape::encode_double_quoted_attribute\(str\)', utils)

# ------------------------------------------------------------------ interior mutability reachable from &MarkdownIt (C07): only the known cells
cells = []
for f in sorted(glob.glob(os.path.join(REPO, 'src', '**', '*.rs'), recursive=True)):
    rel = os.path.relpath(f, REPO)
    if rel == 'src/verif_hooks.rs':
        continue
    t = re.sub(r'//.*', '', open(f, encoding='utf-8').read())
    t = re.sub(r'#\[cfg\(test\)\].*', '', t, flags=re.S)
    for mm in re.finditer(r'\b(OnceCell|RefCell|Cell|Mutex|RwLock|AtomicU\w+|AtomicBool|thread_local!|static mut|UnsafeCell)\b', t):
        cells.append(rel + ':' + mm.group(1))
cells = sorted(set(cells))
KNOWN_CELLS = sorted({'src/common/ruler.rs:OnceCell', 'src/parser/inline/mod.rs:OnceCell', 'src/plugins/cmark/block/fence.rs:Cell', 'src/generics/inline/code_pair.rs:RefCell'})
expect('purity.interior_mutability', ['C07', 'C19'], cells == KNOWN_CELLS, 'interior-mutable items found: %r (modelled: %r)' % (cells, KNOWN_CELLS))
defs.append('def interiorMutable : List String := [' + ', '.join('"%s"' % c for c in cells) + ']')

# ------------------------------------------------------------------ cache resets (C08)
ruler = src('src/common/ruler.rs')
anchor('ruler.add_resets', ['C08', 'C07'], r'pub fn add\(&mut self, mark: M, value: T\) -> &mut RuleItem<M, T> \{\s*self\.compiled = OnceCell::new\(\);', ruler)
anchor('ruler.remove_resets', ['C08', 'C07'], r'pub fn remove\(&mut self, mark: M\) \{\s*self\.compiled = OnceCell::new\(\);', ruler)
anchor('inline.add_rule_resets', ['C08', 'C07'], r'pub fn add_rule<T: InlineRule>\(&mut self\) -> RuleBuilder<RuleFn> \{\s*self\.text_impl = OnceCell::new\(\);', inl)
anchor('inline.remove_rule_resets', ['C08', 'C07'], r'pub fn remove_rule<T: InlineRule>\(&mut self\) \{\s*self\.text_impl = OnceCell::new\(\);', inl)

# ------------------------------------------------------------------ look-ahead callers restore state.line (C16)
RESTORE = r'let old_state_line = state\.line;\s*state\.line = next_line;\s*if state\.test_rules_at_line\(\) \{\s*state\.line = old_state_line;\s*break \'outer;\s*\}\s*state\.line = old_state_line;'
for f in ('paragraph', 'lheading', 'reference'):
    anchor('lookahead.%s_restores_line' % f, ['C16'], RESTORE, src('src/plugins/cmark/block/%s.rs' % f))
anchor('lookahead.list_restores_line', ['C16'], r'let old_state_line = state\.line;\s*let terminate = state\.test_rules_at_line\(\);\s*state\.line = old_state_line;', src('src/plugins/cmark/block/list.rs'))
anchor('lookahead.quote_resets_line', ['C16'], r'let old_line_max = state\.line_max;\s*state\.line = start_line;', src('src/plugins/cmark/block/blockquote.rs'))
bq = src('src/plugins/cmark/block/blockquote.rs') + src('src/plugins/cmark/block/list.rs') + src('src/plugins/cmark/block/paragraph.rs') + src('src/plugins/cmark/block/lheading.rs') + src('src/plugins/cmark/block/reference.rs')
expect('lookahead.callers_are_the_five', ['C16'], len(re.findall(r'test_rules_at_line\(\)', bq)) == 5 and sum(len(re.findall(r'test_rules_at_line\(\)', re.sub(r'//.*', '', open(f2, encoding='utf-8').read()))) for f2 in glob.glob(os.path.join(REPO, 'src', '**', '*.rs'), recursive=True)) == 5 + 0, 'test_rules_at_line is called from other places than the five modelled callers')
anchor('codepair.cache_fields', ['C16', 'C11', 'C01'], r'struct CodePairCache<const MARKER: char> \{[^}]*scanned: bool,\s*scanned_from: usize,\s*scanned_to: usize,\s*max: Vec<usize>,[^}]*inside_failed: HashSet<usize>,\s*\}', src('src/generics/inline/code_pair.rs'))

# ------------------------------------------------------------------ output
text = ('/- GENERATED by extract/extract.py from /repo source on every run — do not edit. -/\n'
        'namespace MdIt.Gen.Consts\n\n' + '\n\n'.join(defs) + '\n\nend MdIt.Gen.Consts\n')
os.makedirs(os.path.dirname(OUT), exist_ok=True)
old = open(OUT).read() if os.path.exists(OUT) else None
if old != text:
    open(OUT, 'w').write(text)
os.makedirs(os.path.dirname(STATUS), exist_ok=True)
json.dump(status, open(STATUS, 'w'), indent=1)
bad = [s for s in status if not s['ok']]
for b in bad:
    print('%s %s (%s): %s' % ('TIE-BROKEN' if b['hard'] else 'advisory: shape changed', b['anchor'], ','.join(b['props']), b['detail']))
print('extract: %d anchors, %d broken; Gen/Consts.lean %s (%d definitions)' % (len(status), len(bad), 'rewritten' if old != text else 'unchanged', len(defs)))
