import MdIt.Model.InlineOps
import MdIt.Model.Join
import Driver.Proto
/-
  Stream `inlineops`.

  request grammar (one line, space separated):
    srcpos  <map> <pos>            → `<n>` | `PANIC`          (`get_source_pos_for(pos)`)
    map     <map> <a> <b>          → `<x>,<y>` | `PANIC`      (`get_map(a, b)`)
    join    <nodes>                → `<nodes>`                (`FragmentsJoin::run` on a parent with these children)
    textops <hexSrc> <map> <ops>   → `<nodes>` | `PANIC`      (ops applied to an empty child vector)
  <map>   = `-` | `k/v,k/v,…`
  <nodes> = `-` | node `;` node …
  node    = `T:<hex content>:<a>:<b>` | `M:<hex of marker char>:<remaining>:<a>:<b>` | `O:<k>:<a>:<b>`
            (`<a>:<b>` = `-:-` when the node has no srcmap)
  <ops>   = op `;` op …,  op = `push<start>,<end>` | `pop<count>` | `other`
            (`other` pushes the opaque node `O:0:-:-`)
-/
namespace Driver.InlineOps
open MdIt.InlineOps MdIt.Join

def parseMap (s : String) : Option Srcmap :=
  if s == "-" then some [] else
  (s.splitOn ",").mapM fun e =>
    match e.splitOn "/" with
    | [k, v] =>
      match k.toNat?, v.toNat? with
      | some k, some v => some (k, v)
      | _, _ => none
    | _ => none

def parseRange (a b : String) : Option (Option (Nat × Nat)) :=
  if a == "-" && b == "-" then some none else
  match a.toNat?, b.toNat? with
  | some a, some b => some (some (a, b))
  | _, _ => none

def parseNode (s : String) : Option INode :=
  match s.splitOn ":" with
  | ["T", hex, a, b] =>
    match hexToChars hex, parseRange a b with
    | some cs, some r => some (INode.newText cs r)
    | _, _ => none
  | ["M", chex, rem, a, b] =>
    match hexToChars chex, rem.toNat?, parseRange a b with
    | some [ch], some rem, some r =>
      some { kind := .marker ch, content := [], range := r, children := [], remaining := rem }
    | _, _, _ => none
  | ["O", k, a, b] =>
    match k.toNat?, parseRange a b with
    | some k, some r => some (INode.newOther k r)
    | _, _ => none
  | _ => none

def parseNodes (s : String) : Option (List INode) :=
  if s == "-" then some [] else (s.splitOn ";").mapM parseNode

def showRange : Option (Nat × Nat) → String
  | none => "-:-"
  | some (a, b) => toString a ++ ":" ++ toString b

def showNode (n : INode) : String :=
  match n.kind with
  | .text => "T:" ++ charsToHex n.content ++ ":" ++ showRange n.range
  | .marker ch => "M:" ++ charsToHex [ch] ++ ":" ++ toString n.remaining ++ ":" ++ showRange n.range
  | .other k => "O:" ++ toString k ++ ":" ++ showRange n.range

def showNodes (l : List INode) : String :=
  if l.isEmpty then "-" else ";".intercalate (l.map showNode)

inductive Op where
  | push (a b : Nat)
  | pop (n : Nat)
  | other

def parseOp (s : String) : Option Op :=
  if s == "other" then some .other
  else if s.startsWith "push" then
    match (s.drop 4).toString.splitOn "," with
    | [a, b] =>
      match a.toNat?, b.toNat? with
      | some a, some b => some (.push a b)
      | _, _ => none
    | _ => none
  else if s.startsWith "pop" then
    match (s.drop 3).toString.toNat? with
    | some n => some (.pop n)
    | none => none
  else none

def runOps (src : List Char) (m : Srcmap) : List Op → List INode → Except MdIt.InlineOps.Panic (List INode)
  | [], cs => .ok cs
  | op :: ops, cs =>
    let r : Except MdIt.InlineOps.Panic (List INode) :=
      match op with
      | .push a b => trailingTextPush src m cs a b
      | .pop n => trailingTextPop cs n
      | .other => .ok (cs ++ [INode.newOther 0 none])
    match r with
    | .error e => .error e
    | .ok cs' => runOps src m ops cs'

def handle (args : List String) : String :=
  match args with
  | ["srcpos", mapS, posS] =>
    match parseMap mapS, posS.toNat? with
    | some m, some pos =>
      match getSourcePosFor m pos with
      | .ok x => toString x
      | .error _ => "PANIC"
    | _, _ => "bad-args"
  | ["map", mapS, aS, bS] =>
    match parseMap mapS, aS.toNat?, bS.toNat? with
    | some m, some a, some b =>
      match getMap m a b with
      | .ok (x, y) => toString x ++ "," ++ toString y
      | .error _ => "PANIC"
    | _, _, _ => "bad-args"
  | ["join", nodesS] =>
    match parseNodes nodesS with
    | some cs =>
      let r1 := showNodes (fragmentsJoin cs)
      let r2 := showNodes (fragmentsJoinL cs)
      let parent : INode := { INode.newOther 0 none with children := cs }
      let r3 := showNodes (joinAll parent).children
      if r1 == r2 && r1 == r3 then r1 else "MODEL-INTERNAL-MISMATCH"
    | none => "bad-args"
  | ["textops", hexSrc, mapS, opsS] =>
    match hexToChars hexSrc, parseMap mapS, (opsS.splitOn ";").mapM parseOp with
    | some src, some m, some ops =>
      match runOps src m ops [] with
      | .ok cs => showNodes cs
      | .error _ => "PANIC"
    | _, _, _ => "bad-args"
  | _ => "bad-op"

end Driver.InlineOps
