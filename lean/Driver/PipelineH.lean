import MdIt.Model.PipelineH
import Driver.Pipeline
import Driver.BlockH
import Driver.InlineH
/-
  stream `pipelineh`: the whole document pipeline (`md.parse(src)`, `.render()`, `.xrender()`) for
  configurations that may hold the raw-HTML plugins (`html_block`, `html_inline`, either or both)
  (`MdIt/Model/PipelineH.lean`).  The protocol is that of the stream `pipeline` (`Driver/Pipeline.lean`)
  with one more rule name in each chain and two more node heads.  Strings travel as hex of their UTF-8
  bytes (`-` = empty).

    html <x01> <sourcepos01> <maxNesting> <blockChain> <inlineChain> <emphCfg> <hexSrc>
        → hex of `md.parse(src).render()` (`x01 = 0`) / `.xrender()` (`x01 = 1`)   or   `PANIC:<class>`
    tree <x01> <sourcepos01> <maxNesting> <blockChain> <inlineChain> <emphCfg> <hexSrc>
        → <node> : the final tree of `md.parse(src)` (`x01` is ignored)            or   `PANIC:<class>`

  <blockChain>  = the `<chain>` of `Driver/BlockH.lean`   (the names of the stream `block` | html)
  <inlineChain> = the `<chain>` of `Driver/InlineH.lean`  (the names of the stream `inline` | html)
  <emphCfg>     = the `<emphCfg>` of `Driver/Inline.lean`
  `FragmentsJoin` runs iff <inlineChain> has an `emph:` rule; `SyntaxPosRule` iff `sourcepos01 = 1`;
  `lang_prefix` is `language-`.

  <node>   = `(` <head> ` ` <range> { ` @` <hexName> `=` <hexValue> } { ` ` <node> } `)`
  <head>   = the heads of the stream `pipeline`
           | html:<hexContent>        `HtmlBlock`   (decoded iff `html` is in <blockChain>)
           | H:<hexContent>           `HtmlInline`  (decoded iff `html` is in <inlineChain>)
  <range>, <class> as in the stream `pipeline`
-/
namespace Driver.PipelineH
open MdIt.Pipeline MdIt.PipelineH

def showHead (hb hi : Bool) (k : Kind) : String :=
  match k with
  | .blk b =>
    match hb, MdIt.BlockH.htmlContent? b with
    | true, some c => "html:" ++ charsToHex c
    | _, _ => Driver.Pipeline.showHead k
  | .inl v =>
    match hi, MdIt.InlineH.htmlContent? v with
    | true, some c => "H:" ++ charsToHex c
    | _, _ => Driver.Pipeline.showHead k

mutual
def showNode (hb hi : Bool) : Node → String
  | ⟨k, r, a, cs⟩ =>
    "(" ++ showHead hb hi k ++ " " ++ Driver.Block.showRange r ++ Driver.Pipeline.showAttrs a ++ showNodes hb hi cs ++ ")"
def showNodes (hb hi : Bool) : List Node → String
  | [] => ""
  | n :: r => " " ++ showNode hb hi n ++ showNodes hb hi r
end

def mkCfg (sourcepos : Bool) (maxNesting : Nat) (bchain : List MdIt.BlockH.RuleIdH)
    (ichain : List MdIt.InlineH.RuleIdH) (emph : List (Char × List (Option MdIt.Inline.Wrap))) : DocCfgH :=
  let c := Driver.Pipeline.mkCfg sourcepos maxNesting [] [] emph
  { maxNesting := maxNesting, blockChain := bchain, inlineChain := ichain,
    fns := c.fns, sourcepos := sourcepos, langPrefix := c.langPrefix, entity := c.entity,
    L := c.L, U := c.U, isWhite := c.isWhite, isPunctChar := c.isPunctChar }

def parseArgs (xS spS mnS bS iS eS hex : String) : Option (Bool × DocCfgH × List Char) :=
  match Driver.Inline.parseBool xS, Driver.Inline.parseBool spS, mnS.toNat?, Driver.BlockH.parseChain bS,
        Driver.InlineH.parseChainH iS, Driver.Inline.parseEmphCfg eS, hexToChars hex with
  | some x, some sp, some mn, some bc, some ic, some em, some src => some (x, mkCfg sp mn bc ic em, src)
  | _, _, _, _, _, _, _ => none

def handle (args : List String) : String :=
  match args with
  | ["html", xS, spS, mnS, bS, iS, eS, hex] =>
    match parseArgs xS spS mnS bS iS eS hex with
    | some (x, cfg, src) =>
      match renderDocH x cfg src with
      | .ok h => charsToHex h
      | .error e => "PANIC:" ++ Driver.Pipeline.panicName e
    | none => "bad-args"
  | ["tree", xS, spS, mnS, bS, iS, eS, hex] =>
    match parseArgs xS spS mnS bS iS eS hex with
    | some (_, cfg, src) =>
      match parseDocH cfg src with
      | .ok t => showNode cfg.htmlBlock cfg.htmlInline t
      | .error e => "PANIC:" ++ Driver.Pipeline.panicName e
    | none => "bad-args"
  | _ => "bad-op"

end Driver.PipelineH
