import MdIt.Model.Pipeline
import MdIt.Gen.Entities
import MdIt.Gen.Unicode
import MdIt.Gen.Punct
import Driver.Proto
import Driver.Block
import Driver.Inline
/-
  stream `pipeline`: the whole document pipeline (`md.parse(src)`, `.render()`, `.xrender()`) for
  html-free configurations.  Strings travel as hex of their UTF-8 bytes (`-` = empty).

    html <x01> <sourcepos01> <maxNesting> <blockChain> <inlineChain> <emphCfg> <hexSrc>
        → hex of `md.parse(src).render()` (`x01 = 0`) / `.xrender()` (`x01 = 1`)   or   `PANIC:<class>`
    tree <x01> <sourcepos01> <maxNesting> <blockChain> <inlineChain> <emphCfg> <hexSrc>
        → <node> : the final tree of `md.parse(src)` (`x01` is ignored)            or   `PANIC:<class>`

  <blockChain>  = the `<chain>` of `Driver/Block.lean`   (`,`-separated rule names, `-` = empty)
  <inlineChain> = the `<chain>` of `Driver/Inline.lean`  (text | newline | … | emph:<hexMarker>:<canSplitWord01>)
  <emphCfg>     = the `<emphCfg>` of `Driver/Inline.lean` (`PairConfig<MARKER>::fns`)
  `FragmentsJoin` runs iff <inlineChain> has an `emph:` rule; `SyntaxPosRule` iff `sourcepos01 = 1`;
  `lang_prefix` is `language-`.

  <node>   = `(` <head> ` ` <range> { ` @` <hexName> `=` <hexValue> } { ` ` <node> } `)`
  <head>   = root | p | bq | li | ul:<marker> | ol:<start>:<marker> | code:<hexContent>
           | fence:<hexInfo>:<marker>:<markerLen>:<hexContent> | hr:<marker>:<len> | h:<level>
           | sh:<level>:<marker> | inl:<hexContent>:<mapping>                       (block kinds, markers as code points)
           | T:<hexContent> | X:<hexContent>:<hexMarkup>:<hexInfo> | SB | HB | C:<hexMarker>:<markerLen>
           | E:<hexMarker> | S:<hexMarker> | K:<hexMarker> | L:<hexUrl>:<hexTitle|none> | I:<hexUrl>:<hexTitle|none>
           | A:<hexUrl> | M:<hexMarker>:<length>:<remaining>:<open01>:<close01>      (inline kinds)
  <range>  = `<start>-<end>` (byte offsets) | `none`
  <class>  = the stage (`block` | `inline` | `sourcepos` | `render`) `-` the panic class of that slice's
             driver (`Driver/Block.lean`, `Driver/Inline.lean`; sourcepos: underflow | index | slice;
             render: index | unimplemented | unescape)
-/
namespace Driver.Pipeline
open MdIt.Pipeline

def panicName : Panic → String
  | .block p => "block-" ++ Driver.Block.panicName p
  | .inline p => "inline-" ++ Driver.Inline.panicName p
  | .sourcepos .underflow => "sourcepos-underflow"
  | .sourcepos .index => "sourcepos-index"
  | .sourcepos .slice => "sourcepos-slice"
  | .render .index => "render-index"
  | .render .unimplemented => "render-unimplemented"
  | .render (.unescape _) => "render-unescape"

def showTitle : Option (List Char) → String
  | none => "none"
  | some t => charsToHex t

def b01 (b : Bool) : String := if b then "1" else "0"

def showVal : MdIt.Inline.Val → String
  | .text c => "T:" ++ charsToHex c
  | .special c m i => "X:" ++ charsToHex c ++ ":" ++ charsToHex m ++ ":" ++ charsToHex i
  | .softbreak => "SB"
  | .hardbreak => "HB"
  | .codeInline m n => "C:" ++ charsToHex [m] ++ ":" ++ toString n
  | .wrap .em m => "E:" ++ charsToHex [m]
  | .wrap .strong m => "S:" ++ charsToHex [m]
  | .wrap .strike m => "K:" ++ charsToHex [m]
  | .link u t => "L:" ++ bytesToHex u ++ ":" ++ showTitle t
  | .image u t => "I:" ++ bytesToHex u ++ ":" ++ showTitle t
  | .autolink u => "A:" ++ bytesToHex u
  | .emphMarker m l r o c =>
    "M:" ++ charsToHex [m] ++ ":" ++ toString l ++ ":" ++ toString r ++ ":" ++ b01 o ++ ":" ++ b01 c

def showHead : Kind → String
  | .blk k => Driver.Block.showHead k
  | .inl v => showVal v

def showAttrs : List (List Char × List Char) → String
  | [] => ""
  | (n, v) :: r => " @" ++ charsToHex n ++ "=" ++ charsToHex v ++ showAttrs r

mutual
def showNode : Node → String
  | ⟨k, r, a, cs⟩ =>
    "(" ++ showHead k ++ " " ++ Driver.Block.showRange r ++ showAttrs a ++ showNodes cs ++ ")"
def showNodes : List Node → String
  | [] => ""
  | n :: r => " " ++ showNode n ++ showNodes r
end

def mkCfg (sourcepos : Bool) (maxNesting : Nat) (bchain : List MdIt.Block.RuleId)
    (ichain : List MdIt.Inline.RuleId) (emph : List (Char × List (Option MdIt.Inline.Wrap))) : DocCfg :=
  { maxNesting := maxNesting, blockChain := bchain, inlineChain := ichain,
    fns := Driver.Inline.fnsOf emph, sourcepos := sourcepos,
    langPrefix := "language-".toList,
    entity := MdIt.Entity.lookupIn MdIt.Gen.Entities.table,
    L := Driver.Block.L, U := Driver.Block.U,
    isWhite := fun c => MdIt.Gen.Unicode.whiteSpace.contains c.toNat,
    isPunctChar := fun c => MdIt.Gen.Punct.table.contains c.toNat }

def parseArgs (xS spS mnS bS iS eS hex : String) : Option (Bool × DocCfg × List Char) :=
  match Driver.Inline.parseBool xS, Driver.Inline.parseBool spS, mnS.toNat?, Driver.Block.parseChain bS,
        Driver.Inline.parseChain iS, Driver.Inline.parseEmphCfg eS, hexToChars hex with
  | some x, some sp, some mn, some bc, some ic, some em, some src => some (x, mkCfg sp mn bc ic em, src)
  | _, _, _, _, _, _, _ => none

def handle (args : List String) : String :=
  match args with
  | ["html", xS, spS, mnS, bS, iS, eS, hex] =>
    match parseArgs xS spS mnS bS iS eS hex with
    | some (x, cfg, src) =>
      match renderDoc x cfg src with
      | .ok h => charsToHex h
      | .error e => "PANIC:" ++ panicName e
    | none => "bad-args"
  | ["tree", xS, spS, mnS, bS, iS, eS, hex] =>
    match parseArgs xS spS mnS bS iS eS hex with
    | some (_, cfg, src) =>
      match parseDoc cfg src with
      | .ok t => showNode t
      | .error e => "PANIC:" ++ panicName e
    | none => "bad-args"
  | _ => "bad-op"

end Driver.Pipeline
