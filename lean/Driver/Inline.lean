import MdIt.Model.Inline
import MdIt.Gen.Entities
import MdIt.Gen.Unicode
import MdIt.Gen.Punct
import Driver.Proto
import Driver.Refs
/-
  Stream `inline` (the complete inline parser, html-free configurations).
  Strings travel as hex of their UTF-8 bytes (`-` = empty).

  requests
    parse <hexContent> <mapping> <maxNesting> <chain> <emphCfg> <refs>
        → <nodes> | PANIC:<class>            children of `md.inline.parse(..)`, after `FragmentsJoin::run`
                                             when an emphasis-like rule is in the chain
    rule <name> <silent01> <hexSrc> <pos> <posMax> <mapping> <maxNesting> <chain> <emphCfg> <refs> <level> <pre>
        → <res> <pos>,<posMax>,<level>,<linkLevel> <memo> <nodes> | PANIC:<class>
          ONE rule on `InlineState::new(src, mapping, ..)` with `pos`, `pos_max`, `level` overwritten and, when
          <pre> is a number, `trailing_text_push(pre, pos)` applied first;
          <res> = none | some:<len>; then the state fields afterwards, the memo of `skip_token`
          (`-` | `k>v,…` sorted by key) and the children of the current node
    skip <hexSrc> <pos> <posMax> <mapping> <maxNesting> <chain> <emphCfg> <refs> <level>
        → <pos>,<posMax>,<level>,<linkLevel> <memo> | PANIC:<class>      `skip_token` once
    delims <hexSrc> <start> <posMax> <canSplit01>
        → <hexMarker>/<canOpen01>/<canClose01>/<length> | PANIC:<class>  `scan_delims`

  <mapping>  = `-` | `k/v,k/v,…`
  <chain>    = `-` | rule `,` rule …;  rule = text | newline | escape | backticks | link | image | linkEnd |
               autolink | entity | emph:<hexMarker>:<canSplitWord01>
  <emphCfg>  = `-` | entry `;` entry …;  entry = <hexMarker>:<f1><f2><f3>,  f = `-` | `e` (Em) | `s` (Strong) |
               `k` (Strikethrough)                       (`PairConfig<MARKER>::fns`)
  <refs>     = `none` (no `ReferenceMap` in env) | `-` (empty map) |
               `;`-separated <hexNormalizedLabel>=<hexDest>=<hexTitle|none>
  <class>    = fuel | unwrap | slice | underflow | index | assert | radix | from_u32

  <nodes>    = `-` | node ` ` node …
  node       = `(` kind fields range children `)`,  range = <a>:<b> | -:-,  children = (` ` node)*
      (T <hexContent> r)                              Text
      (X <hexContent> <hexMarkup> <hexInfo> r)        TextSpecial
      (SB r)  (HB r)                                  Softbreak, Hardbreak
      (C <hexMarker> <markerLen> r …)                 CodeInline
      (E <hexMarker> r …) (S ..) (K ..)               Em, Strong, Strikethrough
      (L <hexUrl> <hexTitle|none> r …) (I ..)         Link, Image
      (A <hexUrl> r …)                                Autolink
      (M <hexMarker> <length> <remaining> <open01> <close01> r)   EmphMarker
-/
namespace Driver.Inline
open MdIt.Inline

def rpanicName : RPanic → String
  | .unwrap => "unwrap" | .slice => "slice" | .underflow => "underflow"
  | .index => "index" | .assert => "assert" | .radix => "radix" | .fromU32 => "from_u32"

def panicName : Panic → String
  | .fuel => "fuel"
  | .rust p => rpanicName p

def showRange : Option (Nat × Nat) → String
  | none => "-:-"
  | some (a, b) => toString a ++ ":" ++ toString b

def b01 (b : Bool) : String := if b then "1" else "0"

def showTitle : Option (List Char) → String
  | none => "none"
  | some t => charsToHex t

def showVal : Val → String
  | .text c => "T " ++ charsToHex c
  | .special c m i => "X " ++ charsToHex c ++ " " ++ charsToHex m ++ " " ++ charsToHex i
  | .softbreak => "SB"
  | .hardbreak => "HB"
  | .codeInline m n => "C " ++ charsToHex [m] ++ " " ++ toString n
  | .wrap .em m => "E " ++ charsToHex [m]
  | .wrap .strong m => "S " ++ charsToHex [m]
  | .wrap .strike m => "K " ++ charsToHex [m]
  | .link u t => "L " ++ bytesToHex u ++ " " ++ showTitle t
  | .image u t => "I " ++ bytesToHex u ++ " " ++ showTitle t
  | .autolink u => "A " ++ bytesToHex u
  | .emphMarker m l r o c =>
    "M " ++ charsToHex [m] ++ " " ++ toString l ++ " " ++ toString r ++ " " ++ b01 o ++ " " ++ b01 c

mutual
def showNode : Node → String
  | ⟨v, r, cs⟩ => "(" ++ showVal v ++ " " ++ showRange r ++ showKids cs ++ ")"
def showKids : List Node → String
  | [] => ""
  | c :: cs => " " ++ showNode c ++ showKids cs
end

def showNodes (l : List Node) : String :=
  if l.isEmpty then "-" else " ".intercalate (l.map showNode)

def parseMap (s : String) : Option MdIt.InlineOps.Srcmap :=
  if s == "-" then some [] else
  (s.splitOn ",").mapM fun e =>
    match e.splitOn "/" with
    | [k, v] =>
      match k.toNat?, v.toNat? with
      | some k, some v => some (k, v)
      | _, _ => none
    | _ => none

def parseBool (s : String) : Option Bool :=
  if s == "1" then some true else if s == "0" then some false else none

def parseRule (s : String) : Option RuleId :=
  match s.splitOn ":" with
  | ["text"] => some .text
  | ["newline"] => some .newline
  | ["escape"] => some .escape
  | ["backticks"] => some .backticks
  | ["link"] => some .link
  | ["image"] => some .image
  | ["linkEnd"] => some .linkEnd
  | ["autolink"] => some .autolink
  | ["entity"] => some .entity
  | ["emph", hex, b] =>
    match hexToChars hex, parseBool b with
    | some [m], some csw => some (.emph m csw)
    | _, _ => none
  | _ => none

def parseChain (s : String) : Option (List RuleId) :=
  if s == "-" then some [] else (s.splitOn ",").mapM parseRule

def parseWrap (c : Char) : Option (Option Wrap) :=
  if c == '-' then some none
  else if c == 'e' then some (some .em)
  else if c == 's' then some (some .strong)
  else if c == 'k' then some (some .strike)
  else none

def parseEmphEntry (s : String) : Option (Char × List (Option Wrap)) :=
  match s.splitOn ":" with
  | [hex, fs] =>
    match hexToChars hex, fs.toList.mapM parseWrap with
    | some [m], some l => if l.length == 3 then some (m, l) else none
    | _, _ => none
  | _ => none

def parseEmphCfg (s : String) : Option (List (Char × List (Option Wrap))) :=
  if s == "-" then some [] else (s.splitOn ";").mapM parseEmphEntry

def fnsOf (t : List (Char × List (Option Wrap))) (m : Char) (i : Nat) : Option Wrap :=
  match t.lookup m with
  | some l => (l[i]?).join
  | none => none

def parseRefEntry (s : String) : Option (List Nat × MdIt.Refs.Entry) :=
  match s.splitOn "=" with
  | [k, d, t] =>
    match Driver.Refs.hexToCps k, hexToBytes d,
          (if t == "none" then some none else (Driver.Refs.hexToCps t).map some) with
    | some k, some d, some t => some (k, { dest := d, title := t })
    | _, _, _ => none
  | _ => none

def parseRefs (s : String) : Option (Option MdIt.Refs.RefMap) :=
  if s == "none" then some none
  else if s == "-" then some (some [])
  else ((s.splitOn ";").mapM parseRefEntry).map some

def mkCfg (maxNesting : Nat) (chain : List RuleId) (emph : List (Char × List (Option Wrap)))
    (refs : Option MdIt.Refs.RefMap) : Cfg :=
  { maxNesting := maxNesting, chain := chain, fns := fnsOf emph, refs := refs,
    normRef := Driver.Refs.N,
    entity := MdIt.Entity.lookupIn MdIt.Gen.Entities.table,
    isWhite := fun c => MdIt.Gen.Unicode.whiteSpace.contains c.toNat,
    isPunctChar := fun c => MdIt.Gen.Punct.table.contains c.toNat }

def parseCfg (maxS chainS emphS refsS : String) : Option Cfg :=
  match maxS.toNat?, parseChain chainS, parseEmphCfg emphS, parseRefs refsS with
  | some mx, some chain, some emph, some refs => some (mkCfg mx chain emph refs)
  | _, _, _, _ => none

/-- insertion sort of the memo by key (keys are distinct) -/
def sortMemo (l : List (Nat × Nat)) : List (Nat × Nat) :=
  l.foldl (fun acc e => (acc.filter (fun x => x.1 < e.1)) ++ [e] ++ (acc.filter (fun x => x.1 > e.1))) []

/-- the memo as a map: first binding of every key wins (`cacheInsert` prepends) -/
def showMemo (l : List (Nat × Nat)) : String :=
  let dedup := l.foldl (fun acc e => if acc.any (fun x => x.1 == e.1) then acc else acc ++ [e]) []
  let s := sortMemo dedup
  if s.isEmpty then "-" else ",".intercalate (s.map fun (k, v) => toString k ++ ">" ++ toString v)

def showState (st : IState) : String :=
  toString st.pos ++ "," ++ toString st.posMax ++ "," ++ toString st.level ++ "," ++ toString st.linkLevel

def mkState (src : List Char) (m : MdIt.InlineOps.Srcmap) (pos posMax level : Nat) : IState :=
  { IState.init src m with pos := pos, posMax := posMax, level := level }

def handle (args : List String) : String :=
  match args with
  | ["parse", hexContent, mapS, maxS, chainS, emphS, refsS] =>
    match hexToChars hexContent, parseMap mapS, parseCfg maxS chainS emphS refsS with
    | some content, some m, some cfg =>
      match parseFinish cfg content m with
      | .ok cs => showNodes cs
      | .error e => "PANIC:" ++ panicName e
    | _, _, _ => "bad-args"
  | ["rule", name, silS, hexSrc, posS, posMaxS, mapS, maxS, chainS, emphS, refsS, levelS, preS] =>
    match parseRule name, parseBool silS, hexToChars hexSrc, posS.toNat?, posMaxS.toNat?, parseMap mapS,
          parseCfg maxS chainS emphS refsS, levelS.toNat? with
    | some id, some silent, some src, some pos, some posMax, some m, some cfg, some level =>
      let st0 := mkState src m pos posMax level
      let st1 : Except Panic IState :=
        if preS == "-" then .ok st0 else
        match preS.toNat? with
        | some pre => liftR (st0.pushText pre pos)
        | none => .ok st0
      match st1 with
      | .error e => "PANIC:" ++ panicName e
      | .ok st =>
        match ruleAt cfg (topFuel cfg src) id st silent with
        | .error e => "PANIC:" ++ panicName e
        | .ok (r, st') =>
          let res := match r with | none => "none" | some n => "some:" ++ toString n
          res ++ " " ++ showState st' ++ " " ++ showMemo st'.cache ++ " " ++ showNodes st'.children
    | _, _, _, _, _, _, _, _ => "bad-args"
  | ["skip", hexSrc, posS, posMaxS, mapS, maxS, chainS, emphS, refsS, levelS] =>
    match hexToChars hexSrc, posS.toNat?, posMaxS.toNat?, parseMap mapS,
          parseCfg maxS chainS emphS refsS, levelS.toNat? with
    | some src, some pos, some posMax, some m, some cfg, some level =>
      match skipToken cfg (topFuel cfg src) (mkState src m pos posMax level) with
      | .error e => "PANIC:" ++ panicName e
      | .ok st' => showState st' ++ " " ++ showMemo st'.cache
    | _, _, _, _, _, _ => "bad-args"
  | ["delims", hexSrc, startS, posMaxS, csS] =>
    match hexToChars hexSrc, startS.toNat?, posMaxS.toNat?, parseBool csS with
    | some src, some start, some posMax, some cs =>
      match scanDelims (mkCfg 100 [] [] none) src posMax start cs with
      | .error e => "PANIC:" ++ rpanicName e
      | .ok d => charsToHex [d.marker] ++ "/" ++ b01 d.canOpen ++ "/" ++ b01 d.canClose ++ "/" ++ toString d.length
    | _, _, _, _ => "bad-args"
  | _ => "bad-op"

end Driver.Inline
