import MdIt.Model.HtmlDecode
import MdIt.Model.Entity
import MdIt.Gen.Entities
import Driver.Proto
namespace Driver.HtmlDecode
open MdIt.HtmlDecode

/-- `entities::ENTITIES.iter().find(|e| e.entity == name)` over the generated table
    (names there include the `&` and the `;`) -/
def lookup : List Char → Option (List Char) := MdIt.Entity.lookupIn MdIt.Gen.Entities.table

/-- stream `htmldecode`:
    * `decode <hex>` → hex of `browserDecode` (generated entity table) of the attribute value -/
def handle (args : List String) : String :=
  match args with
  | ["decode", hex] =>
    match hexToChars hex with
    | some s => charsToHex (browserDecode lookup s)
    | none => "bad-args"
  | _ => "bad-op"

end Driver.HtmlDecode
