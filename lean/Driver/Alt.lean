import MdIt.Model.Alt
import Driver.Proto
/-
  stream `alt`:  `alt <sexpr…>` → hex of the alt text `MdIt.Alt.altOf` assembles for an image whose
  children are the given items.  Grammar (white space between items optional, the request words are
  re-joined first):
      item ::= "(t:" hex ")"           Text            (hex of the UTF-8 content, `-` = empty)
             | "(s:" hex ")"           TextSpecial     (its `content`)
             | "(n)"                   Softbreak
             | "(h)"                   Hardbreak
             | "(w" kind item* ")"     any other node kind with its children (kind = [A-Za-z0-9_]*)
      request ::= item*                the image's children
  Errors: `bad-args`.
-/
namespace Driver.Alt
open MdIt.Alt

/-- `(`, `)` and heads as separate tokens -/
def tokens (s : String) : List String :=
  let spaced := s.toList.flatMap (fun c => if c == '(' then [' ', '(', ' '] else if c == ')' then [' ', ')', ' '] else [c])
  ((String.ofList spaced).splitOn " ").filter (fun t => !t.isEmpty)

/-- kind names are irrelevant to the alt text; any injective-enough number does -/
def kindNum (name : List Char) : Nat := name.foldl (fun a c => a * 131 + c.toNat) 1

structure St where
  /-- open containers, innermost first: kind and children so far (reversed); the last frame is the image -/
  stack : List (Nat × List Inl)
  /-- the previous token was `(` -/
  expectHead : Bool := false
  /-- a leaf was read and its `)` is pending -/
  leafOpen : Bool := false

def pushLeaf (st : St) (n : Inl) : Option St :=
  match st.stack with
  | (k, cs) :: rest => some { stack := (k, n :: cs) :: rest, leafOpen := true }
  | [] => none

def step (st : St) (tok : String) : Option St :=
  if st.expectHead then
    match tok.toList with
    | ['n'] => pushLeaf st .soft
    | ['h'] => pushLeaf st .hard
    | 't' :: ':' :: hx => (hexToChars (String.ofList hx)).bind fun cs => pushLeaf st (.text cs)
    | 's' :: ':' :: hx => (hexToChars (String.ofList hx)).bind fun cs => pushLeaf st (.special cs)
    | 'w' :: name =>
      if name.all (fun c => c.isAlphanum || c == '_') then
        some { stack := (kindNum name, []) :: st.stack }
      else none
    | _ => none
  else if tok == "(" then
    if st.leafOpen then none else some { st with expectHead := true }
  else if tok == ")" then
    if st.leafOpen then some { st with leafOpen := false }
    else match st.stack with
      | (k, cs) :: (k', cs') :: rest => some { stack := (k', .wrap k cs.reverse :: cs') :: rest }
      | _ => none
  else none

def parse (s : String) : Option (List Inl) :=
  let r := (tokens s).foldl (fun (st : Option St) tok => st.bind (step · tok)) (some { stack := [(imageKind, [])] })
  match r with
  | some { stack := [(_, cs)], expectHead := false, leafOpen := false } => some cs.reverse
  | _ => none

def handle (args : List String) : String :=
  match args with
  | "alt" :: rest =>
    match parse (" ".intercalate rest) with
    | some cs => charsToHex (altOf cs)
    | none => "bad-args"
  | _ => "bad-op"

end Driver.Alt
