import MdIt.Model.Block
import MdIt.Gen.Entities
import MdIt.Gen.Unicode
import Driver.Proto
/-
  stream `block`: the block-level parser (html-free chains).  Strings travel as hex of their UTF-8
  bytes (`-` = empty).

    parse <hexSrc> <maxNesting> <chain>
        → `<node>|refs:<refs>`   or   `PANIC:<class>`
    rule <name> <silent01> <hexSrc> <line> <maxNesting> <chain>
        one rule at line `<line>` of a fresh state (`BlockState::new`, empty current node)
        → `<verdict01>:<line after>:<pushed nodes, blank-separated, or ->|refs:<refs>`   or   `PANIC:<class>`

  <chain>  = `,`-separated rule names in execution order, `-` for the empty chain; names:
             code fence blockquote hr list reference heading lheading paragraph
  <node>   = `(` <head> ` ` <range> { ` ` <node> } `)`
  <head>   = root | p | bq | li | ul:<marker> | ol:<start>:<marker> | code:<hexContent>
           | fence:<hexInfo>:<marker>:<markerLen>:<hexContent> | hr:<marker>:<len> | h:<level>
           | sh:<level>:<marker> | inl:<hexContent>:<mapping>
             (markers as decimal code points; <mapping> = `a/b,a/b,…` or `-`)
  <range>  = `<start>-<end>` (byte offsets) | `none`
  <refs>   = `;`-separated `<hexKey>=<hexDest>=<hexTitle|none>` sorted by `<hexKey>` (may be empty)
  <class>  = index | slice | assert | unwrap | sub | cast | progress | fuel
-/
namespace Driver.Block
open MdIt.Block

def lookup : List Char → Option (List Char) := MdIt.Entity.lookupIn MdIt.Gen.Entities.table
def L : Nat → List Nat := MdIt.Refs.tableMap MdIt.Gen.Unicode.lowerTable
def U : Nat → List Nat := MdIt.Refs.tableMap MdIt.Gen.Unicode.upperTable

def panicName : Panic → String
  | .index => "index" | .slice => "slice" | .assert => "assert" | .unwrap => "unwrap"
  | .sub => "sub" | .cast => "cast" | .progress => "progress" | .fuel => "fuel"

def ruleOfName : String → Option RuleId
  | "code" => some .code | "fence" => some .fence | "blockquote" => some .blockquote
  | "hr" => some .hr | "list" => some .list | "reference" => some .reference
  | "heading" => some .heading | "lheading" => some .lheading | "paragraph" => some .paragraph
  | _ => none

def parseChain (s : String) : Option (List RuleId) :=
  if s == "-" then some [] else (s.splitOn ",").mapM ruleOfName

def cpsToHex (l : List Nat) : String := charsToHex (l.map Char.ofNat)

def showMapping (m : List (Nat × Nat)) : String :=
  if m.isEmpty then "-" else ",".intercalate (m.map fun p => s!"{p.1}/{p.2}")

def showHead : Kind → String
  | .root => "root"
  | .paragraph => "p"
  | .blockquote => "bq"
  | .bulletList m => s!"ul:{m.toNat}"
  | .orderedList st m => s!"ol:{st}:{m.toNat}"
  | .listItem => "li"
  | .codeBlock c => s!"code:{charsToHex c}"
  | .codeFence info m len c => s!"fence:{charsToHex info}:{m.toNat}:{len}:{charsToHex c}"
  | .hr m len => s!"hr:{m.toNat}:{len}"
  | .atx l => s!"h:{l}"
  | .setext l m => s!"sh:{l}:{m.toNat}"
  | .inlineRoot c m => s!"inl:{charsToHex c}:{showMapping m}"

def showRange : Option (Nat × Nat) → String
  | none => "none"
  | some (a, b) => s!"{a}-{b}"

mutual
def showNode : BNode → String
  | ⟨k, r, cs⟩ => "(" ++ showHead k ++ " " ++ showRange r ++ showNodes cs ++ ")"
def showNodes : List BNode → String
  | [] => ""
  | n :: r => " " ++ showNode n ++ showNodes r
end

def showRefs (m : MdIt.Refs.RefMap) : String :=
  let rows : Array (String × String) := (m.map fun (k, e) =>
    (cpsToHex k, s!"{cpsToHex k}={bytesToHex e.dest}={match e.title with | some t => cpsToHex t | none => "none"}")).toArray
  let sorted := rows.qsort (fun a b => a.1 < b.1)
  ";".intercalate (sorted.toList.map (·.2))

def mkCfg (maxNesting : Nat) (chain : List RuleId) : Cfg :=
  { maxNesting := maxNesting, chain := chain, lookup := lookup, L := L, U := U }

def handle (args : List String) : String :=
  match args with
  | ["parse", hex, mn, ch] =>
    match hexToChars hex, mn.toNat?, parseChain ch with
    | some src, some maxNesting, some chain =>
      match parseBlocks (mkCfg maxNesting chain) src with
      | .error e => "PANIC:" ++ panicName e
      | .ok (root, refs) => showNode root ++ "|refs:" ++ showRefs refs
    | _, _, _ => "bad-args"
  | ["rule", name, sil, hex, ln, mn, ch] =>
    match ruleOfName name, hexToChars hex, ln.toNat?, mn.toNat?, parseChain ch with
    | some r, some src, some line, some maxNesting, some chain =>
      if sil != "0" && sil != "1" then "bad-args" else
      let cfg := mkCfg maxNesting chain
      let s0 := { BState.fresh src .root [] with line := line }
      match ruleAt cfg (fuelFor cfg src) r s0 (sil == "1") with
      | .error e => "PANIC:" ++ panicName e
      | .ok (b, s) =>
        let nodes := if s.children.isEmpty then "-" else (showNodes s.children).drop 1 |>.toString
        s!"{if b then 1 else 0}:{s.line}:{nodes}|refs:{showRefs s.refs}"
    | _, _, _, _, _ => "bad-args"
  | _ => "bad-op"

end Driver.Block
