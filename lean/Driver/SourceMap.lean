import MdIt.Model.SourceMap
import Driver.Proto
namespace Driver.SourceMap
open MdIt.SourceMap

def showPos (p : Nat × Nat) : String := toString p.1 ++ ":" ++ toString p.2

/--
  * `pos <hexText> <offset>`            → `<line>:<col>`            (code model) or `PANIC`
  * `range <hexText> <start> <end>`     → `<l1>:<c1>-<l2>:<c2>`     (code model) or `PANIC`
  * `spec <hexText> <offset>`           → `<line>:<col>`            (specification functions)
  * `specrange <hexText> <start> <end>` → `<l1>:<c1>-<l2>:<c2>`     (specification functions)
  * `marks <hexText>`                   → `off/line/col,off/line/col,…`
  `hexText` = hex of the UTF-8 bytes (`-` = empty text); numbers are decimal.
-/
def handle (args : List String) : String :=
  match args with
  | ["pos", hex, offS] =>
    match hexToChars hex, offS.toNat? with
    | some src, some o =>
      match getPosition src (mkMarks src) o with
      | .ok p => showPos p
      | .error _ => "PANIC"
    | _, _ => "bad-args"
  | ["range", hex, sS, eS] =>
    match hexToChars hex, sS.toNat?, eS.toNat? with
    | some src, some s, some e =>
      match getPositions src (mkMarks src) (s, e) with
      | .ok (p, q) => showPos p ++ "-" ++ showPos q
      | .error _ => "PANIC"
    | _, _, _ => "bad-args"
  | ["spec", hex, offS] =>
    match hexToChars hex, offS.toNat? with
    | some src, some o => showPos (specLine src o, specCol src o)
    | _, _ => "bad-args"
  | ["specrange", hex, sS, eS] =>
    match hexToChars hex, sS.toNat?, eS.toNat? with
    | some src, some s, some e =>
      let r := specRange src (s, e)
      showPos r.1 ++ "-" ++ showPos r.2
    | _, _, _ => "bad-args"
  | ["marks", hex] =>
    match hexToChars hex with
    | some src =>
      ",".intercalate ((mkMarks src).map fun m =>
        toString m.offset ++ "/" ++ toString m.line ++ "/" ++ toString m.column)
    | none => "bad-args"
  | _ => "bad-op"

end Driver.SourceMap
