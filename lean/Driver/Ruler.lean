import MdIt.Model.Ruler
import Driver.Proto
/-
  Stream `ruler` (not part of the verified model).

  `ruler compile <0|1> <rules>`   rules = `-` (no rules) or `;`-separated items `marks|prio|cons`
        marks = `,`-separated decimal Nats (at least one), prio ∈ n b a,
        cons  = `,`-separated tokens b<m> / a<m> / r<m> (possibly empty)
     → `ok:<i,j,…>` | `missing:<firstMarkOfRule>:<mark>` | `cyclic` | `internal`
  `ruler hist <ops>`   ops = `;`-separated add<m> bef<m> aft<m> ali<m> req<m> ball aall rem<m> has<m> iter
     → `;`-separated results, one per `has` (1/0) and per `iter` (as above, first marks for indices)
-/
namespace Driver.Ruler
open MdIt.Ruler

def splitOnChar (c : Char) : List Char → List (List Char)
  | [] => [[]]
  | x :: r =>
    if x = c then [] :: splitOnChar c r
    else
      match splitOnChar c r with
      | [] => [[x]]
      | h :: t => (x :: h) :: t

def natOfChars? (cs : List Char) : Option Nat :=
  if cs.isEmpty then none
  else cs.foldl (fun acc c =>
    match acc with
    | none => none
    | some n => if '0' ≤ c ∧ c ≤ '9' then some (n * 10 + (c.toNat - 48)) else none) (some 0)

def mapM? {α β : Type} (f : α → Option β) : List α → Option (List β)
  | [] => some []
  | a :: l =>
    match f a, mapM? f l with
    | some b, some r => some (b :: r)
    | _, _ => none

def parseCons (cs : List Char) : Option Cons :=
  match cs with
  | 'b' :: r => (natOfChars? r).map Cons.before
  | 'a' :: r => (natOfChars? r).map Cons.after
  | 'r' :: r => (natOfChars? r).map Cons.require
  | _ => none

def parsePrio (cs : List Char) : Option Prio :=
  match cs with
  | ['n'] => some .normal
  | ['b'] => some .beforeAll
  | ['a'] => some .afterAll
  | _ => none

def parseItem (cs : List Char) : Option RuleItem :=
  match splitOnChar '|' cs with
  | [ms, p, co] =>
    match mapM? natOfChars? (splitOnChar ',' ms), parsePrio p,
          (if co.isEmpty then some [] else mapM? parseCons (splitOnChar ',' co)) with
    | some marks, some prio, some cons => some ⟨marks, prio, cons⟩
    | _, _, _ => none
  | _ => none

def parseRules (s : String) : Option (List RuleItem) :=
  if s == "-" then some [] else mapM? parseItem (splitOnChar ';' s.toList)

def commaNats (l : List Nat) : String := ",".intercalate (l.map toString)

def showResult (names : Nat → Nat) : Except CompileErr (List Nat) → String
  | .ok r => "ok:" ++ commaNats (r.map names)
  | .error (.missing r m) => "missing:" ++ toString r ++ ":" ++ toString m
  | .error .cyclic => "cyclic"
  | .error .internal => "internal"

inductive Op where
  | add (m : Nat) | bef (m : Nat) | aft (m : Nat) | ali (m : Nat) | req (m : Nat)
  | ball | aall | rem (m : Nat) | has (m : Nat) | iter

def parseOp (cs : List Char) : Option Op :=
  match cs with
  | ['b', 'a', 'l', 'l'] => some .ball
  | ['a', 'a', 'l', 'l'] => some .aall
  | ['i', 't', 'e', 'r'] => some .iter
  | 'a' :: 'd' :: 'd' :: r => (natOfChars? r).map Op.add
  | 'b' :: 'e' :: 'f' :: r => (natOfChars? r).map Op.bef
  | 'a' :: 'f' :: 't' :: r => (natOfChars? r).map Op.aft
  | 'a' :: 'l' :: 'i' :: r => (natOfChars? r).map Op.ali
  | 'r' :: 'e' :: 'q' :: r => (natOfChars? r).map Op.req
  | 'r' :: 'e' :: 'm' :: r => (natOfChars? r).map Op.rem
  | 'h' :: 'a' :: 's' :: r => (natOfChars? r).map Op.has
  | _ => none

def firstMark (deps : List RuleItem) (i : Nat) : Nat :=
  match deps[i]? with
  | some d => d.marks.headD 0
  | none => 0

def runOps : List Op → MdIt.Ruler.Ruler → List String → List String
  | [], _, out => out.reverse
  | op :: rest, r, out =>
    match op with
    | .add m => runOps rest (r.add m) out
    | .bef m => runOps rest (r.before m) out
    | .aft m => runOps rest (r.after m) out
    | .ali m => runOps rest (r.alias m) out
    | .req m => runOps rest (r.require m) out
    | .ball => runOps rest r.beforeAll out
    | .aall => runOps rest r.afterAll out
    | .rem m => runOps rest (r.remove m) out
    | .has m => runOps rest r ((if r.contains m then "1" else "0") :: out)
    | .iter => runOps rest r (showResult (firstMark r.deps) r.compile :: out)

def handle (args : List String) : String :=
  match args with
  | ["compile", ph, rules] =>
    if ph != "0" && ph != "1" then "bad-args" else
    match parseRules rules with
    | some rs => showResult id (compile (ph == "1") rs)
    | none => "bad-args"
  | ["hist", ops] =>
    match mapM? parseOp (splitOnChar ';' ops.toList) with
    | some l => ";".intercalate (runOps l .new [])
    | none => "bad-args"
  | _ => "bad-op"

end Driver.Ruler
