import MdIt.Model.InlineH
import Driver.Inline
/-
  stream `inlineh`: the complete inline parser with the raw-HTML inline rule (`HtmlInlineScanner`) as a
  possible chain member (`MdIt/Model/InlineH.lean`).  The protocol is that of the stream `inline`
  (`Driver/Inline.lean`: see its header for <mapping>, <emphCfg>, <refs>, <nodes>) with one more rule name
  and one more node head.  Strings travel as hex of their UTF-8 bytes (`-` = empty).

  requests
    parse <hexContent> <mapping> <maxNesting> <chain> <emphCfg> <refs>
        → <nodes> | PANIC:<class>            children of `md.inline.parse(..)`, after `FragmentsJoin::run`
                                             when an emphasis-like rule is in the chain
    rule <name> <silent01> <hexSrc> <pos> <posMax> <mapping> <maxNesting> <chain> <emphCfg> <refs> <level> <pre> <linkLevel>
        → <res> <pos>,<posMax>,<level>,<linkLevel> <memo> <nodes> | PANIC:<class>
          ONE rule on `InlineState::new(src, mapping, ..)` with `pos`, `pos_max`, `level`, `link_level`
          overwritten (<linkLevel> a decimal `i32`, possibly negative) and, when <pre> is a number,
          `trailing_text_push(pre, pos)` applied first
    skip <hexSrc> <pos> <posMax> <mapping> <maxNesting> <chain> <emphCfg> <refs> <level>
        → <pos>,<posMax>,<level>,<linkLevel> <memo> | PANIC:<class>      `skip_token` once

  <chain>    = `-` | rule `,` rule …;  rule = the names of the stream `inline` | html
  node       = the nodes of the stream `inline` | (H <hexContent> r)       HtmlInline
  <class>    = fuel | unwrap | slice | underflow | index | assert | radix | from_u32
               (`underflow` also stands for the `i32` overflow of `link_level`: "attempt to add / subtract
               with overflow")
-/
namespace Driver.InlineH
open MdIt.Inline MdIt.InlineH

def parseRuleH (s : String) : Option RuleIdH :=
  if s == "html" then some .html else (Driver.Inline.parseRule s).map .base

def parseChainH (s : String) : Option (List RuleIdH) :=
  if s == "-" then some [] else (s.splitOn ",").mapM parseRuleH

mutual
def showNode : Node → String
  | ⟨v, r, cs⟩ =>
    "(" ++ (match htmlContent? v with
            | some c => "H " ++ charsToHex c
            | none => Driver.Inline.showVal v) ++ " " ++ Driver.Inline.showRange r ++ showKids cs ++ ")"
def showKids : List Node → String
  | [] => ""
  | c :: cs => " " ++ showNode c ++ showKids cs
end

def showNodes (l : List Node) : String :=
  if l.isEmpty then "-" else " ".intercalate (l.map showNode)

def mkCfgH (maxNesting : Nat) (chain : List RuleIdH) (emph : List (Char × List (Option Wrap)))
    (refs : Option MdIt.Refs.RefMap) : CfgH :=
  CfgH.mk maxNesting chain (Driver.Inline.mkCfg maxNesting [] emph refs).fns refs
    (Driver.Inline.mkCfg maxNesting [] emph refs).normRef
    (Driver.Inline.mkCfg maxNesting [] emph refs).entity
    (Driver.Inline.mkCfg maxNesting [] emph refs).isWhite
    (Driver.Inline.mkCfg maxNesting [] emph refs).isPunctChar

def parseCfgH (maxS chainS emphS refsS : String) : Option CfgH :=
  match maxS.toNat?, parseChainH chainS, Driver.Inline.parseEmphCfg emphS, Driver.Inline.parseRefs refsS with
  | some mx, some chain, some emph, some refs => some (mkCfgH mx chain emph refs)
  | _, _, _, _ => none

def handle (args : List String) : String :=
  match args with
  | ["parse", hexContent, mapS, maxS, chainS, emphS, refsS] =>
    match hexToChars hexContent, Driver.Inline.parseMap mapS, parseCfgH maxS chainS emphS refsS with
    | some content, some m, some cfg =>
      match parseFinishH cfg content m with
      | .ok cs => showNodes cs
      | .error e => "PANIC:" ++ Driver.Inline.panicName e
    | _, _, _ => "bad-args"
  | ["rule", name, silS, hexSrc, posS, posMaxS, mapS, maxS, chainS, emphS, refsS, levelS, preS, llS] =>
    match parseRuleH name, Driver.Inline.parseBool silS, hexToChars hexSrc, posS.toNat?, posMaxS.toNat?,
          Driver.Inline.parseMap mapS, parseCfgH maxS chainS emphS refsS, levelS.toNat?, llS.toInt? with
    | some id, some silent, some src, some pos, some posMax, some m, some cfg, some level, some ll =>
      let st0 := { Driver.Inline.mkState src m pos posMax level with linkLevel := ll }
      let st1 : Except Panic IState :=
        if preS == "-" then .ok st0 else
        match preS.toNat? with
        | some pre => liftR (st0.pushText pre pos)
        | none => .ok st0
      match st1 with
      | .error e => "PANIC:" ++ Driver.Inline.panicName e
      | .ok st =>
        match ruleAtH cfg.base cfg.chain (topFuel cfg.base src) id st silent with
        | .error e => "PANIC:" ++ Driver.Inline.panicName e
        | .ok (r, st') =>
          let res := match r with | none => "none" | some n => "some:" ++ toString n
          res ++ " " ++ Driver.Inline.showState st' ++ " " ++ Driver.Inline.showMemo st'.cache ++ " " ++
            showNodes st'.children
    | _, _, _, _, _, _, _, _, _ => "bad-args"
  | ["skip", hexSrc, posS, posMaxS, mapS, maxS, chainS, emphS, refsS, levelS] =>
    match hexToChars hexSrc, posS.toNat?, posMaxS.toNat?, Driver.Inline.parseMap mapS,
          parseCfgH maxS chainS emphS refsS, levelS.toNat? with
    | some src, some pos, some posMax, some m, some cfg, some level =>
      match skipTokenH cfg.base cfg.chain (topFuel cfg.base src) (Driver.Inline.mkState src m pos posMax level) with
      | .error e => "PANIC:" ++ Driver.Inline.panicName e
      | .ok st' => Driver.Inline.showState st' ++ " " ++ Driver.Inline.showMemo st'.cache
    | _, _, _, _, _, _ => "bad-args"
  | _ => "bad-op"

end Driver.InlineH
