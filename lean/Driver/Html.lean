import MdIt.Model.Html
import Driver.Proto
import Driver.Block
import Driver.Inline
/-
  stream `html`: the two raw-HTML rules and their pattern matchers.  Strings travel as hex of their
  UTF-8 bytes (`-` = empty).

  requests
    open <hexLine>                  → `none` | <i>          index (0..6) of the first `HTML_SEQUENCES[i].open` matching
    openi <i> <hexLine>             → 0 | 1                 `HTML_SEQUENCES[i].open.is_match(line)`
    close <i> <hexLine>             → 0 | 1                 `HTML_SEQUENCES[i].close.is_match(line)`
    tag <hexStr>                    → `none` | <len>        `HTML_TAG_RE` match length in bytes
    ocline <hexStr>                 → 0 | 1                 `^(?:open_tag|close_tag)\s*$`
    linkopen <hexStr>               → 0 | 1                 `HTML_LINK_OPEN.is_match`
    linkclose <hexStr>              → 0 | 1                 `HTML_LINK_CLOSE.is_match`
    blk <silent01> <hexSrc> <line> <blkIndent> <lineMax|->
        `HtmlBlockScanner::run` on `BlockState::new(src, ..)` with `line`, `blk_indent` and (unless `-`)
        `line_max` overwritten
        → <verdict01>:<line after>:<node>   |   PANIC:<class>
          <node> = `-` | <hexContent>@<start>-<end>
    inl <silent01> <hexSrc> <pos> <posMax> <linkLevel> <mapping>
        `HtmlInlineScanner::run` on `InlineState::new(src, mapping, ..)` with `pos`, `pos_max`,
        `link_level` overwritten
        → <res> <pos>,<posMax>,<linkLevel> <node>   |   PANIC:<class>
          <res> = none | some:<len>;  <node> = `-` | <hexContent>@<start>-<end>
  <mapping> = `-` | `k/v,k/v,…`;  <linkLevel> = decimal `i32`, possibly with `-` sign
  <class>   = the classes of the streams `block` / `inline`, + `overflow`
-/
namespace Driver.Html
open MdIt.Html

def b01 (b : Bool) : String := if b then "1" else "0"

def parseInt (s : String) : Option Int :=
  match s.toList with
  | '-' :: r => (String.ofList r).toNat?.map (fun n => - (n : Int))
  | _ => s.toNat?.map (fun n => (n : Int))

def ipanicName : IPanic → String
  | .rust p => Driver.Inline.rpanicName p
  | .overflow => "overflow"

def showBNode : Option BlockNode → String
  | none => "-"
  | some n => s!"{charsToHex n.content}@{n.range.1}-{n.range.2}"

def showINode : Option InlineNode → String
  | none => "-"
  | some n => s!"{charsToHex n.content}@{n.range.1}-{n.range.2}"

def handle (args : List String) : String :=
  match args with
  | ["open", hex] =>
    match hexToChars hex with
    | some s => (match openSeq s with | none => "none" | some i => toString i)
    | none => "bad-args"
  | ["openi", i, hex] =>
    match i.toNat?, hexToChars hex with
    | some i, some s => b01 (openMatch i s)
    | _, _ => "bad-args"
  | ["close", i, hex] =>
    match i.toNat?, hexToChars hex with
    | some i, some s => if i < 7 then b01 (closeMatch i s) else "bad-args"
    | _, _ => "bad-args"
  | ["tag", hex] =>
    match hexToChars hex with
    | some s => (match tagMatch s with | none => "none" | some n => toString n)
    | none => "bad-args"
  | ["ocline", hex] =>
    match hexToChars hex with
    | some s => b01 (openCloseLine s)
    | none => "bad-args"
  | ["linkopen", hex] =>
    match hexToChars hex with
    | some s => b01 (linkOpen s)
    | none => "bad-args"
  | ["linkclose", hex] =>
    match hexToChars hex with
    | some s => b01 (linkClose s)
    | none => "bad-args"
  | ["blk", sil, hex, ln, bi, lm] =>
    match Driver.Inline.parseBool sil, hexToChars hex, ln.toNat?, bi.toNat?,
          (if lm == "-" then some none else lm.toNat?.map some) with
    | some silent, some src, some line, some blkIndent, some lineMax =>
      let s0 := MdIt.Block.BState.fresh src .root []
      let s1 := { s0 with line := line, blkIndent := blkIndent,
                          lineMax := match lineMax with | some m => m | none => s0.lineMax }
      match htmlBlockRule s1 silent with
      | .error e => "PANIC:" ++ Driver.Block.panicName e
      | .ok (b, s, n) => s!"{b01 b}:{s.line}:{showBNode n}"
    | _, _, _, _, _ => "bad-args"
  | ["inl", sil, hex, posS, posMaxS, llS, mapS] =>
    match Driver.Inline.parseBool sil, hexToChars hex, posS.toNat?, posMaxS.toNat?, parseInt llS,
          Driver.Inline.parseMap mapS with
    | some silent, some src, some pos, some posMax, some ll, some m =>
      let st := { Driver.Inline.mkState src m pos posMax 0 with linkLevel := ll }
      match htmlInlineRule st silent with
      | .error e => "PANIC:" ++ ipanicName e
      | .ok (r, st', n) =>
        let res := match r with | none => "none" | some k => "some:" ++ toString k
        s!"{res} {st'.pos},{st'.posMax},{st'.linkLevel} {showINode n}"
    | _, _, _, _, _, _ => "bad-args"
  | _ => "bad-op"

end Driver.Html
