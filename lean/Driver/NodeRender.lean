import MdIt.Model.NodeRender
import MdIt.Gen.Entities
import Driver.Proto
/-
  stream `noderender`: the per-node-kind `render` model run on a dumped tree.

      noderender events <tree>        → the trait calls the tree issues, in the event grammar of the
                                        `render` stream (`Driver/Render.lean`, harness `enc_events`):
                                            events ::= "-" | event (";" event)*
                                            event  ::= "o:" hex ":" attrs | "s:" hex ":" attrs | "c:" hex
                                                     | "t:" hex | "r:" hex | "n"
                                            attrs  ::= "" | hex "=" hex ("," hex "=" hex)*
                                        or `PANIC` when rendering panics
      noderender html <0|1> <tree>    → hex of `Node::render()` (0) / `Node::xrender()` (1), or `PANIC`
      noderender panic <tree>         → `none` | `index` | `unimplemented` | `unescape`

  Tree grammar (ONE word, no blanks; `hex` = hex of the UTF-8 bytes, `-` = empty string):

      tree  ::= "(" head [ "@" attr ("," attr)* ] tree* ")"
      attr  ::= hex "=" hex                              -- one entry of `node.attrs`, in order
      head  ::= "root" | "p" | "atx:" nat | "setext:" nat | "hr"
              | "code:" hex                              -- CodeBlock content
              | "fence:" hex ":" hex ":" hex             -- CodeFence info, content, lang_prefix
              | "bq" | "ol:" nat | "ul" | "li"           -- OrderedList start
              | "t:" hex | "ts:" hex                     -- Text content, TextSpecial content
              | "sb" | "hb" | "ci" | "em" | "strong" | "s"
              | "a:" hex ":" title | "img:" hex ":" title | "auto:" hex      -- url (, title)
              | "hblock:" hex | "hinline:" hex
              | "x"                                      -- any kind without a `render` of its own
      title ::= "~" (None) | hex (Some)
      nat   ::= decimal digits

  Errors: `bad-args` (unparsable request), `bad-op`.
-/
namespace Driver.NodeRender
open MdIt.NodeRender
open MdIt.Render (Event)

/-- `get_entity_from_str` over the generated table -/
def lookup : List Char → Option (List Char) := MdIt.Entity.lookupIn MdIt.Gen.Entities.table

inductive Tok where
  | lp | rp
  | chunk (s : List Char)

/-- `(` and `)` are tokens of their own, every other maximal run is a chunk -/
def tokens (s : List Char) : List Tok :=
  let flush (cur : List Char) (acc : List Tok) : List Tok :=
    if cur.isEmpty then acc else .chunk cur.reverse :: acc
  let (cur, acc) := s.foldl (fun (st : List Char × List Tok) c =>
    if c == '(' then ([], .lp :: flush st.1 st.2)
    else if c == ')' then ([], .rp :: flush st.1 st.2)
    else (c :: st.1, st.2)) ([], [])
  (flush cur acc).reverse

def hexOf (s : String) : Option (List Char) := Driver.hexToChars s

def titleOf (s : String) : Option (Option (List Char)) :=
  if s == "~" then some none else (hexOf s).map some

def parseKind (s : String) : Option Kind :=
  match s.splitOn ":" with
  | ["root"] => some .root
  | ["p"] => some .paragraph
  | ["atx", n] => n.toNat?.map .atx
  | ["setext", n] => n.toNat?.map .setext
  | ["hr"] => some .hr
  | ["code", c] => (hexOf c).map .codeBlock
  | ["fence", i, c, p] =>
    match hexOf i, hexOf c, hexOf p with
    | some i, some c, some p => some (.codeFence i c p)
    | _, _, _ => none
  | ["bq"] => some .blockquote
  | ["ol", n] => n.toNat?.map .orderedList
  | ["ul"] => some .bulletList
  | ["li"] => some .listItem
  | ["t", c] => (hexOf c).map .text
  | ["ts", c] => (hexOf c).map .special
  | ["sb"] => some .softbreak
  | ["hb"] => some .hardbreak
  | ["ci"] => some .codeInline
  | ["em"] => some .em
  | ["strong"] => some .strong
  | ["s"] => some .strike
  | ["a", u, t] =>
    match hexOf u, titleOf t with
    | some u, some t => some (.link u t)
    | _, _ => none
  | ["img", u, t] =>
    match hexOf u, titleOf t with
    | some u, some t => some (.image u t)
    | _, _ => none
  | ["auto", u] => (hexOf u).map .autolink
  | ["hblock", c] => (hexOf c).map .htmlBlock
  | ["hinline", c] => (hexOf c).map .htmlInline
  | ["x"] => some .placeholder
  | _ => none

def parseAttr (s : String) : Option (List Char × List Char) :=
  match s.splitOn "=" with
  | [n, v] =>
    match hexOf n, hexOf v with
    | some n, some v => some (n, v)
    | _, _ => none
  | _ => none

/-- `head` or `head@attr,attr,…` -/
def parseHead (s : String) : Option (Kind × List (List Char × List Char)) :=
  match s.splitOn "@" with
  | [k] => (parseKind k).map (fun k => (k, []))
  | [k, a] =>
    match parseKind k, (a.splitOn ",").mapM parseAttr with
    | some k, some a => some (k, a)
    | _, _ => none
  | _ => none

structure Frame where
  kind : Kind
  attrs : List (List Char × List Char)
  /-- children read so far, last first -/
  kids : List Node

structure St where
  stack : List Frame := []
  expectHead : Bool := false
  result : Option Node := none

def step (st : St) (tok : Tok) : Option St :=
  if st.result.isSome then none
  else if st.expectHead then
    match tok with
    | .chunk s =>
      match parseHead (String.ofList s) with
      | some (k, a) => some { st with stack := ⟨k, a, []⟩ :: st.stack, expectHead := false }
      | none => none
    | _ => none
  else
    match tok with
    | .lp => some { st with expectHead := true }
    | .rp =>
      match st.stack with
      | [] => none
      | f :: rest =>
        let node : Node := ⟨f.kind, f.attrs, f.kids.reverse⟩
        match rest with
        | [] => some { st with stack := [], result := some node }
        | p :: rest' => some { st with stack := { p with kids := node :: p.kids } :: rest' }
    | .chunk _ => none

def parseTree (s : String) : Option Node :=
  let r := (tokens s.toList).foldl (fun (st : Option St) tok => st.bind (step · tok)) (some {})
  match r with
  | some { stack := [], expectHead := false, result := some n } => some n
  | _ => none

def encAttrs (a : List (List Char × List Char)) : String :=
  ",".intercalate (a.map (fun nv => charsToHex nv.1 ++ "=" ++ charsToHex nv.2))

def encEvent : Event → String
  | .open t a => "o:" ++ charsToHex t ++ ":" ++ encAttrs a
  | .selfClose t a => "s:" ++ charsToHex t ++ ":" ++ encAttrs a
  | .close t => "c:" ++ charsToHex t
  | .text s => "t:" ++ charsToHex s
  | .raw s => "r:" ++ charsToHex s
  | .cr => "n"

def encEvents (evs : List Event) : String :=
  if evs.isEmpty then "-" else ";".intercalate (evs.map encEvent)

def handle (args : List String) : String :=
  match args with
  | ["events", tree] =>
    match parseTree tree with
    | some t =>
      match render lookup t with
      | .ok evs => encEvents evs
      | .error _ => "PANIC"
    | none => "bad-args"
  | ["html", x, tree] =>
    if x != "0" && x != "1" then "bad-args" else
    match parseTree tree with
    | some t =>
      match renderHtml lookup (x == "1") t with
      | .ok s => charsToHex s
      | .error _ => "PANIC"
    | none => "bad-args"
  | ["panic", tree] =>
    match parseTree tree with
    | some t =>
      match render lookup t with
      | .ok _ => "none"
      | .error .index => "index"
      | .error .unimplemented => "unimplemented"
      | .error (.unescape _) => "unescape"
    | none => "bad-args"
  | _ => "bad-op"

end Driver.NodeRender
