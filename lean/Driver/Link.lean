import MdIt.Model.Link
import Driver.Proto
namespace Driver.Link
open MdIt.Link

def fragOut (str : List Char) (bytes : List Nat) (r : Except Panic (Option Frag)) : String :=
  -- the hand-written UTF-8 encoder of the model must agree with Lean's own decoder/encoder
  if utf8 str != bytes || byteLen str != bytes.length then "MODEL-INTERNAL-MISMATCH" else
  match r with
  | .error .slice => "PANIC:slice"
  | .ok none => "none"
  | .ok (some f) => s!"{f.pos}:{f.lines}:{bytesToHex (utf8 f.raw)}"

/-- stream `link`:
    * `validate <hex>`              → `1` / `0`, `non-ascii` if a byte ≥ 128 occurs
    * `normalize <hex>`             → hex of `normalize_link`
    * `dest <hex> <start> <max>`    → `none` | `<pos>:<lines>:<hex of the RAW slice>` | `PANIC:slice`
    * `title <hex> <start> <max>`   → same shape
    * `scheme <hex>`                → hex of the browser's scheme | `none`
    * `dangerous <hex>`             → `1` / `0` -/
def handle (args : List String) : String :=
  match args with
  | ["validate", hex] =>
    match hexToBytes hex with
    | some bs =>
      if bs.any (· ≥ 128) then "non-ascii" else if validateLink bs then "1" else "0"
    | none => "bad-args"
  | ["normalize", hex] =>
    match hexToBytes hex with
    | some bs =>
      let l := normalizeLink bs
      match MdIt.Url.encodeIdx linkSafe true bs with
      | .ok r => if r == l then bytesToHex l else "MODEL-INTERNAL-MISMATCH"
      | .error _ => "PANIC:encode"
    | none => "bad-args"
  | ["dest", hex, startS, maxS] =>
    match hexToBytes hex, hexToChars hex, startS.toNat?, maxS.toNat? with
    | some bs, some cs, some start, some max => fragOut cs bs (parseLinkDestination cs start max)
    | _, _, _, _ => "bad-args"
  | ["title", hex, startS, maxS] =>
    match hexToBytes hex, hexToChars hex, startS.toNat?, maxS.toNat? with
    | some bs, some cs, some start, some max => fragOut cs bs (parseLinkTitle cs start max)
    | _, _, _, _ => "bad-args"
  | ["scheme", hex] =>
    match hexToBytes hex with
    | some bs =>
      match browserScheme bs with
      | some s => bytesToHex s
      | none => "none"
    | none => "bad-args"
  | ["dangerous", hex] =>
    match hexToBytes hex with
    | some bs => if dangerous bs then "1" else "0"
    | none => "bad-args"
  | _ => "bad-op"

end Driver.Link
