import MdIt.Model.Link
import Driver.Proto
namespace Driver.Link
open MdIt.Link

def fragOut (str : List Char) (bytes : List Nat) (r : Except Panic (Option Frag)) : String :=
  -- the hand-written UTF-8 encoder of the model must agree with Lean's own decoder/encoder
  if utf8 str != bytes || byteLen str != bytes.length then "MODEL-INTERNAL-MISMATCH" else
  match r with
  | .error .slice => "PANIC:slice"
  | .ok none => "none"
  | .ok (some f) => s!"{f.pos}:{f.lines}:{bytesToHex (utf8 f.raw)}"

def isAsciiPunct (c : Char) : Bool :=
  let n := c.toNat
  (33 ≤ n && n ≤ 47) || (58 ≤ n && n ≤ 64) || (91 ≤ n && n ≤ 96) || (123 ≤ n && n ≤ 126)

/-- `unescape_all` on text WITHOUT `&`: only the backslash alternative of the pattern can match
    (driver-side stand-in for the decoder, which the verified model leaves abstract) -/
def decBackslash : List Char → List Char
  | [] => []
  | [c] => [c]
  | c :: x :: r =>
    if c = '\\' && isAsciiPunct x then x :: decBackslash r else c :: decBackslash (x :: r)
termination_by l => l.length

def optHex (o : Option (List Nat)) : String :=
  match o with
  | none => "none"
  | some bs => bytesToHex bs

/-- stream `link`:
    * `validate <hex>`              → `1` / `0`, `non-ascii` if a byte ≥ 128 occurs
    * `normalize <hex>`             → hex of `normalize_link`
    * `dest <hex> <start> <max>`    → `none` | `<pos>:<lines>:<hex of the RAW slice>` | `PANIC:slice`
    * `title <hex> <start> <max>`   → same shape
    * `scheme <hex>`                → hex of the browser's scheme | `none`
    * `dangerous <hex>`             → `1` / `0`
    * `inline <hex> <pos> <max>`    → `parse_link` from `pos = label_end + 1`, inline form only:
                                      `none` | `<end>:<href hex|none>:<title hex|none>` | `PANIC:slice`;
                                      `needs-dec` when the text contains `&` (see `decBackslash`) -/
def handle (args : List String) : String :=
  match args with
  | ["validate", hex] =>
    match hexToBytes hex with
    | some bs =>
      if bs.any (· ≥ 128) then "non-ascii" else if validateLink bs then "1" else "0"
    | none => "bad-args"
  | ["normalize", hex] =>
    match hexToBytes hex with
    | some bs =>
      let l := normalizeLink bs
      match MdIt.Url.encodeIdx linkSafe true bs with
      | .ok r => if r == l then bytesToHex l else "MODEL-INTERNAL-MISMATCH"
      | .error _ => "PANIC:encode"
    | none => "bad-args"
  | ["dest", hex, startS, maxS] =>
    match hexToBytes hex, hexToChars hex, startS.toNat?, maxS.toNat? with
    | some bs, some cs, some start, some max => fragOut cs bs (parseLinkDestination cs start max)
    | _, _, _, _ => "bad-args"
  | ["title", hex, startS, maxS] =>
    match hexToBytes hex, hexToChars hex, startS.toNat?, maxS.toNat? with
    | some bs, some cs, some start, some max => fragOut cs bs (parseLinkTitle cs start max)
    | _, _, _, _ => "bad-args"
  | ["scheme", hex] =>
    match hexToBytes hex with
    | some bs =>
      match browserScheme bs with
      | some s => bytesToHex s
      | none => "none"
    | none => "bad-args"
  | ["dangerous", hex] =>
    match hexToBytes hex with
    | some bs => if dangerous bs then "1" else "0"
    | none => "bad-args"
  | ["inline", hex, posS, maxS] =>
    match hexToBytes hex, hexToChars hex, posS.toNat?, maxS.toNat? with
    | some bs, some cs, some pos, some max =>
      if utf8 cs != bs then "MODEL-INTERNAL-MISMATCH"
      else if cs.contains '&' then "needs-dec"
      else
        match parseInlineTail decBackslash cs pos max with
        | .error .slice => "PANIC:slice"
        | .ok none => "none"
        | .ok (some l) => s!"{l.endPos}:{optHex l.href}:{optHex (l.title.map utf8)}"
    | _, _, _, _ => "bad-args"
  | _ => "bad-op"

end Driver.Link
