/-
  Line protocol helpers for the model driver (not part of the verified model).
  Strings travel as hex of their UTF-8 bytes; the empty string is written `-`.
-/
namespace Driver

def hexVal? (c : Char) : Option Nat :=
  if '0' ≤ c ∧ c ≤ '9' then some (c.toNat - 48)
  else if 'a' ≤ c ∧ c ≤ 'f' then some (c.toNat - 87)
  else if 'A' ≤ c ∧ c ≤ 'F' then some (c.toNat - 55)
  else none

def hexToBytes (s : String) : Option (List Nat) :=
  if s == "-" then some [] else
  let rec go : List Char → List Nat → Option (List Nat)
    | [], acc => some acc.reverse
    | [_], _ => none
    | a :: b :: r, acc =>
      match hexVal? a, hexVal? b with
      | some x, some y => go r ((x * 16 + y) :: acc)
      | _, _ => none
  go s.toList []

def hexDigitChar (n : Nat) : Char :=
  if n < 10 then Char.ofNat (48 + n) else Char.ofNat (87 + n)

def bytesToHex (bs : List Nat) : String :=
  if bs.isEmpty then "-" else
  String.ofList (bs.foldr (fun b acc => hexDigitChar (b / 16) :: hexDigitChar (b % 16) :: acc) [])

def bytesToString? (bs : List Nat) : Option String :=
  String.fromUTF8? (ByteArray.mk (bs.map (fun b => UInt8.ofNat b)).toArray)

def hexToChars (s : String) : Option (List Char) :=
  match hexToBytes s with
  | none => none
  | some bs => (bytesToString? bs).map String.toList

def charsToBytes (cs : List Char) : List Nat :=
  (String.ofList cs).toUTF8.toList.map UInt8.toNat

def charsToHex (cs : List Char) : String := bytesToHex (charsToBytes cs)

def natList (l : List Nat) : String :=
  "[" ++ ",".intercalate (l.map toString) ++ "]"

end Driver
