import MdIt.Model.BlockH
import Driver.Block
/-
  stream `blockh`: the block-level parser with the raw-HTML block rule as a possible chain member
  (`MdIt/Model/BlockH.lean`).  The protocol is that of the stream `block` with one more rule name and
  one more node head.  Strings travel as hex of their UTF-8 bytes (`-` = empty).

    parse <hexSrc> <maxNesting> <chain>
        → `<node>|refs:<refs>`   or   `PANIC:<class>`
    rule <name> <silent01> <hexSrc> <line> <maxNesting> <chain>
        one rule at line `<line>` of a fresh state (`BlockState::new`, empty current node)
        → `<verdict01>:<line after>:<pushed nodes, blank-separated, or ->|refs:<refs>`   or   `PANIC:<class>`

  <chain>  = `,`-separated rule names in execution order, `-` for the empty chain; names:
             code fence blockquote hr list reference heading lheading paragraph html
  <node>   = `(` <head> ` ` <range> { ` ` <node> } `)`
  <head>   = the heads of the stream `block` | html:<hexContent>
  <range>, <refs>, <class> as in the stream `block`
-/
namespace Driver.BlockH
open MdIt.Block MdIt.BlockH

def ruleOfName (s : String) : Option RuleIdH :=
  if s == "html" then some .html else (Driver.Block.ruleOfName s).map .base

def parseChain (s : String) : Option (List RuleIdH) :=
  if s == "-" then some [] else (s.splitOn ",").mapM ruleOfName

def showHead (k : Kind) : String :=
  match htmlContent? k with
  | some c => s!"html:{charsToHex c}"
  | none => Driver.Block.showHead k

mutual
def showNode : BNode → String
  | ⟨k, r, cs⟩ => "(" ++ showHead k ++ " " ++ Driver.Block.showRange r ++ showNodes cs ++ ")"
def showNodes : List BNode → String
  | [] => ""
  | n :: r => " " ++ showNode n ++ showNodes r
end

def mkCfg (maxNesting : Nat) (chain : List RuleIdH) : CfgH :=
  { maxNesting := maxNesting, chain := chain, lookup := Driver.Block.lookup, L := Driver.Block.L, U := Driver.Block.U }

def handle (args : List String) : String :=
  match args with
  | ["parse", hex, mn, ch] =>
    match hexToChars hex, mn.toNat?, parseChain ch with
    | some src, some maxNesting, some chain =>
      match parseBlocksH (mkCfg maxNesting chain) src with
      | .error e => "PANIC:" ++ Driver.Block.panicName e
      | .ok (root, refs) => showNode root ++ "|refs:" ++ Driver.Block.showRefs refs
    | _, _, _ => "bad-args"
  | ["rule", name, sil, hex, ln, mn, ch] =>
    match ruleOfName name, hexToChars hex, ln.toNat?, mn.toNat?, parseChain ch with
    | some r, some src, some line, some maxNesting, some chain =>
      if sil != "0" && sil != "1" then "bad-args" else
      let cfg := mkCfg maxNesting chain
      let s0 := { BState.fresh src .root [] with line := line }
      match ruleAtH cfg.base cfg.chain (fuelFor cfg.base src) r s0 (sil == "1") with
      | .error e => "PANIC:" ++ Driver.Block.panicName e
      | .ok (b, s) =>
        let nodes := if s.children.isEmpty then "-" else (showNodes s.children).drop 1 |>.toString
        s!"{if b then 1 else 0}:{s.line}:{nodes}|refs:{Driver.Block.showRefs s.refs}"
    | _, _, _, _, _ => "bad-args"
  | _ => "bad-op"

end Driver.BlockH
