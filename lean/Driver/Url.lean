import MdIt.Model.Url
import Driver.Proto
namespace Driver.Url
open MdIt.Url

def panicName : Panic → String
  | .index => "index" | .utf8 => "utf8" | .fuel => "fuel"

/-- `url.encode <set as decimal u128> <keep 0|1> <hex bytes>` → hex of the result, from BOTH models -/
def handle (args : List String) : String :=
  match args with
  | ["encode", setS, keepS, hex] =>
    match setS.toNat?, hexToBytes hex with
    | some bits, some bs =>
      let S := setHas bits
      let keep := keepS == "1"
      let l := encodeL S keep bs
      match encodeIdx S keep bs with
      | .ok r => if r == l then bytesToHex r else "MODEL-INTERNAL-MISMATCH"
      | .error e => "PANIC:" ++ panicName e
    | _, _ => "bad-args"
  | ["setfrom", hex] =>
    match hexToBytes hex with
    | some bs => toString (setFrom bs)
    | none => "bad-args"
  | ["setops", baseS, hex] =>
    -- one byte per call: bit 7 set = `remove (b & 0x7f)`, else `add b`; base 1 = `AsciiSet::new()`, 0 = `empty()`
    match hexToBytes hex with
    | some bs =>
      toString (setOps (if baseS == "1" then asciiNew else 0) (bs.map (fun b => (decide (b ≥ 128), b % 128))))
    | none => "bad-args"
  | ["decode", hex] =>
    match hexToBytes hex with
    | some bs => bytesToHex (pctDecode bs)
    | none => "bad-args"
  | _ => "bad-op"

end Driver.Url
