import MdIt.Model.Render
import Driver.Proto
namespace Driver.Render
open MdIt.Render

/-- `<namehex>=<valuehex>` -/
def parseAttr (s : String) : Option (List Char × List Char) :=
  match s.splitOn "=" with
  | [n, v] =>
    match hexToChars n, hexToChars v with
    | some n, some v => some (n, v)
    | _, _ => none
  | _ => none

/-- `,`-separated attributes; the empty string is the empty list -/
def parseAttrs (s : String) : Option (List (List Char × List Char)) :=
  if s.isEmpty then some [] else (s.splitOn ",").mapM parseAttr

def parseEvent (s : String) : Option Event :=
  match s.splitOn ":" with
  | ["o", t, a] =>
    match hexToChars t, parseAttrs a with
    | some t, some a => some (.open t a)
    | _, _ => none
  | ["s", t, a] =>
    match hexToChars t, parseAttrs a with
    | some t, some a => some (.selfClose t a)
    | _, _ => none
  | ["c", t] => (hexToChars t).map .close
  | ["t", h] => (hexToChars h).map .text
  | ["r", h] => (hexToChars h).map .raw
  | ["n"] => some .cr
  | _ => none

/-- `;`-separated events; `-` is the empty list -/
def parseEvents (s : String) : Option (List Event) :=
  if s == "-" then some [] else (s.splitOn ";").mapM parseEvent

/-- `render esc <hex>` → hex of `escapeHtml`;
    `render ser <0|1> <events>` → hex of `serialize` (cross-checked against `flatten ∘ pieces`). -/
def handle (args : List String) : String :=
  match args with
  | ["esc", hex] =>
    match hexToChars hex with
    | some s => charsToHex (escapeHtml s)
    | none => "bad-args"
  | ["ser", x, evs] =>
    if x != "0" && x != "1" then "bad-args" else
    match parseEvents evs with
    | some evs =>
      let xh := x == "1"
      let out := serialize xh evs
      if out == replaceNul (flatten (pieces xh evs)) then charsToHex out
      else "MODEL-INTERNAL-MISMATCH"
    | none => "bad-args"
  | _ => "bad-op"

end Driver.Render
