import MdIt.Model.Entity
import MdIt.Gen.Entities
import Driver.Proto
namespace Driver.Entity
open MdIt.Entity

def panicName : Panic → String
  | .unwrapNone => "unwrap" | .slice => "slice" | .radix => "radix" | .fromU32 => "from_u32" | .fuel => "fuel"

/-- `get_entity_from_str` over the generated table -/
def lookup : List Char → Option (List Char) := lookupIn MdIt.Gen.Entities.table

def optLen (whole : Option (List Char)) : String :=
  match whole with
  | some w => toString w.length
  | none => "-"

/-- stream `entity`:
    * `unescape <hex>`  → hex of `unescape_all` (BOTH the partial and the total model; `PANIC:<kind>`)
    * `inline <hex>`    → hex of the displayed text of the chain `[text, escape, entity]` on the string
                          (hard break shown as `\n`)
    * `valid <code>`    → `1` / `0`
    * `rule <pos> <posMax> <hex>` → what `EscapeScanner` / `EntityScanner` answer at that position:
                          `none` | `hardbreak <len>` | `special <byte len> <hex content> <hex markup>`
    * `re <name> <hex>` → length (characters = bytes, all ASCII or no match … see harness) of the match of
                          the hand matcher for pattern `<name>` at the start of the string, or `-` -/
def handle (args : List String) : String :=
  match args with
  | ["unescape", hex] =>
    match hexToChars hex with
    | some s =>
      match unescapeAllE lookup s with
      | .ok r => if r == unescapeAll lookup s then charsToHex r else "MODEL-INTERNAL-MISMATCH"
      | .error e => "PANIC:" ++ panicName e
    | none => "bad-args"
  | ["inline", hex] =>
    match hexToChars hex with
    | some s =>
      match tokenizeTEE lookup s with
      | .ok ps => charsToHex (display ps)
      | .error e => "PANIC:" ++ panicName e
    | none => "bad-args"
  | ["valid", code] =>
    match code.toNat? with
    | some n => if isValidEntityCode n then "1" else "0"
    | none => "bad-args"
  | ["rule", posS, posMaxS, hex] =>
    match posS.toNat?, posMaxS.toNat?, hexToChars hex with
    | some pos, some posMax, some src =>
      let showSp (sp : Special) : String :=
        s!"special {utf8Len sp.markup} {charsToHex sp.content} {charsToHex sp.markup}"
      match src[pos]? with
      | some '\\' =>
        match escapeRule src pos posMax with
        | .ok none => "none"
        | .ok (some (.hardbreak len)) => s!"hardbreak {len}"
        | .ok (some (.special sp)) => showSp sp
        | .error e => "PANIC:" ++ panicName e
      | _ =>
        match entityRule lookup src pos posMax with
        | .ok none => "none"
        | .ok (some sp) => showSp sp
        | .error e => "PANIC:" ++ panicName e
    | _, _, _ => "bad-args"
  | ["re", name, hex] =>
    match hexToChars hex with
    | some s =>
      match name with
      | "digital" => optLen ((matchDigitalRe s).map (fun (cap, _) => '&' :: '#' :: (cap ++ [';'])))
      | "named" => optLen ((matchNamedRe s).map (·.1))
      | "test" => optLen ((matchDigitalTestRe s).map (fun cap => '&' :: '#' :: (cap ++ [';'])))
      | "entity" => optLen ((matchEntityRe s).map (·.1))
      | "unescape" => optLen ((matchUnescapeAllRe s).map (·.whole))
      | _ => "bad-op"
    | none => "bad-args"
  | _ => "bad-op"

end Driver.Entity
