import MdIt.Model.Lines
import Driver.Proto
namespace Driver.Lines
open MdIt.Lines

/-- decimal integer; a negative number `-k` is written `nk` (`-` alone means "empty" elsewhere) -/
def parseInt? (s : String) : Option Int :=
  match s.toList with
  | 'n' :: r => (String.ofList r).toNat?.map fun k => -(k : Int)
  | _ => s.toNat?.map fun k => (k : Int)

def showInt (i : Int) : String := if i < 0 then "n" ++ toString i.natAbs else toString i.natAbs

def showOff (o : LineOffset) : String :=
  toString o.lineStart ++ "/" ++ toString o.lineEnd ++ "/" ++ toString o.firstNonspace ++ "/" ++
    showInt o.indentNonspace

def joinOr (sep : String) (l : List String) : String := if l.isEmpty then "-" else sep.intercalate l

def showGet (r : Except Panic (List Char × List (Nat × Nat))) : String :=
  match r with
  | .error _ => "PANIC"
  | .ok (content, mapping) =>
    charsToHex content ++ "|" ++ joinOr "," (mapping.map fun (k, v) => toString k ++ "/" ++ toString v)

/-- `line:fn:indent;line:fn:indent;…` (`-` = none), applied left to right; a line that does not
    exist is `none` (bad-args) -/
def applyOverrides (offs : List LineOffset) (s : String) : Option (List LineOffset) :=
  if s == "-" then some offs else
  (s.splitOn ";").foldl (fun acc item =>
    match acc, item.splitOn ":" with
    | some offs, [lS, fS, iS] =>
      match lS.toNat?, fS.toNat?, parseInt? iS with
      | some l, some f, some i =>
        match offs[l]? with
        | some o => some (offs.set l { o with firstNonspace := f, indentNonspace := i })
        | none => none
      | _, _, _ => none
    | _, _ => none) (some offs)

def showView (v : Except Panic (List Char) × Except Panic (List Char) × Int) : Option String :=
  match v with
  | (.ok w, .ok t, i) => some (charsToHex w ++ "/" ++ charsToHex t ++ "/" ++ showInt i)
  | _ => none

/--
  All texts are hex of their UTF-8 bytes (`-` = empty); numbers decimal; a negative integer `-k` is `nk`.
  * `split <hexSrc>`                               → `ls/le/fn/indent,…`             (`generate_caches`)
  * `views <hexSrc>`                               → `hexWs/hexText/indent,…` or `PANIC` (slices of the table)
  * `spec <hexSrc>`                                → `hexWs/hexText/indent,…`        (`specLines`, the C10 specification)
  * `indent <hexLine> <pos>`                       → `<indent>:<pos>` or `PANIC`     (`find_indent_of`)
  * `cut <hexWs> <indent>`                         → `<numSpaces>:<start>`           (`calc_right_whitespace_with_tabstops`)
  * `cutstr <hexWs> <indent>`                      → hex or `PANIC`                  (`cut_right_whitespace_with_tabstops`)
  * `rfind <hexText> <codepoint>`                  → count                           (`rfind_and_count`)
  * `get <hexSrc> <begin> <end> <indent> <0|1>`    → `<hexContent>|<k/v,k/v,…>` or `PANIC` (`get_lines` on a fresh state)
  * `get2 <hexSrc> <begin> <end> <indent> <0|1> <line:fn:indent;…>` → same, table overridden first
  * `skip <hexSrc> <from>`                         → line                            (`skip_empty_lines`, `line_max` = #lines)
  * `empty <hexSrc> <line>`                        → `0|1`                           (`is_empty`)
  * `lineindent <hexSrc> <blkIndent> <line>`       → integer or `PANIC`              (`line_indent`)
  * `getline <hexSrc> <line>`                      → hex or `PANIC`                  (`get_line`)
  * `getmap <hexSrc> <startLine> <endLine>`        → `<start>/<end>` or `PANIC`      (`get_map`)
-/
def handle (args : List String) : String :=
  match args with
  | ["split", hex] =>
    match hexToChars hex with
    | some src => ",".intercalate ((splitLines src).map showOff)
    | none => "bad-args"
  | ["views", hex] =>
    match hexToChars hex with
    | some src =>
      match (views src).mapM showView with
      | some l => ",".intercalate l
      | none => "PANIC"
    | none => "bad-args"
  | ["spec", hex] =>
    match hexToChars hex with
    | some src =>
      ",".intercalate ((specLines src).map fun (w, t, n) =>
        charsToHex w ++ "/" ++ charsToHex t ++ "/" ++ toString n)
    | none => "bad-args"
  | ["indent", hex, posS] =>
    match hexToChars hex, posS.toNat? with
    | some line, some pos =>
      match findIndentOf line pos with
      | .ok (i, p) => toString i ++ ":" ++ toString p
      | .error _ => "PANIC"
    | _, _ => "bad-args"
  | ["cut", hex, indS] =>
    match hexToChars hex, parseInt? indS with
    | some ws, some ind =>
      let (n, s) := calcRightWs ws ind
      toString n ++ ":" ++ toString s
    | _, _ => "bad-args"
  | ["cutstr", hex, indS] =>
    match hexToChars hex, parseInt? indS with
    | some ws, some ind =>
      match cutRightWs ws ind with
      | .ok r => charsToHex r
      | .error _ => "PANIC"
    | _, _ => "bad-args"
  | ["rfind", hex, cpS] =>
    match hexToChars hex, cpS.toNat? with
    | some s, some cp => toString (rfindAndCount s (Char.ofNat cp))
    | _, _ => "bad-args"
  | ["get", hex, bS, eS, iS, kS] =>
    match hexToChars hex, bS.toNat?, eS.toNat?, iS.toNat? with
    | some src, some b, some e, some i => showGet (getLines src (splitLines src) b e i (kS == "1"))
    | _, _, _, _ => "bad-args"
  | ["get2", hex, bS, eS, iS, kS, ov] =>
    match hexToChars hex, bS.toNat?, eS.toNat?, iS.toNat? with
    | some src, some b, some e, some i =>
      match applyOverrides (splitLines src) ov with
      | some offs => showGet (getLines src offs b e i (kS == "1"))
      | none => "bad-args"
    | _, _, _, _ => "bad-args"
  | ["skip", hex, fS] =>
    match hexToChars hex, fS.toNat? with
    | some src, some f =>
      let offs := splitLines src
      toString (skipEmptyLines offs offs.length f)
    | _, _ => "bad-args"
  | ["empty", hex, lS] =>
    match hexToChars hex, lS.toNat? with
    | some src, some l => if isEmpty (splitLines src) l then "1" else "0"
    | _, _ => "bad-args"
  | ["lineindent", hex, bS, lS] =>
    match hexToChars hex, bS.toNat?, lS.toNat? with
    | some src, some b, some l =>
      match lineIndent (splitLines src) b l with
      | .ok i => showInt i
      | .error _ => "PANIC"
    | _, _, _ => "bad-args"
  | ["getline", hex, lS] =>
    match hexToChars hex, lS.toNat? with
    | some src, some l =>
      match getLine src (splitLines src) l with
      | .ok t => charsToHex t
      | .error _ => "PANIC"
    | _, _ => "bad-args"
  | ["getmap", hex, sS, eS] =>
    match hexToChars hex, sS.toNat?, eS.toNat? with
    | some src, some s, some e =>
      match getMap (splitLines src) s e with
      | .ok (a, b) => toString a ++ "/" ++ toString b
      | .error _ => "PANIC"
    | _, _, _ => "bad-args"
  | _ => "bad-op"

end Driver.Lines
