import MdIt.Model.Nesting
import Driver.Proto
/-
  Stream `nest` — recursion-gauge traces against the nesting model (C02).

    nest check <N> <events>   → `ok:<maxFrames>`            the trace is consistent with the model
                              → `bad:<reason>@<index>`      first offending event (0-based), reasons:
                                   unbalanced  `x` with no open frame (index = position), or frames left
                                               open at the end (index = number of events)
                                   root        outermost frame is not `B0` / `I0`
                                   guard       a frame entered at level ≥ N made a nested call
                                   kind        nesting the code cannot produce (B under I/S, I under B/S, S under B)
                                   level       nested level ≠ parent level + the site's increment
                                               (B→B: +1 quote or +2 list item, I→I: +1, I→S: +0, S→S: +1)
                              → `bad:bound@<maxFrames>`     more than N + 2 frames (unreachable:
                                                            `MdIt.Nesting.trace_bounded`)
        <N>      = `max_nesting`, decimal
        <events> = `,`-separated pre-order trace of frame entries/exits, `-` for the empty trace:
                   `B<level>` enter `BlockParser::tokenize`, `I<level>` enter `InlineParser::tokenize`,
                   `S<level>` enter `InlineParser::skip_token`, `x` exit of the innermost open frame
    nest checkprefix <N> <events> → the same for a possibly TRUNCATED trace (the hook stops recording
                              at a size limit): frames left open at the end are accepted
    nest bound <N>            → `<N + 2>`  the proved bound on simultaneously active frames
    nest depthbound <N>       → `<2·N + 2>` the proved bound on tree depth not counting emphasis wrappers

  The check is `MdIt.Nesting.checkTrace currentSites N` / `checkTracePrefix` (the verified functions:
  `trace_bounded`, `trace_prefix_bounded`, `trace_of_run`); the index in a
  `bad:` answer is recomputed here for diagnostics only.
-/
namespace Driver.Nesting
open MdIt.Nesting

def parseEvent (e : String) : Option Event :=
  match e.toList with
  | ['x'] => some .exit
  | 'B' :: ds => (String.ofList ds).toNat?.map (Event.enter .block)
  | 'I' :: ds => (String.ofList ds).toNat?.map (Event.enter .inline)
  | 'S' :: ds => (String.ofList ds).toNat?.map (Event.enter .skip)
  | _ => none

def parseEvents (s : String) : Option (List Event) :=
  if s == "-" || s.isEmpty then some [] else (s.splitOn ",").mapM parseEvent

def errName : TraceErr → String
  | .unbalanced => "unbalanced"
  | .root => "root"
  | .guard => "guard"
  | .kind => "kind"
  | .level => "level"

/-- index of the first event `runTrace` rejects (diagnostics only) -/
def locate (N : Nat) : List Event → List (Kind × Nat) → Nat → Nat
  | [], _, i => i
  | .exit :: _, [], i => i
  | .exit :: r, _ :: st, i => locate N r st (i + 1)
  | .enter k L :: r, st, i =>
    match enterCheck currentSites N st k L with
    | .error _ => i
    | .ok _ => locate N r ((k, L) :: st) (i + 1)

def handle (args : List String) : String :=
  match args with
  | ["check", nS, evS] =>
    match nS.toNat?, parseEvents evS with
    | some N, some evs =>
      match checkTrace currentSites N evs with
      | .ok m => if m ≤ N + 2 then s!"ok:{m}" else s!"bad:bound@{m}"
      | .error e => s!"bad:{errName e}@{locate N evs [] 0}"
    | _, _ => "bad-args"
  | ["checkprefix", nS, evS] =>
    match nS.toNat?, parseEvents evS with
    | some N, some evs =>
      match checkTracePrefix currentSites N evs with
      | .ok m => if m ≤ N + 2 then s!"ok:{m}" else s!"bad:bound@{m}"
      | .error e => s!"bad:{errName e}@{locate N evs [] 0}"
    | _, _ => "bad-args"
  | ["bound", nS] =>
    match nS.toNat? with
    | some N => toString (N + 2)
    | none => "bad-args"
  | ["depthbound", nS] =>
    match nS.toNat? with
    | some N => toString (2 * N + 2)
    | none => "bad-args"
  | _ => "bad-op"

end Driver.Nesting
