import MdIt.Model.ErasedSet
import Driver.Proto
/-
  Stream `eset`.  Request: `eset ops <opsStr>`; `opsStr` = one or more ops separated by `;`:
    i<k>:<v>  insert::<k>(v)            → `none` | `some:<old>`
    g<k>      get::<k>()                → `none` | `some:<v>`
    m<k>:<v>  get_mut::<k>() and write  → `1` (was present) | `0`
    o<k>:<v>  get_or_insert::<k>(v)     → `<value now stored>`
    w<k>:<v>  get_or_insert_with(|| v)  → `<value now stored>`
    d<k>:<v>  get_or_insert_default (v = T::default()) → `<value now stored>`
    r<k>      remove::<k>()             → `none` | `some:<v>`
    c         clear()                   → `-`
    l         len()                     → `<n>`
    e         is_empty()                → `1` | `0`
    h<k>      contains::<k>()           → `1` | `0`
  (k, v decimal).  Response: the results joined by `,`, or `PANIC` if the model reaches a failing
  downcast; `bad-args` if the op string does not parse.
-/
namespace Driver.ErasedSet
open MdIt.ErasedSet

def parseKV (s : String) : Option (Nat × Nat) :=
  match s.splitOn ":" with
  | [a, b] =>
    match a.toNat?, b.toNat? with
    | some k, some v => some (k, v)
    | _, _ => none
  | _ => none

def parseOp (tok : String) : Option Op :=
  match tok.toList with
  | [] => none
  | c :: rest =>
    let r := String.ofList rest
    match c with
    | 'i' => (parseKV r).map (fun kv => Op.insert kv.1 kv.2)
    | 'g' => r.toNat?.map Op.get
    | 'm' => (parseKV r).map (fun kv => Op.set kv.1 kv.2)
    | 'o' => (parseKV r).map (fun kv => Op.getOrInsert kv.1 kv.2)
    | 'w' => (parseKV r).map (fun kv => Op.getOrInsertWith kv.1 kv.2)
    | 'd' => (parseKV r).map (fun kv => Op.getOrInsertDefault kv.1 kv.2)
    | 'r' => r.toNat?.map Op.remove
    | 'c' => if rest.isEmpty then some Op.clear else none
    | 'l' => if rest.isEmpty then some Op.len else none
    | 'e' => if rest.isEmpty then some Op.isEmpty else none
    | 'h' => r.toNat?.map Op.contains
    | _ => none

def parseOps : List String → Option (List Op)
  | [] => some []
  | t :: ts =>
    match parseOp t, parseOps ts with
    | some o, some os => some (o :: os)
    | _, _ => none

def showOut : Out → String
  | .opt none => "none"
  | .opt (some v) => "some:" ++ toString v
  | .val v => toString v
  | .bool b => if b then "1" else "0"
  | .nat n => toString n
  | .unit => "-"

def handle (args : List String) : String :=
  match args with
  | ["ops", opsStr] =>
    match parseOps (opsStr.splitOn ";") with
    | none => "bad-args"
    | some ops =>
      match run empty ops with
      | .error _ => "PANIC"
      | .ok (_, outs) => ",".intercalate (outs.map showOut)
  | _ => "bad-op"

end Driver.ErasedSet
