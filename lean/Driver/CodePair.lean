import MdIt.Model.CodePair
import Driver.Proto
/-
  stream `codepair`:
    codepair seq <hexSrc> <calls>
      calls  = `;`-separated `<pos>,<posMax>,<prev01>,<silent01>` (or `-` for none), all run against
               ONE cache that starts as `CodePairCache::default()`; `prev01` ("the trailing text of
               the tree ends in the marker") is ignored by the current code and kept in the grammar
      answer = `;`-separated, one item per call:
                 `none` | `some:<len>` (silent) |
                 `some:<len>:<innerStart>:<innerEnd>:<hexContent>:<markerLen>:<rangeStart>:<rangeEnd>`
               and `PANIC` in place of the first panicking call (nothing after it); `-` if empty
    codepair seqv <c><r><m><i> <hexSrc> <calls>
      the same for the variant with the four repairs (checked, ranged, monotone, inside) switched
      on (`1`) or off (`0`); `codepair seqv 1111 ..` = `codepair seq ..`
-/
namespace Driver.CodePair
open MdIt.CodePair

def parseCall (s : String) : Option Call :=
  match s.splitOn "," with
  | [a, b, c, d] =>
    match a.toNat?, b.toNat? with
    | some pos, some pm =>
      if (c == "0" || c == "1") && (d == "0" || d == "1") then
        some ⟨pos, pm, c == "1", d == "1"⟩
      else none
    | _, _ => none
  | _ => none

def parseCalls (s : String) : Option (List Call) :=
  if s == "-" then some [] else (s.splitOn ";").mapM parseCall

def parseVariant (s : String) : Option Variant :=
  match s.toList with
  | [a, b, c, d] =>
    if [a, b, c, d].all (fun x => x == '0' || x == '1') then
      some ⟨a == '1', b == '1', c == '1', d == '1'⟩
    else none
  | _ => none

def showOutcome : Option Outcome → String
  | none => "none"
  | some ⟨len, none⟩ => s!"some:{len}"
  | some ⟨len, some nd⟩ =>
    s!"some:{len}:{nd.innerStart}:{nd.innerEnd}:{charsToHex nd.content}:{nd.markerLen}:{nd.rangeStart}:{nd.rangeEnd}"

def answer (v : Variant) (src : List Char) (calls : List Call) : String :=
  let (rs, e) := runTrace v '`' src calls Cache.empty
  -- the `Except` version used by the theorems must tell the same story
  let consistent : Bool :=
    match runSeq v '`' src calls Cache.empty, e with
    | .ok (rs', _), none => rs' == rs
    | .error e', some e'' => e' == e''
    | _, _ => false
  if !consistent then "MODEL-INTERNAL-MISMATCH" else
  let items := rs.map showOutcome ++ (match e with | some _ => ["PANIC"] | none => [])
  if items.isEmpty then "-" else ";".intercalate items

def handle (args : List String) : String :=
  match args with
  | ["seq", hexSrc, calls] =>
    match hexToChars hexSrc, parseCalls calls with
    | some src, some cs => answer Variant.current src cs
    | _, _ => "bad-args"
  | ["seqv", vs, hexSrc, calls] =>
    match parseVariant vs, hexToChars hexSrc, parseCalls calls with
    | some v, some src, some cs => answer v src cs
    | _, _, _ => "bad-args"
  | _ => "bad-op"

end Driver.CodePair
