import MdIt.Model.Tree
import Driver.Proto
/-
  Stream `tree`.  A tree travels as an s-expression of kinds, no spaces: `(` kind child* `)`,
  e.g. `(1(2(4)(5))(3(6)))`.
    tree walk <sexpr>     → `kind@depth` of every callback of `Node::walk`, joined by `,`
    tree walkmut <sexpr>  → the tree after `walk_mut(demoF)` (see `MdIt.Tree.demoF`), as an s-expression;
                            `STACK` if the model runs out of stack (cannot happen for `demoF`)
    tree replace <sexpr> <kind> → the tree after `root.replace(kind)`, as an s-expression
  `bad-args` if the s-expression does not parse.
-/
namespace Driver.Tree
open MdIt.Tree

def parseNat (cs : List Char) : Option (Nat × List Char) :=
  let ds := cs.takeWhile Char.isDigit
  if ds.isEmpty then none else
  some (ds.foldl (fun a c => a * 10 + (c.toNat - 48)) 0, cs.drop ds.length)

mutual
def parseNode : Nat → List Char → Option (Node × List Char)
  | 0, _ => none
  | fuel + 1, '(' :: cs =>
    match parseNat cs with
    | none => none
    | some (k, rest) =>
      match parseKids fuel rest with
      | some (kids, ')' :: rest') => some ({ Node.new k 0 with children := kids }, rest')
      | _ => none
  | _ + 1, _ => none
def parseKids : Nat → List Char → Option (List Node × List Char)
  | 0, _ => none
  | fuel + 1, cs =>
    match cs with
    | '(' :: _ =>
      match parseNode fuel cs with
      | none => none
      | some (n, rest) =>
        match parseKids fuel rest with
        | none => none
        | some (ns, rest') => some (n :: ns, rest')
    | _ => some ([], cs)
end

def parse (s : String) : Option Node :=
  let cs := s.toList
  match parseNode (cs.length + 1) cs with
  | some (n, []) => some n
  | _ => none

mutual
def showNode : Node → String
  | ⟨k, _, _, _, cs⟩ => "(" ++ toString k ++ showKids cs ++ ")"
def showKids : List Node → String
  | [] => ""
  | c :: cs => showNode c ++ showKids cs
end

def handle (args : List String) : String :=
  match args with
  | ["walk", sx] =>
    match parse sx with
    | none => "bad-args"
    | some t => ",".intercalate ((walk t).map (fun x => toString x.1.kind ++ "@" ++ toString x.2))
  | ["walkmut", sx] =>
    match parse sx with
    | none => "bad-args"
    | some t =>
      match walkMut demoF t with
      | none => "STACK"
      | some r => showNode r
  | ["replace", sx, ks] =>
    match parse sx, ks.toNat? with
    | some t, some k => showNode (replace t k 0)
    | _, _ => "bad-args"
  | _ => "bad-op"

end Driver.Tree
