import MdIt.Model.ParserState
import Driver.Proto
/-
  Stream `pstate` (not part of the verified model).

  `pstate hist <ops>`   one history on `MarkdownIt::new()`; ops `;`-separated:
      AB<id><mods>            md.block.add_rule::<id>()  + builder calls
      RB<id>                  md.block.remove_rule::<id>()
      AI<id>:<marker><mods>   md.inline.add_rule::<id>()   (marker = code point of `T::MARKER`, 0 = none)
      RI<id>:<marker>         md.inline.remove_rule::<id>()
      AC<id><mods>  RC<id>    md.add_rule / md.remove_rule (core)
      HB<id> HI<id> HC<id>    has_rule
      Q<k>                    md.parse(doc k)      k = 0: no non-blank line; 1: reaches block + inline + text
                                                   scanner; 2: non-blank, consumed by a block rule (no inline)
      D                       format!("{:?}", md)  (fills the three `compiled` cells!)
      P<k>                    Q<k> followed by D, answered as one item
    <mods> = zero or more of  /b<id> (before)  /a<id> (after)  /r<id> (require)  /l<id> (alias)
                              /B (before_all)  /A (after_all)
  Response: `;`-joined items (`-` when there is none), one per H/Q/D/P op:
      H → `1` | `0`
      Q → `ok` | `!<err>`             err = missing:<rule>:<mark> | cyclic | internal
      D → `B[ids]I[ids]C[ids]T<none|punct|regex:cp,cp,…>M[cp=id,id|cp=|…]` | `!<err>`
            (chains as printed by `compiled: […]`, in execution order; M = text_charmap sorted by key)
      P → the D item, prefixed by `!<err>/` when the parse itself panicked
-/
namespace Driver.ParserState
open MdIt.ParserState
open MdIt.Ruler (Cons Prio CompileErr)

def splitOnChar (c : Char) : List Char → List (List Char)
  | [] => [[]]
  | x :: r =>
    if x = c then [] :: splitOnChar c r
    else
      match splitOnChar c r with
      | [] => [[x]]
      | h :: t => (x :: h) :: t

def natOfChars? (cs : List Char) : Option Nat :=
  if cs.isEmpty then none
  else cs.foldl (fun acc c =>
    match acc with
    | none => none
    | some n => if '0' ≤ c ∧ c ≤ '9' then some (n * 10 + (c.toNat - 48)) else none) (some 0)

def parseMods : List (List Char) → Spec → Option Spec
  | [], sp => some sp
  | m :: rest, sp =>
    match m with
    | ['B'] => parseMods rest { sp with prio := .beforeAll }
    | ['A'] => parseMods rest { sp with prio := .afterAll }
    | 'b' :: n => (natOfChars? n).bind fun k => parseMods rest { sp with cons := sp.cons ++ [.before k] }
    | 'a' :: n => (natOfChars? n).bind fun k => parseMods rest { sp with cons := sp.cons ++ [.after k] }
    | 'r' :: n => (natOfChars? n).bind fun k => parseMods rest { sp with cons := sp.cons ++ [.require k] }
    | 'l' :: n => (natOfChars? n).bind fun k => parseMods rest { sp with aliases := sp.aliases ++ [k] }
    | _ => none

/-- `<head><mods>` → head chars and the builder spec -/
def splitMods (cs : List Char) : Option (List Char × Spec) :=
  match splitOnChar '/' cs with
  | [] => none
  | h :: mods => (parseMods mods {}).map fun sp => (h, sp)

def idMarker? (cs : List Char) : Option (Nat × Nat) :=
  match splitOnChar ':' cs with
  | [a, b] =>
    match natOfChars? a, natOfChars? b with
    | some x, some y => some (x, y)
    | _, _ => none
  | _ => none

def docOf? (cs : List Char) : Option Doc :=
  match cs with
  | ['0'] => some ⟨false, false, 0⟩
  | ['1'] => some ⟨true, true, 1⟩
  | ['2'] => some ⟨true, false, 2⟩
  | _ => none

/-- driver-level op: the model ops plus the compound `P` -/
inductive DOp where
  | op (o : Op)
  | parseDebug (d : Doc)

def parseOp (cs : List Char) : Option DOp :=
  match cs with
  | ['D'] => some (.op .debugFmt)
  | 'P' :: r => (docOf? r).map DOp.parseDebug
  | 'Q' :: r => (docOf? r).map fun d => .op (.parse d)
  | 'A' :: 'B' :: r =>
    (splitMods r).bind fun (h, sp) => (natOfChars? h).map fun id => .op (.addBlock id sp)
  | 'A' :: 'C' :: r =>
    (splitMods r).bind fun (h, sp) => (natOfChars? h).map fun id => .op (.addCore id sp)
  | 'A' :: 'I' :: r =>
    (splitMods r).bind fun (h, sp) => (idMarker? h).map fun (id, m) => .op (.addInline id m sp)
  | 'R' :: 'B' :: r => (natOfChars? r).map fun id => .op (.removeBlock id)
  | 'R' :: 'C' :: r => (natOfChars? r).map fun id => .op (.removeCore id)
  | 'R' :: 'I' :: r => (idMarker? r).map fun (id, m) => .op (.removeInline id m)
  | 'H' :: 'B' :: r => (natOfChars? r).map fun id => .op (.hasBlock id)
  | 'H' :: 'I' :: r => (natOfChars? r).map fun id => .op (.hasInline id)
  | 'H' :: 'C' :: r => (natOfChars? r).map fun id => .op (.hasCore id)
  | _ => none

def mapM? {α β : Type} (f : α → Option β) : List α → Option (List β)
  | [] => some []
  | a :: l =>
    match f a, mapM? f l with
    | some b, some r => some (b :: r)
    | _, _ => none

def commaNats (l : List Nat) : String := ",".intercalate (l.map toString)

def showErr : CompileErr → String
  | .missing r m => "!missing:" ++ toString r ++ ":" ++ toString m
  | .cyclic => "!cyclic"
  | .internal => "!internal"

def showText : Option TextImpl → String
  | none => "Tnone"
  | some .punct => "Tpunct"
  | some (.regex st) => "Tregex:" ++ commaNats st

def insertPair (p : Nat × List Nat) : List (Nat × List Nat) → List (Nat × List Nat)
  | [] => [p]
  | a :: l => if p.1 ≤ a.1 then p :: a :: l else a :: insertPair p l

def sortPairs : List (Nat × List Nat) → List (Nat × List Nat)
  | [] => []
  | a :: l => insertPair a (sortPairs l)

def showCharmap (cm : Charmap) : String :=
  "M[" ++ "|".intercalate ((sortPairs cm).map fun p => toString p.1 ++ "=" ++ commaNats p.2) ++ "]"

def showChain (l : List (Nat × Nat)) : String := "[" ++ commaNats (l.map (·.2)) ++ "]"

def showDebug (cm : Charmap) (v : DebugView) : String :=
  "B" ++ showChain v.block ++ "I" ++ showChain v.inline ++ "C" ++ showChain v.core ++
    showText v.text ++ showCharmap cm

/-- the response item of one model op (`none` for the configuration ops) -/
def showOut (s' : PState) : Out Unit → Option String
  | .done => none
  | .has b => some (if b then "1" else "0")
  | .parsed _ => some "ok"
  | .debug v => some (showDebug s'.textCharmap v)
  | .panicked e => some (showErr e)

def stepShow (s : PState) (o : Op) : PState × Option String :=
  let r := step true (fun _ _ => ()) s o
  (r.1, showOut r.1 r.2)

def runAll : List DOp → PState → List String → List String
  | [], _, acc => acc.reverse
  | .op o :: rest, s, acc =>
    let r := stepShow s o
    runAll rest r.1 (match r.2 with | some x => x :: acc | none => acc)
  | .parseDebug d :: rest, s, acc =>
    let r1 := stepShow s (.parse d)
    let r2 := stepShow r1.1 .debugFmt
    let pre := match r1.2 with
      | some "ok" => ""
      | some e => e ++ "/"
      | none => ""
    runAll rest r2.1 ((pre ++ r2.2.getD "") :: acc)

def handle (args : List String) : String :=
  match args with
  | ["hist", ops] =>
    match mapM? parseOp (splitOnChar ';' ops.toList) with
    | some l =>
      let res := runAll l init []
      if res.isEmpty then "-" else ";".intercalate res
    | none => "bad-args"
  | _ => "bad-op"

end Driver.ParserState
