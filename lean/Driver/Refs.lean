import MdIt.Model.Refs
import MdIt.Gen.Unicode
import Driver.Proto
/-
  stream `refs` (C13).  Strings travel as hex of their UTF-8 bytes (`-` = empty).
    normalize <hexLabel>                       → hex of `normalize L U label`
    resolve <defs> <hexLabel>                  → hex of the destination `lookup` finds in `buildMap defs`, or `none`
    use <defs> <hexText> <hexExplicit|none>    → the same through `resolve` (label selection of `parse_link`)
  `<defs>` = `;`-separated `hexLabel=hexDest` in document order, `.` for no definition.
  `L`, `U` are the tables generated from the Rust std the harness links (`MdIt.Gen.Unicode`).
-/
namespace Driver.Refs
open MdIt.Refs

def L : Nat → List Nat := tableMap MdIt.Gen.Unicode.lowerTable
def U : Nat → List Nat := tableMap MdIt.Gen.Unicode.upperTable
def N : List Nat → List Nat := normalize L U

def hexToCps (s : String) : Option (List Nat) := (hexToChars s).map (·.map Char.toNat)
def cpsToHex (l : List Nat) : String := charsToHex (l.map Char.ofNat)

def parseDef (s : String) : Option Def :=
  match s.splitOn "=" with
  | [l, d] =>
    match hexToCps l, hexToCps d with
    | some l, some d => some { label := l, entry := { dest := d, title := none } }
    | _, _ => none
  | _ => none

def parseDefs (s : String) : Option (List Def) :=
  if s == "." then some [] else (s.splitOn ";").mapM parseDef

def answer : Option Entry → String
  | some e => cpsToHex e.dest
  | none => "none"

def handle (args : List String) : String :=
  match args with
  | ["normalize", hex] =>
    match hexToCps hex with
    | some l => cpsToHex (N l)
    | none => "bad-args"
  | ["resolve", defs, hex] =>
    match parseDefs defs, hexToCps hex with
    | some ds, some l => answer (lookup N (buildMap N ds) l)
    | _, _ => "bad-args"
  | ["use", defs, text, explicit] =>
    match parseDefs defs, hexToCps text, (if explicit == "none" then some none else (hexToCps explicit).map some) with
    | some ds, some t, some e => answer (resolve N (buildMap N ds) t e)
    | _, _, _ => "bad-args"
  | _ => "bad-op"

end Driver.Refs
