import Driver.Proto
import Driver.Url
