import Driver.Proto
import Driver.Url
import Driver.Ruler
import Driver.ErasedSet
import Driver.Tree
import Driver.Render
import Driver.SourceMap
import Driver.InlineOps
