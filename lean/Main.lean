import Driver.Proto
import Driver.Url
import Driver.Ruler
import Driver.ErasedSet
import Driver.Tree
import Driver.Render
import Driver.SourceMap
import Driver.InlineOps
import Driver.Nesting
import Driver.ParserState
import Driver.Refs
import Driver.Alt
import Driver.Lines
import Driver.Link
import Driver.CodePair
import Driver.Entity
import Driver.NodeRender
import Driver.Block
import Driver.Inline
import Driver.HtmlDecode
import Driver.Html
import Driver.BlockH
import Driver.InlineH
import Driver.PipelineH
import Driver.Pipeline

def dispatch (line : String) : String :=
  match line.trimAscii.toString.splitOn " " with
  | "url" :: args => Driver.Url.handle args
  | "ruler" :: args => Driver.Ruler.handle args
  | "eset" :: args => Driver.ErasedSet.handle args
  | "tree" :: args => Driver.Tree.handle args
  | "render" :: args => Driver.Render.handle args
  | "smap" :: args => Driver.SourceMap.handle args
  | "inlineops" :: args => Driver.InlineOps.handle args
  | "nest" :: args => Driver.Nesting.handle args
  | "pstate" :: args => Driver.ParserState.handle args
  | "refs" :: args => Driver.Refs.handle args
  | "alt" :: args => Driver.Alt.handle args
  | "lines" :: args => Driver.Lines.handle args
  | "link" :: args => Driver.Link.handle args
  | "codepair" :: args => Driver.CodePair.handle args
  | "entity" :: args => Driver.Entity.handle args
  | "noderender" :: args => Driver.NodeRender.handle args
  | "block" :: args => Driver.Block.handle args
  | "inline" :: args => Driver.Inline.handle args
  | "htmldecode" :: args => Driver.HtmlDecode.handle args
  | "html" :: args => Driver.Html.handle args
  | "blockh" :: args => Driver.BlockH.handle args
  | "inlineh" :: args => Driver.InlineH.handle args
  | "pipelineh" :: args => Driver.PipelineH.handle args
  | "pipeline" :: args => Driver.Pipeline.handle args
  | _ => "bad-stream"

partial def loop (h : IO.FS.Stream) (out : IO.FS.Stream) : IO Unit := do
  let line ← h.getLine
  if line.isEmpty then return ()
  out.putStrLn (dispatch line)
  loop h out

def main : IO Unit := do
  let out ← IO.getStdout
  loop (← IO.getStdin) out
  out.flush
