import Driver.Proto
import Driver.Url

def dispatch (line : String) : String :=
  match line.trimAscii.toString.splitOn " " with
  | "url" :: args => Driver.Url.handle args
  | _ => "bad-stream"

partial def loop (h : IO.FS.Stream) (out : IO.FS.Stream) : IO Unit := do
  let line ← h.getLine
  if line.isEmpty then return ()
  out.putStrLn (dispatch line)
  loop h out

def main : IO Unit := do
  let out ← IO.getStdout
  loop (← IO.getStdin) out
  out.flush
