import MdIt.Model.Url
import MdIt.Props.C17
