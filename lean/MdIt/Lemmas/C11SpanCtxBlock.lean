/-
  C11, code SPANS, MULTI-LINE paragraphs INSIDE containers — BLOCK level (`Props/C11SpanCtx.lean`, item 1).

  The container analogue of `Block.parseBlocks_lines`: the `n` lines `Ls` of a top-level paragraph, every line
  prefixed by the quote marker / the item's marker or indentation (`wrapAll w (docOf Ls)`), give the wrapper nodes
  around `Paragraph[InlineRoot (docOf Ls) T]` — the SAME inline text — where the table `T` has one entry per line:
  `(start of line j in docOf Ls, start of line j in the wrapped source + widthAll w)` (`lineTable`, `starts`).

  No new block induction: `Block.quote_commutes` / `Li.item_commutes_gen` (C06) hold for ANY tab-free document and
  say that the tree of the prefixed document is the tree of the document with every position mapped by `sigma` /
  `tau`, table entries of the placeholders included; `sigma_spec` / `tau_spec` say where byte `x` of line `i` goes
  (`startOf L' i + w + x`).  So one wrapper more maps the table entry of line `i` to the entry of line `i` of the
  wrapped document (`reloc_inlineRootAt_lines`), and an induction on `w` does the rest
  (`parseBlocks_wrap1_lines`, `parseBlocks_para_nested_lines`).
-/
import MdIt.Lemmas.C11NestedPara
import MdIt.Lemmas.C11SpanMultiPara
set_option linter.unusedSimpArgs false
set_option linter.unusedVariables false

namespace MdIt.C11X
open MdIt.Block MdIt.Block.Li MdIt.C11N
open MdIt.Lines (NoTerm lead IsTerminator)

/-! ## 1. where the lines start -/

/-- the byte offsets at which the lines `Ls` start in `docOf Ls` (lines joined by one LF), counted from `p` -/
def starts : Nat → List (List Char) → List Nat
  | _, [] => []
  | p, l :: ls => p :: starts (p + Lines.byteLen l + 1) ls

theorem starts_length : ∀ (Ls : List (List Char)) (p : Nat), (starts p Ls).length = Ls.length
  | [], _ => rfl
  | l :: ls, p => by simp [starts, starts_length ls]

/-- the table: `(start of line j of Ls, start of line j of Ls')` -/
def lineTable (Ls Ls' : List (List Char)) : List (Nat × Nat) := (starts 0 Ls).zip (starts 0 Ls')

theorem idTable_eq_zip : ∀ (Ls : List (List Char)) (p : Nat), idTable p Ls = (starts p Ls).zip (starts p Ls)
  | [], _ => rfl
  | l :: ls, p => by simp [idTable, starts, idTable_eq_zip ls]

theorem idTable_eq (Ls : List (List Char)) : idTable 0 Ls = lineTable Ls Ls := idTable_eq_zip Ls 0

theorem startOf_cons (a : List Char × List Char) (L : DLines) (i : Nat) :
    startOf (a :: L) (i + 1) = Lines.byteLen a.1 + Lines.byteLen a.2 + startOf L i := by
  simp [startOf, Lines.flat_cons, Lines.byteLen_append]
  omega

/-- `starts` and C06's `startOf` agree -/
theorem starts_getElem : ∀ (Ls : List (List Char)) (p i : Nat) (h : i < (starts p Ls).length),
    (starts p Ls)[i] = p + startOf (withTerms Ls) i
  | [], _, _, h => by simp [starts] at h
  | [x], p, 0, _ => by simp [starts, startOf_zero]
  | [x], p, i + 1, h => by simp [starts] at h
  | x :: y :: r, p, 0, _ => by simp [starts, startOf_zero]
  | x :: y :: r, p, i + 1, h => by
    have h' : i < (starts (p + Lines.byteLen x + 1) (y :: r)).length := by
      simp only [starts_length, List.length_cons] at h ⊢; omega
    have ih := starts_getElem (y :: r) (p + Lines.byteLen x + 1) i h'
    have hb : Lines.byteLen ['\n'] = 1 := by decide
    simp only [starts, List.getElem_cons_succ, withTerms, startOf_cons, hb] at ih ⊢
    rw [ih]
    omega

/-! ## 2. every line of the wrapped document is its prefixes and the line -/

theorem wrapLines_getElem (x : Wrapper) (Ls : List (List Char)) (i : Nat) (h : i < (wrapLines x Ls).length) :
    (wrapLines x Ls)[i] = x.pre i ++ Ls[i]'(by rw [wrapLines_length] at h; exact h) := by
  simp [wrapLines]

theorem byteLen_wrapAllLines {w : List Wrapper} (hw : ∀ x ∈ w, x.Ok) (Ls : List (List Char)) :
    ∀ (i : Nat) (h : i < (wrapAllLines w Ls).length),
      Lines.byteLen (wrapAllLines w Ls)[i] =
        widthAll w + Lines.byteLen (Ls[i]'(by rw [wrapAllLines_length] at h; exact h)) := by
  induction w with
  | nil => intro i h; simp [wrapAllLines, widthAll]
  | cons x ws ih =>
    intro i h
    have pf := Wrapper.preFacts (hw x (by simp))
    have h' : i < (wrapAllLines ws Ls).length := by
      simp only [wrapAllLines, wrapLines_length] at h; exact h
    have := ih (fun y hy => hw y (List.mem_cons_of_mem _ hy)) i h'
    simp only [wrapAllLines, wrapLines_getElem, Lines.byteLen_append, pf.bytes, this, widthAll]
    omega

/-! ## 3. relocation of the placeholder with a per-line table -/

theorem reloc_inlineRootAt_lines (σ : Nat → Nat) (c : List Char) (A : List Nat) (Ls' Ls'' : List (List Char))
    (W d : Nat) (hlen : Ls''.length = Ls'.length)
    (hσ : ∀ i (h : i < (starts 0 Ls').length) (h' : i < (starts 0 Ls'').length),
      σ ((starts 0 Ls')[i] + W) = (starts 0 Ls'')[i] + (W + d)) :
    relocNode σ (inlineRootAt c (A.zip (starts 0 Ls')) W) = inlineRootAt c (A.zip (starts 0 Ls'')) (W + d) := by
  simp only [inlineRootAt, relocNode, relocNodes, relocKind, Option.map_none, List.map_map]
  congr 2
  apply List.ext_getElem
  · simp [starts_length, hlen]
  · intro i h1 h2
    simp only [List.length_map, List.length_zip, starts_length] at h1 h2
    simp only [List.getElem_map, List.getElem_zip, Function.comp]
    rw [hσ i (by rw [starts_length]; omega) (by rw [starts_length]; omega)]

/-- `reloc_paraLeaf` with the relocation of the placeholder given -/
theorem reloc_paraLeaf_of (σ : Nat → Nat) (d B E E' : Nat) (hσ : ∀ p, p ≤ B → σ p = p + d) (hE : σ E = E')
    (c : List Char) (m m' : List (Nat × Nat)) (a W : Nat) (ha : W + a ≤ B)
    (hi : relocNode σ (inlineRootAt c m W) = inlineRootAt c m' (W + d)) (tg : Bool) :
    relocNodes σ (paraLeaf c m a W E tg) = paraLeaf c m' a (W + d) E' tg := by
  cases tg
  · simp only [paraLeaf, Bool.false_eq_true, if_false, relocNodes, relocNode, hi, Option.map_some, hσ _ ha, hE,
      show relocKind σ Kind.paragraph = Kind.paragraph from rfl]
    rw [Nat.add_right_comm]
  · simp only [paraLeaf, if_true, relocNodes, hi]

/-- the byte maps of C06 on the start of the content of every line -/
theorem spec_lines (σ : Nat → Nat) (Ls' Ls'' : List (List Char)) (d W : Nat) (hlen : Ls''.length = Ls'.length)
    (hspec : ∀ i (h : i < (withTerms Ls').length) x, x ≤ Lines.byteLen (withTerms Ls')[i].1 →
      σ (startOf (withTerms Ls') i + x) = startOf (withTerms Ls'') i + d + x)
    (hW : ∀ i (h : i < Ls'.length), W ≤ Lines.byteLen Ls'[i]) :
    ∀ i (h : i < (starts 0 Ls').length) (h' : i < (starts 0 Ls'').length),
      σ ((starts 0 Ls')[i] + W) = (starts 0 Ls'')[i] + (W + d) := by
  intro i h h'
  rw [starts_getElem, starts_getElem, Nat.zero_add, Nat.zero_add]
  have hi : i < Ls'.length := by rw [starts_length] at h; exact h
  rw [hspec i (by rw [withTerms_length]; exact hi) W (by rw [withTerms_getElem_fst Ls' i hi]; exact hW i hi)]
  omega

/-! ## 4. one wrapper around an n-line paragraph document -/

/-- **one wrapper around an n-line paragraph document** (`parseBlocks_wrap1_line` for any number of lines): the
    table entry of line `i` moves to line `i` of the wrapped document -/
theorem parseBlocks_wrap1_lines (cfg : Cfg) (hmn : 0 < cfg.maxNesting) (c : List Char) (A : List Nat) (a : Nat)
    (ws : List Wrapper) (l' : List Char) (r' : List (List Char)) (g : Good (l' :: r')) (hf : FirstLineOk l')
    (ha : widthAll ws + a ≤ Lines.byteLen l')
    (hW : ∀ i (h : i < (l' :: r').length), widthAll ws ≤ Lines.byteLen (l' :: r')[i])
    (x : Wrapper) (hx : x.Ok) (hch : ChainFor cfg.chain [x])
    (hhr : .hr ∈ cfg.chain.takeWhile (· ≠ .list) → x.isQuote = false → hrLook 0 (x.mk ++ ' ' :: l') = false)
    (hsize : Lines.byteLen (docOf (l' :: r')) + 20 < 2147483648) (tg : Bool)
    (htight : ws = [] → ∀ t, tokenize cfg (fuelFor cfg (docOf (l' :: r'))) (BState.fresh (docOf (l' :: r')) .root []) = .ok t →
      t.tight = true)
    (ih : parseBlocks cfg (docOf (l' :: r')) =
      .ok (⟨.root, some (0, Lines.byteLen (docOf (l' :: r'))),
            wrapForest (Lines.byteLen (docOf (l' :: r'))) ws 0
              (paraLeaf c (A.zip (starts 0 (l' :: r'))) a (widthAll ws) (Lines.byteLen (docOf (l' :: r'))) tg)⟩, [])) :
    parseBlocks { cfg with maxNesting := cfg.maxNesting + x.cost } (docOf (wrapLines x (l' :: r'))) =
      .ok (⟨.root, some (0, Lines.byteLen (docOf (wrapLines x (l' :: r')))),
            wrapForest (Lines.byteLen (docOf (wrapLines x (l' :: r')))) (x :: ws) 0
              (paraLeaf c (A.zip (starts 0 (wrapLines x (l' :: r')))) a (widthAll (x :: ws))
                (Lines.byteLen (docOf (wrapLines x (l' :: r')))) (stepTight x ws tg))⟩, []) := by
  have hwrap := wrap1_docOf hx g.ne g.noTerm g.last
  have hcons := wrapLines_cons x l' r'
  have g2 : Good (wrapLines x (l' :: r')) := g.wrap hx
  have hn : (Lines.linesT (docOf (l' :: r'))).length = r'.length + 1 := by
    rw [g.linesT, withTerms_length]; rfl
  obtain ⟨c0, p0, hp0, hc0⟩ := (Wrapper.preFacts hx).head
  have hlead : lead (x.pre 0 ++ l') = [] := by
    rw [hp0]; exact (lead_nonblank_cons _ hc0).1
  have hwa : widthAll (x :: ws) = widthAll ws + x.width := by simp [widthAll]; omega
  have hlen2 : (wrapLines x (l' :: r')).length = (l' :: r').length := wrapLines_length _ _
  by_cases hq : x.isQuote = true
  · have hxq : x = .quote := by cases x <;> simp [Wrapper.isQuote] at hq ⊢
    subst hxq
    obtain ⟨hmem, hpre⟩ := hch.quote ⟨.quote, by simp, rfl⟩
    obtain ⟨rr, hrr, hp⟩ := quote_commutes cfg (docOf (l' :: r')) g.tab (by omega) _ _
      (MdIt.Pipeline.split_at_first .blockquote _ hmem) hpre ih
    have hwrap' : prefixQuote (docOf (l' :: r')) = docOf (wrapLines .quote (l' :: r')) := hwrap
    rw [hwrap', hn] at hrr
    rw [hwrap'] at hp
    obtain ⟨hσ, hE⟩ := sigma_good g (by omega)
    rw [hwrap'] at hE
    have hpl : withTerms (wrapLines .quote (l' :: r')) = prefixLines (withTerms (l' :: r')) := by
      rw [← g2.linesT, ← hwrap', linesT_prefixQuote, g.linesT]
    have hsp := spec_lines (sigma (Lines.linesT (docOf (l' :: r')))) (l' :: r') (wrapLines .quote (l' :: r')) 2
      (widthAll ws) hlen2
      (fun i h x hx' => by
        have := sigma_spec (docOf (l' :: r')) g.tab (by omega) (i := i) (x := x)
          (by rw [g.linesT]; exact h) (by simp only [g.linesT]; exact hx')
        simp only [g.linesT] at this ⊢
        rw [hpl]; exact this) hW
    have hir := reloc_inlineRootAt_lines _ c A _ _ (widthAll ws) 2 hlen2 hsp
    have hleaf := reloc_paraLeaf_of _ 2 _ _ _ hσ hE c _ _ a (widthAll ws) (by simpa using ha) hir tg
    have hrel := reloc_wrapForest _ 2 _ _ _ hσ hE _ _ hleaf ws 0 (by simp; omega)
    have hrng : rr = (0, Lines.byteLen (docOf (wrapLines .quote (l' :: r')))) := by
      revert hrr g2
      rw [hcons]
      intro g2 hrr
      have := getMap_whole g2 (by simpa using hrr)
      simpa [hlead] using this
    subst hrng
    have hst : stepTight Wrapper.quote ws tg = tg := by cases ws <;> simp [stepTight, Wrapper.isQuote]
    rw [show Wrapper.quote.cost = 1 from rfl, hp, hwa, hst]
    simp only [hrel, wrapForest, Wrapper.nodeL, Wrapper.isQuote, if_true, Wrapper.kind, Wrapper.width, Wrapper.mk,
      List.length_cons, List.length_nil, Nat.zero_add]
  · have hq' : x.isQuote = false := by simpa using hq
    have hmk := Wrapper.mkOk hx hq'
    obtain ⟨mv, mc, hdet, hmc, hch0, hkind⟩ := Wrapper.itemData hx hq'
    obtain ⟨hmem, hpre⟩ := hch.list ⟨x, by simp, hq'⟩
    have hwl := width_le x hx
    have hw1 : wrap1 x (docOf (l' :: r')) = itemDoc x.mk (docOf (l' :: r')) := by
      cases x with
      | quote => cases hq'
      | bullet c => rfl
      | ordered ds dl => rfl
    obtain ⟨t0, rest, hwt⟩ := withTerms_cons l' r'
    have hLT : Lines.linesT (docOf (l' :: r')) = (l', t0) :: rest := by rw [g.linesT, hwt]
    obtain ⟨t, htk, hch_t, hrefs_t⟩ : ∃ t, tokenize cfg (fuelFor cfg (docOf (l' :: r')))
          (BState.fresh (docOf (l' :: r')) .root []) = .ok t ∧
        t.children = wrapForest (Lines.byteLen (docOf (l' :: r'))) ws 0
          (paraLeaf c (A.zip (starts 0 (l' :: r'))) a (widthAll ws) (Lines.byteLen (docOf (l' :: r'))) tg) ∧ t.refs = [] := by
      unfold parseBlocks at ih
      cases htk : tokenize cfg (fuelFor cfg (docOf (l' :: r'))) (BState.fresh (docOf (l' :: r')) .root []) with
      | error e => rw [htk] at ih; cases ih
      | ok t =>
        rw [htk] at ih
        simp only [Except.ok.injEq, Prod.mk.injEq, BNode.mk.injEq] at ih
        exact ⟨t, rfl, ih.1.2.2, ih.2⟩
    obtain ⟨rr, hrr, hp⟩ := item_commutes_gen cfg hmk hdet hmc hch0 (docOf (l' :: r')) g.tab
      (by simp only [Wrapper.width] at hwl; omega) ⟨l', t0, rest, hLT, hf.1, hf.2⟩ hmn _ _
      (MdIt.Pipeline.split_at_first .list _ hmem) hpre
      (fun hin l0 t0' rest0 h0 => by
        rw [hLT] at h0
        simp only [List.cons.injEq, Prod.mk.injEq] at h0
        rw [← h0.1.1]
        exact hhr hin hq') htk
    rw [hch_t, hrefs_t] at hp
    have hwrap' : itemDoc x.mk (docOf (l' :: r')) = docOf (wrapLines x (l' :: r')) := by rw [← hw1]; exact hwrap
    rw [hwrap', hn] at hrr
    rw [hwrap'] at hp
    obtain ⟨hσ, hE⟩ := tau_good hmk g (by omega)
    rw [hwrap'] at hE
    have hpl : withTerms (wrapLines x (l' :: r')) = indentLines (preAt x.mk) (withTerms (l' :: r')) := by
      rw [← g2.linesT, ← hwrap', itemDoc, g.linesT]
      have := wrap1_docOf hx g.ne g.noTerm g.last
      rw [hw1, itemDoc, g.linesT] at this
      rw [this, g2.linesT]
      simp only [indentLines, withTerms_mapIdx, wrapLines]
      congr 2
      funext i l
      rw [Wrapper.pre_item hq']
    have hsp := spec_lines (tau (x.mk.length + 1) (Lines.linesT (docOf (l' :: r')))) (l' :: r') (wrapLines x (l' :: r'))
      (x.mk.length + 1) (widthAll ws) hlen2
      (fun i h y hy' => by
        have := tau_spec hmk (docOf (l' :: r')) g.tab (by omega) (i := i) (x := y)
          (by rw [g.linesT]; exact h) (by simp only [g.linesT]; exact hy')
        simp only [g.linesT] at this ⊢
        rw [hpl]; exact this) hW
    have hir := reloc_inlineRootAt_lines _ c A _ _ (widthAll ws) (x.mk.length + 1) hlen2 hsp
    have hleaf := reloc_paraLeaf_of _ (x.mk.length + 1) _ _ _ hσ hE c _ _ a (widthAll ws) (by simpa using ha) hir tg
    have hrel := reloc_wrapForest _ (x.mk.length + 1) _ _ _ hσ hE _ _ hleaf ws 0 (by simp; omega)
    have hrng : rr = (0, Lines.byteLen (docOf (wrapLines x (l' :: r')))) := by
      revert hrr g2
      rw [hcons]
      intro g2 hrr
      have := getMap_whole g2 (by simpa using hrr)
      simpa [hlead] using this
    subst hrng
    have hcost : x.cost = 2 := by
      cases x with
      | quote => cases hq'
      | bullet c => rfl
      | ordered ds dl => rfl
    rw [hcost, hp, hwa, hrel]
    cases ws with
    | nil =>
      have htt : t.tight = true := htight rfl t htk
      simp only [htt, if_true, wrapForest, markTight_paraLeaf, Wrapper.nodeL, hq', hkind, Wrapper.width, Bool.false_eq_true,
        if_false, widthAll, Nat.zero_add, Nat.add_zero, stepTight, Bool.not_false, Bool.true_or]
    | cons y ws' =>
      rw [markTight_wrapForest]
      simp only [ite_self, stepTight]
      simp only [wrapForest, Wrapper.nodeL, hq', hkind, Wrapper.width, Bool.false_eq_true, if_false, Nat.zero_add]

/-! ## 5. any list of wrappers -/

theorem firstLineOk_firstLine {ws : List Wrapper} (hws : ∀ y ∈ ws, y.Ok) {l : List Char} (hf : FirstLineOk l) :
    FirstLineOk (firstLine ws l) := by
  cases ws with
  | nil => exact hf
  | cons y ws' =>
    have := firstLine_head (hws y (by simp)) ws' l
    exact ⟨this.2, .inl (by rw [this.1]; rfl)⟩

/-- **an n-line paragraph inside containers, block level.**  `l :: r` a `Good` document (tab-free lines) that
    parses to ONE paragraph over the inline text `c` with the table `A.zip (starts 0 (l :: r))` (second components:
    the line starts), the run ending `tight`.  Inside any list `w` of wrappers the block tree is the chain of wrapper
    nodes around that paragraph — or the bare placeholder when the innermost wrapper is a list item — and the
    placeholder holds the SAME inline text; the table's second components are the line starts of the wrapped
    document plus the width of the prefixes. -/
theorem parseBlocks_para_nested_lines (cfg : Cfg) (hmn : 0 < cfg.maxNesting) (c : List Char) (A : List Nat) (a : Nat)
    (l : List Char) (r : List (List Char)) (g : Good (l :: r)) (hf : FirstLineOk l) (ha : a ≤ Lines.byteLen l)
    (hbase : parseBlocks cfg (docOf (l :: r)) =
      .ok (⟨.root, some (0, Lines.byteLen (docOf (l :: r))),
            [⟨.paragraph, some (a, Lines.byteLen (docOf (l :: r))),
              [⟨.inlineRoot c (A.zip (starts 0 (l :: r))), none, []⟩]⟩]⟩, []))
    (htight : ∀ t, tokenize cfg (fuelFor cfg (docOf (l :: r))) (BState.fresh (docOf (l :: r)) .root []) = .ok t →
      t.tight = true) :
    ∀ (w : List Wrapper), (∀ x ∈ w, x.Ok) → ChainFor cfg.chain w →
      (.hr ∈ cfg.chain.takeWhile (· ≠ .list) → HrFree w l) →
      Lines.byteLen (docOf (wrapAllLines w (l :: r))) + 20 < 2147483648 →
      parseBlocks { cfg with maxNesting := cfg.maxNesting + depthCost w } (docOf (wrapAllLines w (l :: r))) =
        .ok (⟨.root, some (0, Lines.byteLen (docOf (wrapAllLines w (l :: r)))),
              wrapForest (Lines.byteLen (docOf (wrapAllLines w (l :: r)))) w 0
                (paraLeaf c (A.zip (starts 0 (wrapAllLines w (l :: r)))) a (widthAll w)
                  (Lines.byteLen (docOf (wrapAllLines w (l :: r)))) (tightOf w))⟩, [])
  | [], _, _, _, _ => by
    have e : ∀ m : List (Nat × Nat), (m.map fun kv => (kv.1, kv.2 + 0)) = m := by intro m; simp
    simp only [wrapAllLines, depthCost, wrapForest, paraLeaf, tightOf, Bool.false_eq_true, if_false, widthAll, Nat.zero_add,
      inlineRootAt, e]
    exact hbase
  | x :: ws, hw, hch, hhr, hsize => by
    have hws : ∀ y ∈ ws, y.Ok := fun y hy => hw y (List.mem_cons_of_mem _ hy)
    have hx : x.Ok := hw x (by simp)
    have g' := Good.wrapAll hws g
    have hsz' : Lines.byteLen (docOf (wrapAllLines ws (l :: r))) + 20 < 2147483648 := by
      have := byteLen_wrapLines_ge hx g'
      simp only [wrapAllLines] at hsize
      omega
    have ih := parseBlocks_para_nested_lines cfg hmn c A a l r g hf ha hbase htight ws hws hch.tail
      (fun h => (hhr h).tail) hsz'
    have hWall : ∀ l0 ∈ wrapAllLines ws (l :: r), widthAll ws ≤ Lines.byteLen l0 := by
      intro l0 hl0
      obtain ⟨i, hi, rfl⟩ := List.getElem_of_mem hl0
      rw [byteLen_wrapAllLines hws (l :: r) i hi]
      omega
    obtain ⟨r', hr', _⟩ := wrapAllLines_cons ws l r
    simp only [wrapAllLines]
    rw [hr'] at g' ih hsz' hWall ⊢
    have h := parseBlocks_wrap1_lines { cfg with maxNesting := cfg.maxNesting + depthCost ws }
      (Nat.lt_of_lt_of_le hmn (Nat.le_add_right _ _)) c A a ws (firstLine ws l) r' g'
      (firstLineOk_firstLine hws hf) (by rw [byteLen_firstLine hws]; omega)
      (fun i hi => hWall _ (List.getElem_mem hi)) x hx hch.head
      (fun hin hq => hr_item hx hq (hhr hin)) hsz' (tightOf ws)
      (fun hws0 t ht => by
        subst hws0
        simp only [wrapAllLines, List.cons.injEq] at hr'
        obtain ⟨e1, e2⟩ := hr'
        simp only [firstLine] at ht
        rw [← e2] at ht
        exact htight t ht) ih
    rw [cfg_nest] at h
    exact h

/-! ## 6. the top-level n-line paragraph ends `tight` -/

section lines
variable {c : Char} {r : List Char} {Ls : List (List Char)}
  (hnt : ∀ l ∈ (c :: r) :: Ls, NoTerm l) (hc : ParaFirst c) (hcont : ∀ l ∈ Ls, ContLine l)
  {cfg : Cfg} {pre post : List RuleId} (hchain : cfg.chain = pre ++ .paragraph :: post)
  (hpre : .paragraph ∉ pre) (hmn : 0 < cfg.maxNesting)
include hnt hc hcont hchain hpre hmn

theorem tokenize_lines_tight (t : BState)
    (ht : tokenize cfg (fuelFor cfg (docOf ((c :: r) :: Ls))) (BState.fresh (docOf ((c :: r) :: Ls)) .root []) = .ok t) :
    t.tight = true := by
  obtain ⟨h1, h2, h3, h4, h5⟩ := lines_facts hnt hc hcont hchain hpre
  have hlen : (Lines.splitLines (docOf ((c :: r) :: Ls))).length = ((c :: r) :: Ls).length :=
    (onDoc_lines hnt hcont .root []).length
  obtain ⟨f, hf⟩ : ∃ f, fuelFor cfg (docOf ((c :: r) :: Ls)) = f + 2 :=
    ⟨(Lines.splitLines (docOf ((c :: r) :: Ls))).length + min cfg.maxNesting (Lines.byteLen (docOf ((c :: r) :: Ls))) + 6,
      by unfold fuelFor; omega⟩
  have hf1 : (Lines.splitLines (docOf ((c :: r) :: Ls))).length ≤ f := by unfold fuelFor at hf; omega
  rw [hf, tokenize_succ,
    tokLoop_single (cfg := cfg) f false (s := BState.fresh (docOf ((c :: r) :: Ls)) .root []) h1 h2 h3 (by omega) hmn
      (h5 (f + 1) (by rw [← hlen]; omega) (by omega)) (by show 0 < Ls.length + 1; omega) (by simpa using h4.symm)] at ht
  cases ht
  rfl

end lines

end MdIt.C11X
