/-
  Helper development for `Props/Inline.lean`: the emphasis-marker rule does not panic —
  `scan_and_match_delimiters` is total on a state that satisfies the frame invariant `RI` and whose
  `OpenersBottom` tables have their six entries.
-/
import MdIt.Lemmas.InlineRanges7

namespace MdIt.Inline
open MdIt.InlineOps (Srcmap getSourcePosFor getMap byteLen slice)
open MdIt.C05 (WFMap MonoMap byteLen_append slice_ok_iff)

/-- every stored `OpenersBottom` table has its 6 entries -/
def BottomsOK (b : List (Char × List Nat)) : Prop := ∀ k l, (k, l) ∈ b → l.length = 6

theorem bottomsGet_length {b : List (Char × List Nat)} (h : BottomsOK b) (mk : Char) :
    (bottomsGet b mk).length = 6 := by
  unfold bottomsGet
  split
  · next l hl => exact h mk l (lookup_mem' hl)
  · rfl

theorem bottomsSet_ok {b : List (Char × List Nat)} (h : BottomsOK b) (mk : Char) (i v : Nat) :
    BottomsOK (bottomsSet b mk i v) := by
  intro k l hkl
  unfold bottomsSet at hkl
  simp only [List.mem_cons, Prod.mk.injEq] at hkl
  rcases hkl with ⟨_, rfl⟩ | hkl
  · rw [List.length_set]; exact bottomsGet_length h mk
  · exact h k l (List.mem_filter.mp hkl).1

/-- the inner loop is total on the shape it maintains -/
theorem matchInner_total {lo hi r0 : Nat} {fns : Nat → Option Wrap} {mk : Char} {room : Nat}
    {pre : List Node} {oS : Nat} :
    ∀ (fuel : Nat) (opener : Marker) (ms : MatchSt), IShape lo hi r0 pre oS opener ms →
      ∃ r, matchInner fns mk room pre.length fuel opener ms = .ok r := by
  intro fuel
  induction fuel with
  | zero => intro opener ms _; exact ⟨_, rfl⟩
  | succ fuel ih =>
    intro opener ms hs
    unfold matchInner
    split
    · next hpos =>
      split
      · exact ⟨_, rfl⟩
      simp only
      split
      · exact ⟨_, rfl⟩
      · next ml w hpick =>
        obtain ⟨hml1, hml2⟩ := pickLen_le hpick
        obtain ⟨oE, mid, tail, htail, ⟨s, e, hcr, hms, hse, hehi⟩, hoE, hflag, hshape⟩ := hs
        rcases hshape with ⟨hrem, otok, hor, hoc, hch⟩ | ⟨h0, _, _⟩
        · rw [if_neg (by omega)]
          have hlen : pre.length + 1 = (pre ++ [otok]).length := by simp
          have hlen2 : ¬ ms.children.length < pre.length + 1 := by
            rw [hch]; simp only [List.length_append, List.length_singleton]; omega
          rw [if_neg hlen2]
          have htake : ms.children.take (pre.length + 1) = pre ++ [otok] := by
            rw [hch, hlen, List.take_left]
          have hdrop : ms.children.drop (pre.length + 1) = tail := by
            rw [hch, hlen, List.drop_left]
          have hoEmid := htail.ord.le
          rw [htake, hdrop, popLast_snoc, hcr]
          simp only [hor]
          rw [if_neg (by omega)]
          simp only
          apply ih
          -- the state after one match (as in `matchInner_ranges`)
          have hwrap : WellRanged (Node.mk (.wrap w mk) (some (oE - ml, s + ml)) tail) := by
            rw [WellRanged_eq]
            refine ⟨⟨oE - ml, s + ml, rfl, by omega, ?_⟩, htail.deep⟩
            exact htail.ord.widen (by omega) (by omega)
          have htl : ListOK (oE - ml) (s + ml) [Node.mk (.wrap w mk) (some (oE - ml, s + ml)) tail] := by
            refine ⟨orderedN_single rfl (Nat.le_refl _) (by omega) (Nat.le_refl _),
              WellRangedList.single hwrap, ?_⟩
            intro n hn mk' hmk'
            simp only [List.mem_singleton] at hn; subst hn
            simp [Node.asMarker] at hmk'
          refine ⟨oE - ml, s + ml, _, htl, ⟨s + ml, e, rfl, Nat.le_refl _, ?_, hehi⟩, ?_, ?_, ?_⟩
          · simp only; omega
          · simp only; omega
          · right
            intro init last hl
            simp only at hl
            by_cases hz : opener.remaining - ml = 0
            · simp only [hz, if_true] at hl
              obtain ⟨_, rfl⟩ := snoc_inj hl; rfl
            · simp only [hz, if_false] at hl
              obtain ⟨_, rfl⟩ := snoc_inj hl; rfl
          · by_cases hz : opener.remaining - ml = 0
            · right
              refine ⟨hz, by simp, ?_⟩
              simp only [hz, if_true]
            · left
              refine ⟨by simp only; omega, Node.mk otok.val (some (oS, oE - ml)) otok.children,
                rfl, hoc, ?_⟩
              simp only [hz, if_false]
        · omega
    · exact ⟨_, rfl⟩

/-- the outer loop is total: every index it reads (`idx` and `idx + 1`) is inside the list -/
theorem matchOuter_total {lo hi r0 : Nat} {fns : Nat → Option Wrap} {mk : Char} (room minIdx : Nat) :
    ∀ (k : Nat) (ms : MatchSt), MInv lo hi r0 ms → minIdx + k < ms.children.length →
      ∃ ms', matchOuter fns mk room minIdx k ms = .ok ms' := by
  intro k
  induction k with
  | zero => intro ms _ _; exact ⟨_, rfl⟩
  | succ k ih =>
    intro ms0 hm0 hlenk
    have hidx1 : minIdx + k + 1 < ms0.children.length := by omega
    rw [matchOuter_succ, List.getElem?_eq_getElem hidx1]
    simp only
    generalize ms0.children[minIdx + k + 1] = nxt
    -- the depth bookkeeping does not touch what `MInv` / `IShape` talk about
    generalize hmsdef : ({ ms0 with innerDepth := max ms0.innerDepth (wrapDepth nxt) } : MatchSt) = ms
    have hm : MInv lo hi r0 ms := by rw [← hmsdef]; exact hm0
    have hidx : minIdx + k < ms.children.length := by rw [← hmsdef]; simp only; omega
    clear hmsdef hm0 hlenk hidx1
    unfold matchOuterBody
    rw [List.getElem?_eq_getElem hidx]
    simp only
    generalize htokdef : ms.children[minIdx + k] = tok
    have htok : ms.children[minIdx + k]? = some tok := by
      rw [List.getElem?_eq_getElem hidx, htokdef]
    split
    · exact ih _ hm (by omega)
    · next opener hop =>
      obtain ⟨mid, hlist, hcl, hflag⟩ := hm
      obtain ⟨hsplit, hlen⟩ := split_at_getElem? htok
      obtain ⟨pre, hpredef⟩ : ∃ pre, pre = ms.children.take (minIdx + k) := ⟨_, rfl⟩
      obtain ⟨tl, htldef⟩ : ∃ tl, tl = ms.children.drop (minIdx + k + 1) := ⟨_, rfl⟩
      rw [← hpredef] at hlen
      rw [← hpredef, ← htldef] at hsplit
      have hl3 := hlist
      rw [hsplit] at hl3
      obtain ⟨y, hl12, hltail⟩ := hl3.split
      obtain ⟨x, hlpre, hltok⟩ := hl12.split
      obtain ⟨hch, hrem, oS, oE, hor, hfit⟩ :=
        hlist.markers tok (List.mem_of_getElem? htok) opener hop
      obtain ⟨a, b, hab, hxa, _, hby⟩ := hltok.ord
      rw [hor] at hab; simp only [Option.some.injEq, Prod.mk.injEq] at hab
      obtain ⟨rfl, rfl⟩ := hab
      simp only [OrderedN] at hby
      have hpre : ListOK lo oS pre := hlpre.widen (Nat.le_refl _) hxa
      have htail : ListOK oE mid tl := hltail.widen hby (Nat.le_refl _)
      have hshape0 : IShape lo hi r0 pre oS opener ms :=
        ⟨oE, mid, _, htail, hcl, hfit, hflag, Or.inl ⟨hrem, tok, hor, hch, hsplit⟩⟩
      -- the inner loop (or nothing)
      have hgo : ∃ opener' ms1,
          (if (opener.open_ && opener.marker == ms.closer.marker && !isOddMatch opener ms.closer) = true
            then matchInner fns mk room (minIdx + k) ms.closer.remaining opener ms
            else .ok (opener, ms)) = .ok (opener', ms1) ∧ IShape lo hi r0 pre oS opener' ms1 := by
        split
        · rw [← hlen]
          obtain ⟨⟨o', m'⟩, hr⟩ := matchInner_total (fns := fns) (mk := mk) ms.closer.remaining opener ms hshape0
          exact ⟨o', m', hr, matchInner_ranges hpre _ _ _ _ _ hr hshape0⟩
        · exact ⟨opener, ms, rfl, hshape0⟩
      obtain ⟨opener', ms1, hgoeq, hshape⟩ := hgo
      rw [hgoeq]
      simp only
      obtain ⟨oE', mid', tail', htail', hcl', hfit', hflag', hsh⟩ := hshape
      split
      · next hpos =>
        rcases hsh with ⟨_, otok', hor', hoc', hch'⟩ | ⟨h0, _, _⟩
        · have hrep : replaceAt ms1.children (minIdx + k) opener' =
              .ok (pre ++ [Node.mk opener'.toVal otok'.range otok'.children] ++ tail') := by
            unfold replaceAt
            rw [hch', ← hlen, getElem?_mid]
            simp only [Except.ok.injEq]
            rw [set_mid]
          rw [hrep]
          simp only
          have hnew : ListOK oS oE' [Node.mk opener'.toVal otok'.range otok'.children] := by
            refine ⟨orderedN_single hor' (Nat.le_refl _) (by omega) (Nat.le_refl _),
              WellRangedList.single ?_, ?_⟩
            · rw [WellRanged_eq]; simp only [hoc']
              exact ⟨⟨oS, oE', hor', by omega, by simp only [OrderedN]; omega⟩, trivial⟩
            · intro n hn mk' hmk'
              simp only [List.mem_singleton] at hn; subst hn
              rw [marker_toVal_asMarker] at hmk'
              simp only [Option.some.injEq] at hmk'; subst hmk'
              exact ⟨hoc', hpos, oS, oE', hor', hfit'⟩
          apply ih
          · refine ⟨mid', (hpre.append hnew).append htail', hcl', ?_⟩
            rcases hflag' with hf | hf
            · left; exact hf
            · right
              rw [hch'] at hf
              exact last_not_text_set (marker_toVal_isText _ _ _) hf
          · simp only [List.length_append, List.length_singleton]; omega
        · omega
      · next hpos =>
        rcases hsh with ⟨hp, _⟩ | ⟨h0, hne, hch'⟩
        · omega
        · apply ih
          · refine ⟨mid', ?_, hcl', hflag'⟩
            rw [hch']
            exact hpre.append (htail'.widen (by omega) (Nat.le_refl _))
          · -- the list ends in at least the wrapper made
            rw [hch']
            have : 0 < tail'.length := List.length_pos_iff.mpr hne
            simp only [List.length_append]; omega

/-- `scan_and_match_delimiters` does not panic -/
theorem scanAndMatch_total {src : List Char} {m : Srcmap} {lo pos : Nat} {fns : Nat → Option Wrap}
    {mk : Char} {room : Nat} {cs0 : List Node} {x : Node} {closer : Marker} {b : List (Char × List Nat)}
    (hi : RI src m lo pos (cs0 ++ [x])) (hx : x.asMarker = some closer) (hb : BottomsOK b) :
    ∃ out b', scanAndMatch fns mk room (cs0 ++ [x]) b = .ok (out, b') ∧ BottomsOK b' := by
  unfold scanAndMatch
  split
  · exact ⟨_, _, rfl, hb⟩
  · next hlen1 =>
    rw [popLast_snoc]
    simp only [hx]
    have hparam : (if closer.open_ = true then 1 else 0) * 3 + closer.length % 3 < 6 := by
      split <;> omega
    have hbl := bottomsGet_length hb mk
    rw [List.getElem?_eq_getElem (by rw [hbl]; exact hparam)]
    simp only
    have hne : cs0.length ≠ 0 := by
      intro e
      apply hlen1
      simp only [List.length_append, List.length_singleton]; omega
    rw [if_neg hne]
    -- the initial invariant of the outer loop
    obtain ⟨hT, hhT, hord⟩ := hi.ord
    obtain ⟨hcc, hrem, cS, cE, hcr, hfit⟩ := hi.markers x (by simp) closer hx
    obtain ⟨a, b0, hab, hinit, _, hbT⟩ := hord.last
    rw [hcr] at hab; simp only [Option.some.injEq, Prod.mk.injEq] at hab
    obtain ⟨rfl, rfl⟩ := hab
    have hm0 : MInv lo hT closer.remaining
        { closer := closer, closerRange := x.range, children := cs0, newMin := cs0.length - 1 } :=
      ⟨cS, ⟨hinit, hi.deep.left, hi.markers.left⟩, ⟨cS, cE, hcr, Nat.le_refl _, hfit, hbT⟩, Or.inl rfl⟩
    generalize hmin : (bottomsGet b mk)[(if closer.open_ = true then 1 else 0) * 3 + closer.length % 3]'(by
      rw [hbl]; exact hparam) = minIdx
    have hout : ∃ ms, matchOuter fns mk room minIdx (cs0.length - 1 - minIdx)
        { closer := closer, closerRange := x.range, children := cs0, newMin := cs0.length - 1 } = .ok ms := by
      by_cases hk : cs0.length - 1 - minIdx = 0
      · rw [hk]; exact ⟨_, rfl⟩
      · exact matchOuter_total room minIdx _ _ hm0 (by simp only; omega)
    obtain ⟨ms, hms⟩ := hout
    rw [hms]
    simp only
    split
    · exact ⟨_, _, rfl, by split <;> first | exact bottomsSet_ok hb _ _ _ | exact hb⟩
    · exact ⟨_, _, rfl, by split <;> first | exact bottomsSet_ok hb _ _ _ | exact hb⟩

theorem scanDelims_total (cfg : Cfg) {st : IState} (hi : InlineInv st) (csw : Bool) :
    ∃ d, scanDelims cfg st.src st.posMax st.pos csw = .ok d := by
  obtain ⟨pre, w, post, hsrc, hpre, hlen, hw, hne⟩ := window_ok hi
  unfold scanDelims
  simp only
  split
  · next e he =>
    exfalso
    split at he
    · next hp =>
      obtain ⟨p0, w0, q0, _, hp0, hw0, hs0⟩ := slice_of_boundaries (boundary_zero st.src) hi.bpos (by omega)
      split at he
      · next e' he' => rw [hs0] at he'; simp [liftOps] at he'
      · next pre' hpre' =>
        rw [hs0] at hpre'
        simp only [liftOps, Except.ok.injEq] at hpre'
        subst hpre'
        split at he
        · next hg =>
          have : w0 = [] := by simpa [List.getLast?_eq_none_iff] using hg
          subst this; simp only [byteLen] at hw0; omega
        · simp at he
    · simp at he
  · have := window_eq hw
    rw [this]
    simp only [liftOps]
    cases w with
    | nil => exact absurd rfl hne
    | cons mk rest => exact ⟨_, rfl⟩

/-- **the emphasis-marker rule does not panic** (real mode included): on a state that satisfies
    `InlineInv`, whose table is `MapOK`, whose children satisfy the frame invariant, and whose
    `OpenersBottom` tables are complete; the tables stay complete -/
theorem ruleEmph_total {cfg : Cfg} {mk : Char} {csw : Bool} {lo : Nat} {st : IState} (silent : Bool)
    (hi : InlineInv st) (hm : MapOK st.src st.srcmap) (hr : RInv lo st) (hb : BottomsOK st.bottoms) :
    ∃ o st', ruleEmph cfg mk csw st silent = .ok (o, st') ∧ BottomsOK st'.bottoms := by
  obtain ⟨pre, w, post, hsrc, hpre, hlen, hw, hne⟩ := window_ok hi
  unfold ruleEmph
  split
  · exact ⟨_, _, rfl, hb⟩
  · rw [hw]
    cases w with
    | nil => exact absurd rfl hne
    | cons c w1 =>
      simp only
      split
      · exact ⟨_, _, rfl, hb⟩
      · obtain ⟨scanned, hsc⟩ := scanDelims_total cfg hi csw
        rw [hsc]
        simp only
        obtain ⟨rx, ry, hmap, e1, e2⟩ := getMap_ok (st := st) hi.wf (a := st.pos)
          (b := st.pos + scanned.length) (by omega)
        rw [hmap]
        simp only
        obtain ⟨_, _, _, _, hlen'⟩ := scanDelims_length hsc
        have hexp := translate_expand st.srcmap hm.wf hm.mono st.pos (st.pos + scanned.length)
          (by omega) rx ry e1 e2
        obtain ⟨hT, hhT, hord⟩ := hr.ord
        rw [e1] at hhT; simp only [Except.ok.injEq] at hhT; subst hhT
        have hpushed : RI st.src st.srcmap lo (st.pos + scanned.length)
            (st.children ++ [Node.leaf (.emphMarker mk scanned.length scanned.length scanned.canOpen
              scanned.canClose) (some (rx, ry))]) := by
          refine ⟨⟨ry, e2, hord.snoc (n := Node.leaf _ (some (rx, ry))) rfl (Nat.le_refl _) (by omega)
              (Nat.le_refl _)⟩,
            hr.deep.append (WellRangedList.single (wellRanged_leaf (by omega))),
            hr.markers.append ?_, ?_⟩
          · intro n hn mk' hmk'
            simp only [List.mem_singleton] at hn; subst hn
            simp only [Node.leaf, Node.asMarker, Option.some.injEq] at hmk'
            subst hmk'
            exact ⟨rfl, by simp only; omega, rx, ry, rfl, by simp only; omega⟩
          · intro init' last' hcs' hlt'
            obtain ⟨_, rfl⟩ := snoc_inj hcs'
            cases hlt'
        split
        · obtain ⟨out, b', hsm, hb'⟩ := scanAndMatch_total (fns := cfg.fns mk) (mk := mk) hpushed
            (closer := ⟨mk, scanned.length, scanned.length, scanned.canOpen, scanned.canClose⟩) rfl hb
          simp only [IState.push]
          rw [hsm]
          exact ⟨_, _, rfl, hb'⟩
        · exact ⟨_, _, rfl, hb⟩

end MdIt.Inline
