/-
  C11, MULTI-LINE code spans: the vocabulary shared by the block half (`Lemmas/C11SpanMultiPara.lean`) and the
  inline / document halves.

    `Block.ContLine l`   the line `l` continues a top-level paragraph whatever the chain: it is not blank, and either
                         it is indented by 4 columns or more (then no rule is even tried — `lazyScan` goes on), or its
                         first non-blank character is one no block rule but `paragraph` claims (`ParaFirst`) and the
                         line is not a setext underline (`underlineLevel … = 0`: not `=`… followed by blanks only).
    `Block.idTable p Ls` the table `get_lines(_, _, 0, false)` builds for the lines `Ls` of a top-level paragraph
                         whose first line starts at byte `p` of the source: one entry per line,
                         `(start of the line in the content, start of the line in the source)` — the same number,
                         because at `blk_indent = 0` every line is copied whole, indentation included.
-/
import MdIt.Lemmas.C11SpanPara
set_option linter.unusedSimpArgs false
set_option linter.unusedVariables false

namespace MdIt.Block
open MdIt.Lines (NoTerm lead)

/-- a line that continues a top-level paragraph -/
def ContLine (l : List Char) : Prop :=
  ∃ c r, l.dropWhile Lines.isBlank = c :: r ∧
    (4 ≤ Lines.indentWidth (lead l) ∨ (ParaFirst c ∧ underlineLevel (c :: r) = 0))

instance (l : List Char) : Decidable (ContLine l) :=
  match h : l.dropWhile Lines.isBlank with
  | [] => isFalse (by rintro ⟨c, r, hd, _⟩; rw [h] at hd; cases hd)
  | c :: r =>
    if h2 : 4 ≤ Lines.indentWidth (lead l) ∨ (ParaFirst c ∧ underlineLevel (c :: r) = 0) then
      isTrue ⟨c, r, h, h2⟩
    else isFalse (by
      rintro ⟨c', r', hd, h3⟩
      rw [h] at hd
      cases hd
      exact h2 h3)

/-- the table of a top-level paragraph over the lines `Ls`, the first of them starting at byte `p` -/
def idTable : Nat → List (List Char) → List (Nat × Nat)
  | _, [] => []
  | p, l :: ls => (p, p) :: idTable (p + Lines.byteLen l + 1) ls

end MdIt.Block
