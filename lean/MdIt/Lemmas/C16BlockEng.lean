/-
  C16 on the block side, part 3: ENGINES (`tokenize` / `test_rules_at_line` tied by the budget) over an
  arbitrary id type — the ten shipped rules (`engH`), the ten shipped rules plus ONE ABSTRACT CUSTOM RULE
  (`engX`) —, the contract `Eng.OK` the theorems need, and THE RUN: `Reach`.
-/
import MdIt.Lemmas.C16BlockRun

namespace MdIt.BlockH.C16
open MdIt.Block
open MdIt.Lines (LineOffset)

/-- `BlockParser::tokenize` and `BlockState::test_rules_at_line` at every budget, over a chain of ids `ι`:
    `rule f` are the rules as the tokenizer at budget `f + 1` runs them (call-backs at budget `f`) -/
structure Eng (ι : Type) where
  cfg : Cfg
  chain : List ι
  rule : Nat → ι → BState → Bool → Res
  tok : Nat → Tok
  test : Nat → Test
  /-- which members are shipped cmark rules -/
  base : ι → Option RuleId
  tok_succ : ∀ f, tok (f + 1) = tokLoopG cfg.maxNesting chain (rule f) (f + 1) false
  test_succ : ∀ f, test (f + 1) = fun s => runChainG (rule f) chain s true
  test_zero : ∀ s, test 0 s = .error .fuel
  rule_base : ∀ f i r, base i = some r → rule f i = runRule cfg (tok f) (test f) (f + 1) r

/-- what the whole-run theorems need of the members of the chain -/
structure Eng.OK {ι : Type} (E : Eng ι) : Prop where
  /-- real mode, `false`: nothing changed -/
  false_same : ∀ f i s s', E.rule f i s false = .ok (false, s') → s' = s
  /-- look-ahead, `false`: nothing changed -/
  silent_no : ∀ f i s s', E.rule f i s true = .ok (false, s') → s' = s
  /-- look-ahead, `true`: nothing but (possibly) `line` changed -/
  silent_yes : ∀ f i s s', E.rule f i s true = .ok (true, s') → { s' with line := s.line } = s
  /-- look-ahead `true` ⇒ real mode does not answer `false` (same state) -/
  silent_real : ∀ f i s s1 s2 b, E.rule f i s true = .ok (true, s1) → E.rule f i s false = .ok (b, s2) → b = true
  /-- look-ahead does not depend on the budget (it never calls back into the parser) -/
  silent_indep : ∀ f f' i s, E.rule f i s true = E.rule f' i s true
  /-- look-ahead reads neither the tree under construction, nor `tight`, nor the reference map -/
  silent_congr : ∀ f i s c b m, E.rule f i (upd s c b m) true = Except.map (mp c b m) (E.rule f i s true)

/-- the sweep of a chain whose members are quiet up to `line` is quiet up to `line` -/
theorem chain_quiet {ι : Type} {run : ι → BState → Bool → Res}
    (hno : ∀ i s s', run i s true = .ok (false, s') → s' = s)
    (hyes : ∀ i s s', run i s true = .ok (true, s') → { s' with line := s.line } = s) :
    ∀ (chain : List ι) (s : BState) (b : Bool) (s' : BState),
      runChainG run chain s true = .ok (b, s') → { s' with line := s.line } = s := by
  intro chain
  induction chain with
  | nil =>
    intro s b s' h
    simp only [runChainG, Except.ok.injEq, Prod.mk.injEq] at h
    rw [← h.2]
  | cons r rs ih =>
    intro s b s' h
    simp only [runChainG] at h
    split at h
    · cases h
    · rename_i s1 hr
      simp only [Except.ok.injEq, Prod.mk.injEq] at h
      rw [← h.2]; exact hyes _ _ _ hr
    · rename_i s1 hr
      have := hno _ _ _ hr
      subst this
      exact ih _ _ _ h

theorem Eng.OK.test_quiet {ι : Type} {E : Eng ι} (h : E.OK) (f : Nat) : TestQuiet (E.test f) := by
  intro s b s' ht
  cases f with
  | zero => rw [E.test_zero] at ht; cases ht
  | succ f =>
    rw [E.test_succ] at ht
    exact chain_quiet (h.silent_no f) (h.silent_yes f) _ _ _ _ ht

/-! ## the ten shipped rules -/

/-- the engine of `Model/BlockH.lean` (`engineH`) -/
def engH (cfg : Cfg) (chain : List RuleIdH) : Eng RuleIdH where
  cfg := cfg
  chain := chain
  rule := ruleAtH cfg chain
  tok := tokenizeH cfg chain
  test := testRulesH cfg chain
  base := RuleIdH.base?
  tok_succ := fun _ => rfl
  test_succ := fun _ => rfl
  test_zero := fun _ => rfl
  rule_base := by
    intro f i r h
    cases i with
    | html => cases h
    | base r' => cases h; rfl

theorem engH_ok (cfg : Cfg) (chain : List RuleIdH) : (engH cfg chain).OK where
  false_same := fun f _ _ _ h =>
    (runRuleH_spec (cfg := cfg) (tokenizeH_tokSpec cfg chain f) (testRulesH_pure cfg chain f) (f + 1)).false_same _ _ _ h
  silent_no := fun _ _ _ _ h => silent_pure_ruleH h
  silent_yes := fun _ _ s s' h => by
    have := silent_pure_ruleH h
    subst this
    cases s'; rfl
  silent_real := fun _ _ _ _ _ _ h1 h2 => silent_implies_real_ruleH h1 h2
  silent_indep := fun _ _ _ _ => runRuleH_silent_indep ..
  silent_congr := fun _ _ _ _ _ _ => runRuleH_silent_congr ..

/-! ## the ten shipped rules and ONE ABSTRACT CUSTOM RULE -/

/-- a chain member: a shipped rule, or the custom rule -/
inductive RuleIdX where
  | std (r : RuleIdH)
  | custom
  deriving Repr, DecidableEq

def RuleIdX.base? : RuleIdX → Option RuleId
  | .std (.base r) => some r
  | _ => none

/-- one rule of the chain; `X` is the custom rule (`BlockRule::run(state, silent)`) -/
def runRuleX (X : BState → Bool → Res) (cfg : Cfg) (tok : Tok) (test : Test) (fuel : Nat) :
    RuleIdX → BState → Bool → Res
  | .std r => runRuleH cfg tok test fuel r
  | .custom => X

/-- `engineH` with the custom rule in the chain: the same fuel recursion, the same loop (`tokLoopG`) and
    the same sweep (`runChainG`) — the custom rule is in BOTH -/
def engineX (X : BState → Bool → Res) (cfg : Cfg) (chain : List RuleIdX) : Nat → Tok × Test
  | 0 => (fun _ => .error .fuel, fun _ => .error .fuel)
  | f + 1 =>
    let p := engineX X cfg chain f
    (tokLoopG cfg.maxNesting chain (runRuleX X cfg p.1 p.2 (f + 1)) (f + 1) false,
     fun s => runChainG (runRuleX X cfg p.1 p.2 (f + 1)) chain s true)

def engX (X : BState → Bool → Res) (cfg : Cfg) (chain : List RuleIdX) : Eng RuleIdX where
  cfg := cfg
  chain := chain
  rule := fun f => runRuleX X cfg (engineX X cfg chain f).1 (engineX X cfg chain f).2 (f + 1)
  tok := fun f => (engineX X cfg chain f).1
  test := fun f => (engineX X cfg chain f).2
  base := RuleIdX.base?
  tok_succ := fun _ => rfl
  test_succ := fun _ => rfl
  test_zero := fun _ => rfl
  rule_base := by
    intro f i r h
    cases i with
    | custom => cases h
    | std i =>
      cases i with
      | html => cases h
      | base r' => cases h; rfl

/-- **the documented contract of a custom block rule**, as far as look-ahead is concerned
    (`examples/ferris/block_rule.rs`: "In silent mode you aren't allowed to create any nodes, should only
    increment `state.line`"), plus the two things the agreement needs and the documentation leaves
    implicit: the two modes decide alike, and the look-ahead verdict does not depend on the tree under
    construction / `tight` / the reference map -/
structure CustomOK (X : BState → Bool → Res) : Prop where
  /-- look-ahead, no: nothing changed -/
  silent_no : ∀ s s', X s true = .ok (false, s') → s' = s
  /-- look-ahead, yes: creates nothing — may advance `line` (style A), changes nothing else -/
  silent_yes : ∀ s s', X s true = .ok (true, s') → { s' with line := s.line } = s
  /-- real mode, no: nothing changed -/
  real_no : ∀ s s', X s false = .ok (false, s') → s' = s
  /-- the two modes agree on the same state -/
  agree : ∀ s s1 s2 b, X s true = .ok (true, s1) → X s false = .ok (b, s2) → b = true
  /-- the look-ahead verdict reads neither `node.children`, nor `tight`, nor the reference map -/
  reads : ∀ s c b m, X (upd s c b m) true = Except.map (mp c b m) (X s true)

/-- `false` of lheading / reference in real mode leaves the state alone — under a sweep that is only
    quiet up to `line` (the callers restore `line`) -/
theorem real_false_same_lheading_q {test : Test} (ht : TestQuiet test) {fuel : Nat} {s s' : BState}
    (h : lheadingRule test fuel s false = .ok (false, s')) : s' = s := by
  unfold lheadingRule at h
  crack h
  · simp_all
  · have := (lazyScan_stop ht true _ _ _ _ _ _ ‹lazyScan _ _ _ _ _ = _›).1
    simp_all

theorem real_false_same_reference_q {cfg : Cfg} {test : Test} (ht : TestQuiet test) {fuel : Nat}
    {s s' : BState} (h : referenceRule cfg test fuel s false = .ok (false, s')) : s' = s := by
  unfold referenceRule at h
  crack h
  all_goals (try (have := (lazyScan_stop ht false _ _ _ _ _ _ ‹lazyScan _ _ _ _ _ = _›).1))
  all_goals simp_all

theorem runRule_false_same_q {cfg : Cfg} {tok : Tok} {test : Test} (ht : TestQuiet test) {fuel : Nat}
    {r : RuleId} {s s' : BState} (h : runRule cfg tok test fuel r s false = .ok (false, s')) : s' = s := by
  cases r <;> simp only [runRule] at h
  · exact real_false_same_code h
  · exact real_false_same_fence h
  · exact real_false_same_blockquote h
  · exact real_false_same_hr h
  · exact real_false_same_list h
  · exact real_false_same_reference_q ht h
  · exact real_false_same_heading h
  · exact real_false_same_lheading_q ht h
  · exact absurd (real_true_paragraph h) (by simp)

theorem engX_ok {X : BState → Bool → Res} (hX : CustomOK X) (cfg : Cfg) (chain : List RuleIdX) :
    (engX X cfg chain).OK := by
  have hno : ∀ f i s s', (engX X cfg chain).rule f i s true = .ok (false, s') → s' = s := by
    intro f i s s' h
    cases i with
    | custom => exact hX.silent_no _ _ h
    | std i => exact silent_pure_ruleH h
  have hyes : ∀ f i s s', (engX X cfg chain).rule f i s true = .ok (true, s') → { s' with line := s.line } = s := by
    intro f i s s' h
    cases i with
    | custom => exact hX.silent_yes _ _ h
    | std i =>
      have := silent_pure_ruleH h
      subst this
      cases s'; rfl
  have hq : ∀ f, TestQuiet ((engX X cfg chain).test f) := by
    intro f s b s' ht
    cases f with
    | zero => cases ht
    | succ f => exact chain_quiet (hno f) (hyes f) _ _ _ _ ht
  refine ⟨?_, hno, hyes, ?_, ?_, ?_⟩
  · intro f i s s' h
    cases i with
    | custom => exact hX.real_no _ _ h
    | std i =>
      cases i with
      | html => exact htmlRule_false_same h
      | base r => exact runRule_false_same_q (hq f) h
  · intro f i s s1 s2 b h1 h2
    cases i with
    | custom => exact hX.agree _ _ _ _ h1 h2
    | std i => exact silent_implies_real_ruleH h1 h2
  · intro f f' i s
    cases i with
    | custom => rfl
    | std i => exact runRuleH_silent_indep ..
  · intro f i s c b m
    cases i with
    | custom => exact hX.reads s c b m
    | std i => exact runRuleH_silent_congr ..

end MdIt.BlockH.C16
