/-
  The inline parser and the per-line offset table (`mapping`): a lock-step simulation of two runs of
  `Inline.parseInline` on the same text under two tables.

    * `inline_range_free`   (Goal 1): the two results differ in their ranges only — for ANY two tables
                            (`Pipeline.InlineRangeFree`);
    * `inline_ok_transfer`  (Goal 2): if the tables have the same keys and the values of the second
                            are pointwise ≥ (`MLe`), the second run does not panic when the first does not.

  ONE development serves both: every relation carries a flag `s : Bool` ("strict").  With `s = false`
  ranges are unrelated and an error on side 2 is acceptable (it propagates to the final result, which
  Goal 1 assumes to be `ok`); with `s = true` ranges are related by `≤` (none ↔ none) and side 2 must not
  fail.  `Sim s R a x₂` says "side 2 returned `ok b` with `R a b`, or it failed and `s = false`".

  Layout: relations (`RRel`, `NRel`/`LRel`, `IRel` = every field of `IState` equal except `srcmap` and
  the ranges inside `children`), `trailing_text_push/pop`, the seven rules without look-ahead,
  SECTION EMPH-MATCH (the delimiter matching), links (`labelLoop` … `linkRule`, with `skip_token` /
  `tokenize` abstracted as `SimFn`), the chain, both loop bodies, `sim_induction` (mutual induction on
  fuel for `skipToken` / `tokLoop`; the fuel `topFuel cfg content` does not depend on the table),
  `parseInline_sim`, and the three theorems (namespace `MdIt.Pipeline`, at the end) with examples.

  What makes it work: `cache`, `backticks`, `bottoms`, `pos`, `posMax`, `level`, `linkLevel` only ever
  hold inline offsets; the table is read by `get_map` / `get_source_pos_for` only; source offsets are
  compared in exactly two places (`map_end - count` in `trailing_text_pop`, `e - marker_len` in the
  emphasis matcher), both of which pass on side 2 when they pass on side 1 and side 2 is pointwise `≥`.
-/
import MdIt.Props.Pipeline

namespace MdIt.Pipeline

/-- same keys, values pointwise ≤ -/
def MLe (m₁ m₂ : InlineOps.Srcmap) : Prop :=
  m₁.map Prod.fst = m₂.map Prod.fst ∧ ∀ (i k₁ v₁ k₂ v₂ : Nat), m₁[i]? = some (k₁, v₁) → m₂[i]? = some (k₂, v₂) → v₁ ≤ v₂

end MdIt.Pipeline

namespace MdIt.Inline
open MdIt.InlineOps (Srcmap getSourcePosFor getMap byteLen slice)
open MdIt.Pipeline (MLe)
set_option linter.unusedSimpArgs false
set_option linter.unusedVariables false

/-! ## the relations -/

/-- ranges in strict mode: both absent, or both present and componentwise `≤` -/
def ROrd : Option (Nat × Nat) → Option (Nat × Nat) → Prop
  | none, none => True
  | some (a, b), some (c, d) => a ≤ c ∧ b ≤ d
  | _, _ => False

/-- ranges: unrelated unless strict -/
def RRel (s : Bool) (r₁ r₂ : Option (Nat × Nat)) : Prop := s = true → ROrd r₁ r₂

/-- tables: unrelated unless strict -/
def MRel (s : Bool) (m₁ m₂ : Srcmap) : Prop := s = true → MLe m₁ m₂

mutual
/-- same value, related ranges, related children -/
def NRel (s : Bool) : Node → Node → Prop
  | ⟨v₁, r₁, cs₁⟩, n₂ => v₁ = n₂.val ∧ RRel s r₁ n₂.range ∧ LRel s cs₁ n₂.children
def LRel (s : Bool) : List Node → List Node → Prop
  | [], l₂ => l₂ = []
  | a :: as, l₂ =>
    match l₂ with
    | [] => False
    | b :: bs => NRel s a b ∧ LRel s as bs
end

theorem NRel_iff (s : Bool) (a b : Node) :
    NRel s a b ↔ a.val = b.val ∧ RRel s a.range b.range ∧ LRel s a.children b.children := by
  cases a; simp [NRel]

@[simp] theorem LRel_nil_nil (s : Bool) : LRel s [] [] := by simp [LRel]
@[simp] theorem LRel_cons_cons (s : Bool) (a b : Node) (as bs : List Node) :
    LRel s (a :: as) (b :: bs) ↔ NRel s a b ∧ LRel s as bs := by simp [LRel]
@[simp] theorem LRel_nil_cons (s : Bool) (b : Node) (bs : List Node) : ¬ LRel s [] (b :: bs) := by
  simp [LRel]
@[simp] theorem LRel_cons_nil (s : Bool) (a : Node) (as : List Node) : ¬ LRel s (a :: as) [] := by
  simp [LRel]

/-! ### lists -/

theorem LRel.length {s : Bool} : ∀ {l₁ l₂ : List Node}, LRel s l₁ l₂ → l₁.length = l₂.length
  | [], [], _ => rfl
  | [], _ :: _, h => absurd h (LRel_nil_cons _ _ _)
  | _ :: _, [], h => absurd h (LRel_cons_nil _ _ _)
  | _ :: as, _ :: bs, h => by
    have := LRel.length ((LRel_cons_cons _ _ _ _ _).mp h).2
    simp [this]

theorem LRel.append {s : Bool} : ∀ {a b c d : List Node}, LRel s a b → LRel s c d → LRel s (a ++ c) (b ++ d)
  | [], [], _, _, _, h => by simpa using h
  | [], _ :: _, _, _, h, _ => absurd h (LRel_nil_cons _ _ _)
  | _ :: _, [], _, _, h, _ => absurd h (LRel_cons_nil _ _ _)
  | _ :: as, _ :: bs, _, _, h, h' => by
    rw [LRel_cons_cons] at h
    simp only [List.cons_append, LRel_cons_cons]
    exact ⟨h.1, LRel.append h.2 h'⟩

theorem LRel.single {s : Bool} {a b : Node} (h : NRel s a b) : LRel s [a] [b] := by simp [h]

theorem LRel.snoc {s : Bool} {a b : List Node} {x y : Node} (h : LRel s a b) (hx : NRel s x y) :
    LRel s (a ++ [x]) (b ++ [y]) := h.append (LRel.single hx)

theorem LRel.take {s : Bool} : ∀ {l₁ l₂ : List Node} (k : Nat), LRel s l₁ l₂ → LRel s (l₁.take k) (l₂.take k)
  | [], [], _, _ => by simp
  | [], _ :: _, _, h => absurd h (LRel_nil_cons _ _ _)
  | _ :: _, [], _, h => absurd h (LRel_cons_nil _ _ _)
  | _ :: as, _ :: bs, 0, _ => by simp
  | _ :: as, _ :: bs, k + 1, h => by
    rw [LRel_cons_cons] at h
    simp only [List.take_succ_cons, LRel_cons_cons]
    exact ⟨h.1, LRel.take k h.2⟩

theorem LRel.drop {s : Bool} : ∀ {l₁ l₂ : List Node} (k : Nat), LRel s l₁ l₂ → LRel s (l₁.drop k) (l₂.drop k)
  | [], [], _, _ => by simp
  | [], _ :: _, _, h => absurd h (LRel_nil_cons _ _ _)
  | _ :: _, [], _, h => absurd h (LRel_cons_nil _ _ _)
  | _ :: as, _ :: bs, 0, h => by simpa using h
  | _ :: as, _ :: bs, k + 1, h => by
    rw [LRel_cons_cons] at h
    simp only [List.drop_succ_cons]
    exact LRel.drop k h.2

theorem LRel.set {s : Bool} : ∀ {l₁ l₂ : List Node} (k : Nat) {x y : Node}, LRel s l₁ l₂ → NRel s x y →
    LRel s (l₁.set k x) (l₂.set k y)
  | [], [], _, _, _, _, _ => by simp
  | [], _ :: _, _, _, _, h, _ => absurd h (LRel_nil_cons _ _ _)
  | _ :: _, [], _, _, _, h, _ => absurd h (LRel_cons_nil _ _ _)
  | _ :: as, _ :: bs, 0, _, _, h, hx => by
    rw [LRel_cons_cons] at h
    simp only [List.set_cons_zero, LRel_cons_cons]
    exact ⟨hx, h.2⟩
  | _ :: as, _ :: bs, k + 1, _, _, h, hx => by
    rw [LRel_cons_cons] at h
    simp only [List.set_cons_succ, LRel_cons_cons]
    exact ⟨h.1, LRel.set k h.2 hx⟩

theorem LRel.getElem? {s : Bool} : ∀ {l₁ l₂ : List Node} (k : Nat) {x : Node}, LRel s l₁ l₂ →
    l₁[k]? = some x → ∃ y, l₂[k]? = some y ∧ NRel s x y
  | [], _, _, _, _, h => by simp at h
  | _ :: _, [], _, _, h, _ => absurd h (LRel_cons_nil _ _ _)
  | a :: as, b :: bs, 0, _, h, hx => by
    rw [LRel_cons_cons] at h
    simp only [List.getElem?_cons_zero, Option.some.injEq] at hx ⊢
    subst hx; exact ⟨b, rfl, h.1⟩
  | _ :: as, _ :: bs, k + 1, _, h, hx => by
    rw [LRel_cons_cons] at h
    simp only [List.getElem?_cons_succ] at hx ⊢
    exact LRel.getElem? k h.2 hx

/-- split a related pair of lists at the last element -/
theorem LRel.of_snoc {s : Bool} : ∀ {a l₂ : List Node} {x : Node}, LRel s (a ++ [x]) l₂ →
    ∃ b y, l₂ = b ++ [y] ∧ LRel s a b ∧ NRel s x y
  | [], [], _, h => absurd h (LRel_cons_nil _ _ _)
  | [], [y], _, h => by
    simp only [List.nil_append, LRel_cons_cons] at h
    exact ⟨[], y, rfl, by simp, h.1⟩
  | [], _ :: _ :: _, _, h => by
    simp only [List.nil_append, LRel_cons_cons] at h
    exact absurd h.2 (LRel_nil_cons _ _ _)
  | _ :: _, [], _, h => absurd h (LRel_cons_nil _ _ _)
  | a :: as, b :: bs, _, h => by
    simp only [List.cons_append, LRel_cons_cons] at h
    obtain ⟨b', y, rfl, h1, h2⟩ := LRel.of_snoc h.2
    exact ⟨b :: b', y, rfl, by simp [h.1, h1], h2⟩

theorem LRel.popLast_some {s : Bool} {l₁ l₂ i₁ : List Node} {x₁ : Node} (h : LRel s l₁ l₂)
    (hp : popLast l₁ = some (i₁, x₁)) :
    ∃ i₂ x₂, popLast l₂ = some (i₂, x₂) ∧ LRel s i₁ i₂ ∧ NRel s x₁ x₂ := by
  rcases popLast_spec l₁ with ⟨h0, _⟩ | ⟨i, l, h1, h2⟩
  · rw [h0] at hp; cases hp
  · rw [h1] at hp; cases hp
    subst h2
    obtain ⟨b, y, rfl, hb, hy⟩ := h.of_snoc
    exact ⟨b, y, popLast_snoc b y, hb, hy⟩

theorem LRel.popLast_none {s : Bool} {l₁ l₂ : List Node} (h : LRel s l₁ l₂)
    (hp : popLast l₁ = none) : popLast l₂ = none := by
  rcases popLast_spec l₁ with ⟨_, h0⟩ | ⟨i, l, h1, _⟩
  · subst h0
    cases l₂ with
    | nil => rfl
    | cons b bs => exact absurd h (LRel_nil_cons _ _ _)
  · rw [h1] at hp; cases hp

/-! ### what a node relation transports -/

theorem NRel.val {s : Bool} {a b : Node} (h : NRel s a b) : b.val = a.val := ((NRel_iff _ _ _).mp h).1.symm
theorem NRel.range {s : Bool} {a b : Node} (h : NRel s a b) : RRel s a.range b.range :=
  ((NRel_iff _ _ _).mp h).2.1
theorem NRel.children {s : Bool} {a b : Node} (h : NRel s a b) : LRel s a.children b.children :=
  ((NRel_iff _ _ _).mp h).2.2
theorem NRel.isText {s : Bool} {a b : Node} (h : NRel s a b) : b.isText = a.isText := by
  unfold Node.isText; rw [h.val]
theorem NRel.content {s : Bool} {a b : Node} (h : NRel s a b) : b.content = a.content := by
  unfold Node.content; rw [h.val]
theorem NRel.asMarker {s : Bool} {a b : Node} (h : NRel s a b) : b.asMarker = a.asMarker := by
  unfold Node.asMarker; rw [h.val]

theorem NRel.mk' {s : Bool} {v : Val} {r₁ r₂ : Option (Nat × Nat)} {c₁ c₂ : List Node}
    (hr : RRel s r₁ r₂) (hc : LRel s c₁ c₂) : NRel s ⟨v, r₁, c₁⟩ ⟨v, r₂, c₂⟩ :=
  (NRel_iff _ _ _).mpr ⟨rfl, hr, hc⟩

theorem RRel.some {s : Bool} {a b c d : Nat} (h1 : s = true → a ≤ c) (h2 : s = true → b ≤ d) :
    RRel s (some (a, b)) (some (c, d)) := fun hs => ⟨h1 hs, h2 hs⟩

theorem RRel.none (s : Bool) : RRel s none none := fun _ => trivial

theorem trailingTextGet_rel {s : Bool} {l₁ l₂ : List Node} (h : LRel s l₁ l₂) :
    trailingTextGet l₂ = trailingTextGet l₁ := by
  unfold trailingTextGet
  cases hp : popLast l₁ with
  | none => rw [h.popLast_none hp]
  | some p =>
    obtain ⟨i₁, x₁⟩ := p
    obtain ⟨i₂, x₂, hp2, _, hx⟩ := h.popLast_some hp
    rw [hp2]; simp only [hx.isText, hx.content]

/-! ## simulation of a partial computation -/

/-- side 2 returned `ok b` with `R a b`, or it failed and we are not strict -/
def Sim (s : Bool) {ε α β : Type} (R : α → β → Prop) (a : α) : Except ε β → Prop
  | .ok b => R a b
  | .error _ => s = false

@[simp] theorem Sim_ok {s : Bool} {ε α β : Type} (R : α → β → Prop) (a : α) (b : β) :
    Sim s (ε := ε) R a (.ok b) ↔ R a b := Iff.rfl
@[simp] theorem Sim_error {s : Bool} {ε α β : Type} (R : α → β → Prop) (a : α) (e : ε) :
    Sim s (β := β) R a (.error e) ↔ s = false := Iff.rfl

theorem Sim.liftOps {s : Bool} {α β : Type} {R : α → β → Prop} {a : α} {x : Except InlineOps.Panic β}
    (h : Sim s R a x) : Sim s R a (liftOps x) := by
  cases x <;> exact h

theorem Sim.liftR {s : Bool} {α β : Type} {R : α → β → Prop} {a : α} {x : Except RPanic β}
    (h : Sim s R a x) : Sim s R a (liftR x) := by
  cases x <;> exact h

theorem Sim.mono {s : Bool} {ε α β : Type} {R R' : α → β → Prop} {a : α} {x : Except ε β}
    (h : Sim s R a x) (hr : ∀ b, R a b → R' a b) : Sim s R' a x := by
  cases x with
  | ok b => exact hr b h
  | error e => exact h

/-- the same computation on both sides -/
theorem Sim.same {s : Bool} {ε α : Type} {x : Except ε α} {a : α} (h : x = .ok a) :
    Sim s (fun a b => b = a) a x := by
  rw [h]; rfl

/-! ## the tables -/

theorem lineOf_keys {m₁ m₂ : Srcmap} (h : m₁.map Prod.fst = m₂.map Prod.fst) (pos : Nat) :
    InlineOps.lineOf m₂ pos = InlineOps.lineOf m₁ pos := by
  unfold InlineOps.lineOf; rw [h]

theorem gsp_le {m₁ m₂ : Srcmap} (h : MLe m₁ m₂) {pos x₁ : Nat} (h₁ : getSourcePosFor m₁ pos = .ok x₁) :
    ∃ x₂, getSourcePosFor m₂ pos = .ok x₂ ∧ x₁ ≤ x₂ := by
  unfold getSourcePosFor at h₁ ⊢
  rw [lineOf_keys h.1]
  split at h₁
  · simp at h₁
  · next line hl =>
    split at h₁
    · simp at h₁
    · next k v hkv =>
      split at h₁
      · simp at h₁
      · next hk =>
        have hlen : line < m₂.length := by
          have h1 : line < m₁.length := by
            rcases Nat.lt_or_ge line m₁.length with h | h
            · exact h
            · rw [List.getElem?_eq_none h] at hkv; cases hkv
          have := congrArg List.length h.1
          simp only [List.length_map] at this
          omega
        have hk2 : (m₂.map Prod.fst)[line]? = some k := by
          rw [← h.1, List.getElem?_map, hkv]; rfl
        rw [List.getElem?_map] at hk2
        cases hm2 : m₂[line]? with
        | none => rw [List.getElem?_eq_none_iff] at hm2; omega
        | some kv =>
          obtain ⟨k₂, v₂⟩ := kv
          rw [hm2] at hk2
          simp only [Option.map_some, Option.some.injEq] at hk2
          subst hk2
          have := h.2 _ _ _ _ _ hkv hm2
          simp only []
          rw [if_neg hk]
          have hlen' := congrArg List.length h.1
          simp only [List.length_map] at hlen'
          cases hn1 : m₁[line + 1]? with
          | none =>
            rw [hn1] at h₁
            simp only [Except.ok.injEq] at h₁
            have : m₂[line + 1]? = none := by
              rw [List.getElem?_eq_none_iff] at hn1 ⊢; omega
            rw [this]
            exact ⟨_, rfl, by omega⟩
          | some kv1 =>
            obtain ⟨k1', v1'⟩ := kv1
            rw [hn1] at h₁
            simp only [Except.ok.injEq] at h₁
            cases hn2 : m₂[line + 1]? with
            | none =>
              have h1 : line + 1 < m₁.length := by
                rcases Nat.lt_or_ge (line + 1) m₁.length with h | h
                · exact h
                · rw [List.getElem?_eq_none h] at hn1; cases hn1
              rw [List.getElem?_eq_none_iff] at hn2; omega
            | some kv2 =>
              obtain ⟨k2', v2'⟩ := kv2
              have := h.2 _ _ _ _ _ hn1 hn2
              exact ⟨_, rfl, by omega⟩

theorem gsp_sim {s : Bool} {m₁ m₂ : Srcmap} (hm : MRel s m₁ m₂) {pos x₁ : Nat}
    (h₁ : getSourcePosFor m₁ pos = .ok x₁) :
    Sim s (fun x₁ x₂ => s = true → x₁ ≤ x₂) x₁ (getSourcePosFor m₂ pos) := by
  cases s with
  | false => cases getSourcePosFor m₂ pos <;> simp
  | true =>
    obtain ⟨x₂, h2, hle⟩ := gsp_le (hm rfl) h₁
    rw [h2]; exact fun _ => hle

theorem getMap_sim {s : Bool} {m₁ m₂ : Srcmap} (hm : MRel s m₁ m₂) {a b : Nat} {r₁ : Nat × Nat}
    (h₁ : getMap m₁ a b = .ok r₁) :
    Sim s (fun r₁ r₂ => RRel s (some r₁) (some r₂)) r₁ (getMap m₂ a b) := by
  unfold getMap at h₁ ⊢
  split at h₁
  · simp at h₁
  · next hab =>
    rw [if_neg hab]
    split at h₁
    · simp at h₁
    · next x₁ hx =>
      split at h₁
      · simp at h₁
      · next y₁ hy =>
        simp only [Except.ok.injEq] at h₁; subst h₁
        have sx := gsp_sim hm hx
        have sy := gsp_sim hm hy
        cases hx2 : getSourcePosFor m₂ a with
        | error e => rw [hx2] at sx; simpa using sx
        | ok x₂ =>
          rw [hx2] at sx
          cases hy2 : getSourcePosFor m₂ b with
          | error e => rw [hy2] at sy; simpa using sy
          | ok y₂ =>
            rw [hy2] at sy
            exact RRel.some sx sy

theorem Sim.cases {s : Bool} {ε α β : Type} {R : α → β → Prop} {a : α} {x : Except ε β}
    (h : Sim s R a x) : (∃ b, x = .ok b ∧ R a b) ∨ (s = false ∧ ∃ e, x = .error e) := by
  cases x with
  | ok b => exact .inl ⟨b, rfl, h⟩
  | error e => exact .inr ⟨h, e, rfl⟩

theorem newText_rel {s : Bool} (c : List Char) {r₁ r₂ : Option (Nat × Nat)} (h : RRel s r₁ r₂) :
    NRel s (Node.newText c r₁) (Node.newText c r₂) := NRel.mk' h (by simp)

theorem leaf_rel {s : Bool} (v : Val) {r₁ r₂ : Option (Nat × Nat)} (h : RRel s r₁ r₂) :
    NRel s (Node.leaf v r₁) (Node.leaf v r₂) := NRel.mk' h (by simp)

theorem fresh_sim {s : Bool} {src : List Char} {m₁ m₂ : Srcmap} {c₁ c₂ o₁ : List Node}
    {a b : Nat} (hm : MRel s m₁ m₂) (hc : LRel s c₁ c₂)
    (h : (match liftOps (slice src a b) with
      | Except.error e => Except.error e
      | Except.ok piece =>
        match liftOps (getMap m₁ a b) with
        | Except.error e => Except.error e
        | Except.ok r => Except.ok (c₁ ++ [Node.newText piece (some r)])) = Except.ok o₁) :
    Sim s (LRel s) o₁ (match liftOps (slice src a b) with
      | Except.error e => Except.error e
      | Except.ok piece =>
        match liftOps (getMap m₂ a b) with
        | Except.error e => Except.error e
        | Except.ok r => Except.ok (c₂ ++ [Node.newText piece (some r)])) := by
  split at h
  · simp at h
  · next piece hp =>
    split at h
    · simp at h
    · next r₁ hg =>
      simp only [Except.ok.injEq] at h; subst h
      rcases (getMap_sim hm (liftOps_ok.mp hg)).liftOps.cases with ⟨r₂, e2, hr⟩ | ⟨hs, e, e2⟩
      · rw [e2]; exact hc.snoc (newText_rel _ hr)
      · rw [e2]; exact hs

theorem trailingTextPush_sim {s : Bool} {src : List Char} {m₁ m₂ : Srcmap} {c₁ c₂ o₁ : List Node}
    {a b : Nat} (hm : MRel s m₁ m₂) (hc : LRel s c₁ c₂)
    (h : trailingTextPush src m₁ c₁ a b = .ok o₁) :
    Sim s (LRel s) o₁ (trailingTextPush src m₂ c₂ a b) := by
  unfold trailingTextPush at h ⊢
  simp only at h ⊢
  split at h
  · next hp =>
    rw [hc.popLast_none hp]
    exact fresh_sim hm hc h
  · next i₁ x₁ hp =>
    obtain ⟨i₂, x₂, hp2, hi, hx⟩ := hc.popLast_some hp
    rw [hp2]; simp only [hx.isText, hx.content]
    split at h
    · next ht =>
      simp only [ht, if_true]
      split at h
      · simp at h
      · next piece hpc =>
        have hr := hx.range
        have hch := hx.children
        split at h
        · next hr1 =>
          simp only [Except.ok.injEq] at h; subst h
          split
          · next hr2 =>
            rw [hr1]
            exact hi.snoc (NRel.mk' (by rw [hr1] at hr; exact hr) hch)
          · next ms₂ me₂ hr2 =>
            have hs : s = false := by
              cases s with
              | false => rfl
              | true => rw [hr1, hr2] at hr; exact absurd (hr rfl) (by simp [ROrd])
            subst hs
            split
            · rfl
            · exact hi.snoc (NRel.mk' (fun h => by cases h) hch)
        · next ms₁ me₁ hr1 =>
          split at h
          · simp at h
          · next mapEnd₁ hg =>
            simp only [Except.ok.injEq] at h; subst h
            split
            · next hr2 =>
              have hs : s = false := by
                cases s with
                | false => rfl
                | true => rw [hr1, hr2] at hr; exact absurd (hr rfl) (by simp [ROrd])
              subst hs
              exact hi.snoc (NRel.mk' (fun h => by cases h) hch)
            · next ms₂ me₂ hr2 =>
              rcases (gsp_sim hm (liftOps_ok.mp hg)).liftOps.cases with ⟨e₂, e2, hr'⟩ | ⟨hs, e, e2⟩
              · rw [e2]
                refine hi.snoc (NRel.mk' (RRel.some ?_ hr') hch)
                intro hs; rw [hr1, hr2] at hr; exact (hr hs).1
              · rw [e2]; exact hs
    · next ht =>
      simp only [ht]
      exact fresh_sim hm hc h

theorem ROrd_none_some {s : Bool} {r : Nat × Nat} (h : RRel s none (some r)) : s = false := by
  cases s with
  | false => rfl
  | true => exact absurd (h rfl) (by simp [ROrd])

theorem ROrd_some_none {s : Bool} {r : Nat × Nat} (h : RRel s (some r) none) : s = false := by
  cases s with
  | false => rfl
  | true => exact absurd (h rfl) (by obtain ⟨a, b⟩ := r; simp [ROrd])

theorem RRel.false (r₁ r₂ : Option (Nat × Nat)) : RRel false r₁ r₂ := fun h => by cases h

theorem trailingTextPop_sim {s : Bool} {c₁ c₂ o₁ : List Node} {count : Nat} (hc : LRel s c₁ c₂)
    (h : trailingTextPop c₁ count = .ok o₁) :
    Sim s (LRel s) o₁ (trailingTextPop c₂ count) := by
  unfold trailingTextPop at h ⊢
  split at h
  · next h0 => simp only [Except.ok.injEq] at h; subst h; rw [if_pos h0]; exact hc
  · next h0 =>
    rw [if_neg h0]
    split at h
    · simp at h
    · next i₁ x₁ hp =>
      obtain ⟨i₂, x₂, hp2, hi, hx⟩ := hc.popLast_some hp
      rw [hp2]; simp only [hx.isText, hx.content]
      split at h
      · simp at h
      · next ht =>
        rw [if_neg ht]
        split at h
        · next hb => simp only [Except.ok.injEq] at h; subst h; rw [if_pos hb]; exact hi
        · next hb =>
          rw [if_neg hb]
          split at h
          · simp at h
          · next hb2 =>
            rw [if_neg hb2]
            split at h
            · simp at h
            · next content' htr =>
              have hr := hx.range
              have hch := hx.children
              split at h
              · next hr1 =>
                simp only [Except.ok.injEq] at h; subst h
                rw [hr1] at hr ⊢
                split
                · exact hi.snoc (NRel.mk' hr hch)
                · next ms₂ me₂ hr2 =>
                  rw [hr2] at hr
                  have hs := ROrd_none_some hr
                  subst hs
                  split
                  · rfl
                  · exact hi.snoc (NRel.mk' (RRel.false _ _) hch)
              · next ms₁ me₁ hr1 =>
                split at h
                · simp at h
                · next hme =>
                  simp only [Except.ok.injEq] at h; subst h
                  rw [hr1] at hr
                  split
                  · next hr2 =>
                    rw [hr2] at hr
                    have hs := ROrd_some_none hr
                    subst hs
                    exact hi.snoc (NRel.mk' (RRel.false _ _) hch)
                  · next ms₂ me₂ hr2 =>
                    rw [hr2] at hr
                    split
                    · next hme2 =>
                      cases s with
                      | false => rfl
                      | true => have := hr rfl; simp only [ROrd] at this; omega
                    · next hme2 =>
                      refine hi.snoc (NRel.mk' ?_ hch)
                      intro hs; have := hr hs; simp only [ROrd] at this ⊢; omega

/-! ## the states -/

/-- everything equal except the table and the ranges in the tree under construction -/
structure IRel (s : Bool) (a b : IState) : Prop where
  eq : b = { a with srcmap := b.srcmap, children := b.children }
  map : MRel s a.srcmap b.srcmap
  ch : LRel s a.children b.children

theorem IRel.out {s : Bool} {a b : IState} (h : IRel s a b) :
    ∃ m cs, b = { a with srcmap := m, children := cs } ∧ MRel s a.srcmap m ∧ LRel s a.children cs :=
  ⟨_, _, h.eq, h.map, h.ch⟩

theorem IRel.mk' {s : Bool} {a : IState} {m : Srcmap} {cs : List Node} (hm : MRel s a.srcmap m)
    (hc : LRel s a.children cs) : IRel s a { a with srcmap := m, children := cs } := ⟨rfl, hm, hc⟩

/-- the result of a rule: same answer, related states -/
def ORel (s : Bool) (x y : Option Nat × IState) : Prop := y.1 = x.1 ∧ IRel s x.2 y.2

theorem pushText_sim {s : Bool} {a b a' : IState} {x y : Nat} (rel : IRel s a b)
    (h : a.pushText x y = .ok a') : Sim s (IRel s) a' (b.pushText x y) := by
  obtain ⟨m, cs, rfl, hm, hc⟩ := rel.out
  unfold IState.pushText at h ⊢
  split at h
  · simp at h
  · next o₁ hp =>
    simp only [Except.ok.injEq] at h; subst h
    rcases (trailingTextPush_sim hm hc hp).cases with ⟨o₂, e2, hr⟩ | ⟨hs, e, e2⟩
    · simp only [e2]; exact IRel.mk' hm hr
    · simp only [e2]; exact hs

theorem getMapSt_sim {s : Bool} {a : IState} {m : Srcmap} {cs : List Node} (hm : MRel s a.srcmap m)
    {x y : Nat} {r₁ : Nat × Nat} (h : a.getMap x y = .ok r₁) :
    Sim s (fun r₁ r₂ => RRel s (some r₁) (some r₂)) r₁
      (IState.getMap { a with srcmap := m, children := cs } x y) :=
  (getMap_sim hm (liftOps_ok.mp h)).liftOps

/-! ## the rules without look-ahead -/

theorem ruleText_sim {s : Bool} {a b : IState} {silent : Bool} {r : Option Nat × IState}
    (rel : IRel s a b) (h : ruleText a silent = .ok r) : Sim s (ORel s) r (ruleText b silent) := by
  unfold ruleText at h ⊢
  have hw : b.window = a.window := by obtain ⟨m, cs, rfl, hm, hc⟩ := rel.out; rfl
  have hpos : b.pos = a.pos := by obtain ⟨m, cs, rfl, hm, hc⟩ := rel.out; rfl
  rw [hw, hpos]
  split at h
  · simp at h
  · next w hw1 =>
    simp only [] at h ⊢
    split at h
    · next hl => simp only [Except.ok.injEq] at h; subst h; rw [if_pos hl]; exact ⟨rfl, rel⟩
    · next hl =>
      rw [if_neg hl]
      split at h
      · next hs => simp only [Except.ok.injEq] at h; subst h; rw [if_pos hs]; exact ⟨rfl, rel⟩
      · next hs =>
        rw [if_neg hs]
        split at h
        · simp at h
        · next a' hp =>
          simp only [Except.ok.injEq] at h; subst h
          rcases (pushText_sim rel hp).cases with ⟨o₂, e2, hr⟩ | ⟨hs, e, e2⟩
          · simp only [e2]; exact ⟨rfl, hr⟩
          · simp only [e2]; exact hs

theorem push_rel {s : Bool} {a : IState} {m : Srcmap} {cs : List Node} (hm : MRel s a.srcmap m)
    (hc : LRel s a.children cs) {n₁ n₂ : Node} (hn : NRel s n₁ n₂) :
    IRel s (a.push n₁) (IState.push { a with srcmap := m, children := cs } n₂) :=
  IRel.mk' (a := a.push n₁) hm (hc.snoc hn)

theorem ruleEscape_sim {s : Bool} {a b : IState} {silent : Bool} {r : Option Nat × IState}
    (rel : IRel s a b) (h : ruleEscape a silent = .ok r) : Sim s (ORel s) r (ruleEscape b silent) := by
  obtain ⟨m, cs, rfl, hm, hc⟩ := rel.out
  unfold ruleEscape IState.window at h ⊢
  simp only [] at h ⊢
  repeat' split at h
  all_goals try (simp at h; done)
  all_goals (simp only [Except.ok.injEq] at h; subst h)
  all_goals try simp only [*, ↓reduceIte, Bool.false_eq_true]
  all_goals first
    | exact ⟨rfl, rel⟩
    | (have hg := ‹a.getMap _ _ = Except.ok _›
       rcases (getMapSt_sim (cs := cs) hm hg).cases with ⟨r₂, e2, hr⟩ | ⟨hs, e, e2⟩
       · simp only [e2]; exact ⟨rfl, push_rel hm hc (leaf_rel _ hr)⟩
       · simp only [e2]; exact hs)

theorem ruleEntity_sim {s : Bool} {cfg : Cfg} {a b : IState} {silent : Bool} {r : Option Nat × IState}
    (rel : IRel s a b) (h : ruleEntity cfg a silent = .ok r) :
    Sim s (ORel s) r (ruleEntity cfg b silent) := by
  obtain ⟨m, cs, rfl, hm, hc⟩ := rel.out
  unfold ruleEntity IState.window at h ⊢
  simp only [] at h ⊢
  repeat' split at h
  all_goals try (simp at h; done)
  all_goals (simp only [Except.ok.injEq] at h; subst h)
  all_goals try simp only [*, ↓reduceIte, Bool.false_eq_true, ne_eq, not_false_eq_true, not_true_eq_false]
  all_goals first
    | exact ⟨rfl, rel⟩
    | (have hg := ‹a.getMap _ _ = Except.ok _›
       rcases (getMapSt_sim (cs := cs) hm hg).cases with ⟨r₂, e2, hr⟩ | ⟨hs, e, e2⟩
       · simp only [e2]; exact ⟨rfl, push_rel hm hc (leaf_rel _ hr)⟩
       · simp only [e2]; exact hs)

theorem ruleAutolink_sim {s : Bool} {a b : IState} {silent : Bool} {r : Option Nat × IState}
    (rel : IRel s a b) (h : ruleAutolink a silent = .ok r) :
    Sim s (ORel s) r (ruleAutolink b silent) := by
  obtain ⟨m, cs, rfl, hm, hc⟩ := rel.out
  unfold ruleAutolink IState.window at h ⊢
  simp only [] at h ⊢
  repeat' split at h
  all_goals try (simp at h; done)
  all_goals (simp only [Except.ok.injEq] at h; subst h)
  all_goals try simp only [*, ↓reduceIte, Bool.false_eq_true, ne_eq, not_false_eq_true, not_true_eq_false]
  all_goals first
    | exact ⟨rfl, rel⟩
    | skip
  rename_i hg1 _ _ hg2
  rcases (getMapSt_sim (cs := cs) hm hg1).cases with ⟨r₂, e2, hr⟩ | ⟨hs, e, e2⟩
  · simp only [e2]
    rcases (getMapSt_sim (cs := cs) hm hg2).cases with ⟨r₃, e3, hr3⟩ | ⟨hs, e, e3⟩
    · simp only [e3]; exact ⟨rfl, push_rel hm hc (NRel.mk' hr (LRel.single (newText_rel _ hr3)))⟩
    · simp only [e3]; exact hs
  · simp only [e2]; exact hs

theorem ruleBackticks_sim {s : Bool} {a b : IState} {silent : Bool} {r : Option Nat × IState}
    (rel : IRel s a b) (h : ruleBackticks a silent = .ok r) :
    Sim s (ORel s) r (ruleBackticks b silent) := by
  obtain ⟨m, cs, rfl, hm, hc⟩ := rel.out
  unfold ruleBackticks at h ⊢
  simp only [] at h ⊢
  repeat' split at h
  all_goals try (simp at h; done)
  all_goals (simp only [Except.ok.injEq] at h; subst h)
  all_goals try simp only [*, ↓reduceIte, Bool.false_eq_true, ne_eq, not_false_eq_true, not_true_eq_false]
  · exact ⟨rfl, IRel.mk' (a := { a with backticks := _ }) hm hc⟩
  · exact ⟨rfl, IRel.mk' (a := { a with backticks := _ }) hm hc⟩
  · rename_i hg1 _ _ hg2
    rcases (getMapSt_sim (cs := cs) hm hg1).cases with ⟨r₂, e2, hr⟩ | ⟨hs, e, e2⟩
    · simp only [e2]
      rcases (getMapSt_sim (cs := cs) hm hg2).cases with ⟨r₃, e3, hr3⟩ | ⟨hs, e, e3⟩
      · simp only [e3]
        exact ⟨rfl, IRel.mk' (a := { a with backticks := _, children := _ }) hm
          (hc.snoc (NRel.mk' hr (LRel.single (newText_rel _ hr3))))⟩
      · simp only [e3]; exact hs
    · simp only [e2]; exact hs

theorem ruleNewline_sim {s : Bool} {a b : IState} {silent : Bool} {r : Option Nat × IState}
    (rel : IRel s a b) (h : ruleNewline a silent = .ok r) :
    Sim s (ORel s) r (ruleNewline b silent) := by
  obtain ⟨m, cs, rfl, hm, hc⟩ := rel.out
  unfold ruleNewline IState.window at h ⊢
  simp only [trailingTextGet_rel hc] at h ⊢
  repeat' split at h
  all_goals try (simp at h; done)
  all_goals (simp only [Except.ok.injEq] at h; subst h)
  all_goals try simp only [*, ↓reduceIte, Bool.false_eq_true, ne_eq, not_false_eq_true, not_true_eq_false]
  all_goals first
    | exact ⟨rfl, rel⟩
    | skip
  all_goals (
    rename_i hp _ _ _ hg _
    rcases (trailingTextPop_sim hc hp).cases with ⟨cs₂, e2, hr⟩ | ⟨hs, e, e2⟩
    · simp only [e2]
      rcases (getMapSt_sim (cs := cs) hm hg).cases with ⟨r₃, e3, hr3⟩ | ⟨hs, e, e3⟩
      · simp only [e3]
        exact ⟨rfl, IRel.mk' (a := { a with children := _ }) hm (hr.snoc (leaf_rel _ hr3))⟩
      · simp only [e3]; exact hs
    · simp only [e2]; exact hs)

/-! ## SECTION EMPH-MATCH: everything that unfolds matchInner / matchOuter / scanAndMatch
       (adapt here after a change of these model functions)

  Interface the rest of the file relies on — ONLY the statement of `scanAndMatch_sim`:
    `LRel s c₁ c₂ → scanAndMatch fns mk room c₁ bt = .ok r →
       Sim s (fun r r' => LRel s r.1 r'.1 ∧ r'.2 = r.2) r (scanAndMatch fns mk room c₂ bt)`
  (related child lists, the SAME bottoms in, give related child lists and the SAME bottoms out; in strict
  mode side 2 does not fail).  `ruleEmph_sim` below uses it as a black box; no lemma outside this
  section unfolds `matchInner`, `matchOuter`, `scanAndMatch`, `replaceAt` or mentions `MatchSt`. -/

structure MSRel (s : Bool) (x y : MatchSt) : Prop where
  eq : y = { x with closerRange := y.closerRange, children := y.children }
  range : RRel s x.closerRange y.closerRange
  ch : LRel s x.children y.children

theorem MSRel.out {s : Bool} {x y : MatchSt} (h : MSRel s x y) :
    ∃ cr cs, y = { x with closerRange := cr, children := cs } ∧ RRel s x.closerRange cr ∧
      LRel s x.children cs := ⟨_, _, h.eq, h.range, h.ch⟩

theorem MSRel.mk' {s : Bool} {x : MatchSt} {cr : Option (Nat × Nat)} {cs : List Node}
    (hr : RRel s x.closerRange cr) (hc : LRel s x.children cs) :
    MSRel s x { x with closerRange := cr, children := cs } := ⟨rfl, hr, hc⟩

/-- cut `ml` markers from the start of the closer's range -/
def crStep (cr : Option (Nat × Nat)) (ml : Nat) : Option (Nat × Nat) × Nat :=
  match cr with
  | some (s, e) => (some (s + ml, e), s + ml)
  | none => (none, 0)

/-- cut `ml` markers from the end of the opener's range -/
def cutTok (otok : Node) (ml : Nat) : Except RPanic (Node × Nat) :=
  match otok.range with
  | some (s, e) =>
    if e < ml then .error .underflow
    else .ok ({ otok with range := some (s, e - ml) }, e - ml)
  | none => .ok (otok, 0)

mutual
/-- related trees carry the same `EmphDepth` (it is a function of the values and the shape) -/
theorem NRel.wrapDepth_eq {s : Bool} : ∀ (a b : Node), NRel s a b → wrapDepth b = wrapDepth a
  | ⟨v₁, r₁, cs₁⟩, ⟨v₂, r₂, cs₂⟩, h => by
    simp only [NRel] at h
    obtain ⟨rfl, _, hc⟩ := h
    have := LRel.wrapDepthList_eq cs₁ cs₂ hc
    cases v₁ <;> simp [wrapDepth, this]
theorem LRel.wrapDepthList_eq {s : Bool} :
    ∀ (l₁ l₂ : List Node), LRel s l₁ l₂ → wrapDepthList l₂ = wrapDepthList l₁
  | [], l₂, h => by simp only [LRel] at h; subst h; rfl
  | a :: as, [], h => by simp at h
  | a :: as, b :: bs, h => by
    simp only [LRel_cons_cons] at h
    simp only [wrapDepthList, NRel.wrapDepth_eq a b h.1, LRel.wrapDepthList_eq as bs h.2]
end

theorem matchInner_succ (fns : Nat → Option Wrap) (mk : Char) (room idx fuel : Nat) (opener : Marker)
    (ms : MatchSt) :
    matchInner fns mk room idx (fuel + 1) opener ms =
      if ms.closer.remaining > 0 ∧ opener.remaining > 0 then
        if ms.innerDepth ≥ room then .ok (opener, ms) else
        match pickLen fns (min 3 (min opener.remaining ms.closer.remaining)) with
        | none => .ok (opener, ms)
        | some (ml, w) =>
          if ms.closer.remaining < ml ∨ opener.remaining < ml then .error .underflow
          else
            if ms.children.length < idx + 1 then .error .slice
            else
              match popLast (ms.children.take (idx + 1)) with
              | none => .error .unwrap
              | some (init, otok) =>
                match cutTok otok ml with
                | .error e => .error e
                | .ok (otok', startMapPos) =>
                  matchInner fns mk room idx fuel { opener with remaining := opener.remaining - ml }
                    { closer := { ms.closer with remaining := ms.closer.remaining - ml },
                      closerRange := (crStep ms.closerRange ml).1,
                      children := (if opener.remaining - ml = 0 then init else init ++ [otok']) ++
                        [{ val := .wrap w mk, range := some (startMapPos, (crStep ms.closerRange ml).2),
                           children := ms.children.drop (idx + 1) }],
                      newMin := 0, innerDepth := ms.innerDepth + 1 }
      else .ok (opener, ms) := by
  rw [matchInner]; rfl

theorem crStep_rel {s : Bool} {cr₁ cr₂ : Option (Nat × Nat)} (ml : Nat) (h : RRel s cr₁ cr₂) :
    RRel s (crStep cr₁ ml).1 (crStep cr₂ ml).1 ∧ (s = true → (crStep cr₁ ml).2 ≤ (crStep cr₂ ml).2) := by
  cases s with
  | false => exact ⟨RRel.false _ _, fun h => by cases h⟩
  | true =>
    have := h rfl
    unfold crStep
    rcases cr₁ with _ | ⟨a, b⟩ <;> rcases cr₂ with _ | ⟨c, d⟩ <;> simp only [ROrd] at this
    · exact ⟨RRel.none _, fun _ => Nat.le_refl _⟩
    · exact ⟨RRel.some (fun _ => by omega) (fun _ => this.2), fun _ => by simp only []; omega⟩

theorem cutTok_sim {s : Bool} {o₁ o₂ : Node} {ml : Nat} {r : Node × Nat} (hn : NRel s o₁ o₂)
    (h : cutTok o₁ ml = .ok r) :
    Sim s (fun r r' => NRel s r.1 r'.1 ∧ (s = true → r.2 ≤ r'.2)) r (cutTok o₂ ml) := by
  have hr := hn.range
  have hv := hn.val
  have hch := hn.children
  cases s with
  | false =>
    unfold cutTok at h ⊢
    split at h
    · split at h
      · simp at h
      · simp only [Except.ok.injEq] at h; subst h
        split
        · split
          · rfl
          · exact ⟨(NRel_iff _ _ _).mpr ⟨hv.symm, RRel.false _ _, hch⟩, fun h => by cases h⟩
        · exact ⟨(NRel_iff _ _ _).mpr ⟨hv.symm, RRel.false _ _, hch⟩, fun h => by cases h⟩
    · simp only [Except.ok.injEq] at h; subst h
      split
      · split
        · rfl
        · exact ⟨(NRel_iff _ _ _).mpr ⟨hv.symm, RRel.false _ _, hch⟩, fun h => by cases h⟩
      · exact ⟨(NRel_iff _ _ _).mpr ⟨hv.symm, RRel.false _ _, hch⟩, fun h => by cases h⟩
  | true =>
    have hro := hr rfl
    unfold cutTok at h ⊢
    split at h
    · next a b hr1 =>
      split at h
      · simp at h
      · next hb =>
        simp only [Except.ok.injEq] at h; subst h
        rw [hr1] at hro
        split
        · next c d hr2 =>
          rw [hr2] at hro; simp only [ROrd] at hro
          rw [if_neg (by omega)]
          exact ⟨(NRel_iff _ _ _).mpr ⟨hv.symm, RRel.some (fun _ => hro.1) (fun _ => by omega), hch⟩,
            fun _ => by simp only []; omega⟩
        · next hr2 => rw [hr2] at hro; simp [ROrd] at hro
    · next hr1 =>
      simp only [Except.ok.injEq] at h; subst h
      rw [hr1] at hro
      split
      · next c d hr2 => rw [hr2] at hro; simp [ROrd] at hro
      · exact ⟨hn, fun _ => Nat.le_refl _⟩

theorem matchInner_sim {s : Bool} (fns : Nat → Option Wrap) (mk : Char) (room idx : Nat) :
    ∀ (fuel : Nat) (opener : Marker) (x y : MatchSt) (r : Marker × MatchSt), MSRel s x y →
      matchInner fns mk room idx fuel opener x = .ok r →
      Sim s (fun r r' => r'.1 = r.1 ∧ MSRel s r.2 r'.2) r (matchInner fns mk room idx fuel opener y) := by
  intro fuel
  induction fuel with
  | zero =>
    intro opener x y r rel h
    simp only [matchInner, Except.ok.injEq] at h ⊢; subst h; exact ⟨rfl, rel⟩
  | succ n ih =>
    intro opener x y r rel h
    obtain ⟨cr, cs, rfl, hr, hc⟩ := rel.out
    rw [matchInner_succ] at h ⊢
    simp only [← hc.length] at h ⊢
    split at h
    · next hrem =>
      rw [if_pos hrem]
      -- the nesting-limit `break`: `inner_depth` is the same on both sides
      split at h
      · next hdep =>
        rw [if_pos hdep]
        simp only [Except.ok.injEq] at h; subst h; exact ⟨rfl, rel⟩
      next hdep =>
      rw [if_neg hdep]
      split at h
      · simp only [Except.ok.injEq] at h; subst h; exact ⟨rfl, rel⟩
      · next ml w hpick =>
        split at h
        · simp at h
        · next hu =>
          rw [if_neg hu]
          split at h
          · simp at h
          · next hl =>
            rw [if_neg hl]
            split at h
            · simp at h
            · next init otok hp =>
              obtain ⟨i₂, x₂, hp2, hi, hx⟩ := (hc.take (idx + 1)).popLast_some hp
              rw [hp2]; simp only []
              split at h
              · simp at h
              · next otok' smp hcut =>
                rcases (cutTok_sim hx hcut).cases with ⟨⟨ot₂, sp₂⟩, e2, hrn, hrs⟩ | ⟨hs, e, e2⟩
                · rw [e2]; simp only []
                  refine ih _ _ _ _ ?_ h
                  have hcr := crStep_rel ml hr
                  refine MSRel.mk' (x := { closer := _, closerRange := _, children := _, newMin := 0,
                                           innerDepth := _ })
                    hcr.1 ?_
                  simp only [] at hrn hrs ⊢
                  refine LRel.snoc ?_ (NRel.mk' (RRel.some hrs hcr.2) (hc.drop _))
                  split
                  · exact hi
                  · exact hi.snoc hrn
                · rw [e2]; exact hs
    · next hrem =>
      rw [if_neg hrem]
      simp only [Except.ok.injEq] at h; subst h; exact ⟨rfl, rel⟩

theorem replaceAt_sim {s : Bool} {c₁ c₂ o₁ : List Node} {idx : Nat} {mkr : Marker} (hc : LRel s c₁ c₂)
    (h : replaceAt c₁ idx mkr = .ok o₁) : Sim s (LRel s) o₁ (replaceAt c₂ idx mkr) := by
  unfold replaceAt at h ⊢
  split at h
  · simp at h
  · next n hn =>
    simp only [Except.ok.injEq] at h; subst h
    obtain ⟨y, hy, hxy⟩ := hc.getElem? idx hn
    rw [hy]
    exact hc.set idx ((NRel_iff _ _ _).mpr ⟨rfl, hxy.range, hxy.children⟩)

theorem matchOuter_sim {s : Bool} (fns : Nat → Option Wrap) (mk : Char) (room minIdx : Nat) :
    ∀ (k : Nat) (x y r : MatchSt), MSRel s x y → matchOuter fns mk room minIdx k x = .ok r →
      Sim s (MSRel s) r (matchOuter fns mk room minIdx k y) := by
  intro k
  induction k with
  | zero =>
    intro x y r rel h
    simp only [matchOuter, Except.ok.injEq] at h ⊢; subst h; exact rel
  | succ k ih =>
    intro x0 y0 r rel0 h
    -- the read of `children[idx + 1]`: related nodes carry the same `EmphDepth`, so `inner_depth`
    -- stays the same on both sides
    rw [matchOuter_succ] at h ⊢
    split at h
    · simp at h
    next nxt hnxt =>
    obtain ⟨nxt₂, hnxt₂, hnrel⟩ := rel0.ch.getElem? _ hnxt
    rw [hnxt₂]; simp only []
    have hid : y0.innerDepth = x0.innerDepth := by obtain ⟨cr, cs, rfl, _, _⟩ := rel0.out; rfl
    rw [hid, NRel.wrapDepth_eq _ _ hnrel]
    have rel' : MSRel s { x0 with innerDepth := max x0.innerDepth (wrapDepth nxt) }
        { y0 with innerDepth := max x0.innerDepth (wrapDepth nxt) } := by
      obtain ⟨cr, cs, rfl, hr, hc⟩ := rel0.out
      exact MSRel.mk' (x := { x0 with innerDepth := _ }) hr hc
    generalize ({ x0 with innerDepth := max x0.innerDepth (wrapDepth nxt) } : MatchSt) = x at h rel'
    generalize ({ y0 with innerDepth := max x0.innerDepth (wrapDepth nxt) } : MatchSt) = y at rel' ⊢
    have rel := rel'
    clear rel' hid hnrel hnxt₂ hnxt rel0
    unfold matchOuterBody at h ⊢
    simp only [] at h ⊢
    split at h
    · simp at h
    · next tok htok =>
      obtain ⟨tok₂, htok₂, hrel⟩ := rel.ch.getElem? _ htok
      rw [htok₂]; simp only [hrel.asMarker]
      have hcl : y.closer = x.closer := by obtain ⟨cr, cs, rfl, _, _⟩ := rel.out; rfl
      rw [hcl]
      split at h
      · exact ih _ _ _ rel h
      · next opener hop =>
        split at h
        · simp at h
        · next opener' ms' hgo =>
          have hgo2 : Sim s (fun r r' => r'.1 = r.1 ∧ MSRel s r.2 r'.2) (opener', ms')
              (if (opener.open_ && opener.marker == x.closer.marker && !isOddMatch opener x.closer) = true then
                matchInner fns mk room (minIdx + k) x.closer.remaining opener y
              else .ok (opener, y)) := by
            split at hgo
            · next hif => rw [if_pos hif]; exact matchInner_sim fns mk _ _ _ _ _ _ _ rel hgo
            · next hif =>
              rw [if_neg hif]
              simp only [Except.ok.injEq, Prod.mk.injEq] at hgo
              obtain ⟨rfl, rfl⟩ := hgo; exact ⟨rfl, rel⟩
          rcases hgo2.cases with ⟨⟨op₂, ms₂⟩, e2, hop2, hms⟩ | ⟨hs, e, e2⟩
          · rw [e2]; simp only [] at hop2 hms ⊢
            subst hop2
            split at h
            · next hrem =>
              rw [if_pos hrem]
              split at h
              · simp at h
              · next cs' hrep =>
                rcases (replaceAt_sim hms.ch hrep).cases with ⟨cs₂, e3, hcs⟩ | ⟨hs, e, e3⟩
                · rw [e3]; simp only []
                  refine ih _ _ _ ?_ h
                  obtain ⟨cr, cs, rfl, hr', _⟩ := hms.out
                  exact MSRel.mk' (x := { ms' with children := cs' }) hr' hcs
                · rw [e3]; exact hs
            · next hrem =>
              rw [if_neg hrem]
              exact ih _ _ _ hms h
          · rw [e2]; exact hs

theorem scanAndMatch_sim {s : Bool} (fns : Nat → Option Wrap) (mk : Char) {room : Nat}
    {c₁ c₂ : List Node}
    (bt : List (Char × List Nat)) {r : List Node × List (Char × List Nat)} (hc : LRel s c₁ c₂)
    (h : scanAndMatch fns mk room c₁ bt = .ok r) :
    Sim s (fun r r' => LRel s r.1 r'.1 ∧ r'.2 = r.2) r (scanAndMatch fns mk room c₂ bt) := by
  unfold scanAndMatch at h ⊢
  rw [← hc.length]
  split at h
  · next hl => simp only [Except.ok.injEq] at h; subst h; rw [if_pos hl]; exact ⟨hc, rfl⟩
  · next hl =>
    rw [if_neg hl]
    split at h
    · simp at h
    · next init ctok hp =>
      obtain ⟨i₂, x₂, hp2, hi, hx⟩ := hc.popLast_some hp
      rw [hp2]; simp only [hx.asMarker, ← hi.length]
      split at h
      · simp at h
      · next closer hcl =>
        generalize ((if closer.open_ = true then 1 else 0) * 3 + closer.length % 3) = param at h ⊢
        simp only [] at h
        cases hmin : (bottomsGet bt mk)[param]? with
        | none => rw [hmin] at h; simp at h
        | some minIdx =>
          rw [hmin] at h
          simp only [] at h ⊢
          split at h
          · simp at h
          · next hil =>
            rw [if_neg hil]
            split at h
            · simp at h
            · next ms hmo =>
              have rel0 : MSRel s
                  { closer := closer, closerRange := ctok.range, children := init, newMin := init.length - 1 }
                  { closer := closer, closerRange := x₂.range, children := i₂, newMin := init.length - 1 } :=
                MSRel.mk' (x := { closer := closer, closerRange := ctok.range, children := init,
                                  newMin := init.length - 1 }) hx.range hi
              rcases (matchOuter_sim fns mk _ _ _ _ _ _ rel0 hmo).cases with ⟨ms₂, e2, hms⟩ | ⟨hs, e, e2⟩
              · rw [e2]; simp only []
                obtain ⟨cr, cs, rfl, hr', hc'⟩ := hms.out
                simp only [] at h ⊢
                split at h
                · next hrem =>
                  rw [if_pos hrem]
                  simp only [Except.ok.injEq] at h; subst h
                  exact ⟨hc'.snoc ((NRel_iff _ _ _).mpr ⟨rfl, hr', hx.children⟩), rfl⟩
                · next hrem =>
                  rw [if_neg hrem]
                  simp only [Except.ok.injEq] at h; subst h
                  exact ⟨hc', rfl⟩
              · rw [e2]; exact hs

/-! ## END SECTION EMPH-MATCH -/

/-! ## the emphasis rule (uses `scanAndMatch_sim` as a black box) -/

theorem ruleEmph_sim {s : Bool} {cfg : Cfg} {mk : Char} {csw : Bool} {a b : IState} {silent : Bool}
    {r : Option Nat × IState} (rel : IRel s a b) (h : ruleEmph cfg mk csw a silent = .ok r) :
    Sim s (ORel s) r (ruleEmph cfg mk csw b silent) := by
  obtain ⟨m, cs, rfl, hm, hc⟩ := rel.out
  unfold ruleEmph IState.window IState.push at h ⊢
  simp only [] at h ⊢
  repeat' split at h
  all_goals try (simp at h; done)
  all_goals (simp only [Except.ok.injEq] at h; subst h)
  all_goals try simp only [*, ↓reduceIte, Bool.false_eq_true, ne_eq, not_false_eq_true, not_true_eq_false]
  all_goals first
    | exact ⟨rfl, rel⟩
    | skip
  · rename_i hg hcc _ _ _ hsm
    rw [hcc] at hsm
    rcases (getMapSt_sim (cs := cs) hm hg).cases with ⟨r₂, e2, hr⟩ | ⟨hs, e, e2⟩
    · simp only [e2]
      rcases (scanAndMatch_sim (cfg.fns mk) mk a.bottoms (hc.snoc (leaf_rel _ hr)) hsm).cases with
        ⟨⟨cs₂, b₂⟩, e3, hcs, hb⟩ | ⟨hs, e, e3⟩
      · simp only [e3]
        simp only [] at hb hcs
        subst hb
        exact ⟨rfl, IRel.mk' (a := { a with children := _, bottoms := _ }) hm hcs⟩
      · simp only [e3]; exact hs
    · simp only [e2]; exact hs
  · rename_i hg _
    rcases (getMapSt_sim (cs := cs) hm hg).cases with ⟨r₂, e2, hr⟩ | ⟨hs, e, e2⟩
    · simp only [e2]
      exact ⟨rfl, IRel.mk' (a := { a with children := _ }) hm (hc.snoc (leaf_rel _ hr))⟩
    · simp only [e2]; exact hs

/-! ## links -/

theorem IRel.pos {s : Bool} {a b : IState} (h : IRel s a b) : b.pos = a.pos := by
  obtain ⟨m, cs, rfl, _, _⟩ := h.out; rfl
theorem IRel.posMax {s : Bool} {a b : IState} (h : IRel s a b) : b.posMax = a.posMax := by
  obtain ⟨m, cs, rfl, _, _⟩ := h.out; rfl
theorem IRel.src {s : Bool} {a b : IState} (h : IRel s a b) : b.src = a.src := by
  obtain ⟨m, cs, rfl, _, _⟩ := h.out; rfl
theorem IRel.level {s : Bool} {a b : IState} (h : IRel s a b) : b.level = a.level := by
  obtain ⟨m, cs, rfl, _, _⟩ := h.out; rfl
theorem IRel.linkLevel {s : Bool} {a b : IState} (h : IRel s a b) : b.linkLevel = a.linkLevel := by
  obtain ⟨m, cs, rfl, _, _⟩ := h.out; rfl
theorem IRel.cache {s : Bool} {a b : IState} (h : IRel s a b) : b.cache = a.cache := by
  obtain ⟨m, cs, rfl, _, _⟩ := h.out; rfl
theorem IRel.bottoms {s : Bool} {a b : IState} (h : IRel s a b) : b.bottoms = a.bottoms := by
  obtain ⟨m, cs, rfl, _, _⟩ := h.out; rfl
theorem IRel.window {s : Bool} {a b : IState} (h : IRel s a b) : b.window = a.window := by
  obtain ⟨m, cs, rfl, _, _⟩ := h.out; rfl

/-- a look-ahead / recursive call preserves the relation -/
def SimFn (s : Bool) (f : IState → Except Panic IState) : Prop :=
  ∀ a b a', IRel s a b → f a = .ok a' → Sim s (IRel s) a' (f b)

/-- results of the label loop and of `parse_link`: same answer, related states -/
def PRel (s : Bool) {α : Type} (x y : α × IState) : Prop := y.1 = x.1 ∧ IRel s x.2 y.2

theorem labelLoop_sim {s : Bool} {skip : IState → Except Panic IState} (hs : SimFn s skip) (en : Bool) :
    ∀ (n : Nat) (level : Int) (a b : IState) (r : Option Bool × IState), IRel s a b →
      labelLoop skip en n level a = .ok r → Sim s (PRel s) r (labelLoop skip en n level b) := by
  intro n
  induction n with
  | zero => intro level a b r rel h; simp [labelLoop] at h
  | succ n ih =>
    intro level a b r rel h
    unfold labelLoop at h ⊢
    rw [rel.window]
    split at h
    · simp at h
    · simp only [Except.ok.injEq] at h; subst h; exact ⟨rfl, rel⟩
    · next ch rest hw =>
      split at h
      · next hif => simp only [Except.ok.injEq] at h; subst h; rw [if_pos hif]; exact ⟨rfl, rel⟩
      · next hif =>
        rw [if_neg hif]
        simp only [] at h ⊢
        split at h
        · simp at h
        · next a1 hsk =>
          rcases (hs _ _ _ rel hsk).cases with ⟨b1, e2, rel1⟩ | ⟨hs', e, e2⟩
          · rw [e2]; simp only [rel1.pos, rel.pos]
            split at h
            · next hch =>
              rw [if_pos hch]
              split at h
              · simp at h
              · next h0 =>
                rw [if_neg h0]
                split at h
                · next hp => rw [if_pos hp]; exact ih _ _ _ _ rel1 h
                · next hp =>
                  rw [if_neg hp]
                  split at h
                  · next hen =>
                    rw [if_pos hen]
                    simp only [Except.ok.injEq] at h; subst h; exact ⟨rfl, rel1⟩
                  · next hen => rw [if_neg hen]; exact ih _ _ _ _ rel1 h
            · next hch => rw [if_neg hch]; exact ih _ _ _ _ rel1 h
          · rw [e2]; exact hs'

theorem IRel.setPos {s : Bool} {a b : IState} (h : IRel s a b) (p : Nat) :
    IRel s { a with pos := p } { b with pos := p } := by
  obtain ⟨m, cs, rfl, hm, hc⟩ := h.out
  exact IRel.mk' (a := { a with pos := p }) hm hc

theorem parseLinkLabel_sim {s : Bool} {skip : IState → Except Panic IState} (hs : SimFn s skip)
    {fuel : Nat} {a b : IState} {start : Nat} {en : Bool} {r : Option Nat × IState} (rel : IRel s a b)
    (h : parseLinkLabel skip fuel a start en = .ok r) :
    Sim s (PRel s) r (parseLinkLabel skip fuel b start en) := by
  unfold parseLinkLabel at h ⊢
  simp only [rel.pos] at h ⊢
  split at h
  · simp at h
  · next a1 hl =>
    simp only [Except.ok.injEq] at h; subst h
    rcases (labelLoop_sim hs en _ _ _ _ _ (rel.setPos (start + 1)) hl).cases with
      ⟨⟨o₂, b1⟩, e2, ho, rel1⟩ | ⟨hs', e, e2⟩
    · simp only [] at ho rel1; subst ho
      rw [e2]; exact ⟨rfl, rel1.setPos _⟩
    · rw [e2]; exact hs'
  · next found a1 hl =>
    simp only [Except.ok.injEq] at h; subst h
    rcases (labelLoop_sim hs en _ _ _ _ _ (rel.setPos (start + 1)) hl).cases with
      ⟨⟨o₂, b1⟩, e2, ho, rel1⟩ | ⟨hs', e, e2⟩
    · simp only [] at ho rel1; subst ho
      rw [e2]; exact ⟨by simp only [rel1.pos], rel1.setPos _⟩
    · rw [e2]; exact hs'

theorem parseLinkRef_sim {s : Bool} {cfg : Cfg} {skip : IState → Except Panic IState} (hs : SimFn s skip)
    {fuel : Nat} {a b : IState} {ls le : Nat} {r : Option LinkRes × IState} (rel : IRel s a b)
    (h : parseLinkRef cfg skip fuel a ls le = .ok r) :
    Sim s (PRel s) r (parseLinkRef cfg skip fuel b ls le) := by
  unfold parseLinkRef at h ⊢
  simp only [rel.src, rel.posMax] at h ⊢
  split at h
  · simp at h
  · next w hw =>
    split at h
    · simp at h
    · next ml pos a1 hsec =>
      split at hsec
      · next tail =>
        split at hsec
        · simp at hsec
        · next x st' hpl =>
          rcases (parseLinkLabel_sim hs rel hpl).cases with ⟨⟨o₂, b1⟩, e2, ho, rel1⟩ | ⟨hs', e, e2⟩
          · simp only [] at ho rel1; subst ho; rw [e2]; simp only []
            split at hsec
            · simp at hsec
            · next l hl =>
              simp only [Except.ok.injEq, Prod.mk.injEq] at hsec; obtain ⟨rfl, rfl, rfl⟩ := hsec
              simp only []
              repeat' split at h
              all_goals try (simp at h; done)
              all_goals (simp only [Except.ok.injEq] at h; subst h; (try simp only [*]); exact ⟨rfl, rel1⟩)
          · rw [e2]; exact hs'
        · next st' hpl =>
          rcases (parseLinkLabel_sim hs rel hpl).cases with ⟨⟨o₂, b1⟩, e2, ho, rel1⟩ | ⟨hs', e, e2⟩
          · simp only [] at ho rel1; subst ho; rw [e2]; simp only []
            simp only [Except.ok.injEq, Prod.mk.injEq] at hsec; obtain ⟨rfl, rfl, rfl⟩ := hsec
            repeat' split at h
            all_goals try (simp at h; done)
            all_goals (simp only [Except.ok.injEq] at h; subst h; (try simp only [*]); exact ⟨rfl, rel1⟩)
          · rw [e2]; exact hs'
      · next hne =>
        simp only [Except.ok.injEq, Prod.mk.injEq] at hsec; obtain ⟨rfl, rfl, rfl⟩ := hsec
        simp only []
        repeat' split at h
        all_goals try (simp at h; done)
        all_goals (simp only [Except.ok.injEq] at h; subst h; (try simp only [*]); exact ⟨rfl, rel⟩)

theorem IRel.backticks {s : Bool} {a b : IState} (h : IRel s a b) : b.backticks = a.backticks := by
  obtain ⟨m, cs, rfl, _, _⟩ := h.out; rfl

theorem IRel.of_eqs {s : Bool} {a b : IState} (h1 : b.src = a.src) (h2 : b.pos = a.pos)
    (h3 : b.posMax = a.posMax) (h4 : b.level = a.level) (h5 : b.linkLevel = a.linkLevel)
    (h6 : b.cache = a.cache) (h7 : b.backticks = a.backticks) (h8 : b.bottoms = a.bottoms)
    (hm : MRel s a.srcmap b.srcmap) (hc : LRel s a.children b.children) : IRel s a b := by
  refine ⟨?_, hm, hc⟩
  cases a; cases b; simp only [] at *
  simp only [h1, h2, h3, h4, h5, h6, h7, h8]

theorem parseLink_sim {s : Bool} {cfg : Cfg} {skip : IState → Except Panic IState} (hs : SimFn s skip)
    {fuel : Nat} {a b : IState} {pos : Nat} {en : Bool} {r : Option LinkRes × IState} (rel : IRel s a b)
    (h : parseLink cfg skip fuel a pos en = .ok r) :
    Sim s (PRel s) r (parseLink cfg skip fuel b pos en) := by
  unfold parseLink at h ⊢
  split at h
  · simp at h
  · next a1 hl =>
    simp only [Except.ok.injEq] at h; subst h
    rcases (parseLinkLabel_sim hs rel hl).cases with ⟨⟨o₂, b1⟩, e2, ho, rel1⟩ | ⟨hs', e, e2⟩
    · simp only [] at ho rel1; subst ho; rw [e2]; exact ⟨rfl, rel1⟩
    · rw [e2]; exact hs'
  · next le a1 hl =>
    rcases (parseLinkLabel_sim hs rel hl).cases with ⟨⟨o₂, b1⟩, e2, ho, rel1⟩ | ⟨hs', e, e2⟩
    · simp only [] at ho rel1; subst ho; rw [e2]
      simp only [rel1.src, rel1.posMax] at h ⊢
      split at h
      · simp at h
      · simp only [Except.ok.injEq] at h; subst h; exact ⟨rfl, rel1⟩
      · exact parseLinkRef_sim hs rel1 h
    · rw [e2]; exact hs'

theorem linkRule_sim {s : Bool} {cfg : Cfg} {skip tok : IState → Except Panic IState} (hs : SimFn s skip)
    (ht : SimFn s tok) {fuel : Nat} {mk : List Nat → Option (List Char) → Val} {en : Bool} {offset : Nat}
    {a b : IState} {silent : Bool} {r : Option Nat × IState} (rel : IRel s a b)
    (h : linkRule cfg skip tok fuel mk en offset a silent = .ok r) :
    Sim s (ORel s) r (linkRule cfg skip tok fuel mk en offset b silent) := by
  unfold linkRule at h ⊢
  simp only [rel.pos] at h ⊢
  split at h
  · simp at h
  · next a1 hpl =>
    simp only [Except.ok.injEq] at h; subst h
    rcases (parseLink_sim hs rel hpl).cases with ⟨⟨o₂, b1⟩, e2, ho, rel1⟩ | ⟨hs', e, e2⟩
    · simp only [] at ho rel1; subst ho; rw [e2]; exact ⟨rfl, rel1⟩
    · rw [e2]; exact hs'
  · next res a1 hpl =>
    rcases (parseLink_sim hs rel hpl).cases with ⟨⟨o₂, b1⟩, e2, ho, rel1⟩ | ⟨hs', e, e2⟩
    · simp only [] at ho rel1; subst ho; rw [e2]
      simp only [rel1.pos, rel1.posMax, rel1.level, rel1.linkLevel, rel1.bottoms] at h ⊢
      split at h
      · next hsil =>
        rw [if_pos hsil]
        split at h
        · simp at h
        · next hu => rw [if_neg hu]; simp only [Except.ok.injEq] at h; subst h; exact ⟨rfl, rel1⟩
      · next hsil =>
        rw [if_neg hsil]
        have rel2 : IRel s
            { a1 with children := [], bottoms := [], linkLevel := a1.linkLevel + 1, level := a1.level + 1,
                      pos := res.labelStart, posMax := res.labelEnd }
            { b1 with children := [], bottoms := [], linkLevel := a1.linkLevel + 1, level := a1.level + 1,
                      pos := res.labelStart, posMax := res.labelEnd } := by
          exact IRel.of_eqs rel1.src rfl rfl rfl rfl rel1.cache rel1.backticks rfl rel1.map (by simp)
        split at h
        · simp at h
        · next a3 htok =>
          rcases (ht _ _ _ rel2 htok).cases with ⟨b3, e3, rel3⟩ | ⟨hs', e, e3⟩
          · rw [e3]; simp only [rel3.level, rel3.pos, rel3.linkLevel]
            split at h
            · simp at h
            · next hlv =>
              rw [if_neg hlv]
              split at h
              · simp at h
              · next rr hg =>
                obtain ⟨m3, cs3, rfl, hm3, hc3⟩ := rel3.out
                rcases (getMapSt_sim (cs := cs3) hm3 (liftR_ok.mp hg)).liftR.cases with
                  ⟨r₂, e4, hr⟩ | ⟨hs', e, e4⟩
                · rw [e4]; simp only []
                  split at h
                  · simp at h
                  · next hu =>
                    rw [if_neg hu]
                    simp only [Except.ok.injEq] at h; subst h
                    exact ⟨rfl, IRel.of_eqs rfl rfl rfl rfl rfl rfl rfl rfl hm3 (rel1.ch.snoc (NRel.mk' hr hc3))⟩
                · rw [e4]; exact hs'
          · rw [e3]; exact hs'
    · rw [e2]; exact hs'

/-! ## the chain, both loop bodies, the induction on fuel -/

theorem ruleLink_sim {s : Bool} {cfg : Cfg} {skip tok : IState → Except Panic IState} (hs : SimFn s skip)
    (ht : SimFn s tok) {fuel : Nat} {a b : IState} {silent : Bool} {r : Option Nat × IState}
    (rel : IRel s a b) (h : ruleLink cfg skip tok fuel a silent = .ok r) :
    Sim s (ORel s) r (ruleLink cfg skip tok fuel b silent) := by
  unfold ruleLink at h ⊢
  rw [rel.window]
  split at h
  · simp at h
  · simp at h
  · split at h
    · next hc => rw [if_pos hc]; simp only [Except.ok.injEq] at h; subst h; exact ⟨rfl, rel⟩
    · next hc => rw [if_neg hc]; exact linkRule_sim hs ht rel h

theorem ruleImage_sim {s : Bool} {cfg : Cfg} {skip tok : IState → Except Panic IState} (hs : SimFn s skip)
    (ht : SimFn s tok) {fuel : Nat} {a b : IState} {silent : Bool} {r : Option Nat × IState}
    (rel : IRel s a b) (h : ruleImage cfg skip tok fuel a silent = .ok r) :
    Sim s (ORel s) r (ruleImage cfg skip tok fuel b silent) := by
  unfold ruleImage at h ⊢
  rw [rel.window]
  split at h
  · simp at h
  · exact linkRule_sim hs ht rel h
  · simp only [Except.ok.injEq] at h; subst h; exact ⟨rfl, rel⟩

theorem liftR_sim {s : Bool} {α β : Type} {R : α → β → Prop} {a : α} {x : Except RPanic α}
    {y : Except RPanic β} (hxy : ∀ a, x = .ok a → Sim s R a y) (h : liftR x = .ok a) :
    Sim s R a (liftR y) := (hxy a (liftR_ok.mp h)).liftR

theorem runRule_sim {s : Bool} {cfg : Cfg} {skip tok : IState → Except Panic IState} (hs : SimFn s skip)
    (ht : SimFn s tok) {fuel : Nat} {id : RuleId} {a b : IState} {silent : Bool}
    {r : Option Nat × IState} (rel : IRel s a b) (h : runRule cfg skip tok fuel id a silent = .ok r) :
    Sim s (ORel s) r (runRule cfg skip tok fuel id b silent) := by
  unfold runRule at h ⊢
  cases id with
  | text => exact liftR_sim (fun _ h' => ruleText_sim rel h') h
  | newline => exact liftR_sim (fun _ h' => ruleNewline_sim rel h') h
  | escape => exact liftR_sim (fun _ h' => ruleEscape_sim rel h') h
  | backticks => exact liftR_sim (fun _ h' => ruleBackticks_sim rel h') h
  | emph mk csw => exact liftR_sim (fun _ h' => ruleEmph_sim rel h') h
  | link => exact ruleLink_sim hs ht rel h
  | image => exact ruleImage_sim hs ht rel h
  | linkEnd => simp only [Except.ok.injEq] at h; subst h; exact ⟨rfl, rel⟩
  | autolink => exact liftR_sim (fun _ h' => ruleAutolink_sim rel h') h
  | entity => exact liftR_sim (fun _ h' => ruleEntity_sim rel h') h

theorem firstRule_sim {s : Bool} {run : RuleId → IState → RuleRes}
    (hrun : ∀ id a b r, IRel s a b → run id a = .ok r → Sim s (ORel s) r (run id b)) :
    ∀ (rules : List RuleId) (a b : IState) (r : Option Nat × IState), IRel s a b →
      firstRule run rules a = .ok r → Sim s (ORel s) r (firstRule run rules b) := by
  intro rules
  induction rules with
  | nil =>
    intro a b r rel h
    simp only [firstRule, Except.ok.injEq] at h ⊢; subst h; exact ⟨rfl, rel⟩
  | cons id rs ih =>
    intro a b r rel h
    unfold firstRule at h ⊢
    split at h
    · simp at h
    · next n a1 hr =>
      simp only [Except.ok.injEq] at h; subst h
      rcases (hrun _ _ _ _ rel hr).cases with ⟨⟨o₂, b1⟩, e2, ho, rel1⟩ | ⟨hs', e, e2⟩
      · simp only [] at ho rel1; subst ho; rw [e2]; exact ⟨rfl, rel1⟩
      · rw [e2]; exact hs'
    · next a1 hr =>
      rcases (hrun _ _ _ _ rel hr).cases with ⟨⟨o₂, b1⟩, e2, ho, rel1⟩ | ⟨hs', e, e2⟩
      · simp only [] at ho rel1; subst ho; rw [e2]; exact ih _ _ _ rel1 h
      · rw [e2]; exact hs'

theorem silentBumped_sim {s : Bool} {run : IState → Bool → RuleRes}
    (hrun : ∀ a b r, IRel s a b → run a true = .ok r → Sim s (ORel s) r (run b true))
    {a b : IState} {r : Option Nat × IState} (rel : IRel s a b) (h : silentBumped run a = .ok r) :
    Sim s (ORel s) r (silentBumped run b) := by
  unfold silentBumped at h ⊢
  have rel0 : IRel s { a with level := a.level + 1 } { b with level := b.level + 1 } :=
    IRel.of_eqs rel.src rel.pos rel.posMax (by simp only [rel.level]) rel.linkLevel rel.cache
      rel.backticks rel.bottoms rel.map rel.ch
  split at h
  · simp at h
  · next o a1 hr =>
    rcases (hrun _ _ _ rel0 hr).cases with ⟨⟨o₂, b1⟩, e2, ho, rel1⟩ | ⟨hs', e, e2⟩
    · simp only [] at ho rel1; subst ho; rw [e2]; simp only [rel1.level]
      split at h
      · simp at h
      · next hl =>
        rw [if_neg hl]
        simp only [Except.ok.injEq] at h; subst h
        exact ⟨rfl, IRel.of_eqs rel1.src rel1.pos rel1.posMax rfl rel1.linkLevel rel1.cache
          rel1.backticks rel1.bottoms rel1.map rel1.ch⟩
    · rw [e2]; exact hs'

theorem firstChar_rel {s : Bool} {a b : IState} (rel : IRel s a b) : firstChar b = firstChar a := by
  unfold firstChar; rw [rel.window]

theorem tokStep_sim {s : Bool} {cfg : Cfg} {skip tok : IState → Except Panic IState} (hs : SimFn s skip)
    (ht : SimFn s tok) {fuel : Nat} {a b a' : IState} (rel : IRel s a b)
    (h : tokStep cfg skip tok fuel a = .ok a') : Sim s (IRel s) a' (tokStep cfg skip tok fuel b) := by
  unfold tokStep at h ⊢
  simp only [rel.level] at h ⊢
  have hok : ∀ r, (if a.level < cfg.maxNesting then
        firstRule (fun id s => runRule cfg skip tok fuel id s false) cfg.chain a else .ok (none, a)) = .ok r →
      Sim s (ORel s) r (if a.level < cfg.maxNesting then
        firstRule (fun id s => runRule cfg skip tok fuel id s false) cfg.chain b else .ok (none, b)) := by
    intro r hr
    split at hr
    · next hl =>
      rw [if_pos hl]
      exact firstRule_sim (run := fun id s => runRule cfg skip tok fuel id s false)
        (fun id a b r rel h => runRule_sim hs ht rel h) _ _ _ _ rel hr
    · next hl =>
      rw [if_neg hl]
      simp only [Except.ok.injEq] at hr; subst hr; exact ⟨rfl, rel⟩
  split at h
  · simp at h
  · next len a1 hr =>
    simp only [Except.ok.injEq] at h; subst h
    rcases (hok _ hr).cases with ⟨⟨o₂, b1⟩, e2, ho, rel1⟩ | ⟨hs', e, e2⟩
    · simp only [] at ho rel1; subst ho; rw [e2]
      exact IRel.of_eqs rel1.src (by simp only [rel1.pos]) rel1.posMax rel1.level rel1.linkLevel rel1.cache
        rel1.backticks rel1.bottoms rel1.map rel1.ch
    · rw [e2]; exact hs'
  · next a1 hr =>
    rcases (hok _ hr).cases with ⟨⟨o₂, b1⟩, e2, ho, rel1⟩ | ⟨hs', e, e2⟩
    · simp only [] at ho rel1; subst ho; rw [e2]
      simp only [firstChar_rel rel1, rel1.pos]
      split at h
      · simp at h
      · next ch hch =>
        split at h
        · simp at h
        · next a2 hp =>
          simp only [Except.ok.injEq] at h; subst h
          rcases (pushText_sim rel1 (liftR_ok.mp hp)).liftR.cases with ⟨b2, e3, rel2⟩ | ⟨hs', e, e3⟩
          · rw [e3]
            exact IRel.of_eqs rel2.src (by simp only [rel2.pos]) rel2.posMax rel2.level rel2.linkLevel
              rel2.cache rel2.backticks rel2.bottoms rel2.map rel2.ch
          · rw [e3]; exact hs'
    · rw [e2]; exact hs'

theorem skipStep_sim {s : Bool} {cfg : Cfg} {skip tok : IState → Except Panic IState} (hs : SimFn s skip)
    (ht : SimFn s tok) {fuel : Nat} {a b a' : IState} (rel : IRel s a b)
    (h : skipStep cfg skip tok fuel a = .ok a') : Sim s (IRel s) a' (skipStep cfg skip tok fuel b) := by
  unfold skipStep at h ⊢
  simp only [rel.pos] at h ⊢
  have hok := fun r => firstRule_sim (s := s)
    (run := fun id s => silentBumped (runRule cfg skip tok fuel id) s)
    (fun id a b r rel h => silentBumped_sim (fun a b r rel h => runRule_sim hs ht rel h) rel h)
    cfg.chain a b r rel
  split at h
  · simp at h
  · next len a1 hr =>
    simp only [Except.ok.injEq] at h; subst h
    rcases (hok _ hr).cases with ⟨⟨o₂, b1⟩, e2, ho, rel1⟩ | ⟨hs', e, e2⟩
    · simp only [] at ho rel1; subst ho; rw [e2]
      exact IRel.of_eqs rel1.src (by simp only [rel1.pos]) rel1.posMax rel1.level rel1.linkLevel
        (by simp only [rel1.cache, rel1.pos]) rel1.backticks rel1.bottoms rel1.map rel1.ch
    · rw [e2]; exact hs'
  · next a1 hr =>
    rcases (hok _ hr).cases with ⟨⟨o₂, b1⟩, e2, ho, rel1⟩ | ⟨hs', e, e2⟩
    · simp only [] at ho rel1; subst ho; rw [e2]
      simp only [firstChar_rel rel1]
      split at h
      · simp at h
      · next ch hch =>
        simp only [Except.ok.injEq] at h; subst h
        exact IRel.of_eqs rel1.src (by simp only [rel1.pos]) rel1.posMax rel1.level rel1.linkLevel
          (by simp only [rel1.cache, rel1.pos]) rel1.backticks rel1.bottoms rel1.map rel1.ch
    · rw [e2]; exact hs'

/-- **the lock-step simulation through the whole tokenizer**, by induction on the fuel -/
theorem sim_induction (s : Bool) (cfg : Cfg) : ∀ fuel : Nat,
    SimFn s (fun st => skipToken cfg fuel st) ∧
    (∀ (e : Nat) (a b a' : IState), IRel s a b → tokLoop cfg fuel e a = .ok a' →
      Sim s (IRel s) a' (tokLoop cfg fuel e b)) := by
  intro fuel
  induction fuel with
  | zero =>
    constructor
    · intro a b a' rel h; simp [skipToken] at h
    · intro e a b a' rel h
      unfold tokLoop at h ⊢
      rw [rel.pos]
      split at h
      · simp at h
      · next hp => rw [if_neg hp]; simp only [Except.ok.injEq] at h; subst h; exact rel
  | succ f ih =>
    obtain ⟨ihS, ihT⟩ := ih
    have ht : SimFn s (fun st => tokLoop cfg f st.posMax st) := by
      intro a b a' rel h
      have := ihT _ _ _ _ rel h
      simp only [rel.posMax]; exact this
    constructor
    · intro a b a' rel h
      simp only [] at h ⊢
      unfold skipToken at h ⊢
      simp only [rel.cache, rel.pos, rel.level, rel.posMax] at h ⊢
      split at h
      · next x hx =>
        simp only [Except.ok.injEq] at h; subst h
        exact IRel.of_eqs rel.src rfl rfl rfl rel.linkLevel rfl rel.backticks
          rel.bottoms rel.map rel.ch
      · next hx =>
        split at h
        · next hl => rw [if_pos hl]; exact skipStep_sim ihS ht rel h
        · next hl =>
          rw [if_neg hl]
          simp only [Except.ok.injEq] at h; subst h
          exact IRel.of_eqs rel.src rfl rfl rfl rel.linkLevel rfl
            rel.backticks rel.bottoms rel.map rel.ch
    · intro e a b a' rel h
      unfold tokLoop at h ⊢
      rw [rel.pos]
      split at h
      · next hp =>
        rw [if_pos hp]
        simp only [] at h ⊢
        split at h
        · simp at h
        · next a1 hstep =>
          rcases (tokStep_sim ihS ht rel hstep).cases with ⟨b1, e2, rel1⟩ | ⟨hs', e', e2⟩
          · rw [e2]; exact ihT _ _ _ _ rel1 h
          · rw [e2]; exact hs'
      · next hp => rw [if_neg hp]; simp only [Except.ok.injEq] at h; subst h; exact rel

/-! ## `md.inline.parse` -/

theorem parseInline_sim (s : Bool) (cfg : Cfg) (content : List Char) {m₁ m₂ : Srcmap} (hm : MRel s m₁ m₂)
    {ns₁ : List Node} (h : parseInline cfg content m₁ = .ok ns₁) :
    Sim s (LRel s) ns₁ (parseInline cfg content m₂) := by
  unfold parseInline tokenize at h ⊢
  have rel0 : IRel s (IState.init content m₁) (IState.init content m₂) :=
    IRel.of_eqs rfl rfl rfl rfl rfl rfl rfl rfl hm (by simp [IState.init])
  split at h
  · simp at h
  · next a' ha =>
    simp only [Except.ok.injEq] at h; subst h
    have hpm : (IState.init content m₂).posMax = (IState.init content m₁).posMax := rfl
    rcases ((sim_induction s cfg _).2 _ _ _ _ rel0 ha).cases with ⟨b', e2, rel1⟩ | ⟨hs', e, e2⟩
    · rw [hpm, e2]; exact rel1.ch
    · rw [hpm, e2]; exact hs'

/-! ## from the relation to the document tree without ranges -/

mutual
theorem eraseRanges_of_NRel : ∀ (a b : Node), NRel false a b →
    Pipeline.eraseRanges (Pipeline.ofInline a) = Pipeline.eraseRanges (Pipeline.ofInline b)
  | ⟨v₁, r₁, cs₁⟩, ⟨v₂, r₂, cs₂⟩, h => by
    rw [NRel_iff] at h
    simp only [] at h
    simp only [Pipeline.ofInline, Pipeline.eraseRanges, h.1, eraseRangesList_of_LRel cs₁ cs₂ h.2.2]
theorem eraseRangesList_of_LRel : ∀ (l₁ l₂ : List Node), LRel false l₁ l₂ →
    Pipeline.eraseRangesList (Pipeline.ofInlineList l₁) = Pipeline.eraseRangesList (Pipeline.ofInlineList l₂)
  | [], [], _ => rfl
  | [], _ :: _, h => absurd h (LRel_nil_cons _ _ _)
  | _ :: _, [], h => absurd h (LRel_cons_nil _ _ _)
  | a :: as, b :: bs, h => by
    rw [LRel_cons_cons] at h
    simp only [Pipeline.ofInlineList, Pipeline.eraseRangesList, eraseRanges_of_NRel a b h.1,
      eraseRangesList_of_LRel as bs h.2]
end

end MdIt.Inline

namespace MdIt.Pipeline
open MdIt.Inline

/-- **Goal 1.**  For one text, the children `md.inline.parse` returns under ANY two per-line tables
    differ in their ranges only. -/
theorem inline_range_free (icfg : Inline.Cfg) : InlineRangeFree icfg := by
  intro content m₁ m₂ ns₁ ns₂ h₁ h₂
  have := parseInline_sim false icfg content (m₁ := m₁) (m₂ := m₂) (fun h => by cases h) h₁
  rw [h₂] at this
  exact eraseRangesList_of_LRel _ _ this

/-- **Goal 2, with the relation of the results.**  Same keys and pointwise larger values: the second
    run succeeds when the first does, with the same tree up to ranges, every range present on one side
    present on the other, and both components pointwise `≥`. -/
theorem inline_ok_transfer_rel (icfg : Inline.Cfg) (content : List Char) (m₁ m₂ : InlineOps.Srcmap)
    (h : MLe m₁ m₂) (ns₁ : List Inline.Node) (h₁ : Inline.parseInline icfg content m₁ = .ok ns₁) :
    ∃ ns₂, Inline.parseInline icfg content m₂ = .ok ns₂ ∧ LRel true ns₁ ns₂ := by
  have := parseInline_sim true icfg content (m₁ := m₁) (m₂ := m₂) (fun _ => h) h₁
  cases h2 : Inline.parseInline icfg content m₂ with
  | ok ns₂ => rw [h2] at this; exact ⟨ns₂, rfl, this⟩
  | error e => rw [h2] at this; cases this

/-- **Goal 2.**  One-directional no-panic transfer. -/
theorem inline_ok_transfer (icfg : Inline.Cfg) (content : List Char) (m₁ m₂ : InlineOps.Srcmap)
    (h : MLe m₁ m₂) (ns₁ : List Inline.Node) (h₁ : Inline.parseInline icfg content m₁ = .ok ns₁) :
    ∃ ns₂, Inline.parseInline icfg content m₂ = .ok ns₂ :=
  let ⟨ns₂, h₂, _⟩ := inline_ok_transfer_rel icfg content m₁ m₂ h ns₁ h₁
  ⟨ns₂, h₂⟩

/-! ### non-vacuity, and the hypotheses of Goal 2 are needed -/

/-- ok or not -/
def isOk {ε α : Type} : Except ε α → Bool
  | .ok _ => true
  | .error _ => false

/-- the error, if any -/
def errOf {ε α : Type} : Except ε α → Option ε
  | .ok _ => none
  | .error e => some e

-- Goal 1 on a run with emphasis, a hard break (trailing-text pop) and a link, under two tables with
-- different keys AND values: both succeed, ranges differ.
example :
    isOk (Inline.parseInline (Inline.exCfg 100) "a *b*  \n[c](/u)".toList [(0, 0), (8, 8)]) = true ∧
    isOk (Inline.parseInline (Inline.exCfg 100) "a *b*  \n[c](/u)".toList [(0, 5), (3, 20), (8, 40)]) = true ∧
    (Inline.parseInline (Inline.exCfg 100) "a *b*  \n[c](/u)".toList [(0, 0), (8, 8)]).toOption.map
        (fun ns => ns.map (·.range)) ≠
      (Inline.parseInline (Inline.exCfg 100) "a *b*  \n[c](/u)".toList [(0, 5), (3, 20), (8, 40)]).toOption.map
        (fun ns => ns.map (·.range)) := by
  decide +kernel

-- Goal 2: an instance of the hypothesis …
example : MLe [(0, 0), (8, 8)] [(0, 3), (8, 30)] := by
  refine ⟨rfl, ?_⟩
  intro i k₁ v₁ k₂ v₂ h₁ h₂
  match i, h₁, h₂ with
  | 0, h₁, h₂ => simp at h₁ h₂; omega
  | 1, h₁, h₂ => simp at h₁ h₂; omega
  | n + 2, h₁, _ => simp at h₁

-- … the order of the values matters: with the same keys and SMALLER values the hard break's
-- `map_end - count` underflows (text `x  ` ends at source offset 0 under the second table) …
example :
    isOk (Inline.parseInline (Inline.exCfg 100) "x  \ny".toList [(0, 0), (1, 1), (2, 2), (3, 3)]) = true ∧
    errOf (Inline.parseInline (Inline.exCfg 100) "x  \ny".toList [(0, 0), (1, 0), (2, 0), (3, 0)]) =
      some (.rust .underflow) := by
  decide +kernel

-- … and so do the keys: with a first key above 0 the table has no line for offset 0.
example :
    isOk (Inline.parseInline (Inline.exCfg 100) "x".toList [(0, 0)]) = true ∧
    errOf (Inline.parseInline (Inline.exCfg 100) "x".toList [(1, 0)]) = some (.rust .underflow) := by
  decide +kernel

end MdIt.Pipeline
