/-
  C11 at DOCUMENT level: fenced and indented code is reproduced verbatim by the whole pipeline.

  `Props/Block.fence_verbatim` / `indented_verbatim` are statements about the two block RULES on a
  fresh state.  Here they are composed with
    * the block tokenizer loop (`Block.tokenize` on `BState.fresh src .root []`: one iteration in
      which the chain reaches the rule — `runChain_reach`, `quiet_on_fence`, `quiet_on_code` —, then
      the exit test: `tokLoop_single`, `parseBlocks_single`) — `parseBlocks_fence`, `parseBlocks_code`,
      with the EXACT range of the node (`fence_range`, `code_range`, `OnDoc.firstNonspace_first`,
      `OnDoc.lineEnd_last`, `getLines_four_first`);
    * the core chain behind the block pass (`afterBlocks_rootLeaf`: splice walk without inline run,
      `FragmentsJoin` = identity, `SyntaxPosRule` = `spAttrs`);
    * the renderer (`renderEvents_rootFence` / `_rootCode`, `serialize_pre_code`).

  PROPERTY theorems (for ANY `DocCfg` whose block chain reaches the rule on the first line through
  rules that cannot fire there, `0 < max_nesting`; any inline chain, join pass or not):
    `doc_fence_verbatim_sp`, `doc_fence_verbatim`        the tree `Root[CodeFence]`, exactly (ranges, attrs)
    `doc_fence_render_sp`, `doc_fence_render`            `render` / `xrender`, exactly
    `doc_indented_verbatim_sp`, `doc_indented_verbatim`  the tree `Root[CodeBlock]`, exactly
    `doc_indented_render_sp`, `doc_indented_render`      `render` / `xrender`, exactly
    `…_mem`                                              the same with `fence ∈ chain` + a condition on the
                                                         rules in front of its first occurrence
  Each hypothesis on the configuration and on `T` that goes beyond those of the rule-level theorems
  has a necessity witness in section 9 (`paragraph` / `lheading` in front, `max_nesting = 0`, blank
  first line).  "Verbatim" at the output is up to `escape_html` and the serializer's NUL → U+FFFD.
-/
import MdIt.Props.Pipeline

namespace MdIt.Block
open MdIt.Lines (LineOffset NoTerm lead)

set_option linter.unusedSimpArgs false

/-! ## 1. one iteration of the tokenizer loop, then the exit -/

/-- the rules in front of the one that fires answer `false` and hand the state back -/
theorem runChain_reach {run : RuleId → BState → Bool → Res} {pre post : List RuleId} {r : RuleId}
    {s s' : BState} (hpre : ∀ q ∈ pre, run q s false = .ok (false, s))
    (hr : run r s false = .ok (true, s')) :
    runChain run (pre ++ r :: post) s false = .ok (true, s') := by
  induction pre with
  | nil => simp [runChain, hr]
  | cons q qs ih =>
    simp only [List.cons_append, runChain, hpre q (by simp)]
    exact ih (fun x hx => hpre x (List.mem_cons_of_mem _ hx))

/-- the tokenizer loop on a state whose current line is not empty, at a non-negative indent, below
    the nesting limit: when the chain answers `true` and leaves `line = line_max`, the loop ends
    after this one iteration (`fuel ≥ 2`: the iteration and the exit test) -/
theorem tokLoop_single {cfg : Cfg} {run : RuleId → BState → Bool → Res} (f : Nat) (he : Bool)
    {s s' : BState} {i : Int} (hlt : s.line < s.lineMax) (hne : s.isEmpty s.line = false)
    (hind : s.lineIndent s.line = .ok i) (hi : 0 ≤ i) (hlvl : s.level < cfg.maxNesting)
    (hchain : runChain run cfg.chain s false = .ok (true, s'))
    (hprog : s.line < s'.line) (hend : s'.line = s'.lineMax) :
    tokLoop cfg run (f + 2) he s = .ok { s' with tight := !he } := by
  have hskip : Lines.skipEmptyLines s.offs s.lineMax s.line = s.line :=
    (skipEmpty_spec s.offs s.lineMax s.line).2.2.1 hne
  have h1 : 1 ≤ s'.line := by omega
  rw [tokLoop]
  simp only [hlt, not_true_eq_false, if_false, hskip, hind, ok_bind, hchain, afterChain, if_true,
    hprog, pure, Except.pure, psub, h1]
  rw [if_neg (by omega), if_neg (by omega), if_neg (by omega), if_neg (by omega), tokLoop,
    if_pos (by simp only []; omega)]

theorem tokenize_succ (cfg : Cfg) (f : Nat) :
    tokenize cfg (f + 1) = tokLoop cfg (ruleAt cfg f) (f + 1) false := rfl

/-- `parseBlocks` when the chain, on the first line, reaches a rule that consumes the document -/
theorem parseBlocks_single {cfg : Cfg} {src : List Char} {s' : BState} {i : Int}
    (hmn : 0 < cfg.maxNesting)
    (hlt : 0 < (BState.fresh src .root []).lineMax)
    (hne : (BState.fresh src .root []).isEmpty 0 = false)
    (hind : (BState.fresh src .root []).lineIndent 0 = .ok i) (hi : 0 ≤ i)
    (hchain : ∀ f, runChain (ruleAt cfg f) cfg.chain (BState.fresh src .root []) false = .ok (true, s'))
    (hprog : 0 < s'.line) (hend : s'.line = s'.lineMax) (hk : s'.nodeKind = .root) :
    parseBlocks cfg src = .ok (⟨.root, some (0, Lines.byteLen src), s'.children⟩, s'.refs) := by
  obtain ⟨f, hf⟩ : ∃ f, fuelFor cfg src = f + 2 := ⟨(Lines.splitLines src).length + min cfg.maxNesting (Lines.byteLen src) + 6, by unfold fuelFor; omega⟩
  unfold parseBlocks
  rw [hf, tokenize_succ,
    tokLoop_single (cfg := cfg) f false (s := BState.fresh src .root []) hlt hne hind hi hmn (hchain _) hprog hend]
  simp [hk]

/-! ## 2. the rules in front of `fence` / `code` on the first line -/

/-- the rules that cannot fire on a line that starts, at an indent below 4, with a fence marker
    (`paragraph` and `lheading` would claim the line) -/
def QuietOnFence (r : RuleId) : Prop :=
  r = .code ∨ r = .blockquote ∨ r = .hr ∨ r = .list ∨ r = .reference ∨ r = .heading

/-- the rules that answer `false` on a line indented by 4 or more (`paragraph` would claim it) -/
def QuietOnCode (r : RuleId) : Prop :=
  r = .fence ∨ r = .blockquote ∨ r = .hr ∨ r = .list ∨ r = .reference ∨ r = .heading ∨ r = .lheading

theorem quiet_on_fence {cfg : Cfg} {tok : Tok} {test : Test} {fuel : Nat} {r : RuleId}
    (hr : QuietOnFence r) {s : BState} {i : Int} {m : Char} {rest : List Char}
    (hind : s.lineIndent s.line = .ok i) (hi : i < 4) (hgl : s.getLine s.line = .ok (m :: rest))
    (hm : m = '`' ∨ m = '~') (hli : s.listIndent = none) :
    runRule cfg tok test fuel r s false = .ok (false, s) := by
  rcases hr with rfl | rfl | rfl | rfl | rfl | rfl
  · simp [runRule, codeRule, hind, hi, pure, Except.pure]
  · rcases hm with rfl | rfl <;>
      simp [runRule, blockquoteRule, hind, hi, hgl, pure, Except.pure]
  · rcases hm with rfl | rfl <;>
      simp [runRule, hrRule, hind, hi, hgl, pure, Except.pure]
  · rcases hm with rfl | rfl <;>
      simp [runRule, listRule, hind, hi, hgl, hli, listSpecial, detectMarker, skipOrdered, skipBullet, isDigit,
        pure, Except.pure]
  · rcases hm with rfl | rfl <;>
      simp [runRule, referenceRule, hind, hi, hgl, pure, Except.pure]
  · rcases hm with rfl | rfl <;>
      simp [runRule, headingRule, hind, hi, hgl, pure, Except.pure]

theorem quiet_on_code {cfg : Cfg} {tok : Tok} {test : Test} {fuel : Nat} {r : RuleId}
    (hr : QuietOnCode r) {s : BState} {i : Int} (hind : s.lineIndent s.line = .ok i) (hi : 4 ≤ i) :
    runRule cfg tok test fuel r s false = .ok (false, s) := by
  rcases hr with rfl | rfl | rfl | rfl | rfl | rfl | rfl
  · simp [runRule, fenceRule, hind, hi, pure, Except.pure]
  · simp [runRule, blockquoteRule, hind, hi, pure, Except.pure]
  · simp [runRule, hrRule, hind, hi, pure, Except.pure]
  · simp [runRule, listRule, hind, hi, pure, Except.pure]
  · simp [runRule, referenceRule, hind, hi, pure, Except.pure]
  · simp [runRule, headingRule, hind, hi, pure, Except.pure]
  · simp [runRule, lheadingRule, hind, hi, pure, Except.pure]

/-! ## 3. the block pass on the two documents -/

theorem fence_refs {s s' : BState} {b : Bool} (h : fenceRule s false = .ok (b, s')) : s'.refs = s.refs := by
  unfold fenceRule at h
  crack h
  all_goals (subst_vars; rfl)

theorem code_refs {s s' : BState} {b : Bool} (h : codeRule s false = .ok (b, s')) : s'.refs = s.refs := by
  unfold codeRule at h
  crack h
  all_goals (subst_vars; rfl)

/-! ### the range of the node: where the first line's text starts, where the source ends -/

theorem fence_range {s s' : BState} (h : fenceRule s false = .ok (true, s')) (hl : s.line < s.lineMax) :
    ∃ k r, s'.children = s.children ++ [⟨k, some r, []⟩] ∧ s.getMap s.line (s'.line - 1) = .ok r := by
  unfold fenceRule at h
  crack h
  have hsc := fenceScan_spec _ _ _ _ _ _ ‹fenceScan _ _ _ _ = _› hl
  have hp := psub_ok ‹psub _ _ = _›
  have hmap := ‹BState.getMap _ _ _ = _›
  refine ⟨_, _, rfl, ?_⟩
  rw [← hmap]
  congr 1
  simp only []
  split at hp <;> simp_all <;> omega

theorem code_range {s s' : BState} (h : codeRule s false = .ok (true, s')) :
    ∃ k c m0 ms o, s'.children = s.children ++ [⟨k, some (m0.2, o.lineEnd), []⟩] ∧
      s.getLines s.line s'.line (4 + s.blkIndent) false = .ok (c, m0 :: ms) ∧
      s.offs[s'.line - 1]? = some o := by
  unfold codeRule at h
  crack h
  rename_i ind hind h4 last hscan cm hgl mapping m0 tl heq l1 hl1 o hoff hle
  have hp := psub_ok hl1
  have ho := off_ok hoff
  refine ⟨_, cm.1, m0, tl, o, rfl, ?_, ?_⟩
  · rw [← heq]; exact hgl
  · rw [hp.2] at ho; exact ho

theorem getLast?_docOf : ∀ (Ls : List (List Char)) (l : List Char), Ls.getLast? = some l → l ≠ [] →
    (docOf Ls).getLast? = l.getLast?
  | [], _, h, _ => by simp at h
  | [x], l, h, _ => by
    simp at h; subst h
    simp [docOf, Lines.joinLines]
  | x :: y :: r, l, h, hl => by
    have ih := getLast?_docOf (y :: r) l (by simpa [List.getLast?_cons_cons] using h) hl
    obtain ⟨c, hc⟩ : ∃ c, l.getLast? = some c := by
      cases hq : l.getLast? with
      | none => exact absurd (List.getLast?_eq_none_iff.mp hq) hl
      | some c => exact ⟨c, rfl⟩
    simp only [docOf, Lines.joinLines] at ih ⊢
    rw [List.getLast?_append, List.getLast?_cons, ih, hc]
    simp

theorem OnDoc.firstNonspace_first {Ls : List (List Char)} {s : BState} (h : OnDoc Ls s) (h0 : 0 < Ls.length)
    {o : LineOffset} (ho : s.offs[0]? = some o) : o.firstNonspace = Lines.byteLen (lead Ls[0]) := by
  obtain ⟨o', ho', hw, _, _⟩ := h.entry h0
  rw [ho] at ho'
  cases ho'
  have hst : o.lineStart = 0 := (Lines.split_offsets_valid (docOf Ls)).first o (by rw [← h.offs]; exact ho)
  obtain ⟨p, q, _, hp, hq⟩ := Lines.slice_eq_ok_iff.mp (by unfold Lines.lineWs at hw; exact hw)
  have hq' : o.lineStart + Lines.byteLen (lead Ls[0]) = o.firstNonspace := hq
  omega

theorem OnDoc.lineEnd_last {Ls : List (List Char)} {s : BState} (h : OnDoc Ls s)
    {o : LineOffset} (ho : s.offs[Ls.length - 1]? = some o) : o.lineEnd = Lines.byteLen s.src := by
  have hlen := h.length
  obtain ⟨t, ht, hsl⟩ := (Lines.split_offsets_valid (docOf Ls)).last o (by rw [← h.offs, hlen]; exact ho)
  obtain ⟨p, q, hsrc, hp, hq⟩ := Lines.slice_eq_ok_iff.mp hsl
  rw [h.src]
  rcases ht with rfl | ht
  · simpa using hq
  · exfalso
    have hq0 : q = [] := by
      apply Lines.byteLen_eq_zero
      have := congrArg Lines.byteLen hsrc
      simp only [Lines.byteLen_append] at this
      omega
    subst hq0
    obtain ⟨l, hl⟩ : ∃ l, Ls.getLast? = some l := by
      cases hq : Ls.getLast? with
      | none => exact absurd (List.getLast?_eq_none_iff.mp hq) h.ne
      | some l => exact ⟨l, rfl⟩
    have hlne : l ≠ [] := by intro hc; rw [hc] at hl; exact h.last hl
    have hlast := getLast?_docOf Ls l hl hlne
    have hnt := h.noTerm l (List.mem_of_getLast? hl)
    have ht' : ∃ c, t.getLast? = some c ∧ (c = '\n' ∨ c = '\r') := by
      rcases ht with rfl | rfl | rfl <;> simp
    obtain ⟨c, hc, hcc⟩ := ht'
    rw [hsrc] at hlast
    have : (p ++ t ++ []).getLast? = some c := by
      simp only [List.append_nil, List.getLast?_append, hc]; simp
    rw [this] at hlast
    have hmem : c ∈ l := List.mem_of_getLast? hlast.symm
    have := hnt c hmem
    rcases hcc with rfl | rfl <;> simp at this

theorem getMap_ok {s : BState} {a b : Nat} {r : Nat × Nat} (h : s.getMap a b = .ok r) :
    ∃ oa ob, s.offs[a]? = some oa ∧ s.offs[b]? = some ob ∧ r = (oa.firstNonspace, ob.lineEnd) := by
  unfold BState.getMap Lines.getMap at h
  split at h
  · cases h
  · split at h
    · rename_i oa ob ha hb
      simp only [liftL, Except.ok.injEq] at h
      exact ⟨oa, ob, ha, hb, h.symm⟩
    · cases h

/-- the first entry of the mapping `get_lines(0, |T|, 4, false)` returns on the lines of `T`, each
    behind four spaces: content byte 0 is source byte 4 -/
theorem getLines_four_first {T : List (List Char)} {s : BState} (hon : OnDoc (T.map (four ++ ·)) s)
    (hpos : 0 < T.length) {c : List Char} {m0 : Nat × Nat} {ms : List (Nat × Nat)}
    (h : s.getLines 0 T.length 4 false = .ok (c, m0 :: ms)) : m0 = (0, 4) := by
  obtain ⟨Ls, hLs⟩ : ∃ Ls, Ls = T.map (four ++ ·) := ⟨_, rfl⟩
  rw [← hLs] at hon
  have hlen : Ls.length = T.length := by simp [hLs]
  have holen := hon.length
  have h0 : 0 < Ls.length := by omega
  have hL0 : Ls[0] = four ++ T[0] := by simp [hLs]
  obtain ⟨ovs, hovs⟩ : ∃ ovs, ovs = s.offs.zip (Ls.map fun l =>
    ((lead l, l.dropWhile Lines.isBlank, (Lines.indentWidth (lead l) : Int)) : List Char × List Char × Int)) := ⟨_, rfl⟩
  have hol : ovs.length = T.length := by simp [hovs, holen, hlen]
  have hov : ∀ j (h : j < ovs.length), s.offs[0 + j]? = some ovs[j].1 ∧ Lines.Shows s.src ovs[j].1 ovs[j].2 := by
    intro j hj
    have hjL : j < Ls.length := by omega
    obtain ⟨o, ho, hsh⟩ := hon.entry hjL
    have hjo : j < s.offs.length := by omega
    have e1 : ovs[j] = (s.offs[j], (lead Ls[j], Ls[j].dropWhile Lines.isBlank,
        (Lines.indentWidth (lead Ls[j]) : Int))) := by
      simp [hovs, List.getElem_zip]
    have e2 : s.offs[j] = o := by
      have := List.getElem?_eq_getElem hjo
      rw [ho] at this
      exact (Option.some.inj this).symm
    rw [e1, e2]
    exact ⟨by simpa using ho, hsh⟩
  obtain ⟨content, hgl, _, _⟩ := Lines.get_lines_faithful s.src s.offs 0 4 false ovs hov
  rw [Nat.zero_add, hol] at hgl
  obtain ⟨ov0, ovr, hcons⟩ : ∃ a r, ovs = a :: r := by
    cases ovs with
    | nil => simp at hol; omega
    | cons a r => exact ⟨a, r, rfl⟩
  have hov0 := hov 0 (by omega)
  simp only [hcons, List.getElem_cons_zero, Nat.add_zero] at hov0
  have hv0 : ov0.2 = (four ++ lead T[0], T[0].dropWhile Lines.isBlank,
      (Lines.indentWidth (four ++ lead T[0]) : Int)) := by
    have : ovs[0]'(by omega) = ov0 := by simp [hcons]
    rw [← this]
    have hjo : 0 < s.offs.length := by omega
    simp only [hovs, List.getElem_zip, List.getElem_map]
    rw [hL0, lead_four, dropWhile_four]
  have hvalid := Lines.split_offsets_valid (docOf Ls)
  have hst0 : ov0.1.lineStart = 0 := by
    apply hvalid.first
    have := hov0.1
    rw [hon.offs] at this
    exact this
  have hmap0 : Lines.mapOf 4 0 ovs = (0, 4) :: (Lines.mapOf 4 0 ovs).tail := by
    rw [hcons]
    simp only [Lines.mapOf, hv0]
    have hcf := Lines.cut_four (lead T[0])
    have e : Lines.usizeAsI32 4 = 4 := by decide
    rw [show four ++ lead T[0] = [' ', ' ', ' ', ' '] ++ lead T[0] from rfl, e, hcf, hst0]
    simp
  have hgl' : s.getLines 0 T.length 4 false = .ok (content, Lines.mapOf 4 0 ovs) := by
    simp [BState.getLines, hgl, liftL]
  rw [hgl', hmap0] at h
  simp only [Except.ok.injEq, Prod.mk.injEq, List.cons.injEq] at h
  exact h.2.1.symm

/-- the fresh state over `mⁿ`, `T`, `mⁿ` -/
theorem onDoc_fence {m : Char} (hm : m = '`' ∨ m = '~') {n : Nat} (hn : 3 ≤ n) {T : List (List Char)}
    (hT : ∀ l ∈ T, NoTerm l) (k : Kind) (refs : Refs.RefMap) :
    OnDoc (fenceLine m n :: T ++ [fenceLine m n])
      (BState.fresh (docOf (fenceLine m n :: T ++ [fenceLine m n])) k refs) := by
  refine OnDoc.fresh (by simp) ?_ ?_ k refs
  · intro l hl
    simp only [List.cons_append, List.mem_cons, List.mem_append, List.mem_nil_iff, or_false] at hl
    rcases hl with rfl | hl | rfl
    · exact noTerm_fenceLine hm n
    · exact hT l hl
    · exact noTerm_fenceLine hm n
  · have : (fenceLine m n :: T ++ [fenceLine m n]).getLast? = some (fenceLine m n) := by
      rw [show fenceLine m n :: T ++ [fenceLine m n] = (fenceLine m n :: T) ++ [fenceLine m n] by simp]
      exact getLast?_snoc _ _
    rw [this]
    intro hc
    have := congrArg List.length (Option.some.inj hc)
    simp at this; omega

/-- **the block pass on a fenced document**: whatever stands in front of `fence` in the chain (of the
    rules that cannot fire on a fence line) and behind it, with `max_nesting > 0`, the block tree is
    `Root[CodeFence]` with the payload lines verbatim, and no reference was defined -/
theorem parseBlocks_fence (m : Char) (hm : m = '`' ∨ m = '~') (n : Nat) (hn : 3 ≤ n) (T : List (List Char))
    (hT : ∀ l ∈ T, NoTerm l) (hclose : ∀ l ∈ T, closes m n l = false)
    {cfg : Cfg} {pre post : List RuleId} (hchain : cfg.chain = pre ++ .fence :: post)
    (hpre : ∀ r ∈ pre, QuietOnFence r) (hmn : 0 < cfg.maxNesting) :
    parseBlocks cfg (docOf (fenceLine m n :: T ++ [fenceLine m n])) =
      .ok (⟨.root, some (0, Lines.byteLen (docOf (fenceLine m n :: T ++ [fenceLine m n]))),
            [⟨.codeFence [] m n (T.flatMap (· ++ ['\n'])),
              some (0, Lines.byteLen (docOf (fenceLine m n :: T ++ [fenceLine m n]))), []⟩]⟩, []) := by
  have hmb : Lines.isBlank m = false := by rcases hm with rfl | rfl <;> decide
  obtain ⟨s', r, hrule, hline, hend, hch⟩ := fence_verbatim m hm n hn T hT hclose .root []
  have hon := onDoc_fence hm hn hT .root []
  obtain ⟨Ls, hLs⟩ : ∃ Ls, Ls = fenceLine m n :: T ++ [fenceLine m n] := ⟨_, rfl⟩
  rw [← hLs] at hrule hon ⊢
  have h0 : 0 < Ls.length := by simp [hLs]
  have hL0 : Ls[0] = fenceLine m n := by simp [hLs]
  obtain ⟨j, rfl⟩ : ∃ j, n = j + 1 := ⟨n - 1, by omega⟩
  have hgl := hon.getLine h0
  have hli := hon.lineIndent h0
  have hem : (BState.fresh (docOf Ls) .root []).isEmpty 0 = false := by
    rw [hon.isEmpty h0]
    simp [hL0, fenceLine, List.replicate_succ, (lead_nonblank_cons _ hmb).2]
  rw [hL0] at hgl hli
  simp only [fenceLine, List.replicate_succ] at hgl hli
  rw [(lead_nonblank_cons _ hmb).2] at hgl
  rw [(lead_nonblank_cons _ hmb).1] at hli
  have hlen := hon.length
  have hlt : (BState.fresh (docOf Ls) .root []).line < (BState.fresh (docOf Ls) .root []).lineMax := by
    simp only [BState.fresh] at hlen ⊢; omega
  have hfr := (fence_advanced hrule hlt).frame
  have href := fence_refs hrule
  -- the range
  have hr : r = (0, Lines.byteLen (docOf Ls)) := by
    obtain ⟨k', r', hch', hmap⟩ := fence_range hrule hlt
    have hrr : r' = r := by
      rw [hch] at hch'
      simp only [BState.fresh, List.nil_append, List.cons.injEq, BNode.mk.injEq, Option.some.injEq, and_true,
        true_and] at hch'
      exact hch'.2.symm
    subst hrr
    obtain ⟨oa, ob, ha, hb, hr⟩ := getMap_ok hmap
    have hfa := hon.firstNonspace_first h0 ha
    have hlb := hon.lineEnd_last (o := ob) (by
      rw [show Ls.length - 1 = s'.line - 1 by simp [hLs, hline]]; exact hb)
    rw [hL0] at hfa
    simp only [fenceLine, List.replicate_succ, (lead_nonblank_cons _ hmb).1, Lines.byteLen_nil] at hfa
    rw [hr, hfa, hlb, hon.src]
  subst hr
  rw [← hch, show ([] : Refs.RefMap) = s'.refs from href.symm]
  refine parseBlocks_single (i := ((Lines.indentWidth [] : Nat) : Int)) hmn
    (by simp only [BState.fresh] at hlen ⊢; omega) hem hli (by omega) ?_ (by omega) hend
    (by rw [hfr.nodeKind]; rfl)
  intro f
  rw [hchain]
  refine runChain_reach (fun q hq => ?_) hrule
  exact quiet_on_fence (hpre q hq) hli (by simp [Lines.indentWidth, Lines.widthFrom]) hgl hm rfl

/-- the fresh state over the lines of `T`, each behind four spaces -/
theorem onDoc_code {T : List (List Char)} (hne : T ≠ []) (hT : ∀ l ∈ T, NoTerm l) (k : Kind)
    (refs : Refs.RefMap) :
    OnDoc (T.map (four ++ ·)) (BState.fresh (docOf (T.map (four ++ ·))) k refs) := by
  refine OnDoc.fresh (by simp [hne]) ?_ ?_ k refs
  · intro l hl
    obtain ⟨t, ht, rfl⟩ := List.mem_map.mp hl
    intro c hc
    rcases List.mem_append.mp hc with h | h
    · simp [four] at h; subst h; decide
    · exact hT t ht c h
  · intro hc
    have hm := List.mem_of_getLast? hc
    obtain ⟨t, _, ht⟩ := List.mem_map.mp hm
    simp [four] at ht

/-- **the block pass on an indented-code document**: whatever stands in front of `code` in the chain
    (any rule but `paragraph`) and behind it, with `max_nesting > 0`, the block tree is
    `Root[CodeBlock]` with the lines of `T` verbatim.  The FIRST line of `T` must not be blank either:
    the tokenizer skips blank lines before it runs the chain. -/
theorem parseBlocks_code (T : List (List Char)) (hne : T ≠ []) (hT : ∀ l ∈ T, NoTerm l)
    (hfirstT : ∀ h : 0 < T.length, T[0].dropWhile Lines.isBlank ≠ [])
    (hlastT : ∀ h : 0 < T.length, (T[T.length - 1]'(by omega)).dropWhile Lines.isBlank ≠ [])
    {cfg : Cfg} {pre post : List RuleId} (hchain : cfg.chain = pre ++ .code :: post)
    (hpre : ∀ r ∈ pre, QuietOnCode r) (hmn : 0 < cfg.maxNesting) :
    parseBlocks cfg (docOf (T.map (four ++ ·))) =
      .ok (⟨.root, some (0, Lines.byteLen (docOf (T.map (four ++ ·)))),
            [⟨.codeBlock (docOf T ++ ['\n']), some (4, Lines.byteLen (docOf (T.map (four ++ ·)))), []⟩]⟩, []) := by
  have hpos : 0 < T.length := List.length_pos_iff.mpr hne
  obtain ⟨s', r, hrule, hline, hend, hch⟩ := indented_verbatim T hne hT hlastT .root []
  have hon := onDoc_code hne hT .root []
  obtain ⟨Ls, hLs⟩ : ∃ Ls, Ls = T.map (four ++ ·) := ⟨_, rfl⟩
  rw [← hLs] at hrule hon ⊢
  have h0 : 0 < Ls.length := by simp [hLs, hpos]
  have hL0 : Ls[0] = four ++ T[0] := by simp [hLs]
  have hli := hon.lineIndent h0
  have hem : (BState.fresh (docOf Ls) .root []).isEmpty 0 = false := by
    rw [hon.isEmpty h0]
    simp only [hL0, dropWhile_four, hfirstT hpos, decide_false]
  rw [hL0, lead_four] at hli
  have hge : 4 ≤ Lines.indentWidth (four ++ lead T[0]) := by
    rw [Lines.indentWidth_append]; exact Lines.widthFrom_ge _ _
  have hlen := hon.length
  have hfr := (code_advanced hrule (by simp only [BState.fresh] at hlen ⊢; omega)).frame
  have href := code_refs hrule
  -- the range
  have hr : r = (4, Lines.byteLen (docOf Ls)) := by
    obtain ⟨k', c, m0, ms, o, hch', hgl, ho⟩ := code_range hrule
    have hrr : (m0.2, o.lineEnd) = r := by
      rw [hch] at hch'
      simp only [BState.fresh, List.nil_append, List.cons.injEq, BNode.mk.injEq, Option.some.injEq, and_true,
        true_and] at hch'
      exact hch'.2.symm
    have hm0 : m0 = (0, 4) := by
      subst hLs
      refine getLines_four_first hon hpos (c := c) (ms := ms) ?_
      rw [← hline]
      exact hgl
    have hlb := hon.lineEnd_last (o := o) (by
      rw [show Ls.length - 1 = s'.line - 1 by simp [hLs, hline]]; exact ho)
    rw [← hrr, hm0, hlb, hon.src]
  subst hr
  rw [← hch, show ([] : Refs.RefMap) = s'.refs from href.symm]
  refine parseBlocks_single hmn
    (by simp only [BState.fresh] at hlen ⊢; omega) hem hli (by omega) ?_ (by omega) hend
    (by rw [hfr.nodeKind]; rfl)
  intro f
  rw [hchain]
  refine runChain_reach (fun q hq => ?_) hrule
  exact quiet_on_code (hpre q hq) hli (by omega)

end MdIt.Block

namespace MdIt.Pipeline
open MdIt.Block (docOf fenceLine closes four QuietOnFence QuietOnCode)
open MdIt.Lines (NoTerm)
open MdIt.NodeRender (aSourcepos tPre tCode)

set_option linter.unusedSimpArgs false

/-! ## 4. the core chain behind the block pass, on `Root[leaf]` -/

/-- the attribute list `SyntaxPosRule` leaves on a (so far attribute-free) node with range `r`: the
    positions of the SPECIFICATION of C15; nothing without the plugin -/
def spAttrs (cfg : DocCfg) (src : List Char) (r : Nat × Nat) : List (List Char × List Char) :=
  if cfg.sourcepos then [(aSourcepos, sourceposValue (SourceMap.specRange src r))] else []

/-- the splice walk on `Root[leaf]`, `leaf` not a placeholder: no inline run -/
theorem spliceNode_rootLeaf (icfg : Inline.Cfg) (k : Block.Kind) (hk : ∀ c m, k ≠ .inlineRoot c m)
    (rg r : Option (Nat × Nat)) :
    spliceNode icfg ⟨.root, rg, [⟨k, r, []⟩]⟩ = .ok ⟨.blk .root, rg, [], [⟨.blk k, r, [], []⟩]⟩ := by
  cases k <;> first
    | exact absurd rfl (hk _ _)
    | simp [spliceNode, spliceList]

/-- `FragmentsJoin` on `Root[leaf]`, `leaf` a childless block node: nothing to join -/
theorem joinNode_rootLeaf (k : Block.Kind) (rg r : Option (Nat × Nat)) (a a' : List (List Char × List Char)) :
    joinNode ⟨.blk .root, rg, a, [⟨.blk k, r, a', []⟩]⟩ = ⟨.blk .root, rg, a, [⟨.blk k, r, a', []⟩]⟩ := by
  have h1 : joinNode ⟨.blk k, r, a', []⟩ = ⟨.blk k, r, a', []⟩ := by
    rw [joinNode_eq]
    simp [fragmentsJoin, pass1, mergeAll, joinList_eq_map]
  rw [joinNode_eq]
  simp [fragmentsJoin, pass1, mergeAll, mergeLoop, markerToText, keep, Node.isText, joinList_eq_map, h1]

/-- the core chain behind the block pass on `Root[leaf]` -/
theorem afterBlocks_rootLeaf (cfg : DocCfg) (src : List Char) (k : Block.Kind)
    (hk : ∀ c m, k ≠ .inlineRoot c m) (rg r : Nat × Nat) (refs : Refs.RefMap) :
    afterBlocks cfg src ⟨.root, some rg, [⟨k, some r, []⟩]⟩ refs =
      .ok ⟨.blk .root, some rg, spAttrs cfg src rg, [⟨.blk k, some r, spAttrs cfg src r, []⟩]⟩ := by
  unfold afterBlocks
  rw [spliceNode_rootLeaf _ k hk]
  simp only [joinNode_rootLeaf, ite_self, spAttrs]
  cases cfg.sourcepos with
  | false => simp
  | true => simp [sourceposNode, sourceposList, sourceposAttrs_eq]

/-! ## 5. rendering `Root[CodeFence]` / `Root[CodeBlock]` -/

/-- the trait calls for `Root[CodeFence]` with an EMPTY info string: no `class` attribute -/
theorem renderEvents_rootFence (cfg : DocCfg) (rg r : Option (Nat × Nat)) (a0 a : List (List Char × List Char))
    (m : Char) (n : Nat) (c : List Char) :
    renderEvents cfg ⟨.blk .root, rg, a0, [⟨.blk (.codeFence [] m n c), r, a, []⟩]⟩ =
      .ok [.cr, .open tPre [], .open tCode a, .text c, .close tCode, .close tPre, .cr] := by
  simp [renderEvents, toRender, toRenderList, Kind.toRender, NodeRender.render, NodeRender.renderList,
    NodeRender.fenceAttrs, Entity.unescapeAllE, NodeRender.firstWord]

theorem renderEvents_rootCode (cfg : DocCfg) (rg r : Option (Nat × Nat)) (a0 a : List (List Char × List Char))
    (c : List Char) :
    renderEvents cfg ⟨.blk .root, rg, a0, [⟨.blk (.codeBlock c), r, a, []⟩]⟩ =
      .ok [.cr, .open tPre [], .open tCode a, .text c, .close tCode, .close tPre, .cr] := by
  simp [renderEvents, toRender, toRenderList, Kind.toRender, NodeRender.render, NodeRender.renderList]

/-- the serializer on these seven calls (both `render` and `xrender`): nothing in front of `<pre>`
    (the buffer is empty), one LF behind `</pre>` -/
theorem serialize_pre_code (x : Bool) (a : List (List Char × List Char)) (c : List Char) :
    Render.serialize x [.cr, .open tPre [], .open tCode a, .text c, .close tCode, .close tPre, .cr] =
      Render.replaceNul ("<pre><code".toList ++ Render.attrsStr a ++ ['>'] ++ Render.escapeHtml c ++
        "</code></pre>\n".toList) := by
  rw [Render.serialize_events]
  simp [Render.pieces, Render.piecesFrom, Render.piece, Render.solAfter, Render.flatten, tPre, tCode,
    Render.attrsStr]

/-- without attributes: the NUL replacement only concerns the content -/
theorem serialize_pre_code_nil (x : Bool) (c : List Char) :
    Render.serialize x [.cr, .open tPre [], .open tCode [], .text c, .close tCode, .close tPre, .cr] =
      "<pre><code>".toList ++ Render.escapeHtml (Render.nulStr c) ++ "</code></pre>\n".toList := by
  rw [serialize_pre_code, Render.replaceNul_eq_nulStr, Render.escapeHtml_nul]
  simp [Render.nulStr, Render.attrsStr, Render.nulChar]

/-! ## 6. the document theorems: fenced code -/

/-- a chain that contains `r` splits at the first `r` -/
theorem split_at_first (r : Block.RuleId) : ∀ (chain : List Block.RuleId), r ∈ chain →
    chain = chain.takeWhile (· ≠ r) ++ r :: (chain.dropWhile (· ≠ r)).tail
  | [], h => by simp at h
  | q :: rest, h => by
    by_cases hq : q = r
    · subst hq; simp
    · have hr : r ∈ rest := by
        rcases List.mem_cons.mp h with h | h
        · exact absurd h.symm hq
        · exact h
      have ih := split_at_first r rest hr
      simp only [List.takeWhile_cons, List.dropWhile_cons, hq, ne_eq, not_false_eq_true, decide_true, if_true,
        List.cons_append]
      rw [← ih]

/-- the document `mⁿ`, `T`, `mⁿ`: one per line, LF between the lines, no final line ending -/
abbrev fenceDoc (m : Char) (n : Nat) (T : List (List Char)) : List Char :=
  docOf (fenceLine m n :: T ++ [fenceLine m n])

/-- the lines of `T`, each behind four spaces, LF between the lines, no final line ending -/
abbrev indentedDoc (T : List (List Char)) : List Char := docOf (T.map (four ++ ·))

section fence
variable (m : Char) (hm : m = '`' ∨ m = '~') (n : Nat) (hn : 3 ≤ n) (T : List (List Char))
  (hT : ∀ l ∈ T, NoTerm l) (hclose : ∀ l ∈ T, closes m n l = false)
  (cfg : DocCfg) (pre post : List Block.RuleId) (hchain : cfg.blockChain = pre ++ .fence :: post)
  (hpre : ∀ r ∈ pre, QuietOnFence r) (hmn : 0 < cfg.maxNesting)
include hm hn hT hclose hchain hpre hmn

/-- **`doc_fence_verbatim`, any `sourcepos`.**  `T` as in `Block.fence_verbatim`.  For EVERY
    configuration whose block chain reaches `fence` through rules that cannot fire on a fence line
    (`QuietOnFence`: any of `code`, `blockquote`, `hr`, `list`, `reference`, `heading`, in any order,
    with repetitions; anything behind `fence`), with `max_nesting > 0`, any inline chain, with or
    without the join pass, the document `mⁿ`, `T`, `mⁿ` parses to exactly `Root[CodeFence]`: empty info
    string, the content is `T` — every line whole, each followed by one LF —, no children, the range
    of both nodes is the whole source; the attributes are those of `SyntaxPosRule` (`spAttrs`: none
    without the plugin, else the one `data-sourcepos` with the specification's positions of the
    range). -/
theorem doc_fence_verbatim_sp :
    parseDoc cfg (fenceDoc m n T) =
      .ok ⟨.blk .root, some (0, Lines.byteLen (fenceDoc m n T)),
           spAttrs cfg (fenceDoc m n T) (0, Lines.byteLen (fenceDoc m n T)),
           [⟨.blk (.codeFence [] m n (T.flatMap (· ++ ['\n']))), some (0, Lines.byteLen (fenceDoc m n T)),
             spAttrs cfg (fenceDoc m n T) (0, Lines.byteLen (fenceDoc m n T)), []⟩]⟩ := by
  have hr := Block.parseBlocks_fence m hm n hn T hT hclose (cfg := cfg.blockCfg) hchain hpre hmn
  unfold parseDoc
  rw [hr]
  exact afterBlocks_rootLeaf cfg _ _ (by intro c mp h; cases h) _ _ _

/-- **`doc_fence_verbatim`** (no `sourcepos` plugin): the tree, exactly -/
theorem doc_fence_verbatim (hsp : cfg.sourcepos = false) :
    parseDoc cfg (fenceDoc m n T) =
      .ok ⟨.blk .root, some (0, Lines.byteLen (fenceDoc m n T)), [],
           [⟨.blk (.codeFence [] m n (T.flatMap (· ++ ['\n']))), some (0, Lines.byteLen (fenceDoc m n T)),
             [], []⟩]⟩ := by
  have hr := doc_fence_verbatim_sp m hm n hn T hT hclose cfg pre post hchain hpre hmn
  simp only [spAttrs, hsp, Bool.false_eq_true, if_false] at hr
  exact hr

/-- **`doc_fence_render`, any `sourcepos`**: `render` (`x = false`) and `xrender` (`x = true`) give
    `<pre><code ATTRS>`, the escaped content, `</code></pre>` and one LF; no `class` attribute (empty
    info string); then the serializer's NUL replacement. -/
theorem doc_fence_render_sp (x : Bool) :
    renderDoc x cfg (fenceDoc m n T) =
      .ok (Render.replaceNul ("<pre><code".toList ++
        Render.attrsStr (spAttrs cfg (fenceDoc m n T) (0, Lines.byteLen (fenceDoc m n T))) ++ ['>'] ++
        Render.escapeHtml (T.flatMap (· ++ ['\n'])) ++ "</code></pre>\n".toList)) := by
  have hr := doc_fence_verbatim_sp m hm n hn T hT hclose cfg pre post hchain hpre hmn
  unfold renderDoc
  rw [hr]
  simp only [renderEvents_rootFence, serialize_pre_code]

/-- **`doc_fence_render`** (no `sourcepos` plugin): the output is `<pre><code>`, the content of the
    fence — `T`, every line followed by one LF — with exactly `& < > "` escaped (`Render.escapeHtml`)
    and NUL replaced by U+FFFD (`Render.nulStr`), `</code></pre>` and one LF. -/
theorem doc_fence_render (hsp : cfg.sourcepos = false) (x : Bool) :
    renderDoc x cfg (fenceDoc m n T) =
      .ok ("<pre><code>".toList ++ Render.escapeHtml (Render.nulStr (T.flatMap (· ++ ['\n']))) ++
        "</code></pre>\n".toList) := by
  have hr := doc_fence_verbatim m hm n hn T hT hclose cfg pre post hchain hpre hmn hsp
  unfold renderDoc
  rw [hr]
  simp only [renderEvents_rootFence, serialize_pre_code_nil]

end fence

/-! ## 7. the document theorems: indented code -/

section code
variable (T : List (List Char)) (hne : T ≠ []) (hT : ∀ l ∈ T, NoTerm l)
  (hfirstT : ∀ h : 0 < T.length, T[0].dropWhile Lines.isBlank ≠ [])
  (hlastT : ∀ h : 0 < T.length, (T[T.length - 1]'(by omega)).dropWhile Lines.isBlank ≠ [])
  (cfg : DocCfg) (pre post : List Block.RuleId) (hchain : cfg.blockChain = pre ++ .code :: post)
  (hpre : ∀ r ∈ pre, QuietOnCode r) (hmn : 0 < cfg.maxNesting)
include hne hT hfirstT hlastT hchain hpre hmn

/-- **`doc_indented_verbatim`, any `sourcepos`.**  `T` as in `Block.indented_verbatim` (non-empty,
    terminator-free lines, the last one not blank) and its FIRST line not blank either (the tokenizer
    skips blank lines before it runs the chain).  For EVERY configuration whose block chain reaches
    `code` through rules that answer `false` on a line indented by 4 or more (`QuietOnCode`: every rule
    but `paragraph`), with `max_nesting > 0`, the document made of the lines of `T`, each behind four
    spaces, parses to exactly `Root[CodeBlock]`: the content is `T` joined by LF plus one final LF
    (interior blank lines, tabs, further indentation included), no children, range from byte 4 to the
    end of the source; attributes as in `doc_fence_verbatim_sp`. -/
theorem doc_indented_verbatim_sp :
    parseDoc cfg (indentedDoc T) =
      .ok ⟨.blk .root, some (0, Lines.byteLen (indentedDoc T)),
           spAttrs cfg (indentedDoc T) (0, Lines.byteLen (indentedDoc T)),
           [⟨.blk (.codeBlock (docOf T ++ ['\n'])), some (4, Lines.byteLen (indentedDoc T)),
             spAttrs cfg (indentedDoc T) (4, Lines.byteLen (indentedDoc T)), []⟩]⟩ := by
  have hr := Block.parseBlocks_code T hne hT hfirstT hlastT (cfg := cfg.blockCfg) hchain hpre hmn
  unfold parseDoc
  rw [hr]
  exact afterBlocks_rootLeaf cfg _ _ (by intro c mp h; cases h) _ _ _

/-- **`doc_indented_verbatim`** (no `sourcepos` plugin): the tree, exactly -/
theorem doc_indented_verbatim (hsp : cfg.sourcepos = false) :
    parseDoc cfg (indentedDoc T) =
      .ok ⟨.blk .root, some (0, Lines.byteLen (indentedDoc T)), [],
           [⟨.blk (.codeBlock (docOf T ++ ['\n'])), some (4, Lines.byteLen (indentedDoc T)), [], []⟩]⟩ := by
  have hr := doc_indented_verbatim_sp T hne hT hfirstT hlastT cfg pre post hchain hpre hmn
  simp only [spAttrs, hsp, Bool.false_eq_true, if_false] at hr
  exact hr

/-- **`doc_indented_render`, any `sourcepos`** -/
theorem doc_indented_render_sp (x : Bool) :
    renderDoc x cfg (indentedDoc T) =
      .ok (Render.replaceNul ("<pre><code".toList ++
        Render.attrsStr (spAttrs cfg (indentedDoc T) (4, Lines.byteLen (indentedDoc T))) ++ ['>'] ++
        Render.escapeHtml (docOf T ++ ['\n']) ++ "</code></pre>\n".toList)) := by
  have hr := doc_indented_verbatim_sp T hne hT hfirstT hlastT cfg pre post hchain hpre hmn
  unfold renderDoc
  rw [hr]
  simp only [renderEvents_rootCode, serialize_pre_code]

/-- **`doc_indented_render`** (no `sourcepos` plugin): `<pre><code>`, the lines of `T` joined by LF
    plus one final LF with exactly `& < > "` escaped and NUL replaced by U+FFFD, `</code></pre>`, LF -/
theorem doc_indented_render (hsp : cfg.sourcepos = false) (x : Bool) :
    renderDoc x cfg (indentedDoc T) =
      .ok ("<pre><code>".toList ++ Render.escapeHtml (Render.nulStr (docOf T ++ ['\n'])) ++
        "</code></pre>\n".toList) := by
  have hr := doc_indented_verbatim T hne hT hfirstT hlastT cfg pre post hchain hpre hmn hsp
  unfold renderDoc
  rw [hr]
  simp only [renderEvents_rootCode, serialize_pre_code_nil]

end code

/-! ## 8. the same with the hypothesis on the chain as a membership statement

  "`fence` is in the chain and every rule in front of its first occurrence is quiet" — equivalent to
  the split `pre ++ fence :: post` used above (`split_at_first`; a quiet prefix cannot contain the
  rule itself). -/

theorem doc_fence_verbatim_mem (m : Char) (hm : m = '`' ∨ m = '~') (n : Nat) (hn : 3 ≤ n) (T : List (List Char))
    (hT : ∀ l ∈ T, NoTerm l) (hclose : ∀ l ∈ T, closes m n l = false) (cfg : DocCfg)
    (hmem : .fence ∈ cfg.blockChain)
    (hpre : ∀ r ∈ cfg.blockChain.takeWhile (· ≠ .fence), QuietOnFence r) (hmn : 0 < cfg.maxNesting) :
    parseDoc cfg (fenceDoc m n T) =
      .ok ⟨.blk .root, some (0, Lines.byteLen (fenceDoc m n T)),
           spAttrs cfg (fenceDoc m n T) (0, Lines.byteLen (fenceDoc m n T)),
           [⟨.blk (.codeFence [] m n (T.flatMap (· ++ ['\n']))), some (0, Lines.byteLen (fenceDoc m n T)),
             spAttrs cfg (fenceDoc m n T) (0, Lines.byteLen (fenceDoc m n T)), []⟩]⟩ :=
  doc_fence_verbatim_sp m hm n hn T hT hclose cfg _ _ (split_at_first .fence _ hmem) hpre hmn

theorem doc_fence_render_mem (m : Char) (hm : m = '`' ∨ m = '~') (n : Nat) (hn : 3 ≤ n) (T : List (List Char))
    (hT : ∀ l ∈ T, NoTerm l) (hclose : ∀ l ∈ T, closes m n l = false) (cfg : DocCfg)
    (hmem : .fence ∈ cfg.blockChain)
    (hpre : ∀ r ∈ cfg.blockChain.takeWhile (· ≠ .fence), QuietOnFence r) (hmn : 0 < cfg.maxNesting)
    (hsp : cfg.sourcepos = false) (x : Bool) :
    renderDoc x cfg (fenceDoc m n T) =
      .ok ("<pre><code>".toList ++ Render.escapeHtml (Render.nulStr (T.flatMap (· ++ ['\n']))) ++
        "</code></pre>\n".toList) :=
  doc_fence_render m hm n hn T hT hclose cfg _ _ (split_at_first .fence _ hmem) hpre hmn hsp x

theorem doc_indented_verbatim_mem (T : List (List Char)) (hne : T ≠ []) (hT : ∀ l ∈ T, NoTerm l)
    (hfirstT : ∀ h : 0 < T.length, T[0].dropWhile Lines.isBlank ≠ [])
    (hlastT : ∀ h : 0 < T.length, (T[T.length - 1]'(by omega)).dropWhile Lines.isBlank ≠ [])
    (cfg : DocCfg) (hmem : .code ∈ cfg.blockChain)
    (hpre : ∀ r ∈ cfg.blockChain.takeWhile (· ≠ .code), QuietOnCode r) (hmn : 0 < cfg.maxNesting) :
    parseDoc cfg (indentedDoc T) =
      .ok ⟨.blk .root, some (0, Lines.byteLen (indentedDoc T)),
           spAttrs cfg (indentedDoc T) (0, Lines.byteLen (indentedDoc T)),
           [⟨.blk (.codeBlock (docOf T ++ ['\n'])), some (4, Lines.byteLen (indentedDoc T)),
             spAttrs cfg (indentedDoc T) (4, Lines.byteLen (indentedDoc T)), []⟩]⟩ :=
  doc_indented_verbatim_sp T hne hT hfirstT hlastT cfg _ _ (split_at_first .code _ hmem) hpre hmn

theorem doc_indented_render_mem (T : List (List Char)) (hne : T ≠ []) (hT : ∀ l ∈ T, NoTerm l)
    (hfirstT : ∀ h : 0 < T.length, T[0].dropWhile Lines.isBlank ≠ [])
    (hlastT : ∀ h : 0 < T.length, (T[T.length - 1]'(by omega)).dropWhile Lines.isBlank ≠ [])
    (cfg : DocCfg) (hmem : .code ∈ cfg.blockChain)
    (hpre : ∀ r ∈ cfg.blockChain.takeWhile (· ≠ .code), QuietOnCode r) (hmn : 0 < cfg.maxNesting)
    (hsp : cfg.sourcepos = false) (x : Bool) :
    renderDoc x cfg (indentedDoc T) =
      .ok ("<pre><code>".toList ++ Render.escapeHtml (Render.nulStr (docOf T ++ ['\n'])) ++
        "</code></pre>\n".toList) :=
  doc_indented_render T hne hT hfirstT hlastT cfg _ _ (split_at_first .code _ hmem) hpre hmn hsp x

/-! ## 9. instances, and the necessity of each hypothesis on the configuration -/

instance (r : Block.RuleId) : Decidable (QuietOnFence r) := by unfold QuietOnFence; infer_instance
instance (r : Block.RuleId) : Decidable (QuietOnCode r) := by unfold QuietOnCode; infer_instance

/-- the theorem on the stock chain (`code` in front of `fence`): payload `a<b`, then a line of two
    backticks, then tab + `&` -/
example (x : Bool) : renderDoc x (exCfg false 100) (fenceDoc '`' 3 [['a', '<', 'b'], ['`', '`'], ['\t', '&']]) =
    .ok ("<pre><code>".toList ++ Render.escapeHtml (Render.nulStr "a<b\n``\n\t&\n".toList) ++
      "</code></pre>\n".toList) :=
  doc_fence_render_mem '`' (.inl rfl) 3 (by omega) _ (by decide) (by decide) (exCfg false 100)
    (by decide) (by decide) (by decide) rfl x

/-- the tree, on the stock chain (`pre = [code]`): both nodes span the 15 bytes of the source -/
example : parseDoc (exCfg false 100) (fenceDoc '~' 4 [['a', '<', 'b']]) =
    .ok ⟨.blk .root, some (0, Lines.byteLen (fenceDoc '~' 4 [['a', '<', 'b']])), [],
         [⟨.blk (.codeFence [] '~' 4 "a<b\n".toList), some (0, Lines.byteLen (fenceDoc '~' 4 [['a', '<', 'b']])),
           [], []⟩]⟩ :=
  doc_fence_verbatim '~' (.inr rfl) 4 (by omega) _ (by decide) (by decide) (exCfg false 100) [.code]
    [.blockquote, .hr, .list, .reference, .heading, .lheading, .paragraph] rfl (by decide) (by decide) rfl
/-- the right-hand side of `doc_fence_render_sp` on an instance with the `sourcepos` plugin -/
example : Render.replaceNul ("<pre><code".toList ++
      Render.attrsStr (spAttrs (exCfg true 100) (fenceDoc '`' 3 [['a', '<', 'b']])
        (0, Lines.byteLen (fenceDoc '`' 3 [['a', '<', 'b']]))) ++ ['>'] ++
      Render.escapeHtml ([['a', '<', 'b']].flatMap (· ++ ['\n'])) ++ "</code></pre>\n".toList) =
    "<pre><code data-sourcepos=\"1:1-3:3\">a&lt;b\n</code></pre>\n".toList := by decide +kernel
/-- the same by evaluation: the exact string -/
example : renderDoc false (exCfg false 100) "```\na<b\n```".toList =
    .ok "<pre><code>a&lt;b\n</code></pre>\n".toList := by decide +kernel
/-- with the `sourcepos` plugin (`doc_fence_render_sp`): the one attribute of `<code>` -/
example : renderDoc false (exCfg true 100) "```\na<b\n```".toList =
    .ok "<pre><code data-sourcepos=\"1:1-3:3\">a&lt;b\n</code></pre>\n".toList := by decide +kernel
/-- "verbatim" is up to the serializer's NUL replacement (`Render.nulStr`) -/
example : renderDoc false (exCfg false 100) ['`', '`', '`', '\n', '\x00', '\n', '`', '`', '`'] =
    .ok ("<pre><code>".toList ++ ['\uFFFD', '\n'] ++ "</code></pre>\n".toList) := by decide +kernel

/-- `paragraph` in front of `fence` claims the line: two paragraphs (the closing fence line interrupts
    the first one), no code -/
example : renderDoc false { exCfg false 100 with blockChain := [.paragraph, .fence] } "```\na<b\n```".toList =
    .ok "<p>```\na&lt;b</p>\n<p>```</p>\n".toList := by decide +kernel
/-- `lheading` in front of `fence` claims the line when the payload starts with a setext underline
    (`closes '`' 3 "===" = false`: a legal payload line) -/
example : renderDoc false { exCfg false 100 with blockChain := [.lheading, .fence] } "```\n===\n```".toList =
    .ok "<h1>```</h1>\n<pre><code></code></pre>\n".toList := by decide +kernel
/-- `max_nesting = 0`: the tokenizer gives up at once (`state.level >= max_nesting`), empty output -/
example : renderDoc false (exCfg false 0) "```\na<b\n```".toList = .ok [] := by decide +kernel

/-- the theorem on the stock chain: `a<`, an empty line, tab + `b`, each behind four spaces -/
example (x : Bool) : renderDoc x (exCfg false 100) (indentedDoc [['a', '<'], [], ['\t', 'b']]) =
    .ok ("<pre><code>".toList ++ Render.escapeHtml (Render.nulStr "a<\n\n\tb\n".toList) ++
      "</code></pre>\n".toList) :=
  doc_indented_render_mem [['a', '<'], [], ['\t', 'b']] (by decide) (by decide) (by decide) (by decide)
    (exCfg false 100) (by decide) (by decide) (by decide) rfl x

example : renderDoc false (exCfg false 100) "    a<\n\n    \tb".toList =
    .ok "<pre><code>a&lt;\n\n\tb\n</code></pre>\n".toList := by decide +kernel
example : renderDoc false (exCfg true 100) "    a<\n\n    \tb".toList =
    .ok "<pre><code data-sourcepos=\"1:5-3:6\">a&lt;\n\n\tb\n</code></pre>\n".toList := by decide +kernel
/-- `paragraph` in front of `code` claims the line -/
example : renderDoc false { exCfg false 100 with blockChain := [.paragraph, .code] } "    a".toList =
    .ok "<p>a</p>\n".toList := by decide +kernel
/-- a blank FIRST line is skipped by the tokenizer, not copied: the content is `a`, not LF + `a` -/
example : renderDoc false (exCfg false 100) (indentedDoc [[], ['a']]) =
    .ok "<pre><code>a\n</code></pre>\n".toList := by decide +kernel
/-- a blank LAST line is not part of the block (`hlastT`): the content is `a` + LF, not `a` + LF + LF -/
example : renderDoc false (exCfg false 100) (indentedDoc [['a'], []]) =
    .ok "<pre><code>a\n</code></pre>\n".toList := by decide +kernel
example : renderDoc false (exCfg false 0) "    a".toList = .ok [] := by decide +kernel

end MdIt.Pipeline
